(* Derived.v — the operators that hdl/_ast.py defines by rewriting into the core nodes:
   abs, shift_left/right by a constant, rotate_left/right, replicate, matches, __getitem__ (int, slice,
   stepped slice), Mux, in-range Array indexing (ArrayProxy.as_value).  No proofs here. *)
From Coq Require Import ZArith List Bool.
From V.Model Require Import Bits Shape Ast Denote.
Import ListNotations.
Open Scope Z_scope.

(* to_binary(i, w), MSB first *)
Fixpoint bin_pattern_nat (w : nat) (i : Z) : pattern :=
  match w with
  | O => []
  | S w' => Some (Z.testbit i (Z.of_nat w')) :: bin_pattern_nat w' i
  end.
Definition bin_pattern (w i : Z) : pattern := bin_pattern_nat (Z.to_nat w) i.

(* Mux(sel, val1, val0) = SwitchValue(sel, ((0, val0), (None, val1))) *)
Definition mk_mux (sel v1 v0 : expr) : expr :=
  ESwitch sel [(Some [bin_pattern (ewidth sel) 0], v0); (None, v1)].

(* Value.__getitem__(slice(start, stop, 1)) after slice.indices(len): Slice(self, start, stop) *)
Definition clamp (lo hi x : Z) : Z := Z.max lo (Z.min hi x).
(* Python slice.indices for step 1 with optional bounds given as Z (None handled by the caller) *)
Definition norm_index (len i : Z) : Z := if i <? 0 then Z.max 0 (i + len) else Z.min len i.
Definition mk_slice (e : expr) (start stop : Z) : expr :=
  let len := ewidth e in
  let a := norm_index len start in
  let b := norm_index len stop in
  ESlice e a b.        (* start > stop is rejected by Slice (IndexError), not an empty slice *)
(* int index (already checked to be in range(-len, len)) *)
Definition mk_index (e : expr) (k : Z) : expr :=
  let k' := if k <? 0 then k + ewidth e else k in ESlice e k' (k' + 1).

(* abs(): Mux(self >= 0, self, -self)[:len(self)] for signed, self for unsigned *)
Definition mk_abs (e : expr) : expr :=
  if sgn (shape_of e)
  then ESlice (mk_mux (EOp2 OGe e (EConst 0 (Sh 1 false))) e (EOp1 ONeg e)) 0 (ewidth e)
  else e.

(* shift_left(amount), amount >= 0 *)
Definition mk_shift_left (e : expr) (n : Z) : expr :=
  let c := ECat [EConst 0 (Sh n false); e] in
  if sgn (shape_of e) then EOp1 OS c else c.

(* shift_right(amount), amount >= 0 *)
Definition mk_shift_right (e : expr) (n : Z) : expr :=
  let len := ewidth e in
  if sgn (shape_of e) then
    let n' := if len <=? n then len - 1 else n in
    EOp1 OS (ESlice e (Z.min len n') len)
  else ESlice e (Z.min len n) len.

(* rotate_left(amount): amount %= len (if len != 0); Cat(self[-amount:], self[:-amount]) with Python slice indices *)
Definition mk_rotate_left (e : expr) (n : Z) : expr :=
  let len := ewidth e in
  let a := if len =? 0 then n else n mod len in
  let k := norm_index len (- a) in
  ECat [ESlice e k len; ESlice e 0 k].

(* rotate_right(amount): Cat(self[amount:], self[:amount]) *)
Definition mk_rotate_right (e : expr) (n : Z) : expr :=
  let len := ewidth e in
  let a := if len =? 0 then n else n mod len in
  let k := norm_index len a in
  ECat [ESlice e k len; ESlice e 0 k].

(* replicate(count) *)
Definition mk_replicate (e : expr) (count : nat) : expr := ECat (repeat e count).

(* matches(patterns...) on normalised string patterns: (self & mask) == value per pattern, any() of several *)
Definition mk_const_auto (v : Z) : expr := EConst v (const_shape v).
Definition mk_match1 (e : expr) (p : pattern) : expr :=
  EOp2 OEq (EOp2 OAnd e (mk_const_auto (pat_mask p))) (mk_const_auto (pat_value p)).
Definition mk_matches (e : expr) (ps : list pattern) : expr :=
  match ps with
  | [] => EConst 0 (Sh 1 false)
  | [p] => mk_match1 e p
  | _ => EOp1 ORor (ECat (map (mk_match1 e) ps))
  end.

(* stepped slice: Cat(self[i] for i in range(start, stop, step)) with the normalised indices *)
Fixpoint mk_step_slice_n (e : expr) (start step : Z) (count : nat) : list expr :=
  match count with
  | O => []
  | S c => ESlice e start (start + 1) :: mk_step_slice_n e (start + step) step c
  end.
Definition mk_step_slice (e : expr) (start step : Z) (count : nat) : expr := ECat (mk_step_slice_n e start step count).

(* Array(elems)[index].as_value(): cases (i, elem_i) for i < 2^len(index), index unsigned *)
Fixpoint array_cases (w : Z) (elems : list expr) (i : Z) : list (option (list pattern) * expr) :=
  match elems with
  | [] => []
  | x :: r => if i <? 2 ^ w then (Some [bin_pattern w i], x) :: array_cases w r (i + 1) else []
  end.
Definition mk_array (elems : list expr) (index : expr) : expr :=
  ESwitch index (array_cases (ewidth index) elems 0).

(* ---- Python builtins used by Value.__getitem__ (trusted reading of CPython; validated against the interpreter
   by the C01 correspondence run, stream "pyb") *)
Record pykey := Key { kstart : option Z; kstop : option Z; kstep : option Z }.
(* slice.indices(length): PySlice_AdjustIndices; ValueError for step 0 *)
Definition py_adjust (len lower upper dflt : Z) (x : option Z) : Z :=
  match x with
  | None => dflt
  | Some i => if i <? 0 then Z.max (i + len) lower else Z.min i upper
  end.
Definition py_key_indices (len : Z) (k : pykey) : option (Z * Z * Z) :=
  let step := match kstep k with None => 1 | Some s => s end in
  if step =? 0 then None else
  let lower := if step <? 0 then -1 else 0 in
  let upper := if step <? 0 then len - 1 else len in
  Some (py_adjust len lower upper (if step <? 0 then upper else lower) (kstart k),
        py_adjust len lower upper (if step <? 0 then lower else upper) (kstop k),
        step).
(* list(range(start, stop, step)), step <> 0 *)
Fixpoint py_range_n (start step : Z) (n : nat) : list Z :=
  match n with O => [] | S m => start :: py_range_n (start + step) step m end.
Definition py_range (start stop step : Z) : list Z := py_range_n start step (Z.to_nat (range_len start stop step)).
(* key in range(lo, hi) *)
Definition py_in_range (key lo hi : Z) : bool := (lo <=? key) && (key <? hi).

Fixpoint opt_map {A B : Type} (f : A -> option B) (l : list A) : option (list B) :=
  match l with
  | [] => Some []
  | x :: r => match f x with
              | None => None
              | Some y => match opt_map f r with None => None | Some ys => Some (y :: ys) end
              end
  end.

(* Value.__getitem__(key) for an int key (IndexError outside range(-len, len)) and a slice key *)
Definition mk_getitem_int (e : expr) (k : Z) : option expr :=
  if py_in_range k (- ewidth e) (ewidth e) then Some (mk_index e k) else None.
Definition mk_getitem_key (e : expr) (k : pykey) : option expr :=
  match py_key_indices (ewidth e) k with
  | None => None
  | Some (a, b, s) =>
      if s =? 1 then Some (ESlice e a b)
      else Some (mk_step_slice e a s (Z.to_nat (range_len a b s)))
  end.

(* bit_select / word_select: a constant offset whose window fits is folded into a plain slice *)
Definition const_of (e : expr) : option Z := match e with EConst v s => Some (norm s v) | _ => None end.   (* Const.value *)
Definition mk_bit_select (e off : expr) (w : Z) : option expr :=
  match const_of off with
  | Some v => if v + w <=? ewidth e then mk_getitem_key e (Key (Some v) (Some (v + w)) None)
              else Some (EPart e off w 1)
  | None => Some (EPart e off w 1)
  end.
Definition mk_word_select (e off : expr) (w : Z) : option expr :=
  match const_of off with
  | Some v => if (v + 1) * w <=? ewidth e then mk_getitem_key e (Key (Some (v * w)) (Some ((v + 1) * w)) None)
              else Some (EPart e off w w)
  | None => Some (EPart e off w w)
  end.

(* shift_left / shift_right with any integer amount (a negative amount goes the other way) *)
Definition mk_shl (e : expr) (n : Z) : expr := if n <? 0 then mk_shift_right e (- n) else mk_shift_left e n.
Definition mk_shr (e : expr) (n : Z) : expr := if n <? 0 then mk_shift_left e (- n) else mk_shift_right e n.

(* result of a partial constructor as an expression: an exception becomes an ill-formed node (wf_expr = false) *)
Definition bad_expr : expr := ESlice (EConst 0 (Sh 0 false)) 1 0.
Definition oget (o : option expr) : expr := match o with Some e => e | None => bad_expr end.

(* ---- matches() on the patterns as the user writes them: _normalize_patterns then one comparison per pattern ---- *)
Inductive pchar := C0 | C1 | CDash | CSpace | CTab | COther.        (* characters of a pattern string *)
Inductive rawpat := RStr (s : list pchar) | RInt (v : Z).           (* a str, or anything Const.cast accepts (its value) *)
Inductive npat := NStr (p : pattern) | NInt (v : Z).                (* what _normalize_patterns returns *)
Definition pchar_legal (c : pchar) : bool := match c with COther => false | _ => true end.      (* c in "01- \t" *)
Definition pchar_ws (c : pchar) : bool := match c with CSpace | CTab => true | _ => false end.
Definition pchar_strip (s : list pchar) : list pchar := filter (fun c => negb (pchar_ws c)) s.   (* "".join(s.split()) *)
Definition pchar_bit (c : pchar) : option bool := match c with C1 => Some true | C0 => Some false | _ => None end.
Definition pat_of_chars (s : list pchar) : pattern := map pchar_bit s.
(* one iteration of the loop of _normalize_patterns: None = SyntaxError, Some None = skipped with a warning *)
Definition normalize_pattern (sh : shape) (p : rawpat) : option (option npat) :=
  match p with
  | RStr s =>
      if existsb (fun c => negb (pchar_legal c)) s then None
      else let s' := pchar_strip s in
           if negb (Z.of_nat (length s') =? width sh) then None else Some (Some (NStr (pat_of_chars s')))
  | RInt v => if negb (const_norm sh v =? v) then Some None else Some (Some (NInt v))
  end.
Fixpoint normalize_patterns (sh : shape) (ps : list rawpat) : option (list npat) :=
  match ps with
  | [] => Some []
  | p :: r =>
      match normalize_pattern sh p with
      | None => None
      | Some o => match normalize_patterns sh r with
                  | None => None
                  | Some l => Some (match o with Some n => n :: l | None => l end)
                  end
      end
  end.
Definition mk_match1n (e : expr) (p : npat) : expr :=
  match p with
  | NStr p => mk_match1 e p
  | NInt v => EOp2 OEq e (mk_const_auto v)
  end.
Definition mk_any (l : list expr) : expr :=
  match l with
  | [] => mk_const_auto 0
  | [m] => m
  | _ => EOp1 ORor (ECat l)
  end.
Definition mk_matches_n (e : expr) (ps : list npat) : expr := mk_any (map (mk_match1n e) ps).
Definition mk_matches_raw (e : expr) (ps : list rawpat) : option expr :=
  match normalize_patterns (shape_of e) ps with
  | None => None
  | Some l => Some (mk_matches_n e l)
  end.

(* ================= appended after the coverage audit (docs/COVERAGE_AUDIT.md, C01) ================= *)

(* Value.replicate(count) for ANY integer count: a negative count is a TypeError *)
Definition mk_replicate_z (e : expr) (c : Z) : option expr :=
  if c <? 0 then None else Some (mk_replicate e (Z.to_nat c)).

(* SwitchValue.__init__ on a tuple holding one integer key: _normalize_patterns drops (with a warning) a key that is not
   representable in the shape of the test (Const(key, shape).value != key); a kept key becomes to_binary(key & mask, len) *)
Definition int_case_patterns (sh : shape) (i : Z) : list pattern :=
  if const_norm sh i =? i then [bin_pattern (width sh) i] else [].

(* ArrayProxy.as_value(): SwitchValue(index, ((i, elem_i) for i in range(len(elems)) if i in range(1 << len(index))));
   the index may have ANY shape (a signed index reaches only the elements below 2^(len-1)) and there may be more elements
   than the index can address (they are dropped without being looked at) *)
Fixpoint array_cases_raw (sh : shape) (elems : list expr) (i : Z) : list (option (list pattern) * expr) :=
  match elems with
  | [] => []
  | x :: r => if i <? 2 ^ width sh then (Some (int_case_patterns sh i), x) :: array_cases_raw sh r (i + 1) else []
  end.
Definition mk_array_raw (elems : list expr) (index : expr) : expr :=
  ESwitch index (array_cases_raw (shape_of index) elems 0).
(* ArrayProxy.shape(): Shape._unify over ALL elements, addressable or not *)
Definition array_proxy_shape (elems : list expr) : shape := unify (map shape_of elems).
(* Array(rows)[i][j] with rows themselves Arrays: ArrayProxy.__getitem__ indexes every row, then the outer proxy selects *)
Definition mk_array2 (rows : list (list expr)) (i j : expr) : expr :=
  mk_array_raw (map (fun row => mk_array_raw row j) rows) i.
(* Array(rows)[i][k] with a Python int k: row[k] of every row (IndexError outside range(-len, len)) *)
Definition py_list_get (l : list expr) (k : Z) : option expr :=
  let n := Z.of_nat (length l) in
  if py_in_range k (- n) n then nth_error l (Z.to_nat (if k <? 0 then k + n else k)) else None.
Definition mk_array2_int (rows : list (list expr)) (i : expr) (k : Z) : option expr :=
  match opt_map (fun row => py_list_get row k) rows with
  | None => None
  | Some l => Some (mk_array_raw l i)
  end.

(* ---- class of the exception raised while a value is constructed through the public API (operands are constructed
   first, left to right, then the node's own checks run): 0 = none, 1 = TypeError, 2 = ValueError, 3 = IndexError,
   4 = SyntaxError (amaranth.hdl._ast.SyntaxError) ---- *)
Definition first_err (l : list Z) : Z := fold_right (fun c acc => if c =? 0 then acc else c) 0 l.
Definition case_patterns_ok (w : Z) (c : option (list pattern) * expr) : bool :=
  match fst c with None => true | Some ps => forallb (pattern_ok w) ps end.
Fixpoint build_err (e : expr) : Z :=
  match e with
  | EConst _ s => if wf_shape s then 0 else 1                      (* Shape(): TypeError *)
  | ESig _ s => if wf_shape s then 0 else 1
  | EOp1 o a => first_err [build_err a;
                           match o with OS => if 0 <? ewidth a then 0 else 2 | _ => 0 end]     (* as_signed(): ValueError *)
  | EOp2 o a b => first_err [build_err a; build_err b;
                             match o with OShl | OShr => if sgn (shape_of b) then 1 else 0 | _ => 0 end]   (* __check_shamt *)
  | ESlice a lo hi => first_err [build_err a;
                                 if (0 <=? lo) && (lo <=? hi) && (hi <=? ewidth a) then 0 else 3]          (* Slice(): IndexError *)
  | EPart a off w stride => first_err [build_err a; build_err off;
                                       if negb (sgn (shape_of off)) && (0 <=? w) && (1 <=? stride) then 0 else 1]   (* Part() *)
  | ECat parts => first_err (map build_err parts)
  | ESwitch test cases =>
      first_err (build_err test :: map (fun c => build_err (snd c)) cases ++
                 [if forallb (case_patterns_ok (ewidth test)) cases then 0 else 4])                       (* _normalize_patterns *)
  end.

(* a canonical ill-formed node per exception class, and the result of a partial constructor applied to already
   constructed operands: the operands' own exceptions come first *)
Definition bad_of (c : Z) : expr :=
  if c =? 1 then EConst 0 (Sh (-1) false)
  else if c =? 2 then EOp1 OS (EConst 0 (Sh 0 false))
  else if c =? 4 then ESwitch (EConst 0 (Sh 0 false)) [(Some [[None]], EConst 0 (Sh 0 false))]
  else bad_expr.
Definition try1 (c : Z) (f : expr -> option expr) (e : expr) : expr :=
  match f e with Some r => r | None => ECat [e; bad_of c] end.
Definition try2 (c : Z) (f : expr -> expr -> option expr) (e1 e2 : expr) : expr :=
  match f e1 e2 with Some r => r | None => ECat [e1; e2; bad_of c] end.
Definition tryl (c : Z) (f : list expr -> option expr) (l : list expr) : expr :=
  match f l with Some r => r | None => ECat (l ++ [bad_of c]) end.

(* Value.cast of a member of a plain enum.Enum / IntEnum class with integer members ms: Const(value, Shape.cast(class)) *)
Definition mk_enum_const (ms : list Z) (v : Z) : expr := EConst v (cast_enum ms).

(* Mem.v — model of a lib.memory.Memory (hdl._mem.MemoryInstance) as the Python simulator runs it,
   and the "array of rows" specification it is compared with.  No proofs here (see Proofs/MemP.v).

   Code followed:
     amaranth/sim/pysim.py   _PyMemoryState.read / write / commit       (ms_read, ms_write, ms_commit)
     amaranth/sim/_pyrtl.py  _FragmentCompiler.__call__, MemoryInstance (run_domain: write ports queued
                             in port order, then sync read ports with the transparency patch; comb read
                             ports; the `if rst:` block skips the read ports' data signals)
     amaranth/sim/_pyeval.py eval_value / _eval_assign_inner for MemoryData._Row   (tb_get, ETbSet)
     amaranth/hdl/_mem.py    _WritePort._granularity, MemoryData.Init
     amaranth/lib/memory.py  Memory.elaborate (port order, transparent_for -> write port indices),
                             WritePort.Signature (en_width)

   Ports are driven with plain integers: per event every write port gets (addr, data, en) and every
   read port (addr, en); these are the current values of the port's signals.  One event = one call of
   TestbenchContext.set that makes the clocks of a set of domains rise at once (possibly the empty set:
   only inputs change), or one testbench write of a row. *)
From Coq Require Import ZArith List Bool.
From V.Model Require Import Bits.
Import ListNotations.
Open Scope Z_scope.

(* utils.ceil_log2 (n >= 0): width of the address signals *)
Definition ceil_log2 (n : Z) : Z := if n =? 0 then 0 else bit_length (n - 1).

(* ------------------------------------------------------------------ _PyMemoryState *)
(* write_queue: dict addr -> value, in insertion order *)
Definition wqueue := list (Z * Z).

Fixpoint qget (q : wqueue) (a : Z) : option Z :=
  match q with
  | [] => None
  | (k, v) :: r => if k =? a then Some v else qget r a
  end.

(* queue[a] = v  (an existing key keeps its position) *)
Fixpoint qset (q : wqueue) (a v : Z) : wqueue :=
  match q with
  | [] => [(a, v)]
  | (k, x) :: r => if k =? a then (k, v) :: r else (k, x) :: qset r a v
  end.

(* data[n] = v *)
Fixpoint upd (rows : list Z) (n : nat) (v : Z) : list Z :=
  match rows, n with
  | [], _ => []
  | _ :: r, O => v :: r
  | x :: r, S k => x :: upd r k v
  end.

(* addr in range(depth) *)
Definition in_depth (depth a : Z) : bool := (0 <=? a) && (a <? depth).

(* read(addr): committed data; 0 beyond the depth *)
Definition ms_read (depth : Z) (rows : list Z) (a : Z) : Z :=
  if in_depth depth a then nth (Z.to_nat a) rows 0 else 0.

(* the `if self.shape.signed:` block of write() *)
Definition sign_fix (s : shape) (v : Z) : Z :=
  if sgn s then
    if Z.testbit v (width s - 1)                 (* value & (1 << (width - 1)) *)
    then Z.lor v (- 2 ^ width s)                 (* value |= -1 << width *)
    else Z.land v (2 ^ width s - 1)              (* value &= (1 << width) - 1 *)
  else v.

(* (value & mask) | (queue[addr] & ~mask), then the signed fix-up *)
Definition wrv (s : shape) (cur value msk : Z) : Z :=
  sign_fix s (Z.lor (Z.land value msk) (Z.land cur (Z.lnot msk))).

(* write(addr, value, mask) — both callers pass a mask *)
Definition ms_write (s : shape) (depth : Z) (rows : list Z) (q : wqueue) (a value msk : Z) : wqueue :=
  if in_depth depth a then
    let cur := match qget q a with Some v => v | None => nth (Z.to_nat a) rows 0 end in
    qset q a (wrv s cur value msk)
  else q.

(* commit(): for addr, value in write_queue.items(): data[addr] = value *)
Definition ms_commit (rows : list Z) (q : wqueue) : list Z :=
  fold_left (fun r kv => upd r (Z.to_nat (fst kv)) (snd kv)) q rows.

(* ------------------------------------------------------------------ port configuration *)
(* write port: clock domain (an integer names it) and len(port.en) *)
Record wport := WP { wp_dom : Z; wp_enw : Z }.
(* read port: domain (None = "comb"), transparent_for as write-port indices in the given order,
   init value of the data signal *)
Record rport := RP { rp_dom : option Z; rp_transp : list nat; rp_init : Z }.
Record memd := MD { md_shape : shape; md_depth : Z; md_wports : list wport; md_rports : list rport }.

Definition md_width (md : memd) : Z := width (md_shape md).
Definition md_abits (md : memd) : Z := ceil_log2 (md_depth md).

(* MemoryInstance._WritePort._granularity *)
Definition granularity (w enw : Z) : Z := if w =? 0 then 1 else w / enw.

(* Cat(bit.replicate(g) for bit in en), en an n-bit signal *)
Fixpoint en_cat_from (g : Z) (n : nat) (k : Z) (en : Z) : Z :=
  match n with
  | O => 0
  | S n' => (if Z.testbit en k then Z.ones g else 0) + 2 ^ g * en_cat_from g n' (k + 1) en
  end.
Definition en_cat (g : Z) (n : nat) (en : Z) : Z := en_cat_from g n 0 en.

(* inputs of one event *)
Record win := WI { wi_addr : Z; wi_data : Z; wi_en : Z }.
Record rin := RI { ri_addr : Z; ri_en : Z }.

(* f applied to every element together with its index *)
Fixpoint mapi_from {A B} (f : nat -> A -> B) (n : nat) (l : list A) : list B :=
  match l with
  | [] => []
  | x :: r => f n x :: mapi_from f (S n) r
  end.
Definition mapi {A B} (f : nat -> A -> B) (l : list A) : list B := mapi_from f 0 l.

(* write_addr, write_data, write_en of a write port (masked as the generated code masks them) *)
Definition action := (Z * Z * Z)%type.
Definition wvals (md : memd) (wi : nat -> win) (j : nat) (p : wport) : action :=
  let w := md_width md in
  (mask (md_abits md) (wi_addr (wi j)),
   mask w (wi_data (wi j)),
   mask w (en_cat (granularity w (wp_enw p)) (Z.to_nat (wp_enw p)) (wi_en (wi j)))).

(* (domain, write_vals[idx]) of every write port, in port order *)
Definition all_wvals (md : memd) (wi : nat -> win) : list (Z * action) :=
  mapi (fun j p => (wp_dom p, wvals md wi j p)) (md_wports md).

(* the write ports of domain d, in port order *)
Definition dom_actions (wv : list (Z * action)) (d : Z) : list action :=
  map snd (filter (fun t => fst t =? d) wv).

Definition queue_writes (md : memd) (rows : list Z) (q : wqueue) (acts : list action) : wqueue :=
  fold_left (fun q (a : action) => let '(wa, wd, we) := a in
                                   ms_write (md_shape md) (md_depth md) rows q wa wd we) acts q.

(* the transparency patch:  if addr == waddr: data &= ~wen; data |= wdata & wen *)
Definition patch (a : Z) (v : Z) (t : action) : Z :=
  let '(wa, wd, we) := t in
  if a =? wa then Z.lor (Z.land v (Z.lnot we)) (Z.land wd we) else v.

(* write_vals[idx] for idx in transparent_for *)
Definition transp_actions (wv : list (Z * action)) (tr : list nat) : list action :=
  flat_map (fun idx => match nth_error wv idx with Some t => [snd t] | None => [] end) tr.

(* a sync read port of the running domain.  The `if rst:` block in front of the memory part skips the data
   signals of the read ports (they have no reset), so the level of the domain's reset plays no role: an enabled
   port captures, a disabled one keeps next = slots.next *)
Definition sync_read (md : memd) (rows : list Z) (wv : list (Z * action))
                     (p : rport) (ri : rin) (cur : Z) : Z :=
  if Z.odd (ri_en ri) then
    let a := mask (md_abits md) (ri_addr ri) in
    let v := ms_read (md_depth md) rows a in
    norm (md_shape md) (fold_left (patch a) (transp_actions wv (rp_transp p)) v)
  else cur.

(* process of domain d (the reset level carried by the event does not reach the memory): queue the writes,
   update the read data registers;
   wv = all_wvals md wi (write_addr / write_data / write_en of the current inputs) *)
Definition run_domain (md : memd) (rows : list Z) (wv : list (Z * action)) (ri : nat -> rin)
                      (acc : wqueue * list Z) (dr : Z * bool) : wqueue * list Z :=
  let '(q, rdata) := acc in
  let d := fst dr in
  (queue_writes md rows q (dom_actions wv d),
   mapi (fun j p =>
           let cur := nth j rdata 0 in
           match rp_dom p with
           | Some d' => if d' =? d then sync_read md rows wv p (ri j) cur else cur
           | None => cur
           end) (md_rports md)).

(* comb read ports: the comb process runs after every change of an address and after every commit *)
Definition comb_update (md : memd) (rows : list Z) (ri : nat -> rin) (rdata : list Z) : list Z :=
  mapi (fun j p =>
          match rp_dom p with
          | None => norm (md_shape md) (ms_read (md_depth md) rows (mask (md_abits md) (ri_addr (ri j))))
          | Some _ => nth j rdata 0
          end) (md_rports md).

(* ------------------------------------------------------------------ events and the simulated machine *)
Inductive event :=
| EStep (doms : list (Z * bool)) (wi : nat -> win) (ri : nat -> rin)
    (* inputs take these values, then the clocks of `doms` rise together; each domain comes with the level
       of its reset signal (false for a reset-less domain); processes run in the order of the list *)
| ETbSet (i : Z) (v : Z).
    (* ctx.set(mem.data[i], v) *)

Record mstate := MSt { st_rows : list Z; st_rdata : list Z; st_rin : nat -> rin }.

Definition mem_step (md : memd) (st : mstate) (ev : event) : mstate :=
  match ev with
  | EStep doms wi ri =>
      let wv := all_wvals md wi in
      let '(q, rd) := fold_left (run_domain md (st_rows st) wv ri) doms ([], st_rdata st) in
      let rows' := ms_commit (st_rows st) q in
      MSt rows' (comb_update md rows' ri rd) ri
  | ETbSet i v =>
      (* _eval_assign_inner on a _Row: write(index, v << 0, (1 << width) - 1); step_design commits *)
      let q := ms_write (md_shape md) (md_depth md) (st_rows st) [] i v (2 ^ md_width md - 1) in
      let rows' := ms_commit (st_rows st) q in
      MSt rows' (comb_update md rows' (st_rin st) (st_rdata st)) (st_rin st)
  end.

(* MemoryData.Init: rows default to 0, given elements normalised to the shape *)
Definition init_rows (md : memd) (init : list Z) : list Z :=
  firstn (Z.to_nat (md_depth md)) (map (norm (md_shape md)) init ++ repeat 0 (Z.to_nat (md_depth md))).

Definition init_state (md : memd) (init : list Z) : mstate :=
  MSt (init_rows md init) (map rp_init (md_rports md)) (fun _ => RI 0 0).

Definition mem_run (md : memd) (st : mstate) (evs : list event) : mstate :=
  fold_left (mem_step md) evs st.

(* every state passed through, after each event *)
Fixpoint mem_trace (md : memd) (st : mstate) (evs : list event) : list mstate :=
  match evs with
  | [] => []
  | e :: r => let st' := mem_step md st e in st' :: mem_trace md st' r
  end.

(* ctx.get(mem.data[i]) = read(i) *)
Definition tb_get (md : memd) (st : mstate) (i : Z) : Z := ms_read (md_depth md) (st_rows st) i.

(* ------------------------------------------------------------------ constructor checks
   WritePort.Signature.__init__ for a plain Shape: 0 = accepted, 1 = ValueError, 2 = TypeError.
   gran = None for "no granularity". *)
Definition wsig_ctor (s : shape) (gran : option Z) : Z :=
  match gran with
  | None => 0
  | Some g =>
      if g <? 0 then 2
      else if sgn s then 1
      else if width s =? 0 then 0
      else if g =? 0 then 1
      else if negb (width s mod g =? 0) then 1
      else 0
  end.
(* en_width of an accepted signature *)
Definition wsig_enw (s : shape) (gran : option Z) : Z :=
  match gran with
  | None => 1
  | Some g => if width s =? 0 then 0 else width s / g
  end.
(* MemoryData.Init: len(init) > depth -> ValueError *)
Definition init_ctor (depth : Z) (init : list Z) : Z :=
  if depth <? 0 then 2 else if depth <? Z.of_nat (length init) then 1 else 0.

(* ================================================================== specification: an array of rows *)
(* granule k (g bits) of v, and a row put together from its granules *)
Definition granule (g k v : Z) : Z := (v / 2 ^ (g * k)) mod 2 ^ g.
Fixpoint join (g : Z) (l : list Z) : Z :=
  match l with
  | [] => 0
  | x :: r => x + 2 ^ g * join g r
  end.

(* a write port with n enable bits and granules of g bits writes `d` over `old`: enabled granules from d *)
Definition spec_write_row (s : shape) (g : Z) (n : nat) (en d old : Z) : Z :=
  norm s (join g (map (fun k => if Z.testbit en (Z.of_nat k) then granule g (Z.of_nat k) d
                                else granule g (Z.of_nat k) old) (seq 0 n))).

(* what a write port asks for at an event: address, enable-word width, enable word, data *)
Definition sact := (Z * Z * Z * Z)%type.
Definition spec_wact (md : memd) (wi : nat -> win) (j : nat) (p : wport) : sact :=
  (mask (md_abits md) (wi_addr (wi j)), wp_enw p, wi_en (wi j), wi_data (wi j)).
Definition all_sacts (md : memd) (wi : nat -> win) : list (Z * sact) :=
  mapi (fun j p => (wp_dom p, spec_wact md wi j p)) (md_wports md).

(* row a after the given writes, applied in list order *)
Definition spec_apply (s : shape) (acts : list sact) (a : Z) (old : Z) : Z :=
  fold_left (fun r (t : sact) => let '(wa, enw, en, d) := t in
               if wa =? a then spec_write_row s (granularity (width s) enw) (Z.to_nat enw) en d r else r)
            acts old.

Definition dom_active (doms : list (Z * bool)) (d : Z) : bool := existsb (fun dr => fst dr =? d) doms.

(* the writes of all ports whose clock rises, in port order (no reference to the order of `doms`) *)
Definition spec_writes (sa : list (Z * sact)) (doms : list (Z * bool)) : list sact :=
  map snd (filter (fun t => dom_active doms (fst t)) sa).

(* reading the array; beyond the depth the property leaves the value open, the simulator's 0 is taken *)
Definition spec_read (md : memd) (arr : list Z) (a : Z) : Z :=
  if in_depth (md_depth md) a then nth (Z.to_nat a) arr 0 else 0.

Definition spec_transp (sa : list (Z * sact)) (tr : list nat) : list sact :=
  flat_map (fun idx => match nth_error sa idx with Some t => [snd t] | None => [] end) tr.

Definition spec_step (md : memd) (st : mstate) (ev : event) : mstate :=
  let s := md_shape md in
  match ev with
  | EStep doms wi ri =>
      let arr := st_rows st in
      let sa := all_sacts md wi in
      let sw := spec_writes sa doms in
      let arr' := mapi (fun a old => spec_apply s sw (Z.of_nat a) old) arr in
      let rd := mapi (fun j p =>
                  let a := mask (md_abits md) (ri_addr (ri j)) in
                  match rp_dom p with
                  | None => spec_read md arr' a                                   (* asynchronous: new contents *)
                  | Some d =>
                      if dom_active doms d then
                        if Z.odd (ri_en (ri j))
                        then spec_apply s (spec_transp sa (rp_transp p)) a (spec_read md arr a)
                        else nth j (st_rdata st) 0                                (* disabled: holds, reset or not *)
                      else nth j (st_rdata st) 0
                  end) (md_rports md) in
      MSt arr' rd ri
  | ETbSet i v =>
      let arr' := mapi (fun a old => if Z.of_nat a =? i then norm s v else old) (st_rows st) in
      let rd := mapi (fun j p =>
                  match rp_dom p with
                  | None => spec_read md arr' (mask (md_abits md) (ri_addr (st_rin st j)))
                  | Some _ => nth j (st_rdata st) 0
                  end) (md_rports md) in
      MSt arr' rd (st_rin st)
  end.

Definition spec_run (md : memd) (st : mstate) (evs : list event) : mstate :=
  fold_left (spec_step md) evs st.

(* ------------------------------------------------------------------ well-formedness, collisions *)
(* WritePort.Signature / MemoryInstance._WritePort: the enable width divides the data width *)
Definition wf_wport (s : shape) (p : wport) : bool :=
  if width s =? 0 then 0 <=? wp_enw p
  else (1 <=? wp_enw p) && (width s mod wp_enw p =? 0).

Definition wf_md (md : memd) : bool :=
  wf_shape (md_shape md) && (0 <=? md_depth md) && forallb (wf_wport (md_shape md)) (md_wports md).

(* two queued writes touch a common bit of the same (existing) row *)
Definition acts_overlap (depth : Z) (x y : action) : bool :=
  let '(xa, _, xe) := x in let '(ya, _, ye) := y in
  (xa =? ya) && in_depth depth xa && negb (Z.land xe ye =? 0).

(* no two write ports of DIFFERENT domains whose clocks rise at this event write a common bit *)
Definition no_cross_collision (md : memd) (doms : list (Z * bool)) (wi : nat -> win) : bool :=
  let act := filter (fun t => dom_active doms (fst t)) (all_wvals md wi) in
  forallb (fun x => forallb (fun y => (fst x =? fst y) || negb (acts_overlap (md_depth md) (snd x) (snd y))) act) act.

Fixpoint nodupb (l : list Z) : bool :=
  match l with
  | [] => true
  | x :: r => negb (existsb (Z.eqb x) r) && nodupb r
  end.

Definition ev_ok (md : memd) (ev : event) : bool :=
  match ev with
  | EStep doms wi ri => nodupb (map fst doms) && no_cross_collision md doms wi
  | ETbSet i v => true
  end.

Definition wf_state (md : memd) (st : mstate) : Prop :=
  length (st_rows st) = Z.to_nat (md_depth md) /\
  Forall (in_range (md_shape md)) (st_rows st) /\
  length (st_rdata st) = length (md_rports md).

(* ================================================================== appended: row shapes, constructor-derived widths
   (what lib.memory / lib.data compute from the user's arguments; previously computed by the harness in Python) *)
(* shape-like of a row: a plain Shape, a data.StructLayout (fields laid out LSB first, width = sum of the field
   widths), a data.ArrayLayout(elem, length) (width = elem width * length); aggregates are unsigned as values *)
Inductive rowshape :=
| RSPlain (s : shape)
| RSStruct (fields : list shape)
| RSArray (elem : shape) (len : Z).

Definition rs_shape (r : rowshape) : shape :=
  match r with
  | RSPlain s => s
  | RSStruct fs => Sh (fold_right (fun f a => width f + a) 0 fs) false
  | RSArray e n => Sh (width e * n) false
  end.

(* WritePort.Signature.__init__: len(en).  For an ArrayLayout the granularity counts elements. *)
Definition rs_enw (r : rowshape) (gran : option Z) : Z :=
  match gran with
  | None => 1
  | Some g =>
      match r with
      | RSArray _ n => if n =? 0 then 0 else n / g
      | _ => wsig_enw (rs_shape r) gran
      end
  end.

(* the port configuration as Memory.write_port / read_port are called: (domain, granularity) per write port *)
Definition mk_md (r : rowshape) (depth : Z) (wps : list (Z * option Z)) (rps : list rport) : memd :=
  MD (rs_shape r) depth (map (fun p => WP (fst p) (rs_enw r (snd p))) wps) rps.

(* MemoryData.Init with a shape-castable row shape: rows not given default to shape.const(None) (dflt), and so
   does the data signal of every read port (Signal(shape) init) *)
Definition init_rows_d (md : memd) (dflt : Z) (init : list Z) : list Z :=
  firstn (Z.to_nat (md_depth md)) (map (norm (md_shape md)) init ++ repeat (norm (md_shape md) dflt) (Z.to_nat (md_depth md))).
Definition init_state_d (md : memd) (dflt : Z) (init : list Z) : mstate :=
  MSt (init_rows_d md dflt init) (map rp_init (md_rports md)) (fun _ => RI 0 0).

(* Engine.v — the delta-cycle engine of sim/pysim.py (PySimEngine.step_design / advance, _PyEngineState.commit,
   _PySignalState.update/commit, _PyTriggerState, _PyTimeline), the clock process of sim/_pyclock.py and the
   testbench / process contexts of sim/_async.py (set, get, one-shot awaits of trigger combinations, tick,
   until, repeat; AsyncProcess.run with its first-await rule).  No proofs here (see Proofs/EngineP.v).

   The three Python `set`s whose iteration order is arbitrary (`PySimEngine._processes`, `_active_triggers`,
   `_PyEngineState.pending`) are iterated here in an order handed in from outside (`orders`), one triple per
   delta cycle, looked up by the delta counter (`PySimEngine._delta_cycles`).

   Abstractions (stated in harness/props/c08.py MODELLED): memories are left out; a trigger object that has been
   broken is replaced by the canonical dead trigger (its wakers only ever return False afterwards); stale timeline
   entries of completed / abandoned trigger objects (they only cause empty `advance()` calls) are dropped when the
   owner awaits something else. *)
From Coq Require Import ZArith List Bool.
From V.Model Require Import Bits Shape Ast Denote PyRTL PyEval Stmt Process.
Import ListNotations.
Open Scope Z_scope.

(* ---------- list helpers ---------- *)
Fixpoint set_nth {A : Type} (n : nat) (x : A) (l : list A) : list A :=
  match l with
  | [] => []
  | h :: t => match n with O => x :: t | S n' => h :: set_nth n' x t end
  end.

Fixpoint mapi_from {A B : Type} (k : nat) (f : nat -> A -> B) (l : list A) : list B :=
  match l with
  | [] => []
  | h :: t => f k h :: mapi_from (S k) f t
  end.
Definition mapi {A B : Type} (f : nat -> A -> B) (l : list A) : list B := mapi_from 0 f l.

Definition b2z (b : bool) : Z := if b then 1 else 0.

(* ---------- slots: _PySignalState (curr, next, membership in `pending`) ---------- *)
Record slot := Slot { sc : Z; sn : Z; sp : bool }.

(* one call  slots[w_sig].update(w_val, w_mask) *)
Record write := W { w_sig : nat; w_val : Z; w_mask : Z }.

(* update(): value = (next & ~mask) | (value & mask); if next != value: next = value; pending.add(self) *)
Definition slot_apply (i : nat) (s : slot) (w : write) : slot :=
  if Nat.eqb (w_sig w) i then
    let v := slot_update (sn s) (w_val w) (w_mask w) in
    if sn s =? v then s else Slot (sc s) v true
  else s.

Definition apply_writes (ws : list write) (sl : list slot) : list slot :=
  mapi (fun i s => fold_left (slot_apply i) ws s) sl.

Definition currs (sl : list slot) : list Z := map sc sl.
Definition nexts (sl : list slot) : list Z := map sn sl.

(* ---------- triggers: _PyTriggerState over a TriggerCombination ---------- *)
Inductive trig :=
| TEdge (sig : nat) (bitno : Z) (pol : bool)
| TChanged (sig : nat)
| TDelay (fs : Z)
| TSample (sig : nat)
| TConst (v : Z).

(* one element of combination._triggers with the state of its waker:
   registered in the signal's waker list / hit / deadline in the timeline *)
Record tpos := TP { tp_trig : trig; tp_reg : bool; tp_hit : bool; tp_dl : option Z }.

Record tstate := TS { t_pos : list tpos; t_oneshot : bool;
                      t_waiting : bool;      (* combination._process.waits_on is self *)
                      t_broken : bool; t_active : bool (* member of _active_triggers *) }.

Definition t_dead (os : bool) : tstate := TS [] os false true false.
Definition t_none : tstate := TS [] true false false false.

(* _PyTriggerState.__init__ at time `now`: wakers registered, delays armed *)
Definition fresh_trig (spec : list trig) (os : bool) (now : Z) : tstate :=
  TS (map (fun t => TP t true false (match t with TDelay d => Some (now + d) | _ => None end)) spec)
     os true false false.

Definition is_edge (t : trig) : bool := match t with TEdge _ _ _ => true | _ => false end.
Definition is_changed (t : trig) : bool := match t with TChanged _ => true | _ => false end.

(* does the signal waker of this element fire when slot i commits c -> n ? *)
Definition pos_fires (i : nat) (c n : Z) (p : tpos) : bool :=
  tp_reg p &&
  match tp_trig p with
  | TEdge s b pol => Nat.eqb s i && negb (Bool.eqb (Z.testbit c b) (Z.testbit n b)) && Bool.eqb (Z.testbit n b) pol
  | TChanged s => Nat.eqb s i
  | _ => false
  end.

(* the waker's return value `not oneshot` decides whether it stays registered *)
Definition pos_fire (os : bool) (i : nat) (c n : Z) (p : tpos) : tpos :=
  if pos_fires i c n p then TP (tp_trig p) (negb os) (tp_hit p || is_edge (tp_trig p)) (tp_dl p) else p.

(* all wakers of one trigger object called for the commit of slot i; activate(): waiting -> active, else broken *)
Definition notify (i : nat) (c n : Z) (T : tstate) : tstate :=
  if t_broken T then T
  else if existsb (pos_fires i c n) (t_pos T) then
    if t_waiting T then TS (map (pos_fire (t_oneshot T) i c n) (t_pos T)) (t_oneshot T) true false true
    else t_dead (t_oneshot T)
  else T.

(* timeline wakers of one trigger object with deadline D *)
Definition pos_due (D : Z) (p : tpos) : bool := match tp_dl p with Some d => d =? D | None => false end.
Definition tl_fire (D : Z) (T : tstate) : tstate :=
  if existsb (pos_due D) (t_pos T) then
    if t_broken T then T
    else if t_waiting T then
      TS (map (fun p => if pos_due D p then TP (tp_trig p) (tp_reg p) true None else p) (t_pos T))
         (t_oneshot T) true false true
    else t_dead (t_oneshot T)
  else T.

(* compute_result(): sampled values are read from `curr` *)
Definition compute_result (cu : list Z) (T : tstate) : list Z :=
  map (fun p => match tp_trig p with
                | TSample s | TChanged s => nth s cu 0
                | TConst v => v
                | TEdge _ _ _ | TDelay _ => b2z (tp_hit p)
                end) (t_pos T).

(* run(): waits_on = None; _triggers_hit.clear(); every delay waker re-armed *)
Definition trig_ran (now : Z) (T : tstate) : tstate :=
  TS (map (fun p => TP (tp_trig p) (tp_reg p) false
                       (match tp_trig p with TDelay d => Some (now + d) | _ => tp_dl p end)) (t_pos T))
     (t_oneshot T) false (t_broken T) false.

(* ---------- processes (members of PySimEngine._processes) ---------- *)
Record pres := PR { r_local : list Z; r_writes : list write; r_delay : option Z }.

(* p_wake i c n : the process's direct waker on slot i (comb_waker / edge_waker);
   p_trig       : the trigger combination an async process iterates with `async for` ([] for RTL and clock processes);
   p_run local result curr next : one call of run() *)
Record proc := P { p_wake : nat -> Z -> Z -> bool;
                   p_trig : list trig;
                   p_run : list Z -> list Z -> list Z -> list Z -> pres }.

Record pstate := PS { ps_run : bool; ps_local : list Z; ps_timer : option Z;
                      ps_trig : tstate; ps_res : list Z; ps_first : bool }.

Definition no_proc : proc := P (fun _ _ _ => false) [] (fun l _ _ _ => PR l [] None).
Definition no_pstate : pstate := PS false [] None t_none [] false.

(* ---------- testbenches ---------- *)
Inductive tbop :=
| OSet (sig : nat) (sh : shape) (v : Z)
| OGet (sig : nat)
| OAwait (spec : list trig) (tick : bool)     (* await <trigger combination> / await ctx.tick(...).sample(...) *)
| OUntil (spec : list trig)                   (* await ctx.tick(d).sample(...).until(cond): cond is the last element *)
| ORepeat (spec : list trig) (count : nat)    (* await ctx.tick(d).sample(...).repeat(count) *)
| OFor (spec : list trig) (count : nat)       (* async for clk, rst, vals.. in ctx.tick(d).sample(...): record; break after count *)
| OCrit (b : bool).                           (* entering (true) / leaving (false) `with ctx.critical():` in a background testbench *)

(* tb_mode: 0 between operations, 1 suspended in a one-shot await, 2 inside until, 3 inside repeat, 4 inside async for *)
Record tbstate := TB { tb_run : bool; tb_ops : list tbop; tb_trig : tstate; tb_res : list Z;
                       tb_mode : Z; tb_cnt : nat; tb_critical : bool }.
Definition no_tb : tbstate := TB false [] t_none [] 0 0 false.

Inductive owner := OProc (k : nat) | OTb (k : nat).

(* ---------- engine state ---------- *)
Record estate := ES { e_slots : list slot; e_procs : list pstate; e_tbs : list tbstate;
                      e_now : Z; e_deltas : nat;
                      e_trace : list (nat * list Z) (* (testbench index, record) in the order the records were made *) }.

Record orders := Ord { o_trig : list owner; o_proc : list nat; o_commit : list nat }.

(* 1a. trigger_state.run() for one member of _active_triggers *)
Definition trig_step (st : estate) (o : owner) : estate :=
  let cu := currs (e_slots st) in
  match o with
  | OProc k =>
      let p := nth k (e_procs st) no_pstate in
      if t_active (ps_trig p) then
        ES (e_slots st)
           (set_nth k (PS true (ps_local p) (ps_timer p) (trig_ran (e_now st) (ps_trig p))
                          (compute_result cu (ps_trig p)) (ps_first p)) (e_procs st))
           (e_tbs st) (e_now st) (e_deltas st) (e_trace st)
      else st
  | OTb k =>
      let t := nth k (e_tbs st) no_tb in
      if t_active (tb_trig t) then
        ES (e_slots st) (e_procs st)
           (set_nth k (TB true (tb_ops t) (trig_ran (e_now st) (tb_trig t)) (compute_result cu (tb_trig t))
                          (tb_mode t) (tb_cnt t) (tb_critical t)) (e_tbs st))
           (e_now st) (e_deltas st) (e_trace st)
      else st
  end.

(* 1b. `if process.runnable: process.runnable = False; process.run()` for process k.
   Async process (p_trig <> []): AsyncProcess.run; on the first run the coroutine reaches `async for` and creates the
   multi-shot trigger; if it contains a `changed` trigger the result is computed at once and the body runs (first_await). *)
Definition has_changed (spec : list trig) : bool := existsb is_changed spec.

(* one run() of a runnable process: new process state and the update() calls it makes *)
Definition proc_step (pr : proc) (now : Z) (p : pstate) (cu nx : list Z) : pstate * list write :=
  let fin (r : pres) (T : tstate) :=
    (PS false (r_local r) (match r_delay r with Some d => Some (now + d) | None => ps_timer p end) T (ps_res p) false,
     r_writes r) in
  match p_trig pr with
  | [] => fin (p_run pr (ps_local p) [] cu nx) (ps_trig p)
  | spec =>
      if ps_first p then
        let T := fresh_trig spec false now in
        if has_changed spec
        then fin (p_run pr (ps_local p) (compute_result cu T) cu nx) T
        else fin (PR (ps_local p) [] None) T
      else if t_broken (ps_trig p) then fin (PR (ps_local p) [] None) (ps_trig p)    (* BrokenTrigger ends the process *)
      else fin (p_run pr (ps_local p) (ps_res p) cu nx)
               (TS (t_pos (ps_trig p)) (t_oneshot (ps_trig p)) true (t_broken (ps_trig p)) (t_active (ps_trig p)))
  end.

Definition run_proc (ps : list proc) (st : estate) (k : nat) : estate :=
  let p := nth k (e_procs st) no_pstate in
  if ps_run p then
    let (p', ws) := proc_step (nth k ps no_proc) (e_now st) p (currs (e_slots st)) (nexts (e_slots st)) in
    ES (apply_writes ws (e_slots st)) (set_nth k p' (e_procs st)) (e_tbs st) (e_now st) (e_deltas st) (e_trace st)
  else st.

(* 2. state.commit() for one member of `pending`: wakers run with (curr, next), then curr = next *)
Definition tb_notify (i : nat) (c n : Z) (t : tbstate) : tbstate :=
  TB (tb_run t) (tb_ops t) (notify i c n (tb_trig t)) (tb_res t) (tb_mode t) (tb_cnt t) (tb_critical t).

Definition ps_notify (ps : list proc) (i : nat) (c n : Z) (k : nat) (p : pstate) : pstate :=
  PS (ps_run p || p_wake (nth k ps no_proc) i c n) (ps_local p) (ps_timer p)
     (notify i c n (ps_trig p)) (ps_res p) (ps_first p).

Definition commit_slot (ps : list proc) (sc' : estate * bool) (i : nat) : estate * bool :=
  let (st, ch) := sc' in
  match nth_error (e_slots st) i with
  | Some s =>
      if sp s && negb (sc s =? sn s) then
        (ES (set_nth i (Slot (sn s) (sn s) (sp s)) (e_slots st))
            (mapi (ps_notify ps i (sc s) (sn s)) (e_procs st))
            (map (tb_notify i (sc s) (sn s)) (e_tbs st))
            (e_now st) (e_deltas st) (e_trace st), true)
      else (st, ch)
  | None => (st, ch)
  end.

Definition clear_pending (sl : list slot) : list slot := map (fun s => Slot (sc s) (sn s) false) sl.

(* one iteration of the loop in step_design; the boolean is `converged` *)
Definition run_delta (ps : list proc) (o : orders) (st : estate) : estate * bool :=
  let st1 := fold_left trig_step (o_trig o) st in
  let st2 := fold_left (run_proc ps) (o_proc o) st1 in
  let (st3, ch) := fold_left (commit_slot ps) (o_commit o) (st2, false) in
  (ES (clear_pending (e_slots st3)) (e_procs st3) (e_tbs st3) (e_now st3) (S (e_deltas st3)) (e_trace st3),
   negb ch).

(* step_design(): `while not converged`; the order oracle is indexed by _delta_cycles *)
Definition oracle := nat -> orders.

Fixpoint settle (ps : list proc) (orc : oracle) (fuel : nat) (st : estate) : estate * bool :=
  match fuel with
  | O => (st, false)
  | S f =>
      let (st', conv) := run_delta ps (orc (e_deltas st)) st in
      if conv then (st', true) else settle ps orc f st'
  end.

(* the canonical orders: every owner / process / slot once, ascending *)
Definition full_orders (np nt ns : nat) : orders :=
  Ord (map OProc (seq 0 np) ++ map OTb (seq 0 nt)) (seq 0 np) (seq 0 ns).
Definition id_oracle (np nt ns : nat) : oracle := fun _ => full_orders np nt ns.

(* ---------- timeline: _PyTimeline.advance ---------- *)
Definition pos_deadlines (T : tstate) : list Z :=
  flat_map (fun p => match tp_dl p with Some d => [d] | None => [] end) (t_pos T).

Definition deadlines (st : estate) : list Z :=
  flat_map (fun p => (match ps_timer p with Some d => [d] | None => [] end) ++ pos_deadlines (ps_trig p)) (e_procs st)
  ++ flat_map (fun t => pos_deadlines (tb_trig t)) (e_tbs st).

Definition zmin_list (l : list Z) : option Z :=
  match l with
  | [] => None
  | h :: t => Some (fold_left Z.min t h)
  end.

Definition ps_fire (D : Z) (p : pstate) : pstate :=
  let due := match ps_timer p with Some d => d =? D | None => false end in
  PS (ps_run p || due) (ps_local p) (if due then None else ps_timer p) (tl_fire D (ps_trig p)) (ps_res p) (ps_first p).

Definition tb_fire (D : Z) (t : tbstate) : tbstate :=
  TB (tb_run t) (tb_ops t) (tl_fire D (tb_trig t)) (tb_res t) (tb_mode t) (tb_cnt t) (tb_critical t).

Definition tl_advance (st : estate) : estate :=
  match zmin_list (deadlines st) with
  | None => st
  | Some D => ES (e_slots st) (map (ps_fire D) (e_procs st)) (map (tb_fire D) (e_tbs st)) D (e_deltas st) (e_trace st)
  end.

(* ---------- testbench execution: AsyncProcess.run of a testbench + TestbenchContext ---------- *)
Definition tb_put (st : estate) (k : nat) (t : tbstate) (tr : list (list Z)) : estate :=
  ES (e_slots st) (e_procs st) (set_nth k t (e_tbs st)) (e_now st) (e_deltas st) (e_trace st ++ map (pair k) tr).

Definition zk (k : nat) : Z := Z.of_nat k.

(* tick result: clk_edge, bool(rst_edge or rst_sample), then the sampled values *)
Definition tick_fmt (res : list Z) : list Z :=
  match res with
  | c :: r1 :: r2 :: vs => c :: b2z (negb (r1 =? 0) || negb (r2 =? 0)) :: vs
  | _ => res
  end.

(* ctx.set(sig, v) of a testbench: eval_assign on a whole signal, then step_design() *)
Definition tb_write (sig : nat) (sh : shape) (v : Z) (st : estate) : estate :=
  ES (apply_writes [W sig (norm sh v) (-1)] (e_slots st)) (e_procs st) (e_tbs st) (e_now st) (e_deltas st) (e_trace st).

Definition tb_set (ps : list proc) (orc : oracle) (sfuel : nat) (sig : nat) (sh : shape) (v : Z) (st : estate) : estate :=
  fst (settle ps orc sfuel (tb_write sig sh v st)).

Definition finish_tb (t : tbstate) : tbstate := TB false [] (tb_trig t) [] 0 0 false.
Definition wait_on (t : tbstate) (T : tstate) (mode : Z) (cnt : nat) : tbstate :=
  TB false (tb_ops t) T [] mode cnt (tb_critical t).
Definition rewait (T : tstate) : tstate := TS (t_pos T) (t_oneshot T) true (t_broken T) (t_active T).

(* trace records (k, r) of testbench k: r = [-1; v] get, [-2; now; results...] completed wait, [-7] BrokenTrigger,
   [-8] DomainReset, [-9; now] testbench finished *)
Fixpoint tb_exec (ps : list proc) (orc : oracle) (sfuel : nat) (fuel : nat) (k : nat) (st : estate) : estate :=
  match fuel with
  | O => st
  | S f =>
      let t := nth k (e_tbs st) no_tb in
      let nowz := e_now st in
      if tb_mode t =? 0 then
        match tb_ops t with
        | [] => tb_put st k (finish_tb t) [[-9; nowz]]
        | OSet sig sh v :: r =>
            let st' := tb_set ps orc sfuel sig sh v st in
            let t' := nth k (e_tbs st') no_tb in
            tb_exec ps orc sfuel f k
              (tb_put st' k (TB (tb_run t') r (tb_trig t') (tb_res t') 0 (tb_cnt t') (tb_critical t')) [])
        | OGet sig :: r =>
            tb_exec ps orc sfuel f k
              (tb_put st k (TB (tb_run t) r (tb_trig t) (tb_res t) 0 (tb_cnt t) (tb_critical t))
                      [[-1; nth sig (currs (e_slots st)) 0]])
        | OAwait spec _ :: _ => tb_put st k (wait_on t (fresh_trig spec true nowz) 1 0) []
        | OUntil spec :: _ => tb_put st k (wait_on t (fresh_trig spec false nowz) 2 0) []
        | ORepeat spec n :: _ => tb_put st k (wait_on t (fresh_trig spec false nowz) 3 n) []
        | OFor spec n :: _ => tb_put st k (wait_on t (fresh_trig spec false nowz) 4 n) []
        | OCrit b :: r =>
            tb_exec ps orc sfuel f k (tb_put st k (TB (tb_run t) r (tb_trig t) (tb_res t) 0 (tb_cnt t) b) [])
        end
      else if t_broken (tb_trig t) then tb_put st k (finish_tb t) [[-7]]
      else
        let res := tb_res t in
        let pop := TB false (tl (tb_ops t)) (tb_trig t) [] 0 0 (tb_critical t) in
        if tb_mode t =? 1 then
          let tick := match tb_ops t with OAwait _ b :: _ => b | _ => false end in
          tb_exec ps orc sfuel f k (tb_put st k pop [-2 :: nowz :: (if tick then tick_fmt res else res)])
        else if tb_mode t =? 4 then
          (* async for: the body records the tick result; after `count` iterations it breaks out *)
          match tb_cnt t with
          | S (S m) => tb_put st k (wait_on t (rewait (tb_trig t)) 4 (S m)) [-2 :: nowz :: tick_fmt res]
          | _ => tb_exec ps orc sfuel f k (tb_put st k pop [-2 :: nowz :: tick_fmt res])
          end
        else
          match tick_fmt res with
          | c :: r :: vs =>
              if negb (r =? 0) then tb_put st k (finish_tb t) [[-8]]
              else if tb_mode t =? 2 then
                (* until: done is the last sampled value *)
                if negb (last vs 0 =? 0)
                then tb_exec ps orc sfuel f k (tb_put st k pop [-2 :: nowz :: removelast vs])
                else tb_put st k (wait_on t (rewait (tb_trig t)) 2 0) []
              else
                match tb_cnt t with
                | S (S m) => tb_put st k (wait_on t (rewait (tb_trig t)) 3 (S m)) []
                | _ => tb_exec ps orc sfuel f k (tb_put st k pop [-2 :: nowz :: vs])
                end
          | _ => tb_put st k (finish_tb t) [[-7]]
          end
  end.

(* one pass of `for testbench in self._testbenches: if testbench.runnable: ...` in insertion order *)
Definition tb_fuel (t : tbstate) : nat := S (S (2 * length (tb_ops t))).

Fixpoint tb_pass (ps : list proc) (orc : oracle) (sfuel : nat) (ks : list nat) (acc : estate * bool) : estate * bool :=
  match ks with
  | [] => acc
  | k :: r =>
      let (st, ran) := acc in
      let t := nth k (e_tbs st) no_tb in
      if tb_run t then
        let st1 := tb_put st k (TB false (tb_ops t) (tb_trig t) (tb_res t) (tb_mode t) (tb_cnt t) (tb_critical t)) [] in
        tb_pass ps orc sfuel r (tb_exec ps orc sfuel (tb_fuel t) k st1, true)
      else tb_pass ps orc sfuel r (st, ran)
  end.

Fixpoint tb_loop (ps : list proc) (orc : oracle) (sfuel : nat) (fuel : nat) (st : estate) : estate :=
  match fuel with
  | O => st
  | S f =>
      let (st', ran) := tb_pass ps orc sfuel (seq 0 (length (e_tbs st))) (st, false) in
      if ran then tb_loop ps orc sfuel f st' else st'
  end.

(* PySimEngine.advance(): step_design, testbenches, timeline; returns whether anything is critical *)
Definition advance (ps : list proc) (orc : oracle) (sfuel tfuel : nat) (st : estate) : estate * bool :=
  let st1 := fst (settle ps orc sfuel st) in
  let st2 := tb_loop ps orc sfuel tfuel st1 in
  let st3 := tl_advance st2 in
  (st3, existsb tb_critical (e_tbs st3)).

(* nothing can ever happen again: empty timeline, nothing runnable, no active trigger *)
Definition quiescent (st : estate) : bool :=
  match deadlines st with [] => true | _ => false end &&
  forallb (fun p => negb (ps_run p) && negb (t_active (ps_trig p))) (e_procs st) &&
  forallb (fun t => negb (tb_run t) && negb (t_active (tb_trig t))) (e_tbs st).

(* the harness loop: `while sim.advance() and now <= t_end and not quiescent` *)
Fixpoint run (ps : list proc) (orc : oracle) (sfuel tfuel : nat) (t_end : Z) (fuel : nat) (st : estate) : estate :=
  match fuel with
  | O => st
  | S f =>
      let (st', crit) := advance ps orc sfuel tfuel st in
      if crit && (e_now st' <=? t_end) && negb (quiescent st')
      then run ps orc sfuel tfuel t_end f st' else st'
  end.

(* ---------- concrete processes ---------- *)
Definition env_of_list (l : list Z) : env := fun i => nth i l 0.

(* PyClockProcess.run: local = [initial] *)
Definition clock_run (slot : nat) (phase period : Z) (local cu : list Z) : pres :=
  match local with
  | 0 :: _ => PR [0] [W slot (b2z (nth slot cu 0 =? 0)) (-1)] (Some (period / 2))
  | _ => PR [0] [] (Some phase)
  end.
Definition clock_proc (slot : nat) (phase period : Z) : proc :=
  P (fun _ _ _ => false) [] (fun local _ cu _ => clock_run slot phase period local cu).
Definition clock_pstate : pstate := PS true [1] None t_none [] false.

(* Simulator.add_clock(period) without phase: phase = period / 2 = Period(fs=round(period_fs / 2)); Python's round()
   rounds halves to even (the float division is exact for periods below 2^53 fs) *)
Definition default_phase (period : Z) : Z :=
  let h := period / 2 in
  if Z.even period then h else if Z.even h then h else h + 1.

(* the `slots[i].update(next_i, mask)` calls that end a compiled RTL process *)
Definition rtl_writes (tab : sigtab) (n : nat) (m : maskmap) (nx : env) : list write :=
  flat_map (fun i => if m i =? 0 then [] else [W i (nx i) (update_mask (sd_shape (tab i)) (m i))]) (seq 0 n).

Definition rtl_comb (tab : sigtab) (n : nat) (ss : list stmt) (inputs : list nat) : proc :=
  P (fun i _ _ => existsb (Nat.eqb i) inputs) []
    (fun _ _ cu nx =>
       let m := stmts_mask ss in
       let nx0 : env := fun i => if m i =? 0 then env_of_list nx i else sd_init (tab i) in
       PR [] (rtl_writes tab n m (exec_rtl_list (env_of_list cu) ss nx0)) None).

Definition rtl_sync (tab : sigtab) (n : nat) (ss : list stmt) (clk : nat) (pol : Z) (rst : option nat) (arst : bool) : proc :=
  P (fun i _ nn => (Nat.eqb i clk && (nn =? pol)) ||
                   (arst && match rst with Some r => Nat.eqb i r && (nn =? 1) | None => false end)) []
    (fun _ _ cu nx =>
       let m := stmts_mask ss in
       let nx1 := exec_rtl_list (env_of_list cu) ss (env_of_list nx) in
       let rst_on := match rst with Some r => negb (Z.land 1 (nth r cu 0) =? 0) | None => false end in
       let nx2 : env := fun i => if rst_on && negb (m i =? 0) && negb (sd_reset_less (tab i))
                                 then sd_init (tab i) else nx1 i in
       PR [] (rtl_writes tab n m nx2) None).

(* the two replacement patterns of docs/simulator.rst; `f` is evaluated with Python integer semantics (denote)
   on an environment holding the sampled values.
   comb:  async for vals in ctx.changed( *ins ): ctx.set(out, f(vals))
   sync:  acc = init
          async for clk_edge, rst, vals.. in ctx.tick(d).sample( *ins ):
              if rst: acc = init; ctx.set(out, acc)
              elif clk_edge: acc = f(acc, vals); ctx.set(out, acc)          (acc normalised to out's shape) *)
Fixpoint bind_env (ins : list nat) (vals : list Z) (e : env) : env :=
  match ins, vals with
  | i :: ins', v :: vals' => bind_env ins' vals' (fun j => if Nat.eqb j i then v else e j)
  | _, _ => e
  end.

Definition user_comb (out : nat) (sh : shape) (ins : list nat) (f : expr) : proc :=
  P (fun _ _ _ => false) (map TChanged ins)
    (fun local res _ _ =>
       PR local [W out (norm sh (denote (bind_env ins res (fun _ => 0)) f)) (-1)] None).

Definition user_sync (out : nat) (sh : shape) (init : Z) (clk : nat) (pol : bool) (rst : option nat)
                     (ins : list nat) (f : expr) : proc :=
  P (fun _ _ _ => false)
    (TEdge clk 0 pol :: TConst 0 :: (match rst with Some r => TSample r | None => TConst 0 end) :: map TSample ins)
    (fun local res _ _ =>
       let acc := hd init local in
       match tick_fmt res with
       | c :: r :: vals =>
           if negb (r =? 0) then PR [init] [W out init (-1)] None
           else if negb (c =? 0) then
             let acc' := norm sh (denote (bind_env ins vals (fun j => if Nat.eqb j out then acc else 0)) f) in
             PR [acc'] [W out acc' (-1)] None
           else PR local [] None
       | _ => PR local [] None
       end).

(* ---------- initial state ---------- *)
Definition init_slots (inits : list Z) : list slot := map (fun v => Slot v v false) inits.
Definition rtl_pstate (is_comb : bool) : pstate := PS is_comb [] None t_none [] false.
Definition user_pstate (local : list Z) : pstate := PS true local None t_none [] true.
Definition init_tb (ops : list tbop) : tbstate := TB true ops t_none [] 0 0 true.

Definition init_state (inits : list Z) (pst : list pstate) (tbs : list (list tbop)) : estate :=
  ES (init_slots inits) pst (map init_tb tbs) 0 0 [].

(* ====================================================================================================================
   Appended (audit follow-up).  Nothing above is changed by what follows.
   ==================================================================================================================== *)

(* ---------- Period(unit=value).femtoseconds for integer values (hdl/_time.py) ---------- *)
(* unit: 0 s, 1 ms, 2 us, 3 ns, 4 ps, 5 fs (value * 10^k); 6 Hz, 7 kHz, 8 MHz, 9 GHz (round(10^k / value)).
   Python's round() of the float quotient is round-half-to-even; exact while the quotient stays below 2^52. *)
Definition round_half_even (n d : Z) : Z :=
  let q := n / d in
  let r := n mod d in
  if 2 * r <? d then q else if d <? 2 * r then q + 1 else if Z.even q then q else q + 1.

Definition period_fs (unit : nat) (v : Z) : Z :=
  match unit with
  | 0%nat => v * 1000000000000000
  | 1%nat => v * 1000000000000
  | 2%nat => v * 1000000000
  | 3%nat => v * 1000000
  | 4%nat => v * 1000
  | 5%nat => v
  | 6%nat => round_half_even 1000000000000000 v
  | 7%nat => round_half_even 1000000000000 v
  | 8%nat => round_half_even 1000000000 v
  | _ => round_half_even 1000000 v
  end.

(* ---------- ctx.tick(domain) lowered to a trigger combination (TickTrigger._collect_trigger) ---------- *)
Record domdesc := DD { dd_clk : nat; dd_pos : bool; dd_rst : option nat; dd_async : bool }.

Definition tick_spec (d : domdesc) (samples : list nat) : list trig :=
  match dd_async d, dd_rst d with
  | true, Some r =>      (* .edge(clk, pol).edge(rst, 1).sample(rst).sample( *sampled ) *)
      TEdge (dd_clk d) 0 (dd_pos d) :: TEdge r 0 true :: TSample r :: map TSample samples
  | _, _ =>              (* .edge(clk, pol).sample(Const(0)).sample(Const(0) if rst is None else rst).sample( *sampled ) *)
      TEdge (dd_clk d) 0 (dd_pos d) :: TConst 0 ::
      (match dd_rst d with Some r => TSample r | None => TConst 0 end) :: map TSample samples
  end.

(* until(cond): the condition is sampled last *)
Definition until_spec (d : domdesc) (samples : list nat) (cond : nat) : list trig := tick_spec d (samples ++ [cond]).

(* ---------- background testbenches, run_until ---------- *)
Definition init_tb_bg (x : bool * list tbop) : tbstate := TB true (snd x) t_none [] 0 0 (negb (fst x)).
Definition init_state_bg (inits : list Z) (pst : list pstate) (tbs : list (bool * list tbop)) : estate :=
  ES (init_slots inits) pst (map init_tb_bg tbs) 0 0 [].

(* Simulator.run_until(deadline): `while now < deadline: advance()` whatever is critical *)
Fixpoint run_until (ps : list proc) (orc : oracle) (sfuel tfuel : nat) (deadline : Z) (fuel : nat) (st : estate) : estate :=
  match fuel with
  | O => st
  | S f => if e_now st <? deadline
           then run_until ps orc sfuel tfuel deadline f (fst (advance ps orc sfuel tfuel st))
           else st
  end.

(* ---------- a compiled synchronous process of a domain with ASYNCHRONOUS reset (after repo commit 574e1db) ----------
   Two wakers: clock_edge_waker (sets process.clk_edge) and edge_waker(rst, 1).  run(): `if not process.clk_edge:` load
   the reset values of the resettable driven signals with their masks and return; else clear the flag and run as a
   synchronous process.  The flag is modelled by a multi-shot trigger [clk edge; rst rise] owned by the process (its
   hit flags are exactly `clk_edge` / "woken by rst"): woken in phase 1a, run in 1b of the delta after the commit. *)
Definition arst_spec (clk : nat) (pos : bool) (rst : nat) : list trig := [TEdge clk 0 pos; TEdge rst 0 true].

Definition rtl_sync_arst (tab : sigtab) (n : nat) (ss : list stmt) (clk : nat) (pos : bool) (rst : nat) : proc :=
  P (fun _ _ _ => false) (arst_spec clk pos rst)
    (fun _ res cu nx =>
       let m := stmts_mask ss in
       if hd 0 res =? 0 then
         PR [] (flat_map (fun i => if (m i =? 0) || sd_reset_less (tab i) then []
                                   else [W i (sd_init (tab i)) (update_mask (sd_shape (tab i)) (m i))]) (seq 0 n)) None
       else
         let nx1 := exec_rtl_list (env_of_list cu) ss (env_of_list nx) in
         let rst_on := negb (Z.land 1 (nth rst cu 0) =? 0) in
         let nx2 : env := fun i => if rst_on && negb (m i =? 0) && negb (sd_reset_less (tab i))
                                   then sd_init (tab i) else nx1 i in
         PR [] (rtl_writes tab n m nx2) None).
(* such a process is never runnable at time 0; its trigger exists from the start *)
Definition arst_pstate (clk : nat) (pos : bool) (rst : nat) : pstate :=
  PS false [] None (fresh_trig (arst_spec clk pos rst) false 0) [] false.

(* ---------- memories (hdl/_mem.py MemoryInstance compiled by _FragmentCompiler; _PyMemoryState) ----------
   Row a of the memory is slot base + a: `data[a]` is its curr, `write_queue[a]` its next, membership of the memory in
   `pending` the union of the rows' pending bits; a row commits like a signal (changed iff data != queued value).
   _PyMemoryState.write(addr, value, mask): ignored when addr is out of range; read(addr): 0 when out of range. *)
Record wport := WP { wp_addr : expr; wp_data : expr; wp_en : expr }.     (* wp_en = Cat(bit.replicate(granularity) ...) *)
Record rport := RP { rp_addr : expr; rp_en : expr; rp_data : nat; rp_transp : list nat }.

Definition mem_read (base depth : nat) (cu : list Z) (a : Z) : Z :=
  if (0 <=? a) && (a <? Z.of_nat depth) then nth (base + Z.to_nat a) cu 0 else 0.

Definition full_mask (sh : shape) : Z := update_mask sh (Z.shiftl 1 (width sh) - 1).

Definition is_row (base depth i : nat) : bool := Nat.leb base i && Nat.ltb i (base + depth).

(* comb read ports: woken by the address inputs and by every commit of the memory (memory_waker) *)
Definition mem_comb (base depth : nat) (rowsh : shape) (rports : list rport) (inputs : list nat) : proc :=
  P (fun i _ _ => existsb (Nat.eqb i) inputs || is_row base depth i) []
    (fun _ _ cu _ =>
       let en := env_of_list cu in
       PR [] (map (fun rp =>
                     let a := rmask (ewidth (rp_addr rp)) (eval_rtl en (rp_addr rp)) in
                     W (rp_data rp) (rsign rowsh (mem_read base depth cu a)) (full_mask rowsh)) rports) None).

(* write ports (in port order), then synchronous read ports with their transparency patches *)
Definition mem_sync (base depth : nat) (rowsh : shape) (clk : nat) (pol : Z) (wports : list wport) (rports : list rport) : proc :=
  P (fun i _ nn => Nat.eqb i clk && (nn =? pol)) []
    (fun _ _ cu _ =>
       let en := env_of_list cu in
       let dw := width rowsh in
       let wvals := map (fun wp => (rmask (ewidth (wp_addr wp)) (eval_rtl en (wp_addr wp)),
                                    rmask dw (eval_rtl en (wp_data wp)),
                                    rmask dw (eval_rtl en (wp_en wp)))) wports in
       let ww := flat_map (fun x => match x with (a, d, e) =>
                            if (0 <=? a) && (a <? Z.of_nat depth)
                            then [W (base + Z.to_nat a) (norm rowsh d) (update_mask rowsh e)] else [] end) wvals in
       let rr := flat_map (fun rp =>
                   if Z.land 1 (eval_rtl en (rp_en rp)) =? 0 then []
                   else
                     let a := rmask (ewidth (rp_addr rp)) (eval_rtl en (rp_addr rp)) in
                     let d0 := mem_read base depth cu a in
                     let d := fold_left (fun d j => match nth j wvals (0, 0, 0) with (wa, wd, we) =>
                                           if a =? wa then Z.lor (Z.land d (Z.lnot we)) (Z.land wd we) else d end)
                                        (rp_transp rp) d0 in
                     [W (rp_data rp) (rsign rowsh d) (full_mask rowsh)]) rports in
       PR [] (ww ++ rr) None).

(* ---------- user processes iterating an arbitrary trigger combination ----------
   async for res in <spec>:                       (res bound position-wise to the pseudo-signals `binds`)
       for (out, f) in outs: new[out] = f(res, acc)   -- all f evaluated on the old accumulators
       acc = new; ctx.set(out, acc[out]) for every out
   covers edge-wait loops, periodic `ctx.delay(..)` loops and processes with several outputs *)
Fixpoint zip_bind (ks : list nat) (vs : list Z) (e : env) : env :=
  match ks, vs with
  | k :: ks', v :: vs' => zip_bind ks' vs' (fun j => if Nat.eqb j k then v else e j)
  | _, _ => e
  end.

Definition user_gen (spec : list trig) (binds : list nat) (outs : list (nat * shape * expr)) : proc :=
  P (fun _ _ _ => false) spec
    (fun local res _ _ =>
       let e0 := zip_bind (map (fun o => fst (fst o)) outs) local (fun _ => 0) in
       let e := zip_bind binds res e0 in
       let vals := map (fun o => norm (snd (fst o)) (denote e (snd o))) outs in
       PR vals (map (fun ov => W (fst (fst (fst ov))) (snd ov) (-1)) (combine outs vals)) None).

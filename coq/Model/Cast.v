(* Cast.v — C10 (added after the coverage audit): initial values of signals and memory rows
   (hdl/_ast.py _get_init_value, hdl/_mem.py MemoryData.Init), Const(v, shape-like), enumeration classes of every kind
   in Shape.cast / Const.  No proofs here (see Proofs/CastP.v). *)
From Coq Require Import ZArith List Bool.
From V.Model Require Import Bits Shape.
Import ListNotations.
Open Scope Z_scope.

(* exception classes: 1 TypeError, 2 ValueError, 3 IndexError, 4 SyntaxError (amaranth.hdl._ast.SyntaxError) *)
Inductive res (A : Type) := Ok (a : A) | Err (c : Z).
Arguments Ok {A} a.
Arguments Err {A} c.

(* `v in range(a, b, st)` for an int v, st <> 0 (CPython range.__contains__) *)
Definition range_mem (a b st v : Z) : bool :=
  if 0 <? st then (a <=? v) && (v <? b) && ((v - a) mod st =? 0)
  else (b <? v) && (v <=? a) && ((a - v) mod (- st) =? 0).

(* a shape-like argument that is not a ShapeCastable: a Shape (or int), or a range *)
Inductive shspec := SShape (s : shape) | SRange (a b st : Z).
Definition spec_shape (sp : shspec) : shape :=
  match sp with SShape s => s | SRange a b st => cast_range a b st end.

(* what the user passes as `init=` / as an element of a memory's init list *)
Inductive initv :=
| INone                              (* None: "not given" *)
| IInt (v : Z)                       (* an int or a bool *)
| IEnum (ms : list Z) (v : Z)        (* a member (value v) of an enum.Enum / IntEnum class with integer members ms *)
| IExpr (e : cexpr).                 (* a constant-castable Value: Const / Cat / Slice tree (well-formed) *)

(* Const.cast(init).value: the integer the initialiser stands for (None counts as 0) *)
Definition init_const_value (i : initv) : Z :=
  match i with
  | INone => 0
  | IInt v => v
  | IEnum ms v => const_norm (cast_enum ms) v            (* Const(member.value, Shape.cast(class)) *)
  | IExpr e => fst (const_cast e)
  end.

(* _get_init_value(init, shape) for a shape that is not a ShapeCastable: init = Const.cast(init); on a range shape an
   initialiser that was given (not None) must have its VALUE in the range (`init.value not in orig_shape`: SyntaxError);
   the result is Const(init.value, shape).value *)
Definition get_init_value (sp : shspec) (i : initv) : res Z :=
  let s := spec_shape sp in
  let v := init_const_value i in
  match sp, i with
  | SRange a b st, INone => Ok (const_norm s 0)
  | SRange a b st, _ => if range_mem a b st v then Ok (const_norm s v) else Err 4
  | SShape _, _ => Ok (const_norm s v)
  end.

(* MemoryData.Init(elems, shape=, depth=): more elements than rows is a ValueError; the elements are converted in order
   (the first failure decides); rows that are not given are 0 *)
Fixpoint init_rows (sp : shspec) (elems : list initv) : res (list Z) :=
  match elems with
  | [] => Ok []
  | x :: r =>
      match get_init_value sp x with
      | Err c => Err c
      | Ok v => match init_rows sp r with Err c => Err c | Ok l => Ok (v :: l) end
      end
  end.
Definition mem_init (sp : shspec) (depth : Z) (elems : list initv) : res (list Z) :=
  if depth <? 0 then Err 1
  else if depth <? Z.of_nat (length elems) then Err 2
  else match init_rows sp elems with
       | Err c => Err c
       | Ok l => Ok (l ++ repeat 0 (Z.to_nat depth - length elems))
       end.

(* ---- enumeration classes ---- *)
(* Shape._cast_plain_enum iterates `cls.__members__.values()`: EVERY declared member counts, aliases included (an alias of
   an Enum / IntEnum has the value of an earlier member; for Flag / IntFlag the multi-bit masks and 0 are aliases too).  The
   model of all four kinds of class is therefore Shape.cast_enum over the declared member values. *)
Definition cast_flag (ms : list Z) : shape := cast_enum ms.
(* the same loop over members given by their constant shapes (a member whose value is a Const keeps the Const's shape) *)
Definition cast_enum_shapes (l : list shape) : shape := fold_left enum_step l (Sh 0 false).

(* Io.v — model of amaranth/lib/io.py: Direction, the port algebra of SingleEndedPort /
   DifferentialPort / SimulationPort (__getitem__, __add__, __invert__), Buffer.elaborate on a
   SimulationPort as a bit-level function, FFBuffer as a step function over clock edges, and the
   IOBuffer cells that Buffer.elaborate + NetlistEmitter.emit_iobuffer / emit_io_use produce for
   real IOPorts.  No proofs here (see Proofs/IoP.v). *)
From Coq Require Import ZArith List Bool.
From V.Model Require Import Bits.
Import ListNotations.
Open Scope Z_scope.

(* ------------------------------------------------------------------ results / exceptions *)
Inductive err := EIndex | EValue | EType | EConflict.     (* IndexError, ValueError, TypeError, DriverConflict *)
Inductive res (A : Type) := Ok (a : A) | Err (e : err).
Arguments Ok {A} a.
Arguments Err {A} e.
Definition bind {A B} (r : res A) (f : A -> res B) : res B :=
  match r with Ok a => f a | Err e => Err e end.

(* ------------------------------------------------------------------ Direction *)
Inductive dir := DIn | DOut | DBidir.
Definition dir_eqb (a b : dir) : bool :=
  match a, b with DIn, DIn | DOut, DOut | DBidir, DBidir => true | _, _ => false end.

(* Direction.__and__ *)
Definition dir_and (a b : dir) : res dir :=
  if dir_eqb a b then Ok a
  else match a with
       | DBidir => Ok b
       | _ => match b with DBidir => Ok a | _ => Err EValue end
       end.

(* ------------------------------------------------------------------ Python sequences and slices *)
Definition zlen {A} (l : list A) : Z := Z.of_nat (length l).

Record pyslice := Sl { sl_start : option Z; sl_stop : option Z; sl_step : option Z }.

(* slice.indices(n) (CPython PySlice_GetIndicesEx / slice.indices), n >= 0 *)
Definition clamp_index (n lower upper : Z) (x : Z) : Z :=
  if x <? 0 then Z.max (x + n) lower else Z.min x upper.

Definition slice_indices (n : Z) (k : pyslice) : res (Z * Z * Z) :=
  let step := match sl_step k with None => 1 | Some s => s end in
  if step =? 0 then Err EValue            (* ValueError: slice step cannot be zero *)
  else
    let lower := if step <? 0 then -1 else 0 in
    let upper := if step <? 0 then n - 1 else n in
    let start := match sl_start k with
                 | None => if step <? 0 then upper else lower
                 | Some s => clamp_index n lower upper s end in
    let stop := match sl_stop k with
                | None => if step <? 0 then lower else upper
                | Some s => clamp_index n lower upper s end in
    Ok (start, stop, step).

(* len(range(start, stop, step)), step <> 0 *)
Definition range_len (start stop step : Z) : Z :=
  if 0 <? step then (if start <? stop then (stop - start - 1) / step + 1 else 0)
  else (if stop <? start then (start - stop - 1) / (- step) + 1 else 0).

Definition range_list (start stop step : Z) : list Z :=
  map (fun k => start + Z.of_nat k * step) (seq 0 (Z.to_nat (range_len start stop step))).

(* [l[i] for i in idxs] for indices known to be in bounds; out-of-bounds indices select nothing *)
Definition sel {A} (l : list A) (idxs : list Z) : list A :=
  flat_map (fun i => if i <? 0 then [] else
                     match nth_error l (Z.to_nat i) with Some x => [x] | None => [] end) idxs.

(* tuple.__getitem__(slice) *)
Definition tuple_slice {A} (l : list A) (k : pyslice) : res (list A) :=
  bind (slice_indices (zlen l) k) (fun '(a, b, s) => Ok (sel l (range_list a b s))).

(* tuple.__getitem__(int) *)
Definition tuple_index {A} (l : list A) (i : Z) : res A :=
  let n := zlen l in
  let j := if i <? 0 then i + n else i in
  if (j <? 0) || (n <=? j) then Err EIndex
  else match nth_error l (Z.to_nat j) with Some x => Ok x | None => Err EIndex end.

(* Value.__getitem__(int) / IOValue.__getitem__(int):  Slice(self, key, key + 1) *)
Definition hdl_index {A} (l : list A) (i : Z) : res (list A) :=
  let n := zlen l in
  if (i <? - n) || (n <=? i) then Err EIndex
  else let j := if i <? 0 then i + n else i in
       Ok (firstn 1 (skipn (Z.to_nat j) l)).

(* Value.__getitem__(slice) / IOValue.__getitem__(slice):
   step != 1 -> Cat(self[i] for i in range(start, stop, step)); step == 1 -> Slice(self, start, stop),
   whose constructor raises IndexError when start > stop (e.g. x[3:1]) *)
Definition hdl_slice {A} (l : list A) (k : pyslice) : res (list A) :=
  bind (slice_indices (zlen l) k) (fun '(a, b, s) =>
    if s =? 1 then
      if b <? a then Err EIndex
      else Ok (firstn (Z.to_nat (b - a)) (skipn (Z.to_nat a) l))
    else Ok (sel l (range_list a b s))).

(* ------------------------------------------------------------------ ports *)
(* A wire of a base object: for simulation ports (base port number, bit of its i/o/oe signals),
   for real ports (IOPort number, bit). *)
Definition ref := (nat * nat)%type.
Definition ref_eqb (a b : ref) : bool := Nat.eqb (fst a) (fst b) && Nat.eqb (snd a) (snd b).

Inductive kind := KSim | KSingle | KDiff.
Definition kind_eqb (a b : kind) : bool :=
  match a, b with KSim, KSim | KSingle, KSingle | KDiff, KDiff => true | _, _ => false end.

(* p_refs: _i/_o/_oe (simulation; the three are always sliced alike), _io (single-ended), _p (differential)
   p_nrefs: _n (differential only, [] otherwise);  p_inv: _invert;  p_dir: _direction *)
Record port := Port { p_kind : kind; p_refs : list ref; p_nrefs : list ref; p_inv : list bool; p_dir : dir }.

Definition plen (p : port) : Z := zlen (p_refs p).

Definition base_refs (b : nat) (w : nat) : list ref := map (fun j => (b, j)) (seq 0 w).

(* SimulationPort(direction, width, invert=inv)  (inv already a sequence; a bool is (inv,)*width) *)
Definition mk_sim (b : nat) (d : dir) (w : nat) (inv : list bool) : res port :=
  if Nat.eqb (length inv) w then Ok (Port KSim (base_refs b w) [] inv d) else Err EValue.

(* SingleEndedPort(io, invert=inv, direction=d) *)
Definition mk_single (io : list ref) (inv : list bool) (d : dir) : res port :=
  if Nat.eqb (length inv) (length io) then Ok (Port KSingle io [] inv d) else Err EValue.

(* DifferentialPort(p, n, invert=inv, direction=d) *)
Definition mk_diff (p n : list ref) (inv : list bool) (d : dir) : res port :=
  if negb (Nat.eqb (length p) (length n)) then Err EValue
  else if Nat.eqb (length inv) (length p) then Ok (Port KDiff p n inv d) else Err EValue.

(* __getitem__(int) *)
Definition port_index (p : port) (i : Z) : res port :=
  match p_kind p with
  | KSim =>
      bind (hdl_index (p_refs p) i) (fun r =>
      bind (tuple_index (p_inv p) i) (fun b =>
      Ok (Port KSim r [] [b] (p_dir p))))
  | KSingle =>
      bind (hdl_index (p_refs p) i) (fun r =>
      bind (tuple_index (p_inv p) i) (fun b =>
      mk_single r (repeat b (length r)) (p_dir p)))
  | KDiff =>
      bind (hdl_index (p_refs p) i) (fun r =>
      bind (hdl_index (p_nrefs p) i) (fun nr =>
      bind (tuple_index (p_inv p) i) (fun b =>
      mk_diff r nr (repeat b (length r)) (p_dir p))))
  end.

(* __getitem__(slice) *)
Definition port_slice (p : port) (k : pyslice) : res port :=
  match p_kind p with
  | KSim =>
      bind (hdl_slice (p_refs p) k) (fun r =>
      bind (tuple_slice (p_inv p) k) (fun inv =>
      Ok (Port KSim r [] inv (p_dir p))))
  | KSingle =>
      bind (hdl_slice (p_refs p) k) (fun r =>
      bind (tuple_slice (p_inv p) k) (fun inv =>
      mk_single r inv (p_dir p)))
  | KDiff =>
      bind (hdl_slice (p_refs p) k) (fun r =>
      bind (hdl_slice (p_nrefs p) k) (fun nr =>
      bind (tuple_slice (p_inv p) k) (fun inv =>
      mk_diff r nr inv (p_dir p))))
  end.

(* __invert__ *)
Definition port_invert (p : port) : res port :=
  let inv := map negb (p_inv p) in
  match p_kind p with
  | KSim => Ok (Port KSim (p_refs p) [] inv (p_dir p))
  | KSingle => mk_single (p_refs p) inv (p_dir p)
  | KDiff => mk_diff (p_refs p) (p_nrefs p) inv (p_dir p)
  end.

(* __add__ : a different port type gives NotImplemented, i.e. TypeError *)
Definition port_add (p q : port) : res port :=
  if negb (kind_eqb (p_kind p) (p_kind q)) then Err EType
  else bind (dir_and (p_dir p) (p_dir q)) (fun d =>
    match p_kind p with
    | KSim => Ok (Port KSim (p_refs p ++ p_refs q) [] (p_inv p ++ p_inv q) d)
    | KSingle => mk_single (p_refs p ++ p_refs q) (p_inv p ++ p_inv q) d
    | KDiff => mk_diff (p_refs p ++ p_refs q) (p_nrefs p ++ p_nrefs q) (p_inv p ++ p_inv q) d
    end).

(* port expressions *)
Inductive pexpr :=
| PBase (b : nat)
| PIdx (e : pexpr) (i : Z)
| PSlice (e : pexpr) (k : pyslice)
| PAdd (a b : pexpr)
| PInv (e : pexpr).

Fixpoint peval (env : list port) (e : pexpr) : res port :=
  match e with
  | PBase b => match nth_error env b with Some p => Ok p | None => Err EType end
  | PIdx e i => bind (peval env e) (fun p => port_index p i)
  | PSlice e k => bind (peval env e) (fun p => port_slice p k)
  | PAdd a b => bind (peval env a) (fun p => bind (peval env b) (fun q => port_add p q))
  | PInv e => bind (peval env e) port_invert
  end.

(* base port descriptions: base number b owns simulation signals (b, _) resp. IOPorts 2b (io / p) and 2b+1 (n) *)
(* how `invert=` is given: omitted (default False), a bool ((invert,) * width), or an iterable *)
Inductive invspec := InvDefault | InvBool (b : bool) | InvList (l : list bool).
Definition norm_inv (w : nat) (i : invspec) : list bool :=
  match i with InvDefault => repeat false w | InvBool b => repeat b w | InvList l => l end.
(* `direction=` of SingleEndedPort / DifferentialPort defaults to Direction.Bidir *)
Definition norm_dir (d : option dir) : dir := match d with Some x => x | None => DBidir end.

Inductive bdesc :=
| BSim (d : dir) (w : nat) (inv : invspec)
| BSingle (d : option dir) (w : nat) (inv : invspec)
| BDiff (d : option dir) (w : nat) (inv : invspec).

Definition mk_base (b : nat) (x : bdesc) : res port :=
  match x with
  | BSim d w inv => mk_sim b d w (norm_inv w inv)
  | BSingle d w inv => mk_single (base_refs (2 * b) w) (norm_inv w inv) (norm_dir d)
  | BDiff d w inv => mk_diff (base_refs (2 * b) w) (base_refs (2 * b + 1) w) (norm_inv w inv) (norm_dir d)
  end.

Fixpoint mk_env_from (b : nat) (xs : list bdesc) : res (list port) :=
  match xs with
  | [] => Ok []
  | x :: r => bind (mk_base b x) (fun p => bind (mk_env_from (S b) r) (fun ps => Ok (p :: ps)))
  end.
Definition mk_env := mk_env_from 0.

(* ------------------------------------------------------------------ Buffer / FFBuffer construction checks *)
(* Buffer.__init__: port.direction must be the buffer's direction or Bidir *)
Definition buffer_check (bd pd : dir) : res unit :=
  match pd with
  | DIn => if dir_eqb bd DIn then Ok tt else Err EValue
  | DOut => if dir_eqb bd DOut then Ok tt else Err EValue
  | DBidir => Ok tt
  end.

(* FFBuffer.__init__(direction, port, i_domain=, o_domain=); idom/odom: was the keyword given (not None) *)
Definition ffbuffer_check (bd pd : dir) (idom odom : bool) : res unit :=
  if dir_eqb bd DOut && idom then Err EValue
  else if dir_eqb bd DIn && odom then Err EValue
  else buffer_check bd pd.

(* clock domains by name: "sync", "a", "b" *)
Inductive dom := DSync | DA | DB.
Definition dom_default (d : option dom) : dom := match d with Some x => x | None => DSync end.   (* `x or "sync"` *)
(* FFBuffer.__init__: the domains the registers will use (None: that direction has no register) *)
Definition ff_domains (bd : dir) (idom odom : option dom) : res (option dom * option dom) :=
  bind (if dir_eqb bd DOut then match idom with Some _ => Err EValue | None => Ok None end
        else Ok (Some (dom_default idom))) (fun i =>
  bind (if dir_eqb bd DIn then match odom with Some _ => Err EValue | None => Ok None end
        else Ok (Some (dom_default odom))) (fun o => Ok (i, o))).
Definition ffbuffer_init (bd pd : dir) (idom odom : option dom) : res (option dom * option dom) :=
  bind (ff_domains bd idom odom) (fun r => bind (buffer_check bd pd) (fun _ => Ok r)).
(* which clocks have their active edge in an event *)
Record ticks := Tk { t_sync : bool; t_a : bool; t_b : bool }.
Definition dom_ticks (t : ticks) (d : option dom) : bool :=
  match d with Some DSync => t_sync t | Some DA => t_a t | Some DB => t_b t | None => false end.

(* ------------------------------------------------------------------ Buffer.elaborate on a SimulationPort *)
(* values of one signal kind (i, o or oe) of all base ports, bit by bit *)
Definition bstate := ref -> bool.
Definition upd (st : bstate) (r : ref) (v : bool) : bstate :=
  fun r' => if ref_eqb r r' then v else st r'.

(* Cat(refs).eq(v): bit k of v goes to refs[k], in order (a later part overrides an earlier one) *)
Fixpoint assign_cat (st : bstate) (refs : list ref) (v : Z) : bstate :=
  match refs with
  | [] => st
  | r :: rs => assign_cat (upd st r (Z.odd v)) rs (Z.div2 v)
  end.

(* value of Cat(refs) *)
Fixpoint read_cat (st : bstate) (refs : list ref) : Z :=
  match refs with
  | [] => 0
  | r :: rs => 2 * read_cat st rs + Z.b2z (st r)
  end.

Record pstate := PS { s_i : bstate; s_o : bstate; s_oe : bstate }.

(* invert = sum(bit << idx for idx, bit in enumerate(port.invert)) *)
Fixpoint inv_mask_from (idx : Z) (inv : list bool) : Z :=
  match inv with
  | [] => 0
  | b :: r => Z.shiftl (Z.b2z b) idx + inv_mask_from (idx + 1) r
  end.
Definition inv_mask (inv : list bool) : Z := inv_mask_from 0 inv.

(* oe.replicate(n) = Cat(oe, ..., oe) of a 1-bit signal *)
Fixpoint replicate_bit (n : nat) (b : bool) : Z :=
  match n with O => 0 | S k => 2 * replicate_bit k b + Z.b2z b end.

(* for i_inv_bit, oe_bit, o_bit, i_bit in zip(i_inv, port.oe, port.o, port.i):
       i_inv_bit = Mux(oe_bit, o_bit, i_bit) *)
Fixpoint loopback (st : pstate) (refs : list ref) : Z :=
  match refs with
  | [] => 0
  | r :: rs => 2 * loopback st rs + Z.b2z (if s_oe st r then s_o st r else s_i st r)
  end.

(* The settled combinational function of Buffer(bd, p).elaborate() on a simulation port:
   (o, oe) buffer members and port state st (s_i driven by the testbench; s_o/s_oe previous values,
   which persist on wires the buffer does not drive)  |->  new port state and buffer member i. *)
Definition buffer_comb (bd : dir) (p : port) (o oe : Z) (st : pstate) : pstate * Z :=
  let w := p_refs p in
  let m := inv_mask (p_inv p) in
  let o_inv := if m =? 0 then o else Z.lxor o m in
  let st1 := match bd with
             | DIn => st
             | _ => PS (s_i st) (assign_cat (s_o st) w o_inv)
                       (assign_cat (s_oe st) w (replicate_bit (length w) (Z.odd oe)))
             end in
  let i_inv := match bd with
               | DIn => read_cat (s_i st) w
               | DBidir => loopback st1 w
               | DOut => 0
               end in
  (st1, match bd with
        | DOut => 0                                  (* an Output buffer has no member i *)
        | _ => if m =? 0 then i_inv else Z.lxor i_inv m
        end).

(* initial values of the simulation signals: i = 0, o = 0, oe = ~0 for Output ports, 0 for Bidir *)
Definition st_of_vals (vals : list Z) : bstate :=
  fun r => Z.testbit (nth (fst r) vals 0) (Z.of_nat (snd r)).
Definition init_oe (env : list port) : bstate :=
  fun r => match nth_error env (fst r) with Some p => dir_eqb (p_dir p) DOut | None => false end.
Definition init_pstate (env : list port) (ivals : list Z) : pstate :=
  PS (st_of_vals ivals) (fun _ => false) (init_oe env).

(* ------------------------------------------------------------------ FFBuffer *)
(* i_ff, o_ff, oe_ff: reset_less registers, init 0 *)
Record ffst := FF { f_i : Z; f_o : Z; f_oe : Z }.
Definition ff_init : ffst := FF 0 0 0.

(* combinational part: the inner Buffer sees o_ff / oe_ff; FFBuffer.i = i_ff *)
Definition ff_comb (bd : dir) (p : port) (s : ffst) (st : pstate) : pstate * Z :=
  buffer_comb bd p (f_o s) (f_oe s) st.

(* one event: the testbench has set o, oe and the port's i (st), everything settled; then the active edge of
   i_domain (ei) and/or o_domain (eo) happens.  Registers sample the values just before the edge. *)
Definition ff_edge (bd : dir) (p : port) (ei eo : bool) (o oe : Z) (st : pstate) (s : ffst) : ffst :=
  let w := plen p in
  let bi := snd (ff_comb bd p s st) in
  FF (if ei && negb (dir_eqb bd DOut) then mask w bi else f_i s)
     (if eo && negb (dir_eqb bd DIn) then mask w o else f_o s)
     (if eo && negb (dir_eqb bd DIn) then mask 1 oe else f_oe s).

(* the same step for an arbitrary inner combinational buffer cmb (used by the harness for both the per-bit
   semantics and the simulator's lowering below); ff_edge bd p = ff_edge_with (buffer_comb bd p) (plen p) bd *)
Definition ff_edge_with (cmb : Z -> Z -> pstate -> pstate * Z) (w : Z) (bd : dir)
                        (ei eo : bool) (o oe : Z) (st : pstate) (s : ffst) : ffst :=
  let bi := snd (cmb (f_o s) (f_oe s) st) in
  FF (if ei && negb (dir_eqb bd DOut) then mask w bi else f_i s)
     (if eo && negb (dir_eqb bd DIn) then mask w o else f_o s)
     (if eo && negb (dir_eqb bd DIn) then mask 1 oe else f_oe s).

(* an event of a run, and the register state after a sequence of events *)
Record ffev := Ev { ev_o : Z; ev_oe : Z; ev_st : pstate; ev_ei : bool; ev_eo : bool }.
Definition ff_step (bd : dir) (p : port) (s : ffst) (e : ffev) : ffst :=
  ff_edge bd p (ev_ei e) (ev_eo e) (ev_o e) (ev_oe e) (ev_st e) s.
Definition ff_run_state (bd : dir) (p : port) (evs : list ffev) : ffst :=
  fold_left (ff_step bd p) evs ff_init.

(* ------------------------------------------------------------------ real ports: IOBuffer cells *)
(* fabric-side connection of one cell bit: buffer member o[k] xor inv *)
Record obit := OB { ob_k : nat; ob_inv : bool }.
(* buffer member i[k] = output bit ib_bit of the buffer's cell number ib_cell, xor ib_inv *)
Record ibit := IB { ib_cell : nat; ib_bit : nat; ib_inv : bool }.
(* IOBufferInstance(port, i=.., o=.., oe=..) -> nir.IOBuffer(port, dir, o, oe) *)
Record cell := Cell { c_port : list ref; c_dir : dir; c_o : list obit }.

Fixpoint obits_from (k : nat) (inv : list bool) : list obit :=
  match inv with [] => [] | b :: r => OB k b :: obits_from (S k) r end.
Fixpoint ibits_from (k : nat) (inv : list bool) : list ibit :=
  match inv with [] => [] | b :: r => IB 0 k b :: ibits_from (S k) r end.
Definition neg_obits (l : list obit) : list obit := map (fun x => OB (ob_k x) (negb (ob_inv x))) l.

(* Buffer.elaborate for SingleEndedPort / DifferentialPort: the submodules and the i connection *)
Definition buffer_cells (bd : dir) (p : port) : list cell * list ibit :=
  let ob := obits_from 0 (p_inv p) in
  let ib := ibits_from 0 (p_inv p) in
  match p_kind p with
  | KSingle =>
      match bd with
      | DIn => ([Cell (p_refs p) DIn []], ib)
      | DOut => ([Cell (p_refs p) DOut ob], [])
      | DBidir => ([Cell (p_refs p) DBidir ob], ib)
      end
  | KDiff =>
      match bd with
      | DIn => ([Cell (p_refs p) DIn []], ib)
      | DOut => ([Cell (p_refs p) DOut ob; Cell (p_nrefs p) DOut (neg_obits ob)], [])
      | DBidir => ([Cell (p_refs p) DBidir ob; Cell (p_nrefs p) DOut (neg_obits ob)], ib)
      end
  | KSim => ([], [])
  end.

(* NetlistEmitter.emit_io_use: every IONet may be used once in the whole netlist *)
Fixpoint mem_ref (r : ref) (l : list ref) : bool :=
  match l with [] => false | x :: t => ref_eqb r x || mem_ref r t end.

Fixpoint use_nets (used : list ref) (nets : list ref) : res (list ref) :=
  match nets with
  | [] => Ok used
  | n :: r => if mem_ref n used then Err EConflict else use_nets (n :: used) r
  end.

Fixpoint emit_cells (used : list ref) (cs : list cell) : res (list ref) :=
  match cs with
  | [] => Ok used
  | c :: r => bind (use_nets used (c_port c)) (fun u => emit_cells u r)
  end.

(* the netlist of a design whose submodules are Buffer(bd_j, p_j) in order *)
Definition netlist_cells (bufs : list (dir * port)) : list cell :=
  flat_map (fun bp => fst (buffer_cells (fst bp) (snd bp))) bufs.
Definition build_netlist (bufs : list (dir * port)) : res (list cell) :=
  bind (emit_cells [] (netlist_cells bufs)) (fun _ => Ok (netlist_cells bufs)).

(* pad-level reading of a list of cells: the value driven onto wire r (None: not driven / high-Z) given
   the fabric values o (buffer member o) and oe *)
Fixpoint obit_at (r : ref) (port : list ref) (obs : list obit) : option obit :=
  match port, obs with
  | x :: pt, b :: bt => if ref_eqb r x then Some b else obit_at r pt bt
  | _, _ => None
  end.
Fixpoint pad_drive (cs : list cell) (o : Z) (oe : bool) (r : ref) : option bool :=
  match cs with
  | [] => None
  | c :: t =>
      match obit_at r (c_port c) (c_o c) with
      | Some b => if oe then Some (xorb (Z.testbit o (Z.of_nat (ob_k b))) (ob_inv b)) else None
      | None => pad_drive t o oe r
      end
  end.
(* buffer member i bit given the pad values seen by the cells' input side *)
Definition ibit_value (cs : list cell) (pad : ref -> bool) (b : ibit) : bool :=
  match nth_error cs (ib_cell b) with
  | Some c => match nth_error (c_port c) (ib_bit b) with
              | Some r => xorb (pad r) (ib_inv b)
              | None => false
              end
  | None => false
  end.

(* ------------------------------------------------------------------ finding C18-SIM-LHS-ALIAS *)
(* How the Python simulator lowers an assignment target (amaranth/sim/_pyrtl.py, _LHSValueCompiler):
   on_Signal: next_sig = mask & arg;  on_Slice: read-modify-write of the WHOLE operand;
   on_Concat: the parts in order, each with its share of arg.  Buffer.elaborate assigns to port.o / port.oe,
   which for derived simulation ports are such Slice/Cat trees.  The bit-level model above (assign_cat on the
   flattened wires, which is also what the netlist does) agrees with this lowering on every generated case
   except when a Slice is taken of a Cat that names a signal bit twice. *)
Inductive lval := LSig (b w : nat) | LSlice (v : lval) (lo hi : nat) | LCat (parts : list lval).

Fixpoint lv_wires (v : lval) : list ref :=
  match v with
  | LSig b w => base_refs b w
  | LSlice v lo hi => firstn (hi - lo) (skipn lo (lv_wires v))
  | LCat ps => (fix go (ps : list lval) : list ref :=
                  match ps with [] => [] | p :: r => lv_wires p ++ go r end) ps
  end.

Fixpoint lv_assign (st : bstate) (v : lval) (arg : Z) : bstate :=
  match v with
  | LSig b w => assign_cat st (base_refs b w) arg
  | LSlice v lo hi =>
      let m := Z.ones (Z.of_nat (hi - lo)) in
      lv_assign st v (Z.lor (Z.land (read_cat st (lv_wires v)) (Z.lnot (Z.shiftl m (Z.of_nat lo))))
                            (Z.shiftl (Z.land m arg) (Z.of_nat lo)))
  | LCat ps => (fix go (st : bstate) (ps : list lval) (off : Z) : bstate :=
                  match ps with
                  | [] => st
                  | p :: r => go (lv_assign st p (Z.land (Z.ones (zlen (lv_wires p))) (Z.shiftr arg off)))
                                 r (off + zlen (lv_wires p))
                  end) st ps 0
  end.

(* the Value tree of a simulation port's o / oe / i members, following SimulationPort.__getitem__/__add__
   (Value.__getitem__: int -> Slice(v, j, j+1); step 1 -> Slice(v, a, b); other steps -> Cat(v[i] for i in range)) *)
Definition lv_len (v : lval) : Z := zlen (lv_wires v).
Definition lv_bit (v : lval) (i : Z) : lval := LSlice v (Z.to_nat i) (S (Z.to_nat i)).
Definition lv_index (v : lval) (i : Z) : lval := lv_bit v (if i <? 0 then i + lv_len v else i).
Definition lv_slice (v : lval) (k : pyslice) : lval :=
  match slice_indices (lv_len v) k with
  | Ok (a, b, s) => if s =? 1 then LSlice v (Z.to_nat a) (Z.to_nat b)
                    else LCat (map (lv_bit v) (range_list a b s))
  | Err _ => v
  end.
Fixpoint peval_lv (env : list port) (e : pexpr) : lval :=
  match e with
  | PBase b => match nth_error env b with Some p => LSig b (length (p_refs p)) | None => LCat [] end
  | PIdx e i => lv_index (peval_lv env e) i
  | PSlice e k => lv_slice (peval_lv env e) k
  | PAdd a b => LCat [peval_lv env a; peval_lv env b]
  | PInv e => peval_lv env e
  end.

(* Buffer.elaborate on a simulation port as the Python simulator executes it: like buffer_comb, but the two
   assignments to port.o / port.oe go through lv_assign on the port's Value tree v *)
Definition buffer_comb_lv (bd : dir) (p : port) (v : lval) (o oe : Z) (st : pstate) : pstate * Z :=
  let w := p_refs p in
  let m := inv_mask (p_inv p) in
  let o_inv := if m =? 0 then o else Z.lxor o m in
  let st1 := match bd with
             | DIn => st
             | _ => PS (s_i st) (lv_assign (s_o st) v o_inv)
                       (lv_assign (s_oe st) v (replicate_bit (length w) (Z.odd oe)))
             end in
  let i_inv := match bd with
               | DIn => read_cat (s_i st) w
               | DBidir => loopback st1 w
               | DOut => 0
               end in
  (st1, match bd with
        | DOut => 0
        | _ => if m =? 0 then i_inv else Z.lxor i_inv m
        end).

(* FFBuffer.elaborate on real ports: the same cells as Buffer plus the register stages between the buffer's
   members and the cells: (number of registers, domain) on the o/oe path and on the i path *)
Definition ff_regs (r : option dom * option dom) : (nat * option dom) * (nat * option dom) :=
  ((match snd r with Some _ => 1%nat | None => 0%nat end, snd r),
   (match fst r with Some _ => 1%nat | None => 0%nat end, fst r)).

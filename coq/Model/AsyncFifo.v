(* AsyncFifo.v — model of amaranth.lib.fifo.AsyncFIFO / AsyncFIFOBuffered (C13), following fifo.py:383-593,
   with its own model of the two FFSynchronizer chains (cdc.py:92-108, 2 stages) and of the
   AsyncFFSynchronizer reset path (cdc.py:166-193).  No proofs here (see Proofs/AsyncFifoP.v).

   Time is a list of EVENTS: a rising edge of the write clock (EW), of the read clock (ER), or of both in the same
   instant (EWR).  Inputs (w_en, w_data, r_en, write-domain rst) are applied before the edge.  Every register takes
   the value computed from the state BEFORE the event (all processes of one delta cycle read the old values). *)
From Coq Require Import ZArith List Bool.
From V.Model Require Import Bits.
Import ListNotations.
Open Scope Z_scope.

(* ---------------------------------------------------------------- Gray code, as elaborated *)
(* val[i] as an integer *)
Definition zbit (v i : Z) : Z := Z.b2z (Z.testbit v i).

(* _gray_encode: val ^ val[1:] *)
Definition gray_enc (x : Z) : Z := Z.lxor x (Z.shiftr x 1).

(* _gray_decode: for i in reversed(range(len)): rhs = rhs ^ val[i]; out[i] = rhs.  Cat of the out list.
   [gray_dec_loop k] runs the iterations i = k-1 .. 0 *)
Fixpoint gray_dec_loop (k : nat) (val rhs : Z) : Z :=
  match k with
  | O => 0
  | S j => let rhs' := Z.lxor rhs (zbit val (Z.of_nat j)) in
           rhs' * 2 ^ Z.of_nat j + gray_dec_loop j val rhs'
  end.
Definition gray_dec (w val : Z) : Z := gray_dec_loop (Z.to_nat w) val 0.

(* w_full, on (n+1)-bit Gray pointers:
   (p[-1] != c[-1]) & (p[-2] != c[-2]) & (p[:-2] == c[:-2]) *)
Definition gray_full (n p c : Z) : bool :=
  negb (Bool.eqb (Z.testbit p n) (Z.testbit c n)) &&
  negb (Bool.eqb (Z.testbit p (n - 1)) (Z.testbit c (n - 1))) &&
  (p mod 2 ^ (n - 1) =? c mod 2 ^ (n - 1)).

(* ---------------------------------------------------------------- constructors *)
(* utils.ceil_log2 on n >= 0 *)
Definition aceil_log2 (n : Z) : Z := if n =? 0 then 0 else bit_length (n - 1).

(* AsyncFIFO.__init__: None = ValueError; Some depth' = constructed with self.depth = depth'.
   (depth < 0: ceil_log2 raises ValueError) *)
Definition async_ctor (depth : Z) (exact : bool) : option Z :=
  if depth =? 0 then Some 0
  else if depth <? 0 then None
  else let b := aceil_log2 depth in
       if exact && negb (depth =? 2 ^ b) then None else Some (2 ^ b).

(* AsyncFIFOBuffered.__init__ (ceil_log2(max(0, depth - 1)): a negative depth is accepted and becomes 2) *)
Definition async_buf_ctor (depth : Z) (exact : bool) : option Z :=
  if depth =? 0 then Some 0
  else let b := aceil_log2 (Z.max 0 (depth - 1)) in
       if exact && negb (depth =? 2 ^ b + 1) then None else Some (2 ^ b + 1).

(* Value.__getitem__(int key): key in range(-len, len) *)
Definition index_ok (len key : Z) : bool := (- len <=? key) && (key <? len).

(* AsyncFIFO.elaborate for a constructed depth: depth 0 returns early; otherwise the only index that can be out of
   bounds is produce_w_gry[-2] on a ctr_bits = depth_bits + 1 wide signal *)
Definition async_elab_ok (depth' : Z) : bool :=
  (depth' =? 0) || index_ok (aceil_log2 depth' + 1) (-2).

(* AsyncFIFOBuffered.elaborate: depth 0 returns early; otherwise AsyncFIFO(depth = self.depth - 1) is constructed
   (exact_depth=False) and elaborated *)
Definition async_buf_elab_ok (depth' : Z) : bool :=
  (depth' =? 0) ||
  match async_ctor (depth' - 1) false with Some d => async_elab_ok d | None => false end.

(* ---------------------------------------------------------------- AsyncFIFO, depth = 2^n, n >= 1 *)
Inductive ev := EW | ER | EWR.
Definition has_w (e : ev) : bool := match e with ER => false | _ => true end.
Definition has_r (e : ev) : bool := match e with EW => false | _ => true end.

(* i_rst = write-domain reset (ClockDomain("write").rst), i_rrst = read-domain reset; both synchronous domains *)
Record ain := mkIn { i_wen : bool; i_wdata : Z; i_ren : bool; i_rst : bool; i_rrst : bool }.
(* inputs without read-domain reset *)
Definition mkIn4 (wen : bool) (wdata : Z) (ren rst : bool) : ain := mkIn wen wdata ren rst false.

Record afifo := mkA {
  pwb : Z;            (* produce_w_bin *)
  pwg : Z;            (* produce_w_gry *)
  crb : Z;            (* consume_r_bin (reset_less) *)
  crg : Z;            (* consume_r_gry (reset_less) *)
  ps0 : Z; ps1 : Z;   (* produce_cdc stage0, stage1; produce_r_gry = stage1 *)
  cs0 : Z; cs1 : Z;   (* consume_cdc stage0, stage1; consume_w_gry = stage1 *)
  cwb : Z;            (* consume_w_bin *)
  wlvl : Z;           (* w_level (registered) *)
  mem : list Z;       (* storage rows *)
  rdat : Z;           (* read port data register *)
  af0 : bool; af1 : bool;   (* rst_cdc flops (init 1); r_rst = af1 *)
  rrst : bool         (* self.r_rst (registered) *)
}.

Definition astate0 (n : Z) : afifo :=
  mkA 0 0 0 0 0 0 0 0 0 0 (repeat 0 (Z.to_nat (2 ^ n))) 0 true true false.

Fixpoint upd_nth (k : nat) (v : Z) (l : list Z) : list Z :=
  match l, k with
  | [], _ => []
  | _ :: t, O => v :: t
  | x :: t, S k' => x :: upd_nth k' v t
  end.

(* asynchronous effect of the inputs: write-domain rst sets the async_ff flops at once *)
Definition a_pre (st : afifo) (rst : bool) : afifo :=
  if rst then
    mkA (pwb st) (pwg st) (crb st) (crg st) (ps0 st) (ps1 st) (cs0 st) (cs1 st) (cwb st) (wlvl st)
        (mem st) (rdat st) true true (rrst st)
  else st.

(* width of Signal(range(depth + 1)) *)
Definition alvl_bits (n : Z) : Z := bit_length (2 ^ n).

Definition o_wrdy (n : Z) (st : afifo) : bool := negb (gray_full n (pwg st) (cs1 st)).
Definition o_rrdy (st : afifo) : bool := negb ((crg st =? ps1 st) || af1 st).
Definition o_rdata (st : afifo) : Z := rdat st.
Definition o_wlevel (st : afifo) : Z := wlvl st.
Definition o_rlevel (n : Z) (st : afifo) : Z := (gray_dec (n + 1) (ps1 st) - crb st) mod 2 ^ alvl_bits n.
Definition o_rrst (st : afifo) : bool := rrst st.

Definition async_step (n width : Z) (st0 : afifo) (e : ev) (i : ain) : afifo :=
  let rst := i_rst i in
  let st := a_pre st0 rst in
  let M := 2 ^ (n + 1) in
  let dw := o_wrdy n st && i_wen i in
  let dr := o_rrdy st && i_ren i in
  let pwn := (pwb st + Z.b2z dw) mod M in     (* produce_w_nxt *)
  let crn := (crb st + Z.b2z dr) mod M in     (* consume_r_nxt *)
  let W := has_w e in
  let R := has_r e in
  let rr := af1 st in                         (* r_rst *)
  mkA
    (if W then (if rst then 0 else pwn) else pwb st)
    (if W then (if rst then 0 else gray_enc pwn) else pwg st)
    (if R then (if rr then gray_dec (n + 1) (ps1 st) else crn) else crb st)
    (if R then (if rr then ps1 st else gray_enc crn) else crg st)
    (if R then pwg st else ps0 st)
    (if R then ps0 st else ps1 st)
    (if W then crg st else cs0 st)
    (if W then cs0 st else cs1 st)
    (if W then (if rst then 0 else gray_dec (n + 1) (cs1 st)) else cwb st)
    (if W then (if rst then 0 else (pwb st - cwb st) mod 2 ^ alvl_bits n) else wlvl st)
    (if W && dw then upd_nth (Z.to_nat (pwb st mod 2 ^ n)) (i_wdata i mod 2 ^ width) (mem st) else mem st)
    (if R then nth (Z.to_nat (crn mod 2 ^ n)) (mem st) 0 else rdat st)
    (if R then (if rst then true else false) else af0 st)
    (if R then (if rst then true else af0 st) else af1 st)
    (if R then (if i_rrst i then false else rr) else rrst st).   (* the only read-domain register with a reset *)

(* ---------------------------------------------------------------- interface monitor (specification side) *)
(* Log of accepted writes and accepted reads, defined from interface signals only. *)
Record mon := mkMon { wlog : list Z; rlog : list Z }.
Definition mon0 : mon := mkMon [] [].

Definition mon_step (width : Z) (wrdy rrdy : bool) (rdata : Z) (m : mon) (e : ev) (i : ain) : mon :=
  mkMon (if has_w e && (wrdy && i_wen i) then wlog m ++ [i_wdata i mod 2 ^ width] else wlog m)
        (if has_r e && (rrdy && i_ren i) then rlog m ++ [rdata] else rlog m).

(* entries held according to the monitor *)
Definition held (m : mon) : Z := Z.of_nat (length (wlog m)) - Z.of_nat (length (rlog m)).

Definition arun_step (n width : Z) (sm : afifo * mon) (x : ev * ain) : afifo * mon :=
  let st := a_pre (fst sm) (i_rst (snd x)) in
  (async_step n width (fst sm) (fst x) (snd x),
   mon_step width (o_wrdy n st) (o_rrdy st) (o_rdata st) (snd sm) (fst x) (snd x)).

Definition arun (n width : Z) (tr : list (ev * ain)) (sm : afifo * mon) : afifo * mon :=
  fold_left (arun_step n width) tr sm.

Definition no_rst (tr : list (ev * ain)) : Prop := Forall (fun x => i_rst (snd x) = false) tr.
Definition no_rrst (tr : list (ev * ain)) : Prop := Forall (fun x => i_rrst (snd x) = false) tr.
Definition all_rst (tr : list (ev * ain)) : Prop := Forall (fun x => i_rst (snd x) = true) tr.
Definition no_write (tr : list (ev * ain)) : Prop := Forall (fun x => i_wen (snd x) = false) tr.
Definition all_ren (tr : list (ev * ain)) : Prop := Forall (fun x => i_ren (snd x) = true) tr.
Definition r_edges (tr : list (ev * ain)) : Z := Z.of_nat (length (filter (fun x => has_r (fst x)) tr)).

Definition w_edges (tr : list (ev * ain)) : Z := Z.of_nat (length (filter (fun x => has_w (fst x)) tr)).

(* state-only run *)
Definition asteps (n width : Z) (tr : list (ev * ain)) (st : afifo) : afifo :=
  fold_left (fun s x => async_step n width s (fst x) (snd x)) tr st.

(* a write-domain reset episode long enough to flush both synchroniser chains: at least one write edge (write-side
   registers cleared), then three read edges (produce chain, then the consume_r registers), then two write edges (consume chain) *)
Definition suff_reset (tr : list (ev * ain)) : Prop :=
  all_rst tr /\ exists t1 t2 t3, tr = t1 ++ t2 ++ t3 /\ 1 <= w_edges t1 /\ 3 <= r_edges t2 /\ 2 <= w_edges t3.

(* constructor outcome with the exception class: FIFOInterface.__init__ raises TypeError for a negative width
   after the depth has been rounded (ValueError first) *)
Inductive ctor_res := CtorOk (d : Z) | CtorValueError | CtorTypeError.
Definition ctor_full (buffered : bool) (width depth : Z) (exact : bool) : ctor_res :=
  match (if buffered then async_buf_ctor depth exact else async_ctor depth exact) with
  | None => CtorValueError
  | Some d => if width <? 0 then CtorTypeError else CtorOk d
  end.

(* ---------------------------------------------------------------- AsyncFIFOBuffered, depth = 2^n + 1, n >= 1 *)
Record bfifo := mkB {
  inner : afifo;
  b_data : Z;         (* self.r_data (registered) *)
  b_rdy : bool;       (* self.r_rdy (registered) *)
  b_rst : bool;       (* self.r_rst (registered) *)
  b_lvl : Z;          (* self.r_level (registered) *)
  cb0 : bool; cb1 : bool; cb2 : bool; cb3 : bool   (* consume_buffered_cdc, 4 stages *)
}.

Definition bstate0 (n : Z) : bfifo := mkB (astate0 n) 0 false false 0 false false false false.

Definition blvl_bits (n : Z) : Z := bit_length (2 ^ n + 1).

(* fifo.r_en = 1 under If(self.r_en | ~self.r_rdy), else 0 *)
Definition b_inner_ren (st : bfifo) (i : ain) : bool := i_ren i || negb (b_rdy st).
(* r_consume_buffered = ((r_rdy - r_en) & r_rdy)[0] = r_rdy & ~r_en *)
Definition b_rcb (st : bfifo) (i : ain) : bool := b_rdy st && negb (i_ren i).
Definition b_inner_in (st : bfifo) (i : ain) : ain := mkIn (i_wen i) (i_wdata i) (b_inner_ren st i) (i_rst i) (i_rrst i).

Definition bo_wrdy (n : Z) (st : bfifo) : bool := o_wrdy n (inner st).
Definition bo_wlevel (n : Z) (st : bfifo) : Z := (o_wlevel (inner st) + Z.b2z (cb3 st)) mod 2 ^ blvl_bits n.
Definition bo_rrdy (st : bfifo) : bool := b_rdy st.
Definition bo_rdata (st : bfifo) : Z := b_data st.
Definition bo_rlevel (st : bfifo) : Z := b_lvl st.
Definition bo_rrst (st : bfifo) : bool := b_rst st.

Definition buf_step (n width : Z) (st : bfifo) (e : ev) (i : ain) : bfifo :=
  let f := a_pre (inner st) (i_rst i) in
  let W := has_w e in
  let R := has_r e in
  let ld := R && b_inner_ren st i in
  mkB (async_step n width (inner st) e (b_inner_in st i))
      (if ld then o_rdata f else b_data st)
      (if R && i_rrst i then false else if ld then o_rrdy f else b_rdy st)     (* r_data is reset_less *)
      (if R && i_rrst i then false else if ld then o_rrst f else b_rst st)
      (if R && i_rrst i then 0 else if R then (o_rlevel n f + Z.b2z (b_rcb st i)) mod 2 ^ blvl_bits n else b_lvl st)
      (if W then b_rcb st i else cb0 st)
      (if W then cb0 st else cb1 st)
      (if W then cb1 st else cb2 st)
      (if W then cb2 st else cb3 st).

Definition brun_step (n width : Z) (sm : bfifo * mon) (x : ev * ain) : bfifo * mon :=
  let f := a_pre (inner (fst sm)) (i_rst (snd x)) in
  (buf_step n width (fst sm) (fst x) (snd x),
   mon_step width (o_wrdy n f) (b_rdy (fst sm)) (b_data (fst sm)) (snd sm) (fst x) (snd x)).

Definition brun (n width : Z) (tr : list (ev * ain)) (sm : bfifo * mon) : bfifo * mon :=
  fold_left (brun_step n width) tr sm.

(* states reachable from power-on *)
Definition areach (n width : Z) (tr : list (ev * ain)) : afifo * mon := arun n width tr (astate0 n, mon0).
Definition breach (n width : Z) (tr : list (ev * ain)) : bfifo * mon := brun n width tr (bstate0 n, mon0).

(* Bits.v — integer/bit-vector vocabulary shared by every model.
   No proofs here (see Proofs/BitsP.v). Widths are Z with explicit 0 <= w side conditions. *)
From Coq Require Import ZArith List Bool.
Import ListNotations.
Open Scope Z_scope.

Record shape := Sh { width : Z; sgn : bool }.

Definition shape_eqb (a b : shape) : bool :=
  (width a =? width b) && Bool.eqb (sgn a) (sgn b).

(* Shape.__init__ accepts: unsigned width >= 0, signed width >= 1 *)
Definition wf_shape (s : shape) : bool :=
  if sgn s then 1 <=? width s else 0 <=? width s.

(* value & ((1 << w) - 1) *)
Definition mask (w v : Z) : Z := v mod 2 ^ w.

(* two's complement reading of the low w bits (w >= 1) *)
Definition sext (w v : Z) : Z :=
  let m := v mod 2 ^ w in if 2 ^ (w - 1) <=? m then m - 2 ^ w else m.

Definition norm (s : shape) (v : Z) : Z :=
  if sgn s then sext (width s) v else mask (width s) v.

Definition in_range (s : shape) (v : Z) : Prop :=
  if sgn s then - 2 ^ (width s - 1) <= v < 2 ^ (width s - 1)
  else 0 <= v < 2 ^ (width s).

Definition in_rangeb (s : shape) (v : Z) : bool :=
  if sgn s then (- 2 ^ (width s - 1) <=? v) && (v <? 2 ^ (width s - 1))
  else (0 <=? v) && (v <? 2 ^ (width s)).

(* int.bit_length() *)
Definition bit_length (n : Z) : Z :=
  if n =? 0 then 0 else Z.log2 (Z.abs n) + 1.

(* bit i of the two's complement pattern *)
Definition bit (v : Z) (i : Z) : bool := Z.testbit v i.

(* bin(x).count('1') % 2 for x >= 0 *)
Fixpoint popcount_pos (p : positive) : Z :=
  match p with xH => 1 | xO q => popcount_pos q | xI q => 1 + popcount_pos q end.
Definition popcount (v : Z) : Z := match v with Zpos p => popcount_pos p | _ => 0 end.
Definition parity (v : Z) : Z := popcount v mod 2.

(* Rtlil.v — RTLIL document AST (what harness/rtlil_parse.py reads from the text emitted by
   amaranth/back/rtlil.py), the declarative well-formedness predicate `WellFormed` (property C07, clause
   by clause) and the executable checker `wf_doc`.  Also: the model of the name de-duplication step
   `_ir._add_name` / `Design._assign_names`.  No proofs here (see Proofs/RtlilP.v).

   Conventions: identifiers keep their leading `\` or `$`.  A sigspec is the list of its chunks, LEAST
   significant chunk first (the reader reverses `{ a b c }`, which RTLIL writes MSB first, and expands
   nested concatenations).  Constant bits are LSB first: 0, 1, 2 = x, 3 = z, 4 = -, 5 = m.
   Widths and bit indices are Z; counts are nat. *)
From Coq Require Import ZArith List Bool String Ascii DecimalString.
From V.Model Require Import Bits.
From V.Model Require Shape.
Import ListNotations.
Open Scope Z_scope.

(* ------------------------------------------------------------------ AST *)
Definition ident := string.

Inductive pval := PInt (z : Z) | PBits (bits : list Z) | PStr (s : string).
(* `parameter [signed|real] \name value`; flag 0 = plain, 1 = signed, 2 = real *)
Record param := Par { par_name : ident; par_flag : Z; par_val : pval }.
Definition attr := (ident * pval)%type.

Inductive chunk :=
| CConst (bits : list Z)                 (* W'bits, W = length bits *)
| CWire (n : ident)                      (* the whole wire *)
| CSlice (n : ident) (hi lo : Z).        (* \n [hi:lo]; \n [i] is CSlice n i i *)
Definition sigspec := list chunk.

Inductive dir := DIn | DOut | DInout.

Record wire := Wire { w_name : ident; w_width : Z; w_port : option (dir * Z); w_signed : bool;
                      w_attrs : list attr }.
Record memory := Mem { m_name : ident; m_width : Z; m_size : Z; m_attrs : list attr }.
Record cell := Cell { c_name : ident; c_type : ident; c_attrs : list attr; c_params : list param;
                      c_conns : list (ident * sigspec) }.
(* a case with no pattern is the default case *)
Inductive pstmt :=
| PAssign (l r : sigspec)
| PSwitch (sel : sigspec) (cases : list (list (list Z) * list pstmt)).
Record process := Proc { p_name : ident; p_attrs : list attr; p_body : list pstmt }.
Record module := Mod { mod_name : ident; mod_attrs : list attr; mod_wires : list wire;
                       mod_mems : list memory; mod_cells : list cell; mod_procs : list process;
                       mod_conns : list (sigspec * sigspec) }.
Record doc := Doc { doc_modules : list module }.

(* What the design said about a foreign instance (Instance("type", p_.., a_.., i_.., o_.., io_..)):
   given alongside the document.  fp_conn = None: connection not predicted, only its width. *)
Record fport := FP { fp_name : ident; fp_dir : dir; fp_width : Z; fp_conn : option sigspec }.
(* a parameter / attribute value as the design gave it in Python: an int of any size and sign (bool and int-valued
   enum members included), Const(v, Shape(w, sg)), a str, a float (its repr) *)
Inductive xval := XInt (v : Z) | XConst (v w : Z) (sg : bool) | XStr (s : string) | XReal (r : string).
Record fspec := FS { fs_module : ident; fs_cell : ident; fs_type : ident; fs_params : list (ident * xval);
                     fs_attrs : list (ident * xval); fs_ports : list fport }.

(* ------------------------------------------------------------------ decidable equalities *)
Fixpoint list_eqb {A} (e : A -> A -> bool) (a b : list A) : bool :=
  match a, b with
  | [], [] => true
  | x :: a', y :: b' => e x y && list_eqb e a' b'
  | _, _ => false
  end.
Definition pval_eqb (a b : pval) : bool :=
  match a, b with
  | PInt x, PInt y => x =? y
  | PBits x, PBits y => list_eqb Z.eqb x y
  | PStr x, PStr y => String.eqb x y
  | _, _ => false
  end.
Definition param_eqb (a b : param) : bool :=
  String.eqb (par_name a) (par_name b) && (par_flag a =? par_flag b) && pval_eqb (par_val a) (par_val b).
Definition attr_eqb (a b : attr) : bool := String.eqb (fst a) (fst b) && pval_eqb (snd a) (snd b).
Definition dir_eqb (a b : dir) : bool :=
  match a, b with DIn, DIn | DOut, DOut | DInout, DInout => true | _, _ => false end.

Fixpoint memb {A} (e : A -> A -> bool) (x : A) (l : list A) : bool :=
  match l with [] => false | y :: r => e x y || memb e x r end.
Fixpoint nodupb {A} (e : A -> A -> bool) (l : list A) : bool :=
  match l with [] => true | x :: r => negb (memb e x r) && nodupb e r end.
Definition smem := memb String.eqb.

(* lo, lo+1, ..., lo+n-1 *)
Fixpoint zrange (lo : Z) (n : nat) : list Z :=
  match n with O => [] | S k => lo :: zrange (lo + 1) k end.

(* ------------------------------------------------------------------ lookups, widths, bits *)
Fixpoint find_wire (ws : list wire) (n : ident) : option wire :=
  match ws with
  | [] => None
  | w :: r => if String.eqb (w_name w) n then Some w else find_wire r n
  end.
Definition wire_width (ws : list wire) (n : ident) : Z :=
  match find_wire ws n with Some w => w_width w | None => 0 end.
Definition wire_dir (w : wire) : option dir :=
  match w_port w with Some (d, _) => Some d | None => None end.
Definition is_inout (w : wire) : bool :=
  match wire_dir w with Some DInout => true | _ => false end.
Definition is_input (w : wire) : bool :=
  match wire_dir w with Some DIn => true | _ => false end.

Fixpoint find_mem (ms : list memory) (n : ident) : option memory :=
  match ms with
  | [] => None
  | m :: r => if String.eqb (m_name m) n then Some m else find_mem r n
  end.
Fixpoint find_module (ms : list module) (n : ident) : option module :=
  match ms with
  | [] => None
  | m :: r => if String.eqb (mod_name m) n then Some m else find_module r n
  end.
Fixpoint find_param (ps : list param) (n : ident) : option pval :=
  match ps with
  | [] => None
  | p :: r => if String.eqb (par_name p) n then Some (par_val p) else find_param r n
  end.
Definition param_int (ps : list param) (n : ident) : option Z :=
  match find_param ps n with Some (PInt z) => Some z | _ => None end.
Fixpoint find_fspec (ex : list fspec) (mn cn : ident) : option fspec :=
  match ex with
  | [] => None
  | f :: r => if String.eqb (fs_module f) mn && String.eqb (fs_cell f) cn then Some f
              else find_fspec r mn cn
  end.

Definition const_bit_ok (b : Z) : bool := (0 <=? b) && (b <=? 5).

Definition chunk_width (ws : list wire) (c : chunk) : Z :=
  match c with
  | CConst bits => Z.of_nat (List.length bits)
  | CWire n => wire_width ws n
  | CSlice _ hi lo => hi - lo + 1
  end.
Definition sig_width (ws : list wire) (s : sigspec) : Z :=
  fold_right (fun c a => chunk_width ws c + a) 0 s.

(* one bit of a sigspec: a constant or bit i of wire n *)
Inductive sbit := BC (v : Z) | BW (n : ident) (i : Z).
Definition sbit_eqb (a b : sbit) : bool :=
  match a, b with
  | BC x, BC y => x =? y
  | BW n i, BW m j => String.eqb n m && (i =? j)
  | _, _ => false
  end.
Definition chunk_bits (ws : list wire) (c : chunk) : list sbit :=
  match c with
  | CConst bits => map BC bits
  | CWire n => map (BW n) (zrange 0 (Z.to_nat (wire_width ws n)))
  | CSlice n hi lo => map (BW n) (zrange lo (Z.to_nat (hi - lo + 1)))
  end.
Definition sig_bits (ws : list wire) (s : sigspec) : list sbit := flat_map (chunk_bits ws) s.
Definition count (b : sbit) (l : list sbit) : nat := List.length (filter (sbit_eqb b) l).

(* ------------------------------------------------------------------ clause: references exist, in bounds *)
Definition ChunkOk (ws : list wire) (c : chunk) : Prop :=
  match c with
  | CConst bits => forall b, In b bits -> 0 <= b <= 5
  | CWire n => exists w, find_wire ws n = Some w
  | CSlice n hi lo => exists w, find_wire ws n = Some w /\ 0 <= lo /\ lo <= hi /\ hi < w_width w
  end.
Definition chunk_ok (ws : list wire) (c : chunk) : bool :=
  match c with
  | CConst bits => forallb const_bit_ok bits
  | CWire n => match find_wire ws n with Some _ => true | None => false end
  | CSlice n hi lo =>
      match find_wire ws n with
      | Some w => (0 <=? lo) && (lo <=? hi) && (hi <? w_width w)
      | None => false
      end
  end.
Definition SigOk (ws : list wire) (s : sigspec) : Prop := forall c, In c s -> ChunkOk ws c.
Definition sig_ok (ws : list wire) (s : sigspec) : bool := forallb (chunk_ok ws) s.

(* something that is driven (connect LHS, assignment target, cell output) names wire bits only *)
Definition is_const_chunk (c : chunk) : bool := match c with CConst _ => true | _ => false end.
Definition Driveable (s : sigspec) : Prop := forall c, In c s -> is_const_chunk c = false.
Definition driveable (s : sigspec) : bool := forallb (fun c => negb (is_const_chunk c)) s.

(* a bidirectional cell port may only touch bidirectional wires (the wires exempt from the driver rule) *)
Definition chunk_wire (c : chunk) : option ident :=
  match c with CConst _ => None | CWire n => Some n | CSlice n _ _ => Some n end.
Definition InoutOnly (ws : list wire) (s : sigspec) : Prop :=
  forall c, In c s -> exists n w, chunk_wire c = Some n /\ find_wire ws n = Some w /\ is_inout w = true.
Definition inout_only (ws : list wire) (s : sigspec) : bool :=
  forallb (fun c => match chunk_wire c with
                    | Some n => match find_wire ws n with Some w => is_inout w | None => false end
                    | None => false
                    end) s.

(* ------------------------------------------------------------------ cell interfaces *)
(* a declared port: name, direction, width *)
Record pdecl := PD { pd_name : ident; pd_dir : dir; pd_width : Z }.

(* width of a primitive's port: a number, a parameter, or a product of two parameters *)
Inductive wexp := WFix (z : Z) | WPar (p : ident) | WMul (p q : ident).

Definition unary_types : list string :=
  ["$neg"; "$not"; "$reduce_bool"; "$reduce_or"; "$reduce_and"; "$reduce_xor"]%string.
Definition binary_types : list string :=
  ["$add"; "$sub"; "$mul"; "$divfloor"; "$modfloor"; "$shl"; "$shr"; "$sshr"; "$shift"; "$and"; "$or";
   "$xor"; "$eq"; "$ne"; "$lt"; "$gt"; "$le"; "$ge"]%string.
Definition any_types : list string := ["$anyconst"; "$anyseq"; "$allconst"; "$allseq"]%string.
Definition mem_types : list string := ["$meminit_v2"; "$memwr_v2"; "$memrd_v2"]%string.

Definition print_iface : list (ident * dir * wexp) :=
  [("\EN", DIn, WFix 1); ("\ARGS", DIn, WPar "\ARGS_WIDTH"); ("\TRG", DIn, WPar "\TRG_WIDTH")]%string.

(* the cell types back/rtlil.py emits, with port directions and the parameter that gives each port width *)
Definition prim_iface (ty : string) : option (list (ident * dir * wexp)) :=
  (if smem ty unary_types then
     Some [("\A", DIn, WPar "\A_WIDTH"); ("\Y", DOut, WPar "\Y_WIDTH")]
   else if smem ty binary_types then
     Some [("\A", DIn, WPar "\A_WIDTH"); ("\B", DIn, WPar "\B_WIDTH"); ("\Y", DOut, WPar "\Y_WIDTH")]
   else if String.eqb ty "$mux" then
     Some [("\A", DIn, WPar "\WIDTH"); ("\B", DIn, WPar "\WIDTH"); ("\S", DIn, WFix 1);
           ("\Y", DOut, WPar "\WIDTH")]
   else if String.eqb ty "$dff" then
     Some [("\D", DIn, WPar "\WIDTH"); ("\CLK", DIn, WFix 1); ("\Q", DOut, WPar "\WIDTH")]
   else if String.eqb ty "$adff" then
     Some [("\D", DIn, WPar "\WIDTH"); ("\CLK", DIn, WFix 1); ("\ARST", DIn, WFix 1);
           ("\Q", DOut, WPar "\WIDTH")]
   else if String.eqb ty "$tribuf" then
     Some [("\A", DIn, WPar "\WIDTH"); ("\EN", DIn, WFix 1); ("\Y", DOut, WPar "\WIDTH")]
   else if String.eqb ty "$meminit_v2" then
     Some [("\ADDR", DIn, WPar "\ABITS"); ("\DATA", DIn, WMul "\WIDTH" "\WORDS"); ("\EN", DIn, WPar "\WIDTH")]
   else if String.eqb ty "$memwr_v2" then
     Some [("\ADDR", DIn, WPar "\ABITS"); ("\DATA", DIn, WPar "\WIDTH"); ("\EN", DIn, WPar "\WIDTH");
           ("\CLK", DIn, WFix 1)]
   else if String.eqb ty "$memrd_v2" then
     Some [("\ADDR", DIn, WPar "\ABITS"); ("\DATA", DOut, WPar "\WIDTH"); ("\ARST", DIn, WFix 1);
           ("\SRST", DIn, WFix 1); ("\EN", DIn, WFix 1); ("\CLK", DIn, WFix 1)]
   else if String.eqb ty "$print" then Some print_iface
   else if String.eqb ty "$check" then Some ((print_iface ++ [("\A", DIn, WFix 1)])%list)
   else if smem ty any_types then Some [("\Y", DOut, WPar "\WIDTH")]
   else if String.eqb ty "$initstate" then Some [("\Y", DOut, WFix 1)]
   else None)%string.

Definition eval_wexp (ps : list param) (e : wexp) : option Z :=
  match e with
  | WFix z => Some z
  | WPar p => param_int ps p
  | WMul p q => match param_int ps p, param_int ps q with Some a, Some b => Some (a * b) | _, _ => None end
  end.
Fixpoint eval_iface (ps : list param) (i : list (ident * dir * wexp)) : option (list pdecl) :=
  match i with
  | [] => Some []
  | (n, d, e) :: r =>
      match eval_wexp ps e, eval_iface ps r with
      | Some w, Some l => Some (PD n d w :: l)
      | _, _ => None
      end
  end.

Definition is_private (ty : string) : bool :=
  match ty with String c _ => Ascii.eqb c "$"%char | EmptyString => false end.

(* the ports of a module of the document: its port wires *)
Definition module_ports (m : module) : list pdecl :=
  flat_map (fun w => match wire_dir w with Some d => [PD (w_name w) d (w_width w)] | None => [] end)
           (mod_wires m).
Definition fspec_ports (f : fspec) : list pdecl :=
  map (fun p => PD (fp_name p) (fp_dir p) (fp_width p)) (fs_ports f).

(* What cell `c` of module `mn` must connect.  None: the cell type is unknown — a `$` type outside the
   table (or with a missing width parameter), or a `\type` that is neither a module of the document nor
   the type the design gave for this instance. *)
Definition cell_ports (ex : list fspec) (d : doc) (mn : ident) (c : cell) : option (list pdecl) :=
  if is_private (c_type c) then
    match prim_iface (c_type c) with
    | Some i => eval_iface (c_params c) i
    | None => None
    end
  else
    match find_module (doc_modules d) (c_type c) with
    | Some sm => Some (module_ports sm)
    | None =>
        match find_fspec ex mn (c_name c) with
        | Some f => if String.eqb (fs_type f) (c_type c) then Some (fspec_ports f) else None
        | None => None
        end
    end.

(* clause: the cell connects exactly the declared ports, each with the declared width, within bounds,
   outputs to wire bits only, bidirectional ports to bidirectional wires only *)
Definition PortConnOk (ws : list wire) (s : sigspec) (p : pdecl) : Prop :=
  SigOk ws s /\ sig_width ws s = pd_width p /\
  (pd_dir p = DOut -> Driveable s) /\ (pd_dir p = DInout -> InoutOnly ws s).
Definition port_conn_ok (ws : list wire) (s : sigspec) (p : pdecl) : bool :=
  sig_ok ws s && (sig_width ws s =? pd_width p) &&
  (if dir_eqb (pd_dir p) DOut then driveable s else true) &&
  (if dir_eqb (pd_dir p) DInout then inout_only ws s else true).

Definition ConnsMatch (ws : list wire) (conns : list (ident * sigspec)) (ports : list pdecl) : Prop :=
  NoDup (map fst conns) /\
  (forall n, In n (map fst conns) <-> In n (map pd_name ports)) /\
  (forall n s p, In (n, s) conns -> In p ports -> pd_name p = n -> PortConnOk ws s p).
Definition conns_match (ws : list wire) (conns : list (ident * sigspec)) (ports : list pdecl) : bool :=
  nodupb String.eqb (map fst conns) &&
  forallb (fun n => smem n (map pd_name ports)) (map fst conns) &&
  forallb (fun n => smem n (map fst conns)) (map pd_name ports) &&
  forallb (fun ns => forallb (fun p => if String.eqb (pd_name p) (fst ns) then port_conn_ok ws (snd ns) p
                                        else true) ports) conns.

Definition CellOk (ex : list fspec) (d : doc) (m : module) (c : cell) : Prop :=
  exists ports, cell_ports ex d (mod_name m) c = Some ports /\ ConnsMatch (mod_wires m) (c_conns c) ports.
Definition cell_ok (ex : list fspec) (d : doc) (m : module) (c : cell) : bool :=
  match cell_ports ex d (mod_name m) c with
  | Some ports => conns_match (mod_wires m) (c_conns c) ports
  | None => false
  end.

(* clause: memory cells name a memory of the module, with its row width *)
Definition MemRefOk (m : module) (c : cell) : Prop :=
  smem (c_type c) mem_types = true ->
  exists n mem, find_param (c_params c) "\MEMID"%string = Some (PStr n) /\ find_mem (mod_mems m) n = Some mem /\
                param_int (c_params c) "\WIDTH"%string = Some (m_width mem).
Definition mem_ref_ok (m : module) (c : cell) : bool :=
  if smem (c_type c) mem_types then
    match find_param (c_params c) "\MEMID"%string with
    | Some (PStr n) =>
        match find_mem (mod_mems m) n, param_int (c_params c) "\WIDTH"%string with
        | Some mem, Some w => w =? m_width mem
        | _, _ => false
        end
    | _ => false
    end
  else true.

(* ------------------------------------------------------------------ processes *)
Fixpoint stmt_assigns (s : pstmt) : list (sigspec * sigspec) :=
  match s with
  | PAssign l r => [(l, r)]
  | PSwitch _ cs => flat_map (fun c => flat_map stmt_assigns (snd c)) cs
  end.
(* every switch of the tree with the patterns of all its cases *)
Fixpoint stmt_switches (s : pstmt) : list (sigspec * list (list Z)) :=
  match s with
  | PAssign _ _ => []
  | PSwitch sel cs => (sel, flat_map (fun c => fst c) cs)
                      :: flat_map (fun c => flat_map stmt_switches (snd c)) cs
  end.
Definition proc_assigns (p : process) := flat_map stmt_assigns (p_body p).
Definition proc_switches (p : process) := flat_map stmt_switches (p_body p).

(* clause: connections and assignments: both sides exist, in bounds, equal widths, target is wire bits *)
Definition PairOk (ws : list wire) (lr : sigspec * sigspec) : Prop :=
  SigOk ws (fst lr) /\ SigOk ws (snd lr) /\ Driveable (fst lr) /\
  sig_width ws (fst lr) = sig_width ws (snd lr).
Definition pair_ok (ws : list wire) (lr : sigspec * sigspec) : bool :=
  sig_ok ws (fst lr) && sig_ok ws (snd lr) && driveable (fst lr) &&
  (sig_width ws (fst lr) =? sig_width ws (snd lr)).

Definition SwitchOk (ws : list wire) (sp : sigspec * list (list Z)) : Prop :=
  SigOk ws (fst sp) /\
  forall pat, In pat (snd sp) -> Z.of_nat (List.length pat) = sig_width ws (fst sp) /\
                                  forall b, In b pat -> 0 <= b <= 5.
Definition switch_ok (ws : list wire) (sp : sigspec * list (list Z)) : bool :=
  sig_ok ws (fst sp) &&
  forallb (fun pat => (Z.of_nat (List.length pat) =? sig_width ws (fst sp)) && forallb const_bit_ok pat) (snd sp).

(* ------------------------------------------------------------------ names, ports *)
Definition mod_names (m : module) : list ident :=
  map w_name (mod_wires m) ++ map m_name (mod_mems m) ++ map c_name (mod_cells m) ++ map p_name (mod_procs m).
Definition port_indices (m : module) : list Z :=
  flat_map (fun w => match w_port w with Some (_, k) => [k] | None => [] end) (mod_wires m).

(* ------------------------------------------------------------------ drivers *)
(* bits driven by the output ports of a cell *)
Definition cell_out_bits (ex : list fspec) (d : doc) (m : module) (c : cell) : list sbit :=
  match cell_ports ex d (mod_name m) c with
  | Some ports =>
      flat_map (fun ns => if existsb (fun p => String.eqb (pd_name p) (fst ns) && dir_eqb (pd_dir p) DOut) ports
                          then sig_bits (mod_wires m) (snd ns) else []) (c_conns c)
  | None => []
  end.
(* bits assigned anywhere in a process: one process is ONE driver of each of them *)
Definition proc_targets (ws : list wire) (p : process) : list sbit :=
  flat_map (fun lr => sig_bits ws (fst lr)) (proc_assigns p).

Record drivers := Drv { drv_cells : list sbit; drv_procs : list (list sbit); drv_conns : list sbit }.
Definition mod_drivers (ex : list fspec) (d : doc) (m : module) : drivers :=
  Drv (flat_map (cell_out_bits ex d m) (mod_cells m))
      (map (proc_targets (mod_wires m)) (mod_procs m))
      (flat_map (fun lr => sig_bits (mod_wires m) (fst lr)) (mod_conns m)).
(* number of drivers of a bit inside the module *)
Definition inside_count (dr : drivers) (b : sbit) : nat :=
  (count b (drv_cells dr)
   + List.length (filter (fun t => memb sbit_eqb b t) (drv_procs dr))
   + count b (drv_conns dr))%nat.
(* ... and in total: an input port bit is driven from outside *)
Definition driver_count (dr : drivers) (w : wire) (i : Z) : nat :=
  ((if is_input w then 1 else 0) + inside_count dr (BW (w_name w) i))%nat.

(* every bit a cell port or a connection of the module mentions *)
Definition mod_refs (m : module) : list sbit :=
  flat_map (fun c => flat_map (fun ns => sig_bits (mod_wires m) (snd ns)) (c_conns c)) (mod_cells m) ++
  flat_map (fun lr => sig_bits (mod_wires m) (fst lr) ++ sig_bits (mod_wires m) (snd lr)) (mod_conns m).
(* the top module is the one carrying `attribute \top` *)
Definition is_top (m : module) : bool := existsb (fun a => String.eqb (fst a) "\top"%string) (mod_attrs m).

(* ------------------------------------------------------------------ the property, per module *)
Record WfModule (ex : list fspec) (d : doc) (m : module) : Prop := {
  (* names are unique within a module: wires, memories, cells and processes share one namespace *)
  wf_names_unique : NoDup (mod_names m);
  wf_widths : forall w, In w (mod_wires m) -> 0 <= w_width w;
  wf_mem_dims : forall x, In x (mod_mems m) -> 0 <= m_width x /\ 0 <= m_size x;
  (* port indices are unique and dense: exactly 0 .. n-1 (the emitter numbers from 0) *)
  wf_port_unique : NoDup (port_indices m);
  wf_port_dense : forall k, In k (port_indices m) -> 0 <= k < Z.of_nat (List.length (port_indices m));
  (* connections: referenced wires exist, slices within bounds, equal widths *)
  wf_connects : forall lr, In lr (mod_conns m) -> PairOk (mod_wires m) lr;
  (* cells: known type (table, module of the document, or given instance); exactly the declared ports,
     declared widths and directions *)
  wf_cells : forall c, In c (mod_cells m) -> CellOk ex d m c;
  wf_mem_refs : forall c, In c (mod_cells m) -> MemRefOk m c;
  (* process assignments and switches *)
  wf_assigns : forall p, In p (mod_procs m) -> forall lr, In lr (proc_assigns p) -> PairOk (mod_wires m) lr;
  wf_switches : forall p, In p (mod_procs m) -> forall sp, In sp (proc_switches p) -> SwitchOk (mod_wires m) sp;
  (* every bit of every wire that is not bidirectional has exactly one driver *)
  wf_one_driver : forall w, In w (mod_wires m) -> is_inout w = false ->
                  forall i, 0 <= i < w_width w -> driver_count (mod_drivers ex d m) w i = 1%nat;
  (* inputs are never driven from inside *)
  wf_inputs_free : forall w, In w (mod_wires m) -> is_input w = true ->
                   forall i, 0 <= i < w_width w -> inside_count (mod_drivers ex d m) (BW (w_name w) i) = 0%nat;
  (* bidirectional port wires are exempt from the driver rule, but below the top every one of their bits is
     connected to something (a module only has an I/O-port wire for the port bits it or its submodules use) *)
  wf_inout_used : is_top m = false -> forall w, In w (mod_wires m) -> is_inout w = true ->
                  forall i, 0 <= i < w_width w -> In (BW (w_name w) i) (mod_refs m)
}.

Definition bit_range (w : wire) : list Z := zrange 0 (Z.to_nat (w_width w)).
Definition inout_used_b (refs : list sbit) (ws : list wire) : bool :=
  forallb (fun w => if is_inout w then forallb (fun i => memb sbit_eqb (BW (w_name w) i) refs) (bit_range w)
                    else true) ws.

Definition one_driver_b (dr : drivers) (ws : list wire) : bool :=
  forallb (fun w => if is_inout w then true
                    else forallb (fun i => Nat.eqb (driver_count dr w i) 1) (bit_range w)) ws.
Definition inputs_free_b (dr : drivers) (ws : list wire) : bool :=
  forallb (fun w => if is_input w
                    then forallb (fun i => Nat.eqb (inside_count dr (BW (w_name w) i)) 0) (bit_range w)
                    else true) ws.

(* the clauses of the checker, in the order of WfModule (used by the diagnostics of the harness too) *)
Definition module_checks (ex : list fspec) (d : doc) (m : module) : list bool :=
  let ws := mod_wires m in
  let dr := mod_drivers ex d m in
  [ nodupb String.eqb (mod_names m);
    forallb (fun w => 0 <=? w_width w) ws;
    forallb (fun x => (0 <=? m_width x) && (0 <=? m_size x)) (mod_mems m);
    nodupb Z.eqb (port_indices m);
    forallb (fun k => (0 <=? k) && (k <? Z.of_nat (List.length (port_indices m)))) (port_indices m);
    forallb (pair_ok ws) (mod_conns m);
    forallb (cell_ok ex d m) (mod_cells m);
    forallb (mem_ref_ok m) (mod_cells m);
    forallb (fun p => forallb (pair_ok ws) (proc_assigns p)) (mod_procs m);
    forallb (fun p => forallb (switch_ok ws) (proc_switches p)) (mod_procs m);
    one_driver_b dr ws;
    inputs_free_b dr ws;
    (if is_top m then true else inout_used_b (mod_refs m) ws) ].
Definition wf_module (ex : list fspec) (d : doc) (m : module) : bool :=
  forallb (fun b => b) (module_checks ex d m).

(* ------------------------------------------------------------------ foreign instances *)
(* same elements, irrespective of order *)
Definition SameSet {A} (a b : list A) : Prop := List.length a = List.length b /\ forall x, In x a <-> In x b.
Definition same_set {A} (e : A -> A -> bool) (a b : list A) : bool :=
  Nat.eqb (List.length a) (List.length b) && forallb (fun x => memb e x b) a && forallb (fun x => memb e x a) b.

Definition FportOk (ws : list wire) (c : cell) (p : fport) : Prop :=
  forall s, fp_conn p = Some s ->
  exists s', In (fp_name p, s') (c_conns c) /\ sig_bits ws s' = sig_bits ws s.
Definition fport_ok (ws : list wire) (c : cell) (p : fport) : bool :=
  match fp_conn p with
  | None => true
  | Some s => existsb (fun ns => String.eqb (fst ns) (fp_name p) &&
                                 list_eqb sbit_eqb (sig_bits ws (snd ns)) (sig_bits ws s)) (c_conns c)
  end.

(* ---- back/rtlil.py _const() / _signed() for parameter and attribute values
   def _const(value):
       if isinstance(value, str): return f"\"{value.translate(_escape_map)}\""
       elif isinstance(value, int):
           if value in range(0, 2**31-1): return f"{value:d}"
           else:
               width = max(32, bits_for(value))
               return _const(_ast.Const(value, width))
       elif isinstance(value, _ast.Const):
           value_twos_compl = value.value & ((1 << len(value)) - 1)
           return "{}'{:0{}b}".format(len(value), value_twos_compl, len(value))
   Cell.emit: float -> `parameter real \n "<repr>"`; _signed(value) -> `parameter signed` (int: value < 0,
   Const: signed shape).  Attributes are written without a flag. *)
(* the n low bits of v in two's complement, LSB first *)
Fixpoint bits_lsb (n : nat) (v : Z) : list Z :=
  match n with O => [] | S k => (v mod 2) :: bits_lsb k (v / 2) end.
Definition const_width (v : Z) : Z := Z.max 32 (Shape.bits_for v false).
(* (flag, text): flag 0 plain, 1 signed, 2 real *)
Definition emit_int (v : Z) : Z * pval :=
  if (0 <=? v) && (v <? 2 ^ 31 - 1) then (0, PInt v)
  else ((if v <? 0 then 1 else 0), PBits (bits_lsb (Z.to_nat (const_width v)) v)).
Definition emit_xval (x : xval) : Z * pval :=
  match x with
  | XInt v => emit_int v
  | XConst v w sg => ((if sg then 1 else 0), PBits (bits_lsb (Z.to_nat w) v))
  | XStr s => (0, PStr s)
  | XReal r => (2, PStr r)
  end.
Definition xparam_text (nx : ident * xval) : param :=
  Par (fst nx) (fst (emit_xval (snd nx))) (snd (emit_xval (snd nx))).
Definition xattr_text (nx : ident * xval) : attr := (fst nx, snd (emit_xval (snd nx))).

(* ---- reading a constant back: the integer a `[signed] W'bits` / decimal constant denotes *)
Fixpoint unsigned_of (bits : list Z) : Z :=
  match bits with [] => 0 | b :: r => b + 2 * unsigned_of r end.
Definition is01 (b : Z) : bool := (b =? 0) || (b =? 1).
Definition decode_bits (sg : bool) (bits : list Z) : Z :=
  norm (Sh (Z.of_nat (List.length bits)) sg) (unsigned_of bits).
Definition decode_param (flag : Z) (p : pval) : option Z :=
  match p with
  | PInt z => Some z
  | PBits bits => if forallb is01 bits then Some (decode_bits (flag =? 1) bits) else None
  | PStr _ => None
  end.
(* the integer the design meant (None: not a number) *)
Definition xval_num (x : xval) : option Z :=
  match x with
  | XInt v => Some v
  | XConst v w sg => Some (norm (Sh w sg) v)
  | _ => None
  end.
Definition optz_eqb (o : option Z) (v : Z) : bool := match o with Some u => u =? v | None => false end.

(* numeric clause: the constant written for the parameter denotes the given integer *)
Definition ParamNumOk (ps : list param) (nx : ident * xval) : Prop :=
  forall v, xval_num (snd nx) = Some v ->
  exists p, In p ps /\ par_name p = fst nx /\ decode_param (par_flag p) (par_val p) = Some v.
Definition param_num_ok (ps : list param) (nx : ident * xval) : bool :=
  match xval_num (snd nx) with
  | None => true
  | Some v => existsb (fun p => String.eqb (par_name p) (fst nx) &&
                                optz_eqb (decode_param (par_flag p) (par_val p)) v) ps
  end.
(* attributes carry no `signed` marker in the text: read with the signedness of the given value *)
Definition AttrNumOk (ats : list attr) (nx : ident * xval) : Prop :=
  forall v, xval_num (snd nx) = Some v ->
  exists a, In a ats /\ fst a = fst nx /\ decode_param (fst (emit_xval (snd nx))) (snd a) = Some v.
Definition attr_num_ok (ats : list attr) (nx : ident * xval) : bool :=
  match xval_num (snd nx) with
  | None => true
  | Some v => existsb (fun a => String.eqb (fst a) (fst nx) &&
                                optz_eqb (decode_param (fst (emit_xval (snd nx))) (snd a)) v) ats
  end.

(* the instance appears with exactly the given type, parameters, attributes and port connections
   (port names, directions and widths are the CellOk clause, through cell_ports): the parameter / attribute
   constants are exactly what _const writes for the given values, and denote the given integers *)
Definition CellIs (f : fspec) (m : module) (c : cell) : Prop :=
  mod_name m = fs_module f /\ c_name c = fs_cell f /\ c_type c = fs_type f /\
  SameSet (c_params c) (map xparam_text (fs_params f)) /\ SameSet (c_attrs c) (map xattr_text (fs_attrs f)) /\
  (forall nx, In nx (fs_params f) -> ParamNumOk (c_params c) nx) /\
  (forall nx, In nx (fs_attrs f) -> AttrNumOk (c_attrs c) nx) /\
  forall p, In p (fs_ports f) -> FportOk (mod_wires m) c p.
Definition cell_is (f : fspec) (m : module) (c : cell) : bool :=
  String.eqb (mod_name m) (fs_module f) && String.eqb (c_name c) (fs_cell f) &&
  String.eqb (c_type c) (fs_type f) &&
  same_set param_eqb (c_params c) (map xparam_text (fs_params f)) &&
  same_set attr_eqb (c_attrs c) (map xattr_text (fs_attrs f)) &&
  forallb (param_num_ok (c_params c)) (fs_params f) &&
  forallb (attr_num_ok (c_attrs c)) (fs_attrs f) &&
  forallb (fport_ok (mod_wires m) c) (fs_ports f).

Definition ForeignOk (d : doc) (f : fspec) : Prop :=
  find_module (doc_modules d) (fs_type f) = None /\
  exists m c, In m (doc_modules d) /\ In c (mod_cells m) /\ CellIs f m c.
Definition foreign_ok (d : doc) (f : fspec) : bool :=
  match find_module (doc_modules d) (fs_type f) with Some _ => false | None => true end &&
  existsb (fun m => existsb (cell_is f m) (mod_cells m)) (doc_modules d).

(* ------------------------------------------------------------------ the property, per document *)
Record WellFormed (ex : list fspec) (d : doc) : Prop := {
  wf_module_names : NoDup (map mod_name (doc_modules d));
  wf_modules : forall m, In m (doc_modules d) -> WfModule ex d m;
  wf_foreign : forall f, In f ex -> ForeignOk d f
}.
Definition wf_doc (ex : list fspec) (d : doc) : bool :=
  nodupb String.eqb (map mod_name (doc_modules d)) &&
  forallb (wf_module ex d) (doc_modules d) &&
  forallb (foreign_ok d) ex.

(* diagnostics for the harness: (module index, failing clause number) pairs; clause 100 = duplicate module
   names, 200 + k = k-th expected instance not found as given *)
Fixpoint failing_from (k : Z) (bs : list bool) : list Z :=
  match bs with [] => [] | b :: r => (if b then [] else [k]) ++ failing_from (k + 1) r end.
Fixpoint diag_modules (ex : list fspec) (d : doc) (k : Z) (ms : list module) : list Z :=
  match ms with
  | [] => []
  | m :: r => flat_map (fun c => [k; c]) (failing_from 0 (module_checks ex d m)) ++ diag_modules ex d (k + 1) r
  end.
Definition diag_doc (ex : list fspec) (d : doc) : list Z :=
  (if nodupb String.eqb (map mod_name (doc_modules d)) then [] else [-1; 100]) ++
  diag_modules ex d 0 (doc_modules d) ++
  flat_map (fun c => [-1; c]) (failing_from 200 (map (foreign_ok d) ex)).

(* ------------------------------------------------------------------ naming (hdl/_ir.py) *)
(* def _add_name(assigned_names, name):
       if name in assigned_names:
           index = len(assigned_names)
           while f"{name}${index}" in assigned_names:
               index += 1
           name = f"{name}${index}"
       assigned_names.add(name)
       return name
   The set is modelled by a duplicate-free list (so len() is its length).  The while loop runs on fuel
   |assigned| + 1; None = out of fuel, which never happens (Proofs/RtlilP.v: find_index_total). *)
Definition dec (n : nat) : string := NilEmpty.string_of_uint (Nat.to_uint n).
Definition gen_name (name : string) (k : nat) : string := (name ++ "$" ++ dec k)%string.
Fixpoint find_index (fuel : nat) (assigned : list string) (name : string) (index : nat) : option nat :=
  match fuel with
  | O => None
  | S f => if smem (gen_name name index) assigned then find_index f assigned name (S index)
           else Some index
  end.
Definition add_name (assigned : list string) (name : string) : option (string * list string) :=
  if smem name assigned then
    match find_index (S (List.length assigned)) assigned name (List.length assigned) with
    | Some i => let name' := gen_name name i in Some (name', name' :: assigned)
    | None => None
    end
  else Some (name, name :: assigned).
(* the loop of Design._assign_names over the names wanted in one fragment (signals, then IO ports, then
   subfragments), starting from the reserved names (top-level port names) *)
Fixpoint assign_names (assigned : list string) (wanted : list string) : option (list string * list string) :=
  match wanted with
  | [] => Some ([], assigned)
  | n :: r =>
      match add_name assigned n with
      | None => None
      | Some (n', assigned') =>
          match assign_names assigned' r with
          | None => None
          | Some (out, fin) => Some (n' :: out, fin)
          end
      end
  end.

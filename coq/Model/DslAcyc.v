(* DslAcyc.v — a decidable "no combinational loop" check for the comb statements of a design (Model/DslRaw.v):
   the signals are ranked (rank 0 = not driven by comb logic) and every comb assignment reads — in its right-hand side,
   in the selectors of its target and in the tests of the Switches around it — only signals of strictly lower rank
   than the signals it assigns (which all have the same rank).  `compute_rank` finds such a ranking when there is one.
   No proofs here (Proofs/DslAcycP.v: the check implies that the delta-cycle loop terminates). *)
From Coq Require Import ZArith List Bool.
From V.Model Require Import Bits Shape Ast Denote PyRTL PyEval Stmt Process Derived Dsl DslRaw.
Import ListNotations.
Open Scope Z_scope.

(* every signal occurring in an expression *)
Fixpoint reads (e : expr) : list nat :=
  match e with
  | EConst _ _ => []
  | ESig i _ => [i]
  | EOp1 _ a => reads a
  | EOp2 _ a b => reads a ++ reads b
  | ESlice a _ _ => reads a
  | EPart a off _ _ => reads a ++ reads off
  | ECat ps => flat_map reads ps
  | ESwitch t cs => reads t ++ flat_map (fun c => reads (snd c)) cs
  end.

(* the signals a TARGET reads (in `curr`): offsets of part-selects, tests of array / switch targets *)
Fixpoint sel_reads (l : expr) : list nat :=
  match l with
  | EOp1 _ a => sel_reads a
  | ESlice a _ _ => sel_reads a
  | EPart a off _ _ => sel_reads a ++ reads off
  | ECat ps => flat_map sel_reads ps
  | ESwitch t cs => reads t ++ flat_map (fun c => sel_reads (snd c)) cs
  | _ => []
  end.

(* every signal assigned somewhere in a statement *)
Fixpoint stmt_tsigs (s : stmt) : list nat :=
  match s with
  | SAssign l _ => sigs_of l
  | SSwitch _ cs => flat_map (fun c => flat_map stmt_tsigs (snd c)) cs
  end.

(* a statement respects (Pc, Pn): an assignment that assigns a signal of Pn assigns only signals of Pn and reads
   only signals of Pc, and so do the tests of the Switches around it *)
Fixpoint resp (Pc Pn : nat -> bool) (s : stmt) : bool :=
  match s with
  | SAssign l r =>
      negb (existsb Pn (sigs_of l)) ||
      (forallb Pn (sigs_of l) && forallb Pc (sel_reads l) && forallb Pc (reads r))
  | SSwitch t cs =>
      negb (existsb Pn (stmt_tsigs s)) ||
      (forallb Pc (reads t) && forallb (fun c => forallb (resp Pc Pn) (snd c)) cs)
  end.

(* every target is an assignable expression *)
Fixpoint targets_wf (s : stmt) : bool :=
  match s with
  | SAssign l _ => wf_lhs l
  | SSwitch _ cs => forallb (fun c => forallb targets_wf (snd c)) cs
  end.

Definition comb_of (m : list (list stmt)) : list stmt := nth 0 m [].
Definition drives (i : nat) (ss : list stmt) : bool := negb (stmts_mask ss i =? 0).
Definition n_drivers (mods : design) (i : nat) : nat := length (filter (fun m => drives i (comb_of m)) mods).

(* signals < n; rank 0 exactly for the signals no comb statement can drive, at most one module drives a signal, ranks
   bounded by R, and at every level r the statements of every module respect
   (signals < n of rank < r,  signals the module drives of rank r) *)
Definition acyclic_ok (n : nat) (rank : nat -> nat) (R : nat) (mods : design) : bool :=
  forallb (fun m => forallb targets_wf (comb_of m)) mods &&
  forallb (fun i => Nat.leb (n_drivers mods i) 1 && Nat.leb (rank i) R &&
                    Bool.eqb (Nat.eqb (rank i) 0) (Nat.eqb (n_drivers mods i) 0)) (seq 0 n) &&
  forallb (fun r =>
     forallb (fun m =>
        forallb (resp (fun k => Nat.ltb k n && Nat.ltb (rank k) r)
                      (fun k => drives k (comb_of m) && Nat.eqb (rank k) r)) (comb_of m)) mods) (seq 1 R).

(* ---------- finding a ranking ---------- *)
(* the assignments of a statement: (signals assigned, signals read incl. the tests around it) *)
Fixpoint stmt_assigns (ctl : list nat) (s : stmt) : list (list nat * list nat) :=
  match s with
  | SAssign l r => [(sigs_of l, ctl ++ sel_reads l ++ reads r)]
  | SSwitch t cs => flat_map (fun c => flat_map (stmt_assigns (ctl ++ reads t)) (snd c)) cs
  end.

Definition max_rank (rk : list nat) (l : list nat) : nat := fold_left (fun a k => Nat.max a (nth k rk O)) l O.

Definition rank_step (rk : list nat) (a : list nat * list nat) : list nat :=
  let cur := Nat.max (S (max_rank rk (snd a))) (max_rank rk (fst a)) in
  map (fun kr => if memb (fst kr) (fst a) then cur else snd kr) (combine (seq 0 (length rk)) rk).

Fixpoint iter_rank (fuel : nat) (asg : list (list nat * list nat)) (rk : list nat) : list nat :=
  match fuel with O => rk | S f => iter_rank f asg (fold_left rank_step asg rk) end.

Definition compute_rank (n : nat) (mods : design) : list nat :=
  iter_rank (S n) (flat_map (fun m => flat_map (stmt_assigns []) (comb_of m)) mods) (repeat O n).

(* the check with the computed ranking: (ok, largest rank) *)
Definition acyclic_auto (n : nat) (mods : design) : bool * nat :=
  let rk := compute_rank n mods in
  let R := fold_left Nat.max rk O in
  (acyclic_ok n (fun k => nth k rk O) R mods, R).

(* Cdc.v — model of amaranth/lib/cdc.py (FFSynchronizer, AsyncFFSynchronizer, ResetSynchronizer,
   PulseSynchronizer) as seen by the Python simulator, plus the vocabulary used to state C17.
   No proofs here (see Proofs/CdcP.v).

   Time is a list of events.  An event is one of
     Ein v  the (asynchronous) input is driven to v
     Eo     active edge of the output-domain clock
     Ei     active edge of the input-domain clock (only PulseSynchronizer has one)
     Eb     both clocks have an active edge at the same instant
     Enop   anything that is not an active edge (falling edges of either clock)
   A register written at an edge reads the values of the other registers from just before the edge
   (all right-hand sides are sampled before any register commits), which is what makes Eb differ from
   Eo;Ei and Ei;Eo in general. *)
From Coq Require Import ZArith List Bool.
From V.Model Require Import Bits.
Import ListNotations.
Open Scope Z_scope.

Inductive event := Ein (v : Z) | Eo | Ei | Eb | Enop.

Definition is_oedge (e : event) : bool := match e with Eo | Eb => true | _ => false end.
Definition is_iedge (e : event) : bool := match e with Ei | Eb => true | _ => false end.
Definition count_oedges (evs : list event) : nat := length (filter is_oedge evs).

(* `for i, o in zip((self.i, *flops), flops): m.d[o_domain] += o.eq(i)`:
   flops'[k] = (x :: flops)[k] for k < len(flops) *)
Definition shift_in {A} (x : A) (flops : list A) : list A := firstn (length flops) (x :: flops).

(* ------------------------------------------------------------------ FFSynchronizer *)
(* i, o and the flops have shape sh = i.shape() (i is any value expression, not necessarily a Signal);
   the flops are reset_less (default).  The flops' initial value is the CONSTRUCTOR argument `init`
   (`if init is None: init = 0`), a quantity independent of the input's own initial value i0:
   `Signal(self.i.shape(), init=self._init)`. *)
Record ff_state := FF { ff_in : Z; ff_flops : list Z }.

(* __init__: init=None -> 0 *)
Definition ff_ctor_init (init : option Z) : Z := match init with None => 0 | Some v => v end.

Definition ff_chain (sh : shape) (stages : nat) (init : option Z) : list Z :=
  repeat (norm sh (ff_ctor_init init)) stages.

(* i0 = the value of the input expression at time 0 (e.g. the init of an input Signal) *)
Definition ff_start (sh : shape) (stages : nat) (init : option Z) (i0 : Z) : ff_state :=
  FF (norm sh i0) (ff_chain sh stages init).

Definition ff_step (sh : shape) (s : ff_state) (e : event) : ff_state :=
  match e with
  | Ein v => FF (norm sh v) (ff_flops s)
  | Eo | Eb => FF (ff_in s) (shift_in (ff_in s) (ff_flops s))
  | Ei | Enop => s
  end.

(* m.d.comb += self.o.eq(flops[-1]) *)
Definition ff_out (s : ff_state) : Z := last (ff_flops s) 0.

Definition ff_run (sh : shape) (stages : nat) (init : option Z) (i0 : Z) (evs : list event) : ff_state :=
  fold_left (ff_step sh) evs (ff_start sh stages init i0).

(* specification vocabulary: the input value present after the events / at each output edge *)
Fixpoint input_after (sh : shape) (i : Z) (evs : list event) : Z :=
  match evs with
  | [] => i
  | Ein v :: r => input_after sh (norm sh v) r
  | _ :: r => input_after sh i r
  end.

(* sampled sh i evs = [input just before output edge 1; ... before output edge n] *)
Fixpoint sampled (sh : shape) (i : Z) (evs : list event) : list Z :=
  match evs with
  | [] => []
  | Ein v :: r => sampled sh (norm sh v) r
  | Eo :: r | Eb :: r => i :: sampled sh i r
  | _ :: r => sampled sh i r
  end.

(* the input is not driven during evs *)
Definition input_held (evs : list event) : bool :=
  forallb (fun e => match e with Ein _ => false | _ => true end) evs.

(* ------------------------------------------------------------------ AsyncFFSynchronizer / ResetSynchronizer *)
(* A private domain `async_ff` (async_reset=True) whose clock is the output-domain clock; `stages`
   1-bit flops with init 1, the first one loads the constant 0; reset = i (async_edge="pos") or ~i.
   The simulator runs the domain's process when clk rises or when rst rises; the process computes the
   shifted values and then, if rst is 1 at that moment, overrides every flop by its init.
   ResetSynchronizer(arst, domain, stages) is AsyncFFSynchronizer(arst, ResetSignal(domain),
   o_domain=domain, stages=stages) with async_edge="pos"; its output is the reset of `domain`.
   RequirePosedge(o_domain) is a precondition (elaboration fails on a negedge domain). *)
Record af_state := AF { af_in : bool; af_flops : list bool }.

(* ResetSignal("async_ff").eq(self.i) / .eq(~self.i), i has one bit *)
Definition af_rst (pos : bool) (i : bool) : bool := if pos then i else negb i.

Definition af_start (stages : nat) (i0 : Z) : af_state := AF (Z.odd i0) (repeat true stages).

Definition af_reset_all (flops : list bool) : list bool := repeat true (length flops).

Definition af_step (pos : bool) (s : af_state) (e : event) : af_state :=
  match e with
  | Ein v =>
      let i' := Z.odd v in
      AF i' (if negb (af_rst pos (af_in s)) && af_rst pos i'     (* rst rises: the process runs *)
             then af_reset_all (af_flops s) else af_flops s)
  | Eo | Eb =>
      AF (af_in s) (if af_rst pos (af_in s) then af_reset_all (af_flops s)
                    else shift_in false (af_flops s))
  | Ei | Enop => s
  end.

Definition af_out (s : af_state) : bool := last (af_flops s) false.

Definition af_run (pos : bool) (stages : nat) (i0 : Z) (evs : list event) : af_state :=
  fold_left (af_step pos) evs (af_start stages i0).

(* ResetSynchronizer(arst, domain, stages): async_edge = "pos", the output is ResetSignal(domain) *)
Definition rs_run (stages : nat) (i0 : Z) (evs : list event) : af_state := af_run true stages i0 evs.

(* specification vocabulary *)
Fixpoint af_input_after (i : bool) (evs : list event) : bool :=
  match evs with
  | [] => i
  | Ein v :: r => af_input_after (Z.odd v) r
  | _ :: r => af_input_after i r
  end.

(* no event of the list asserts the input *)
Fixpoint af_stays_released (pos : bool) (evs : list event) : bool :=
  match evs with
  | [] => true
  | Ein v :: r => negb (af_rst pos (Z.odd v)) && af_stays_released pos r
  | _ :: r => af_stays_released pos r
  end.

(* number of output edges since the input was last asserted (c = the count so far); 0 while asserted *)
Fixpoint rel_edges (pos : bool) (i : bool) (c : nat) (evs : list event) : nat :=
  match evs with
  | [] => c
  | Ein v :: r => rel_edges pos (Z.odd v) (if af_rst pos (Z.odd v) then O else c) r
  | Eo :: r | Eb :: r => rel_edges pos i (if af_rst pos i then O else S c) r
  | _ :: r => rel_edges pos i c r
  end.

(* ------------------------------------------------------------------ PulseSynchronizer *)
(* i_toggle (input domain) ; FFSynchronizer(i_toggle, o_toggle, stages) and r_toggle (output domain);
   o = o_toggle ^ r_toggle.  All registers are 1 bit wide with init 0. *)
Record ps_state := PS { ps_i : bool; ps_itog : bool; ps_chain : list bool; ps_r : bool }.

Definition ps_otog (s : ps_state) : bool := last (ps_chain s) false.

Definition ps_start (stages : nat) (i0 : Z) : ps_state := PS (Z.odd i0) false (repeat false stages) false.

Definition ps_step (s : ps_state) (e : event) : ps_state :=
  match e with
  | Ein v => PS (Z.odd v) (ps_itog s) (ps_chain s) (ps_r s)
  | Ei => PS (ps_i s) (xorb (ps_itog s) (ps_i s)) (ps_chain s) (ps_r s)
  | Eo => PS (ps_i s) (ps_itog s) (shift_in (ps_itog s) (ps_chain s)) (ps_otog s)
  | Eb => PS (ps_i s) (xorb (ps_itog s) (ps_i s)) (shift_in (ps_itog s) (ps_chain s)) (ps_otog s)
  | Enop => s
  end.

Definition ps_out (s : ps_state) : bool := xorb (ps_otog s) (ps_r s).

Definition ps_runfrom (s : ps_state) (evs : list event) : ps_state := fold_left ps_step evs s.
Definition ps_run (stages : nat) (i0 : Z) (evs : list event) : ps_state := ps_runfrom (ps_start stages i0) evs.

(* specification vocabulary.
   An input pulse is an input-domain edge at which i = 1. *)
Fixpoint in_pulses (i : bool) (evs : list event) : nat :=
  match evs with
  | [] => O
  | Ein v :: r => in_pulses (Z.odd v) r
  | Ei :: r | Eb :: r => ((if i then 1 else 0) + in_pulses i r)%nat
  | _ :: r => in_pulses i r
  end.

(* number of output-domain cycles (intervals starting at an output edge) during which o = 1 *)
Fixpoint out_cycles (s : ps_state) (evs : list event) : nat :=
  match evs with
  | [] => O
  | e :: r => let s' := ps_step s e in
              ((if is_oedge e && ps_out s' then 1 else 0) + out_cycles s' r)%nat
  end.

(* consecutive input pulses are separated by an output-domain edge.  pending = an input pulse has
   happened since the last output edge.  At Eb the output-domain registers sample the values from
   before the edge, so the output edge of Eb separates the pulse of Eb from EARLIER pulses only. *)
Fixpoint separated (i pending : bool) (evs : list event) : bool :=
  match evs with
  | [] => true
  | Ein v :: r => separated (Z.odd v) pending r
  | Eo :: r => separated i false r
  | Ei :: r => if i then negb pending && separated i true r else separated i pending r
  | Eb :: r => separated i i r
  | Enop :: r => separated i pending r
  end.

(* pulses that have entered the synchroniser and not yet appeared at the output:
   adjacent positions of i_toggle :: chain holding different values *)
Fixpoint diffs (l : list bool) : nat :=
  match l with
  | a :: (b :: _) as r => ((if xorb a b then 1 else 0) + diffs r)%nat
  | _ => O
  end.
Definition inflight (s : ps_state) : nat := diffs (ps_itog s :: ps_chain s).

(* toggles (input-domain edges with i = 1) seen so far, as a parity: the value of i_toggle *)
Fixpoint toggle_after (i t : bool) (evs : list event) : bool :=
  match evs with
  | [] => t
  | Ein v :: r => toggle_after (Z.odd v) t r
  | Ei :: r | Eb :: r => toggle_after i (xorb t i) r
  | _ :: r => toggle_after i t r
  end.

(* the values of i_toggle seen by the output edges *)
Fixpoint tsampled (i t : bool) (evs : list event) : list bool :=
  match evs with
  | [] => []
  | Ein v :: r => tsampled (Z.odd v) t r
  | Eo :: r => t :: tsampled i t r
  | Ei :: r => tsampled i (xorb t i) r
  | Eb :: r => t :: tsampled i (xorb t i) r
  | Enop :: r => tsampled i t r
  end.

(* the number of input pulses in each interval between output edges: element j (0-based) counts the
   pulses after output edge j (after the start for j = 0) and before output edge j + 1; c = pulses
   counted so far in the current interval.  The pulse of an Eb belongs to the interval that follows. *)
Fixpoint pulse_slots (i : bool) (c : nat) (evs : list event) : list nat :=
  match evs with
  | [] => []
  | Ein v :: r => pulse_slots (Z.odd v) c r
  | Eo :: r => c :: pulse_slots i O r
  | Ei :: r => pulse_slots i (if i then S c else c) r
  | Eb :: r => c :: pulse_slots i (if i then 1%nat else O) r
  | Enop :: r => pulse_slots i c r
  end.
(* pulses in the interval that ends at output edge j (1-based); nothing before the first edge *)
Definition slot_at (sl : list nat) (j : nat) : nat := match j with O => O | S j' => nth j' sl O end.

(* ------------------------------------------------------------------ constructor checks *)
(* _check_stages: 0 = accepted, 1 = TypeError (stages < 1), 2 = ValueError (stages < 2) *)
Definition check_stages (stages : Z) : Z := if stages <? 1 then 1 else if stages <? 2 then 2 else 0.

(* ------------------------------------------------------------------ FFSynchronizer under the output domain's reset *)
(* The output domain has a reset signal rst driven from outside (sync reset by default, or
   ClockDomain(async_reset=True)); the flops are `reset_less` (constructor default True) or not.
   Simulator process of the domain at an active clock edge: next = shifted values; if rst: every flop
   that is not reset_less takes its init.  In an async-reset domain a rise of rst with no clock edge
   only loads init into the flops that are not reset_less; reset_less flops keep their value
   (/repo 574e1db; before it the whole process ran and reset_less flops shifted: finding F7). *)
Inductive revent := Rev (e : event) | Rrst (b : bool).

Record ffr_state := FFR { fr_ff : ff_state; fr_rst : bool }.

Definition ffr_process (sh : shape) (init : option Z) (rl : bool) (rst : bool) (f : ff_state) : ff_state :=
  FF (ff_in f) (if rst && negb rl then ff_chain sh (length (ff_flops f)) init
                else shift_in (ff_in f) (ff_flops f)).

Definition ffr_step (sh : shape) (init : option Z) (async rl : bool) (s : ffr_state) (e : revent) : ffr_state :=
  match e with
  | Rev Eo | Rev Eb => FFR (ffr_process sh init rl (fr_rst s) (fr_ff s)) (fr_rst s)
  | Rev e' => FFR (ff_step sh (fr_ff s) e') (fr_rst s)
  | Rrst b => FFR (if async && negb (fr_rst s) && b && negb rl
                   then FF (ff_in (fr_ff s)) (ff_chain sh (length (ff_flops (fr_ff s))) init)
                   else fr_ff s) b
  end.

Definition ffr_start (sh : shape) (stages : nat) (init : option Z) (i0 : Z) : ffr_state :=
  FFR (ff_start sh stages init i0) false.

Definition ffr_run (sh : shape) (stages : nat) (init : option Z) (async rl : bool) (i0 : Z)
                   (evs : list revent) : ffr_state :=
  fold_left (ffr_step sh init async rl) evs (ffr_start sh stages init i0).

(* specification vocabulary *)
Definition erase_rst (evs : list revent) : list event :=
  flat_map (fun e => match e with Rev e' => [e'] | Rrst _ => [] end) evs.
Definition rst_never (evs : list revent) : bool :=
  forallb (fun e => match e with Rrst true => false | _ => true end) evs.
Fixpoint rst_after (r : bool) (evs : list revent) : bool :=
  match evs with [] => r | Rrst b :: t => rst_after b t | _ :: t => rst_after r t end.

(* o may have another shape than i: m.d.comb += self.o.eq(flops[-1]) truncates / extends *)
Definition ff_out_as (osh : shape) (s : ff_state) : Z := norm osh (ff_out s).

(* which components contain RequirePosedge(o_domain): 0 FFSynchronizer, 1 AsyncFFSynchronizer,
   2 ResetSynchronizer (through AsyncFFSynchronizer), 3 PulseSynchronizer *)
Definition requires_posedge (comp : Z) : bool := (comp =? 1) || (comp =? 2).

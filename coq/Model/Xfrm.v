(* Xfrm.v — clock domains, the per-domain processes of a fragment tree, the delta-cycle engine for
   testbench-written events, and the control inserters / domain renamer of hdl/_xfrm.py.
   Mirrors:  hdl/_xfrm.py  LHSMaskCollector.chunks, _ControlInserter.on_fragment, ResetInserter._insert_control,
                           EnableInserter._insert_control, DomainRenamer.map_statements, TransformedElaboratable
             hdl/_ir.py    Fragment.add_statements
             sim/_pyrtl.py _FragmentCompiler (one process per fragment and domain), edge_waker
             sim/pysim.py  _PySignalState.commit (wakers), PySimEngine.step_design
   Memories are not modelled here.  No proofs here. *)
From Coq Require Import ZArith List Bool.
From V.Model Require Import Bits Shape Ast Denote PyRTL PyEval Stmt Process.
Import ListNotations.
Open Scope Z_scope.

(* ---------- domains and fragments ---------- *)
Notation dom := nat (only parsing).   (* 0 is "comb" *)
Record domcfg := { d_clk : nat; d_pos : bool; d_rst : option nat; d_async : bool }.
Definition domtab := dom -> domcfg.

(* Fragment: statements per domain (a dict: keys unique, insertion order) and subfragments *)
Inductive frag := Frag (stmts : list (dom * list stmt)) (subs : list frag).

(* Fragment.add_statements: statements.setdefault(domain, []).append(stmt) for every stmt *)
Fixpoint add_stmts_ne (d : dom) (ss : list stmt) (l : list (dom * list stmt)) : list (dom * list stmt) :=
  match l with
  | [] => [(d, ss)]
  | e :: r => if Nat.eqb (fst e) d then (fst e, snd e ++ ss) :: r else e :: add_stmts_ne d ss r
  end.
Definition add_stmts (d : dom) (ss : list stmt) (l : list (dom * list stmt)) : list (dom * list stmt) :=
  match ss with [] => l | _ => add_stmts_ne d ss l end.

Definition lookup {A : Type} (d : nat) (l : list (nat * A)) : option A :=
  match find (fun p => Nat.eqb (fst p) d) l with Some p => Some (snd p) | None => None end.

(* ---------- LHSMaskCollector: keys in first-visit order (SignalDict is insertion ordered), chunks ---------- *)
Fixpoint stmt_sigs (s : stmt) : list nat :=
  match s with
  | SAssign lhs _ => sigs_of lhs
  | SSwitch _ cs =>
      (fix go (cs : list (option (list pattern) * list stmt)) : list nat :=
         match cs with
         | [] => []
         | c :: cs' => (fix run (ss : list stmt) : list nat :=
                          match ss with [] => [] | s' :: ss' => stmt_sigs s' ++ run ss' end) (snd c) ++ go cs'
         end) cs
  end.

Fixpoint uniq (seen l : list nat) : list nat :=
  match l with
  | [] => []
  | x :: r => if existsb (Nat.eqb x) seen then uniq seen r else x :: uniq (x :: seen) r
  end.

Definition lhs_keys (ss : list stmt) : list nat := uniq [] (flat_map stmt_sigs ss).

(* maximal runs of set bits, scanning from bit `pos` upwards; `opn` is the start of the run being scanned *)
Fixpoint runs (bits : list bool) (pos : Z) (opn : option Z) : list (Z * Z) :=
  match bits with
  | [] => match opn with Some st => [(st, pos)] | None => [] end
  | b :: r =>
      match b, opn with
      | true, None => runs r (pos + 1) (Some pos)
      | true, Some st => runs r (pos + 1) (Some st)
      | false, None => runs r (pos + 1) None
      | false, Some st => (st, pos) :: runs r (pos + 1) None
      end
  end.

Definition mask_bits (w m : Z) : list bool :=
  map (fun k => Z.testbit m (Z.of_nat k)) (seq 0 (Z.to_nat w)).

(* chunks(): (0, None) is the whole signal *)
Definition chunks (w m : Z) : list (Z * option Z) :=
  if m =? Z.shiftl 1 w - 1 then [(0, None)]
  else map (fun r => (fst r, Some (snd r))) (runs (mask_bits w m) 0 None).

(* ---------- control inserters ---------- *)
(* Switch(ctl, [(1, stmts, None)]): the integer pattern 1 normalised against the control's shape;
   not representable (width 0, signed(1)) => the pattern is dropped and the case never matches *)
Definition ctl_pats (s : shape) : list pattern :=
  if (if sgn s then 2 <=? width s else 1 <=? width s)
  then [repeat (Some false) (Z.to_nat (width s - 1)) ++ [Some true]]
  else [].
Definition ctl_switch (c : expr) (body : list stmt) : stmt :=
  SSwitch c [(Some (ctl_pats (shape_of c)), body)].

Definition reset_stmt (i : nat) (sd : sigdesc) (ch : Z * option Z) : stmt :=
  let s := sd_shape sd in
  match snd ch with
  | None => SAssign (ESig i s) (EConst (sd_init sd) s)
  | Some hi => SAssign (ESlice (ESig i s) (fst ch) hi) (ESlice (EConst (sd_init sd) s) (fst ch) hi)
  end.

Definition reset_stmts_of (tab : sigtab) (keys : list nat) (m : maskmap) : list stmt :=
  flat_map (fun i => if sd_reset_less (tab i) then []
                     else map (reset_stmt i (tab i)) (chunks (width (sd_shape (tab i))) (m i))) keys.
Definition reset_stmts (tab : sigtab) (ss : list stmt) : list stmt :=
  reset_stmts_of tab (lhs_keys ss) (stmts_mask ss).

Definition controls := list (dom * expr).

(* ResetInserter on one fragment's statement dict *)
Definition reset_entry (tab : sigtab) (ctl : controls) (e : dom * list stmt) : dom * list stmt :=
  if Nat.eqb (fst e) 0 then e else
  match lookup (fst e) ctl with
  | Some c => (fst e, snd e ++ [ctl_switch c (reset_stmts tab (snd e))])
  | None => e
  end.
Definition enable_entry (ctl : controls) (e : dom * list stmt) : dom * list stmt :=
  if Nat.eqb (fst e) 0 then e else
  match lookup (fst e) ctl with
  | Some c => (fst e, [ctl_switch c (snd e)])
  | None => e
  end.

Fixpoint reset_inserter (tab : sigtab) (ctl : controls) (f : frag) : frag :=
  match f with Frag st subs => Frag (map (reset_entry tab ctl) st) (map (reset_inserter tab ctl) subs) end.
Fixpoint enable_inserter (ctl : controls) (f : frag) : frag :=
  match f with Frag st subs => Frag (map (enable_entry ctl) st) (map (enable_inserter ctl) subs) end.

(* DomainRenamer.map_statements: add_statements(domain_map.get(domain, domain), statements) *)
Definition rename_dom (rho : list (dom * dom)) (d : dom) : dom :=
  match lookup d rho with Some d' => d' | None => d end.
Definition rename_entries (rho : list (dom * dom)) (st : list (dom * list stmt)) : list (dom * list stmt) :=
  fold_left (fun acc e => add_stmts (rename_dom rho (fst e)) (snd e) acc) st [].
Fixpoint domain_renamer (rho : list (dom * dom)) (f : frag) : frag :=
  match f with Frag st subs => Frag (rename_entries rho st) (map (domain_renamer rho) subs) end.

(* a module hierarchy with wrappers applied at any node (TransformedElaboratable: transforms in list order) *)
Inductive wrapper := WReset (ctl : controls) | WEnable (ctl : controls) | WRename (rho : list (dom * dom)).
Inductive ftree := FT (stmts : list (dom * list stmt)) (wr : list wrapper) (subs : list ftree).

Definition apply_wrapper (tab : sigtab) (f : frag) (w : wrapper) : frag :=
  match w with
  | WReset ctl => reset_inserter tab ctl f
  | WEnable ctl => enable_inserter ctl f
  | WRename rho => domain_renamer rho f
  end.
Fixpoint elab (tab : sigtab) (t : ftree) : frag :=
  match t with FT st wr subs => fold_left (apply_wrapper tab) wr (Frag st (map (elab tab) subs)) end.

(* ---------- processes and the engine ---------- *)
(* _FragmentCompiler: one process per (fragment, domain), subfragments after *)
Fixpoint flatten (f : frag) : list (dom * list stmt) :=
  match f with Frag st subs => st ++ flat_map flatten subs end.

(* edge_waker(process, polarity) registered on clk (and on rst for async domains), called from
   _PySignalState.commit only when curr != next *)
Definition clk_edge (c : domcfg) (old new : env) : bool :=
  negb (old (d_clk c) =? new (d_clk c)) && (new (d_clk c) =? (if d_pos c then 1 else 0)).
Definition rst_rise (c : domcfg) (old new : env) : bool :=
  match d_rst c with
  | Some r => d_async c && negb (old r =? new r) && (new r =? 1)
  | None => false
  end.
Definition fired (c : domcfg) (old new : env) : bool := clk_edge c old new || rst_rise c old new.

Record design := { g_tab : sigtab; g_doms : domtab; g_procs : list (dom * list stmt); g_nsig : nat }.

Definition run_proc (tab : sigtab) (doms : domtab) (fr : dom -> bool) (st : slots) (p : dom * list stmt) : slots :=
  if Nat.eqb (fst p) 0 then comb_process tab (snd p) st
  else if fr (fst p) then sync_process tab (snd p) (d_rst (doms (fst p))) st
  else st.
Definition eval_phase (tab : sigtab) (doms : domtab) (fr : dom -> bool) (procs : list (dom * list stmt))
  (st : slots) : slots := fold_left (run_proc tab doms fr) procs st.

(* evaluation aid: tabulates the first n entries (pointwise equal to en everywhere); keeps vm_compute from
   re-running earlier delta cycles each time a value is read *)
Definition freeze (n : nat) (en : env) : env :=
  let l := map en (seq 0 n) in
  fun i => match nth_error l i with Some v => v | None => en i end.

Definition differs (n : nat) (a b : env) : bool :=
  existsb (fun i => negb (a i =? b i)) (seq 0 n).

(* further delta cycles: only comb processes can be runnable (clocks and resets are testbench inputs);
   the loop of step_design ends when a commit changes nothing *)
Fixpoint settle (fuel : nat) (D : design) (cur : env) : env :=
  match fuel with
  | O => cur
  | S k =>
      let nx := freeze (g_nsig D)
                  (s_next (eval_phase (g_tab D) (g_doms D) (fun _ => false) (g_procs D)
                                      {| s_curr := cur; s_next := cur |})) in
      if differs (g_nsig D) cur nx then settle k D nx else nx
  end.

Definition event := list (nat * Z).
Definition apply_writes (e : event) (cur : env) : env := fold_left (fun nx w => upd nx (fst w) (snd w)) e cur.

Definition fuel_of (D : design) : nat := g_nsig D + 2.

(* ctx.set(...) + step_design(): delta 1 commits the written slots and runs the wakers; delta 2 runs the woken
   sync processes and the comb processes on the committed values; then comb settles *)
Definition step_with (sp : sigtab -> list stmt -> domcfg -> env -> env -> slots -> slots)
  (D : design) (e : event) (cur : env) : env :=
  let nx := freeze (g_nsig D) (apply_writes e cur) in
  let st1 := {| s_curr := nx; s_next := nx |} in
  let st2 := fold_left (fun st p =>
               if Nat.eqb (fst p) 0 then comb_process (g_tab D) (snd p) st
               else sp (g_tab D) (snd p) (g_doms D (fst p)) cur nx st) (g_procs D) st1 in
  settle (fuel_of D) D (freeze (g_nsig D) (s_next st2)).

Definition sync_code (tab : sigtab) (ss : list stmt) (c : domcfg) (old new : env) (st : slots) : slots :=
  if fired c old new then sync_process tab ss (d_rst c) st else st.
Definition step := step_with sync_code.

(* SPEC process (what the property text and the emitted flip-flops do): user statements only at the active
   clock edge; a reset rise of an async domain without a clock edge only loads the initial values *)
Definition reset_only (tab : sigtab) (ss : list stmt) (st : slots) : slots :=
  let m := stmts_mask ss in
  {| s_curr := s_curr st;
     s_next := fun i => if (m i =? 0) || sd_reset_less (tab i) then s_next st i
                        else slot_update (s_next st i) (sd_init (tab i)) (update_mask (sd_shape (tab i)) (m i)) |}.
Definition sync_spec (tab : sigtab) (ss : list stmt) (c : domcfg) (old new : env) (st : slots) : slots :=
  if clk_edge c old new then sync_process tab ss (d_rst c) st
  else if rst_rise c old new then reset_only tab ss st
  else st.
Definition step_spec := step_with sync_spec.

Definition init_env (D : design) : env := settle (fuel_of D) D (freeze (g_nsig D) (fun i => sd_init (g_tab D i))).

Fixpoint run_with (stp : design -> event -> env -> env) (D : design) (evs : list event) (cur : env) : list env :=
  match evs with
  | [] => []
  | e :: r => let c := stp D e cur in c :: run_with stp D r c
  end.
Definition run := run_with step.

Definition mk_design (tab : sigtab) (doms : domtab) (f : frag) (n : nat) : design :=
  {| g_tab := tab; g_doms := doms; g_procs := flatten f; g_nsig := n |}.

(* ---------- SPEC of the control inserters on one sync process ---------- *)
(* `en` gates the user statements; `rs` loads the initial value into every driven bit of the non-reset-less
   signals (as the domain's own reset does) *)
Definition sync_ctl (tab : sigtab) (ss : list stmt) (rst : option nat) (en rs : bool) (st : slots) : slots :=
  let m := stmts_mask ss in
  let nx1 : env := if en then exec_rtl_list (s_curr st) ss (s_next st) else s_next st in
  let rst_on := match rst with
                | Some r => negb (Z.land 1 (s_curr st r) =? 0)
                | None => false
                end in
  {| s_curr := s_curr st;
     s_next := fun i => if m i =? 0 then s_next st i
                        else slot_update (s_next st i)
                               (if (rst_on || rs) && negb (sd_reset_less (tab i)) then sd_init (tab i) else nx1 i)
                               (update_mask (sd_shape (tab i)) (m i)) |}.

(* the control is asserted: Switch(ctl, [(1, ...)]) selects its case *)
Definition ctl_on (curr : env) (c : expr) : bool := 1 =? rmask (ewidth c) (eval_rtl curr c).

(* a bit is driven by a statement list (LHSMaskCollector mask as handed to update()) *)
Definition um (tab : sigtab) (ss : list stmt) (i : nat) : Z := update_mask (sd_shape (tab i)) (stmts_mask ss i).

(* n stacked inserters on one statement list *)
Definition reset_n (tab : sigtab) (cs : list expr) (ss : list stmt) : list stmt :=
  fold_left (fun ss c => ss ++ [ctl_switch c (reset_stmts tab ss)]) cs ss.
Definition enable_n (cs : list expr) (ss : list stmt) : list stmt :=
  fold_left (fun ss c => [ctl_switch c ss]) cs ss.

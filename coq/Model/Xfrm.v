(* Xfrm.v — clock domains, the per-domain processes of a fragment tree, the delta-cycle engine for
   testbench-written events, and the control inserters / domain renamer of hdl/_xfrm.py.
   Mirrors:  hdl/_xfrm.py  LHSMaskCollector.chunks, _ControlInserter.on_fragment, ResetInserter._insert_control,
                           EnableInserter._insert_control, DomainRenamer.map_statements, TransformedElaboratable
             hdl/_ir.py    Fragment.add_statements
             sim/_pyrtl.py _FragmentCompiler (one process per fragment and domain), edge_waker
             sim/pysim.py  _PySignalState.commit (wakers), PySimEngine.step_design
   Memories are not modelled here.  No proofs here. *)
From Coq Require Import ZArith List Bool.
From V.Model Require Import Bits Shape Ast Denote PyRTL PyEval Stmt Process.
Import ListNotations.
Open Scope Z_scope.

(* ---------- domains and fragments ---------- *)
Notation dom := nat (only parsing).   (* 0 is "comb" *)
Record domcfg := { d_clk : nat; d_pos : bool; d_rst : option nat; d_async : bool }.
Definition domtab := dom -> domcfg.

(* MemoryInstance (hdl/_mem.py): ports with their domain and their addr / data / en values; the data of a read
   port is an assignment target (a Signal); transparent_for holds write-port indices *)
Record wport := WP { wp_dom : dom; wp_addr : expr; wp_data : expr; wp_en : expr }.
Record rport := RP { rp_dom : dom; rp_addr : expr; rp_data : expr; rp_en : expr; rp_transp : list nat }.
Record meminst := MI { mi_shape : shape; mi_depth : Z; mi_init : list Z; mi_wports : list wport; mi_rports : list rport }.

(* Fragment: statements per domain (a dict: keys unique, insertion order), memory instances and the other
   subfragments *)
Inductive frag := Frag (stmts : list (dom * list stmt)) (mems : list meminst) (subs : list frag).

(* Fragment.add_statements: statements.setdefault(domain, []).append(stmt) for every stmt *)
Fixpoint add_stmts_ne (d : dom) (ss : list stmt) (l : list (dom * list stmt)) : list (dom * list stmt) :=
  match l with
  | [] => [(d, ss)]
  | e :: r => if Nat.eqb (fst e) d then (fst e, snd e ++ ss) :: r else e :: add_stmts_ne d ss r
  end.
Definition add_stmts (d : dom) (ss : list stmt) (l : list (dom * list stmt)) : list (dom * list stmt) :=
  match ss with [] => l | _ => add_stmts_ne d ss l end.

Definition lookup {A : Type} (d : nat) (l : list (nat * A)) : option A :=
  match find (fun p => Nat.eqb (fst p) d) l with Some p => Some (snd p) | None => None end.

(* ---------- LHSMaskCollector: keys in first-visit order (SignalDict is insertion ordered), chunks ---------- *)
Fixpoint stmt_sigs (s : stmt) : list nat :=
  match s with
  | SAssign lhs _ => sigs_of lhs
  | SSwitch _ cs =>
      (fix go (cs : list (option (list pattern) * list stmt)) : list nat :=
         match cs with
         | [] => []
         | c :: cs' => (fix run (ss : list stmt) : list nat :=
                          match ss with [] => [] | s' :: ss' => stmt_sigs s' ++ run ss' end) (snd c) ++ go cs'
         end) cs
  end.

Fixpoint uniq (seen l : list nat) : list nat :=
  match l with
  | [] => []
  | x :: r => if existsb (Nat.eqb x) seen then uniq seen r else x :: uniq (x :: seen) r
  end.

Definition lhs_keys (ss : list stmt) : list nat := uniq [] (flat_map stmt_sigs ss).

(* maximal runs of set bits, scanning from bit `pos` upwards; `opn` is the start of the run being scanned *)
Fixpoint runs (bits : list bool) (pos : Z) (opn : option Z) : list (Z * Z) :=
  match bits with
  | [] => match opn with Some st => [(st, pos)] | None => [] end
  | b :: r =>
      match b, opn with
      | true, None => runs r (pos + 1) (Some pos)
      | true, Some st => runs r (pos + 1) (Some st)
      | false, None => runs r (pos + 1) None
      | false, Some st => (st, pos) :: runs r (pos + 1) None
      end
  end.

Definition mask_bits (w m : Z) : list bool :=
  map (fun k => Z.testbit m (Z.of_nat k)) (seq 0 (Z.to_nat w)).

(* chunks(): (0, None) is the whole signal *)
Definition chunks (w m : Z) : list (Z * option Z) :=
  if m =? Z.shiftl 1 w - 1 then [(0, None)]
  else map (fun r => (fst r, Some (snd r))) (runs (mask_bits w m) 0 None).

(* ---------- control inserters ---------- *)
(* Switch(ctl, [(1, stmts, None)]): the integer pattern 1 normalised against the control's shape;
   not representable (width 0, signed(1)) => the pattern is dropped and the case never matches *)
Definition ctl_pats (s : shape) : list pattern :=
  if (if sgn s then 2 <=? width s else 1 <=? width s)
  then [repeat (Some false) (Z.to_nat (width s - 1)) ++ [Some true]]
  else [].
Definition ctl_switch (c : expr) (body : list stmt) : stmt :=
  SSwitch c [(Some (ctl_pats (shape_of c)), body)].

Definition reset_stmt (i : nat) (sd : sigdesc) (ch : Z * option Z) : stmt :=
  let s := sd_shape sd in
  match snd ch with
  | None => SAssign (ESig i s) (EConst (sd_init sd) s)
  | Some hi => SAssign (ESlice (ESig i s) (fst ch) hi) (ESlice (EConst (sd_init sd) s) (fst ch) hi)
  end.

Definition reset_stmts_of (tab : sigtab) (keys : list nat) (m : maskmap) : list stmt :=
  flat_map (fun i => if sd_reset_less (tab i) then []
                     else map (reset_stmt i (tab i)) (chunks (width (sd_shape (tab i))) (m i))) keys.
Definition reset_stmts (tab : sigtab) (ss : list stmt) : list stmt :=
  reset_stmts_of tab (lhs_keys ss) (stmts_mask ss).

Definition controls := list (dom * expr).

(* ResetInserter on one fragment's statement dict *)
Definition reset_entry (tab : sigtab) (ctl : controls) (e : dom * list stmt) : dom * list stmt :=
  if Nat.eqb (fst e) 0 then e else
  match lookup (fst e) ctl with
  | Some c => (fst e, snd e ++ [ctl_switch c (reset_stmts tab (snd e))])
  | None => e
  end.
Definition enable_entry (ctl : controls) (e : dom * list stmt) : dom * list stmt :=
  if Nat.eqb (fst e) 0 then e else
  match lookup (fst e) ctl with
  | Some c => (fst e, [ctl_switch c (snd e)])
  | None => e
  end.

(* EnableInserter.on_fragment on a MemoryInstance:  read port  en := en & ctl ;
   write port  en := Mux(ctl, en, Const(0, len(en))) = SwitchValue(ctl, ((0, Const 0), (None, en))) *)
Definition mux_ctl (c en : expr) : expr :=
  ESwitch c [(Some [repeat (Some false) (Z.to_nat (ewidth c))], EConst 0 (Sh (ewidth en) false)); (None, en)].
Definition enable_wport (ctl : controls) (p : wport) : wport :=
  match lookup (wp_dom p) ctl with
  | Some c => WP (wp_dom p) (wp_addr p) (wp_data p) (mux_ctl c (wp_en p))
  | None => p
  end.
Definition enable_rport (ctl : controls) (p : rport) : rport :=
  match lookup (rp_dom p) ctl with
  | Some c => RP (rp_dom p) (rp_addr p) (rp_data p) (EOp2 OAnd (rp_en p) c) (rp_transp p)
  | None => p
  end.
Definition enable_mem (ctl : controls) (m : meminst) : meminst :=
  MI (mi_shape m) (mi_depth m) (mi_init m) (map (enable_wport ctl) (mi_wports m)) (map (enable_rport ctl) (mi_rports m)).

(* _ControlInserter.on_fragment only touches statements: ResetInserter leaves memory instances alone *)
Fixpoint reset_inserter (tab : sigtab) (ctl : controls) (f : frag) : frag :=
  match f with Frag st ms subs => Frag (map (reset_entry tab ctl) st) ms (map (reset_inserter tab ctl) subs) end.
Fixpoint enable_inserter (ctl : controls) (f : frag) : frag :=
  match f with Frag st ms subs =>
    Frag (map (enable_entry ctl) st) (map (enable_mem ctl) ms) (map (enable_inserter ctl) subs) end.

(* DomainRenamer.map_statements: add_statements(domain_map.get(domain, domain), statements) *)
Definition rename_dom (rho : list (dom * dom)) (d : dom) : dom :=
  match lookup d rho with Some d' => d' | None => d end.
Definition rename_entries (rho : list (dom * dom)) (st : list (dom * list stmt)) : list (dom * list stmt) :=
  fold_left (fun acc e => add_stmts (rename_dom rho (fst e)) (snd e) acc) st [].
(* DomainRenamer.map_memory_ports: port domains in the map are replaced *)
Definition rename_mem (rho : list (dom * dom)) (m : meminst) : meminst :=
  MI (mi_shape m) (mi_depth m) (mi_init m)
     (map (fun p => WP (rename_dom rho (wp_dom p)) (wp_addr p) (wp_data p) (wp_en p)) (mi_wports m))
     (map (fun p => RP (rename_dom rho (rp_dom p)) (rp_addr p) (rp_data p) (rp_en p) (rp_transp p)) (mi_rports m)).
Fixpoint domain_renamer (rho : list (dom * dom)) (f : frag) : frag :=
  match f with Frag st ms subs =>
    Frag (rename_entries rho st) (map (rename_mem rho) ms) (map (domain_renamer rho) subs) end.

(* a module hierarchy with wrappers applied at any node (TransformedElaboratable: transforms in list order) *)
Inductive wrapper := WReset (ctl : controls) | WEnable (ctl : controls) | WRename (rho : list (dom * dom)).
Inductive ftree := FT (stmts : list (dom * list stmt)) (mems : list meminst) (wr : list wrapper) (subs : list ftree).

Definition apply_wrapper (tab : sigtab) (f : frag) (w : wrapper) : frag :=
  match w with
  | WReset ctl => reset_inserter tab ctl f
  | WEnable ctl => enable_inserter ctl f
  | WRename rho => domain_renamer rho f
  end.
Fixpoint elab (tab : sigtab) (t : ftree) : frag :=
  match t with FT st ms wr subs => fold_left (apply_wrapper tab) wr (Frag st ms (map (elab tab) subs)) end.

(* ---------- processes and the engine ---------- *)
(* _FragmentCompiler: one process per (fragment, domain), subfragments after *)
Fixpoint flatten (f : frag) : list (dom * list stmt) :=
  match f with Frag st _ subs => st ++ flat_map flatten subs end.
Fixpoint frag_mems (f : frag) : list meminst :=
  match f with Frag _ ms subs => ms ++ flat_map frag_mems subs end.

(* edge_waker(process, polarity) registered on clk (and on rst for async domains), called from
   _PySignalState.commit only when curr != next *)
Definition clk_edge (c : domcfg) (old new : env) : bool :=
  negb (old (d_clk c) =? new (d_clk c)) && (new (d_clk c) =? (if d_pos c then 1 else 0)).
Definition rst_rise (c : domcfg) (old new : env) : bool :=
  match d_rst c with
  | Some r => d_async c && negb (old r =? new r) && (new r =? 1)
  | None => false
  end.
Definition fired (c : domcfg) (old new : env) : bool := clk_edge c old new || rst_rise c old new.

Record design := { g_tab : sigtab; g_doms : domtab; g_procs : list (dom * list stmt); g_nsig : nat }.

Definition run_proc (tab : sigtab) (doms : domtab) (fr : dom -> bool) (st : slots) (p : dom * list stmt) : slots :=
  if Nat.eqb (fst p) 0 then comb_process tab (snd p) st
  else if fr (fst p) then sync_process tab (snd p) (d_rst (doms (fst p))) st
  else st.
Definition eval_phase (tab : sigtab) (doms : domtab) (fr : dom -> bool) (procs : list (dom * list stmt))
  (st : slots) : slots := fold_left (run_proc tab doms fr) procs st.

(* evaluation aid: tabulates the first n entries (pointwise equal to en everywhere); keeps vm_compute from
   re-running earlier delta cycles each time a value is read *)
Definition freeze (n : nat) (en : env) : env :=
  let l := map en (seq 0 n) in
  fun i => match nth_error l i with Some v => v | None => en i end.

Definition differs (n : nat) (a b : env) : bool :=
  existsb (fun i => negb (a i =? b i)) (seq 0 n).

(* further delta cycles: only comb processes can be runnable (clocks and resets are testbench inputs);
   the loop of step_design ends when a commit changes nothing *)
Fixpoint settle (fuel : nat) (D : design) (cur : env) : env :=
  match fuel with
  | O => cur
  | S k =>
      let nx := freeze (g_nsig D)
                  (s_next (eval_phase (g_tab D) (g_doms D) (fun _ => false) (g_procs D)
                                      {| s_curr := cur; s_next := cur |})) in
      if differs (g_nsig D) cur nx then settle k D nx else nx
  end.

Definition event := list (nat * Z).
Definition apply_writes (e : event) (cur : env) : env := fold_left (fun nx w => upd nx (fst w) (snd w)) e cur.

Definition fuel_of (D : design) : nat := g_nsig D + 2.

(* ctx.set(...) + step_design(): delta 1 commits the written slots and runs the wakers; delta 2 runs the woken
   sync processes and the comb processes on the committed values; then comb settles *)
Definition step_with (sp : sigtab -> list stmt -> domcfg -> env -> env -> slots -> slots)
  (D : design) (e : event) (cur : env) : env :=
  let nx := freeze (g_nsig D) (apply_writes e cur) in
  let st1 := {| s_curr := nx; s_next := nx |} in
  let st2 := fold_left (fun st p =>
               if Nat.eqb (fst p) 0 then comb_process (g_tab D) (snd p) st
               else sp (g_tab D) (snd p) (g_doms D (fst p)) cur nx st) (g_procs D) st1 in
  settle (fuel_of D) D (freeze (g_nsig D) (s_next st2)).

(* a reset rise of an async domain without a clock edge only loads the initial values (this is also the SPEC
   process: what the property text and the emitted flip-flops do) *)
Definition reset_only (tab : sigtab) (ss : list stmt) (st : slots) : slots :=
  let m := stmts_mask ss in
  {| s_curr := s_curr st;
     s_next := fun i => if (m i =? 0) || sd_reset_less (tab i) then s_next st i
                        else slot_update (s_next st i) (sd_init (tab i)) (update_mask (sd_shape (tab i)) (m i)) |}.
(* the compiled process (sim/_pyrtl.py after "a rising asynchronous reset alone only loads reset values"):
   woken by the clock edge (clock_edge_waker sets process.clk_edge) it runs the statements and the reset block;
   woken by the rise of an asynchronous reset alone it executes `slots[i].update(init, mask)` for every driven
   non-reset-less signal and returns *)
Definition sync_code (tab : sigtab) (ss : list stmt) (c : domcfg) (old new : env) (st : slots) : slots :=
  if clk_edge c old new then sync_process tab ss (d_rst c) st
  else if rst_rise c old new then reset_only tab ss st
  else st.
Definition step := step_with sync_code.

Definition sync_spec (tab : sigtab) (ss : list stmt) (c : domcfg) (old new : env) (st : slots) : slots :=
  if clk_edge c old new then sync_process tab ss (d_rst c) st
  else if rst_rise c old new then reset_only tab ss st
  else st.
Definition step_spec := step_with sync_spec.

Definition init_env (D : design) : env := settle (fuel_of D) D (freeze (g_nsig D) (fun i => sd_init (g_tab D i))).

Fixpoint run_with (stp : design -> event -> env -> env) (D : design) (evs : list event) (cur : env) : list env :=
  match evs with
  | [] => []
  | e :: r => let c := stp D e cur in c :: run_with stp D r c
  end.
Definition run := run_with step.

Definition mk_design (tab : sigtab) (doms : domtab) (f : frag) (n : nat) : design :=
  {| g_tab := tab; g_doms := doms; g_procs := flatten f; g_nsig := n |}.

(* ---------- SPEC of the control inserters on one sync process ---------- *)
(* `en` gates the user statements; `rs` loads the initial value into every driven bit of the non-reset-less
   signals (as the domain's own reset does) *)
Definition sync_ctl (tab : sigtab) (ss : list stmt) (rst : option nat) (en rs : bool) (st : slots) : slots :=
  let m := stmts_mask ss in
  let nx1 : env := if en then exec_rtl_list (s_curr st) ss (s_next st) else s_next st in
  let rst_on := match rst with
                | Some r => negb (Z.land 1 (s_curr st r) =? 0)
                | None => false
                end in
  {| s_curr := s_curr st;
     s_next := fun i => if m i =? 0 then s_next st i
                        else slot_update (s_next st i)
                               (if (rst_on || rs) && negb (sd_reset_less (tab i)) then sd_init (tab i) else nx1 i)
                               (update_mask (sd_shape (tab i)) (m i)) |}.

(* the control is asserted: Switch(ctl, [(1, ...)]) selects its case *)
Definition ctl_on (curr : env) (c : expr) : bool := 1 =? rmask (ewidth c) (eval_rtl curr c).

(* a bit is driven by a statement list (LHSMaskCollector mask as handed to update()) *)
Definition um (tab : sigtab) (ss : list stmt) (i : nat) : Z := update_mask (sd_shape (tab i)) (stmts_mask ss i).

(* n stacked inserters on one statement list *)
Definition reset_n (tab : sigtab) (cs : list expr) (ss : list stmt) : list stmt :=
  fold_left (fun ss c => ss ++ [ctl_switch c (reset_stmts tab ss)]) cs ss.
Definition enable_n (cs : list expr) (ss : list stmt) : list stmt :=
  fold_left (fun ss c => [ctl_switch c ss]) cs ss.

(* ---------- SPEC run of the ORIGINAL design with explicit per-domain enable / reset controls ---------- *)
(* the engine step with an arbitrary delta-2 process function (step_with sp = step_gen of its process function) *)
Definition step_gen (F : env -> env -> slots -> dom * list stmt -> slots) (D : design) (e : event) (cur : env) : env :=
  let nx := freeze (g_nsig D) (apply_writes e cur) in
  settle (fuel_of D) D
    (freeze (g_nsig D) (s_next (fold_left (F cur nx) (g_procs D) {| s_curr := nx; s_next := nx |}))).

(* a sync process of domain d runs `sync_ctl` with the enable en_of d and the extra reset rs_of d, both
   sampled on the values committed in delta 1 (what the woken process reads) *)
Definition ctl_proc (tab : sigtab) (doms : domtab) (en_of rs_of : dom -> env -> bool)
  (cur nx : env) (st : slots) (p : dom * list stmt) : slots :=
  if Nat.eqb (fst p) 0 then comb_process tab (snd p) st
  else if clk_edge (doms (fst p)) cur nx
       then sync_ctl tab (snd p) (d_rst (doms (fst p))) (en_of (fst p) nx) (rs_of (fst p) nx) st
       else if rst_rise (doms (fst p)) cur nx then reset_only tab (snd p) st
       else st.
Definition step_ctl (en_of rs_of : dom -> env -> bool) (D : design) : event -> env -> env :=
  step_gen (ctl_proc (g_tab D) (g_doms D) en_of rs_of) D.

(* the control of domain d in a controls dict (dflt when the domain is not named) *)
Definition ctl_of (ctl : controls) (dflt : bool) (d : dom) (curr : env) : bool :=
  match lookup d ctl with Some c => ctl_on curr c | None => dflt end.

(* state reached after a sequence of events *)
Definition state_after (stp : event -> env -> env) (evs : list event) (cur : env) : env :=
  fold_left (fun c e => stp e c) evs cur.

(* the transformed design: every process rewritten by T (flatten of the inserters is a map, see XfrmP) *)
Definition map_procs (T : dom * list stmt -> dom * list stmt) (D : design) : design :=
  {| g_tab := g_tab D; g_doms := g_doms D; g_procs := map T (g_procs D); g_nsig := g_nsig D |}.

(* ================= memories in the engine (sim/pysim.py _PyMemoryState, sim/_pyrtl.py memory part of
   _FragmentCompiler): one process per (MemoryInstance, domain) ================= *)
Definition rows := list Z.
Definition wqueue := list (Z * Z).            (* write_queue: dict addr -> value in insertion order *)
Fixpoint qget (q : wqueue) (a : Z) : option Z :=
  match q with [] => None | av :: r => if fst av =? a then Some (snd av) else qget r a end.
Fixpoint qset (q : wqueue) (a v : Z) : wqueue :=
  match q with [] => [(a, v)] | av :: r => if fst av =? a then (fst av, v) :: r else av :: qset r a v end.
Definition in_depth (depth a : Z) : bool := (0 <=? a) && (a <? depth).
(* read(addr): committed data; 0 beyond the depth *)
Definition mem_read (depth : Z) (rw : rows) (a : Z) : Z := if in_depth depth a then nth (Z.to_nat a) rw 0 else 0.
Definition sign_fix (s : shape) (v : Z) : Z :=
  if sgn s then (if Z.testbit v (width s - 1) then Z.lor v (Z.shiftl (-1) (width s))
                 else Z.land v (Z.shiftl 1 (width s) - 1))
  else v.
(* write(addr, value, mask) *)
Definition mem_write (s : shape) (depth : Z) (rw : rows) (q : wqueue) (a value msk : Z) : wqueue :=
  if in_depth depth a then
    let old := match qget q a with Some v => v | None => nth (Z.to_nat a) rw 0 end in
    qset q a (sign_fix s (Z.lor (Z.land value msk) (Z.land old (Z.lnot msk))))
  else q.
Fixpoint set_row (rw : rows) (n : nat) (v : Z) : rows :=
  match rw with
  | [] => []
  | x :: r => match n with O => v :: r | S k => x :: set_row r k v end
  end.
Definition mem_commit (rw : rows) (q : wqueue) : rows :=
  fold_left (fun rw av => set_row rw (Z.to_nat (fst av)) (snd av)) q rw.

(* Cat(bit.replicate(granularity) for bit in port._en), bits k .. of the raw enable *)
Fixpoint en_cat (raw g : Z) (n : nat) (k : Z) : Z :=
  match n with
  | O => 0
  | S n' => Z.lor (if Z.testbit raw k then Z.shiftl (Z.shiftl 1 g - 1) (k * g) else 0) (en_cat raw g n' (k + 1))
  end.
Definition wen_value (curr : env) (w : Z) (en : expr) : Z :=
  let enw := ewidth en in
  let g := if w =? 0 then 1 else w / enw in
  rmask w (en_cat (eval_rtl curr en) g (Z.to_nat enw) 0).

Definition mem_masks (ports : list rport) : maskmap :=
  fold_left (fun acc p => lhs_mask (rp_data p) (-1) acc) ports (fun _ => 0).

Definition wvals := (Z * Z * Z)%type.         (* write_addr, write_data, write_en *)
Definition port_wvals (curr : env) (d : dom) (p : wport) : option wvals :=
  if Nat.eqb (wp_dom p) d
  then Some (rmask (ewidth (wp_addr p)) (eval_rtl curr (wp_addr p)),
             rmask (ewidth (wp_data p)) (eval_rtl curr (wp_data p)),
             wen_value curr (ewidth (wp_data p)) (wp_en p))
  else None.
Definition patch (a : Z) (wv : list (option wvals)) (dt : Z) (idx : nat) : Z :=
  match nth idx wv None with
  | Some t => if a =? fst (fst t) then Z.lor (Z.land dt (Z.lnot (snd t))) (Z.land (snd (fst t)) (snd t)) else dt
  | None => dt
  end.
(* one sync read port: `if 1 & en:` read the committed row, patch for transparent write ports, assign the data signal *)
Definition read_port_sync (m : meminst) (curr : env) (rw : rows) (wv : list (option wvals)) (nx : env) (p : rport) : env :=
  if Z.land 1 (eval_rtl curr (rp_en p)) =? 0 then nx
  else let a := rmask (ewidth (rp_addr p)) (eval_rtl curr (rp_addr p)) in
       assign_rtl curr (rp_data p) (fold_left (patch a wv) (rp_transp p) (mem_read (mi_depth m) rw a)) nx.

(* process of (memory, sync domain d): the write ports (queued), then the sync read ports.  The `if rst:` block
   of the domain skips the read-data signals (memory read ports have no reset), and a MemoryInstance has no
   statements, so the domain reset does nothing here *)
Definition mem_sync (tab : sigtab) (m : meminst) (d : dom) (rw : rows) (sq : slots * wqueue)
  : slots * wqueue :=
  let st := fst sq in
  let curr := s_curr st in
  let rps := filter (fun p => Nat.eqb (rp_dom p) d) (mi_rports m) in
  let mk := mem_masks rps in
  let nx1 : env := s_next st in
  let wv := map (port_wvals curr d) (mi_wports m) in
  let q' := fold_left (fun q o => match o with
                                  | Some t => mem_write (mi_shape m) (mi_depth m) rw q (fst (fst t)) (snd (fst t)) (snd t)
                                  | None => q
                                  end) wv (snd sq) in
  let nx2 := fold_left (read_port_sync m curr rw wv) rps nx1 in
  ({| s_curr := curr;
      s_next := fun i => if mk i =? 0 then s_next st i
                         else slot_update (s_next st i) (nx2 i) (update_mask (sd_shape (tab i)) (mk i)) |}, q').

(* process of (memory, "comb"): the comb read ports *)
Definition mem_comb (tab : sigtab) (rw : rows) (st : slots) (m : meminst) : slots :=
  let curr := s_curr st in
  let rps := filter (fun p => Nat.eqb (rp_dom p) 0) (mi_rports m) in
  let mk := mem_masks rps in
  let nx0 : env := fun i => if mk i =? 0 then s_next st i else sd_init (tab i) in
  let nx1 := fold_left (fun nx p =>
               assign_rtl curr (rp_data p)
                 (mem_read (mi_depth m) rw (rmask (ewidth (rp_addr p)) (eval_rtl curr (rp_addr p)))) nx) rps nx0 in
  {| s_curr := curr;
     s_next := fun i => if mk i =? 0 then s_next st i
                        else slot_update (s_next st i) (nx1 i) (update_mask (sd_shape (tab i)) (mk i)) |}.

Definition mem_doms (m : meminst) : list dom :=
  filter (fun d => negb (Nat.eqb d 0)) (uniq [] (map wp_dom (mi_wports m) ++ map rp_dom (mi_rports m))).

Definition mem_delta2 (D : design) (cur nx : env) (m : meminst) (rw : rows) (st : slots) : slots * wqueue :=
  fold_left (fun sq d => if clk_edge (g_doms D d) cur nx        (* a reset rise alone runs no memory port *)
                         then mem_sync (g_tab D) m d rw sq else sq)
            (mem_doms m) (mem_comb (g_tab D) rw st m, []).

Fixpoint mems_delta2 (D : design) (cur nx : env) (ms : list meminst) (rws : list rows) (st : slots)
  : slots * list rows :=
  match ms, rws with
  | m :: ms', rw :: rws' =>
      let sq := mem_delta2 D cur nx m rw st in
      let sr := mems_delta2 D cur nx ms' rws' (fst sq) in
      (fst sr, mem_commit rw (snd sq) :: snd sr)
  | _, _ => (st, [])
  end.

Fixpoint msettle (fuel : nat) (D : design) (ms : list meminst) (rws : list rows) (cur : env) : env :=
  match fuel with
  | O => cur
  | S k =>
      let st := eval_phase (g_tab D) (g_doms D) (fun _ => false) (g_procs D) {| s_curr := cur; s_next := cur |} in
      let st' := fold_left (fun st mr => mem_comb (g_tab D) (snd mr) st (fst mr)) (combine ms rws) st in
      let nx := freeze (g_nsig D) (s_next st') in
      if differs (g_nsig D) cur nx then msettle k D ms rws nx else nx
  end.

Definition mstate := (env * list rows)%type.
Definition mstep (D : design) (ms : list meminst) (e : event) (s : mstate) : mstate :=
  let cur := fst s in
  let nx := freeze (g_nsig D) (apply_writes e cur) in
  let st2 := fold_left (fun st p =>
               if Nat.eqb (fst p) 0 then comb_process (g_tab D) (snd p) st
               else sync_code (g_tab D) (snd p) (g_doms D (fst p)) cur nx st) (g_procs D) {| s_curr := nx; s_next := nx |} in
  let sr := mems_delta2 D cur nx ms (snd s) st2 in
  (msettle (fuel_of D) D ms (snd sr) (freeze (g_nsig D) (s_next (fst sr))), snd sr).

(* MemoryData.Init: given elements (normalised), the other rows 0 *)
Definition init_rows (m : meminst) : rows :=
  map (fun k => nth k (mi_init m) 0) (seq 0 (Z.to_nat (mi_depth m))).
Definition minit (D : design) (ms : list meminst) : mstate :=
  let rws := map init_rows ms in
  (msettle (fuel_of D) D ms rws (freeze (g_nsig D) (fun i => sd_init (g_tab D i))), rws).
Fixpoint mrun (D : design) (ms : list meminst) (evs : list event) (s : mstate) : list mstate :=
  match evs with
  | [] => []
  | e :: r => let s' := mstep D ms e s in s' :: mrun D ms r s'
  end.

(* ================= ClockSignal / ResetSignal (late-bound signals) =================
   A late-bound signal is written as a pseudo signal of shape unsigned(1) whose index is
   base + 3*d + k  (d the domain id):  k = 0 ClockSignal(d), k = 1 ResetSignal(d, allow_reset_less=True),
   k = 2 ResetSignal(d).  DomainRenamer.on_ClockSignal / on_ResetSignal rewrite the domain;
   DomainLowerer.on_ClockSignal / on_ResetSignal (run when a design is prepared for simulation) replace them by the
   clock / reset signal of the resolved domain, Const(0) for an allowed missing reset, DomainError otherwise. *)
Definition cs_index (base : nat) (d : dom) (k : nat) : nat := (base + (3 * d + k))%nat.
Definition cs_decode (base i : nat) : option (dom * nat) :=
  if Nat.ltb i base then None else Some (((i - base) / 3)%nat, ((i - base) mod 3)%nat).

(* ValueTransformer: rebuild a value, replacing the signal leaves *)
Fixpoint map_sig (f : nat -> shape -> expr) (e : expr) : expr :=
  match e with
  | EConst _ _ => e
  | ESig i s => f i s
  | EOp1 o a => EOp1 o (map_sig f a)
  | EOp2 o a b => EOp2 o (map_sig f a) (map_sig f b)
  | ESlice a lo hi => ESlice (map_sig f a) lo hi
  | EPart a off w st => EPart (map_sig f a) (map_sig f off) w st
  | ECat parts => ECat (map (map_sig f) parts)
  | ESwitch t cs => ESwitch (map_sig f t) (map (fun c => (fst c, map_sig f (snd c))) cs)
  end.
(* StatementTransformer *)
Fixpoint map_sig_stmt (f : nat -> shape -> expr) (s : stmt) : stmt :=
  match s with
  | SAssign l r => SAssign (map_sig f l) (map_sig f r)
  | SSwitch t cs => SSwitch (map_sig f t) (map (fun c => (fst c, map (map_sig_stmt f) (snd c))) cs)
  end.

Definition ren_sig (base : nat) (rho : list (dom * dom)) (i : nat) (s : shape) : expr :=
  match cs_decode base i with
  | Some dk => ESig (cs_index base (rename_dom rho (fst dk)) (snd dk)) s
  | None => ESig i s
  end.

(* DomainRenamer with the rewriting of values (statements and memory ports) *)
Definition rename_mem_cs (base : nat) (rho : list (dom * dom)) (m : meminst) : meminst :=
  let f := map_sig (ren_sig base rho) in
  MI (mi_shape m) (mi_depth m) (mi_init m)
     (map (fun p => WP (rename_dom rho (wp_dom p)) (f (wp_addr p)) (f (wp_data p)) (f (wp_en p))) (mi_wports m))
     (map (fun p => RP (rename_dom rho (rp_dom p)) (f (rp_addr p)) (f (rp_data p)) (f (rp_en p)) (rp_transp p)) (mi_rports m)).
Fixpoint domain_renamer_cs (base : nat) (rho : list (dom * dom)) (f : frag) : frag :=
  match f with Frag st ms subs =>
    Frag (rename_entries rho (map (fun e => (fst e, map (map_sig_stmt (ren_sig base rho)) (snd e))) st))
         (map (rename_mem_cs base rho) ms) (map (domain_renamer_cs base rho) subs) end.

(* FragmentTransformer.on_fragment re-creates the ports of every MemoryInstance it meets:
   _ReadPort.__init__ asserts len(en) == 1 *)
Definition mem_ports_ok (m : meminst) : bool := forallb (fun p => ewidth (rp_en p) =? 1) (mi_rports m).
Definition frag_ports_ok (f : frag) : bool := forallb mem_ports_ok (frag_mems f).

Definition apply_wrapper_cs (base : nat) (tab : sigtab) (f : option frag) (w : wrapper) : option frag :=
  match f with
  | None => None
  | Some f =>
      if frag_ports_ok f then
        Some (match w with
              | WReset ctl => reset_inserter tab ctl f
              | WEnable ctl => enable_inserter ctl f
              | WRename rho => domain_renamer_cs base rho f
              end)
      else None                               (* AssertionError *)
  end.
(* elaboration of a wrapped hierarchy; None = AssertionError out of a transformer *)
Fixpoint elab_cs (base : nat) (tab : sigtab) (t : ftree) : option frag :=
  match t with FT st ms wr subs =>
    match (fix go (l : list ftree) : option (list frag) :=
             match l with
             | [] => Some []
             | x :: r => match elab_cs base tab x, go r with
                         | Some fx, Some fr => Some (fx :: fr)
                         | _, _ => None
                         end
             end) subs with
    | Some fs => fold_left (apply_wrapper_cs base tab) wr (Some (Frag st ms fs))
    | None => None
    end
  end.

(* DomainLowerer on values: ndom real domains 1..ndom are defined *)
Definition lower_sig (base : nat) (doms : domtab) (i : nat) (s : shape) : expr :=
  match cs_decode base i with
  | Some dk =>
      match snd dk with
      | O => ESig (d_clk (doms (fst dk))) (Sh 1 false)
      | _ => match d_rst (doms (fst dk)) with
             | Some r => ESig r (Sh 1 false)
             | None => EConst 0 (Sh 1 false)
             end
      end
  | None => ESig i s
  end.
(* does resolving this pseudo signal raise DomainError? *)
Definition lower_bad (base ndom : nat) (doms : domtab) (i : nat) : bool :=
  match cs_decode base i with
  | Some dk =>
      Nat.eqb (fst dk) 0 || Nat.ltb ndom (fst dk) ||
      (Nat.eqb (snd dk) 2 && match d_rst (doms (fst dk)) with Some _ => false | None => true end)
  | None => false
  end.

Fixpoint expr_sigs (e : expr) : list nat :=
  match e with
  | EConst _ _ => []
  | ESig i _ => [i]
  | EOp1 _ a => expr_sigs a
  | EOp2 _ a b => expr_sigs a ++ expr_sigs b
  | ESlice a _ _ => expr_sigs a
  | EPart a off _ _ => expr_sigs a ++ expr_sigs off
  | ECat parts => flat_map expr_sigs parts
  | ESwitch t cs => expr_sigs t ++ flat_map (fun c => expr_sigs (snd c)) cs
  end.
Fixpoint stmt_all_sigs (s : stmt) : list nat :=
  match s with
  | SAssign l r => expr_sigs l ++ expr_sigs r
  | SSwitch t cs => expr_sigs t ++ flat_map (fun c => flat_map stmt_all_sigs (snd c)) cs
  end.
Definition mem_all_sigs (m : meminst) : list nat :=
  flat_map (fun p => expr_sigs (wp_addr p) ++ expr_sigs (wp_data p) ++ expr_sigs (wp_en p)) (mi_wports m) ++
  flat_map (fun p => expr_sigs (rp_addr p) ++ expr_sigs (rp_data p) ++ expr_sigs (rp_en p)) (mi_rports m).

Definition lower_entry (base : nat) (doms : domtab) (e : dom * list stmt) : dom * list stmt :=
  (fst e, map (map_sig_stmt (lower_sig base doms)) (snd e)).
Definition lower_mem (base : nat) (doms : domtab) (m : meminst) : meminst :=
  let f := map_sig (lower_sig base doms) in
  MI (mi_shape m) (mi_depth m) (mi_init m)
     (map (fun p => WP (wp_dom p) (f (wp_addr p)) (f (wp_data p)) (f (wp_en p))) (mi_wports m))
     (map (fun p => RP (rp_dom p) (f (rp_addr p)) (f (rp_data p)) (f (rp_en p)) (rp_transp p)) (mi_rports m)).

(* what preparing the design for simulation raises: 1 AssertionError (memory port re-created with a wide enable),
   2 DomainError (undefined domain of a process / port / late-bound signal, strict reset of a reset-less domain) *)
Definition prepare_error (base ndom : nat) (doms : domtab) (f : frag) : Z :=
  if negb (frag_ports_ok f) then 1
  else if existsb (lower_bad base ndom doms)
            (flat_map (fun e => flat_map stmt_all_sigs (snd e)) (flatten f) ++ flat_map mem_all_sigs (frag_mems f))
       then 2 else 0.

(* ---------- auxiliary definitions for the DomainRenamer theorems on fragment trees ---------- *)
(* the statement dicts of all fragments of a tree *)
Fixpoint frag_nodes (f : frag) : list (list (dom * list stmt)) :=
  match f with Frag st _ subs => st :: flat_map frag_nodes subs end.
(* no fragment has two of its domains renamed onto one, and no empty statement list *)
Definition no_merge (rho : list (dom * dom)) (f : frag) : Prop :=
  forall st, In st (frag_nodes f) ->
    NoDup (map (fun e => rename_dom rho (fst e)) st) /\ (forall e, In e st -> snd e <> []).
(* every fragment's statement dict has distinct keys and no empty entry *)
Definition frag_dicts_ok (f : frag) : Prop :=
  forall st, In st (frag_nodes f) -> NoDup (map fst st) /\ (forall e, In e st -> snd e <> []).
Definition mem_port_doms (m : meminst) : list dom := map wp_dom (mi_wports m) ++ map rp_dom (mi_rports m).

(* Data.v — model of amaranth/lib/data.py (Field, Struct/Union/Array/FlexibleLayout, Layout.const,
   data.Const.__getitem__, View.__getitem__ as evaluated by the simulator, assignment through a view)
   and of amaranth/lib/enum.py (EnumType.const/from_bits, FlagView operators) together with a rendering
   of CPython 3.12 enum.Flag (value lookup `cls(v)` = Flag._missing_, and the operators & | ^ ~).
   No proofs here (see Proofs/DataP.v).  Field names are integers (the harness maps k <-> "f<k>");
   array keys are the integer indices themselves. *)
From Coq Require Import ZArith List Bool.
From V.Model Require Import Bits Shape.
Import ListNotations.
Open Scope Z_scope.

(* ------------------------------------------------------------------ bit-slice primitives *)
(* (1 << w) - 1 *)
Definition ones (w : Z) : Z := Z.shiftl 1 w - 1.
(* (v >> off) & ((1 << w) - 1): data.Const.__getitem__, _pyeval Slice / Part evaluation *)
Definition slice (off w v : Z) : Z := Z.land (Z.shiftr v off) (ones w).
(* mask = ((1 << w) - 1) << off; cur &= ~mask; cur |= (x << off) & mask : Layout.const *)
Definition upd (off w cur x : Z) : Z :=
  let m := Z.shiftl (ones w) off in
  Z.lor (Z.land cur (Z.lnot m)) (Z.land (Z.shiftl x off) m).

(* ------------------------------------------------------------------ layouts *)
Inductive layout :=
| Leaf (s : shape)                                (* plain Shape field *)
| ELeaf (s : shape) (vw : bool) (ms : list Z)     (* shaped enumeration (not a flag): explicit shape,
                                                     vw = has a view class (Enum: true, IntEnum: false), member values *)
| Struct (fs : list (Z * layout))                 (* StructLayout(members), declaration order *)
| Union (fs : list (Z * layout))                  (* UnionLayout(members) *)
| Array (e : layout) (n : nat)                    (* ArrayLayout(elem_shape, length) *)
| Flex (sz : Z) (fs : list (Z * (Z * layout))).   (* FlexibleLayout(size, {name: Field(shape, offset)}) *)

(* max(iterable, default=0) *)
Definition max_default0 (l : list Z) : Z :=
  match l with [] => 0 | x :: r => fold_left Z.max r x end.

(* offset + width of every struct field: `offset` is the running sum kept by StructLayout.__init__ *)
Fixpoint struct_ends (off : Z) (ws : list Z) : list Z :=
  match ws with [] => [] | w :: r => (off + w) :: struct_ends (off + w) r end.

(* Layout.size / Shape.cast(shape).width *)
Fixpoint layout_size (l : layout) : Z :=
  match l with
  | Leaf s => width s
  | ELeaf s _ _ => width s
  | Struct fs => max_default0 (struct_ends 0 (map (fun kf => layout_size (snd kf)) fs))
  | Union fs => max_default0 (map (fun kf => layout_size (snd kf)) fs)
  | Array e n => layout_size e * Z.of_nat n
  | Flex sz _ => sz
  end.

(* StructLayout.__init__: Field(shape, offset); offset += width *)
Fixpoint struct_fields (off : Z) (fs : list (Z * layout)) : list (Z * (Z * layout)) :=
  match fs with
  | [] => []
  | (k, f) :: r => (k, (off, f)) :: struct_fields (off + layout_size f) r
  end.

(* ArrayLayout.__iter__: yield index, Field(elem, offset); offset += width *)
Fixpoint array_fields (e : layout) (idx off : Z) (n : nat) : list (Z * (Z * layout)) :=
  match n with
  | O => []
  | S m => (idx, (off, e)) :: array_fields e (idx + 1) (off + layout_size e) m
  end.

(* Layout.__iter__ : (key, (offset, shape)) in iteration order *)
Definition fields_of (l : layout) : list (Z * (Z * layout)) :=
  match l with
  | Struct fs => struct_fields 0 fs
  | Union fs => map (fun kf => (fst kf, (0, snd kf))) fs
  | Array e n => array_fields e 0 0 n
  | Flex _ fs => fs
  | _ => []
  end.

Fixpoint assoc {A} (k : Z) (l : list (Z * A)) : option A :=
  match l with [] => None | (k', a) :: r => if k =? k' then Some a else assoc k r end.

(* Layout.__getitem__(key) -> Field(shape, offset); None = KeyError *)
Definition field_of (l : layout) (k : Z) : option (Z * layout) :=
  match l with
  | Array e n =>
      let len := Z.of_nat n in
      if (- len <=? k) && (k <? len) then
        let k' := if k <? 0 then k + len else k in Some (k' * layout_size e, e)
      else None
  | _ => assoc k (fields_of l)
  end.

Fixpoint memz (v : Z) (l : list Z) : bool :=
  match l with [] => false | x :: r => (v =? x) || memz v r end.
Fixpoint nodupz (l : list Z) : bool :=
  match l with [] => true | x :: r => negb (memz x r) && nodupz r end.

(* what the constructors accept (plus: names are distinct, which a Python dict guarantees) *)
Fixpoint wf_layout (l : layout) : bool :=
  match l with
  | Leaf s => wf_shape s
  | ELeaf s _ _ => wf_shape s
  | Struct fs => nodupz (map fst fs) && forallb (fun kf => wf_layout (snd kf)) fs
  | Union fs => nodupz (map fst fs) && forallb (fun kf => wf_layout (snd kf)) fs
  | Array e _ => wf_layout e
  | Flex sz fs => (0 <=? sz) && nodupz (map fst fs) &&
      forallb (fun kf => (0 <=? fst (snd kf)) && (fst (snd kf) + layout_size (snd (snd kf)) <=? sz)
                         && wf_layout (snd (snd kf))) fs
  end.

(* ------------------------------------------------------------------ results *)
(* exception classes: 1 KeyError, 2 IndexError, 3 ValueError, 4 TypeError *)
Inductive res :=
| Ok (sub : layout) (v : Z)     (* Leaf: the int; ELeaf: the member's value; layout: data.Const(sub, v) *)
| Err (c : Z).
Inductive resz := Okz (v : Z) | Errz (c : Z).

Definition is_array (l : layout) : bool := match l with Array _ _ => true | _ => false end.
Definition is_union (l : layout) : bool := match l with Union _ => true | _ => false end.
Definition is_layout (l : layout) : bool := match l with Leaf _ | ELeaf _ _ _ => false | _ => true end.

(* Layout.from_bits(raw) = data.Const(layout, raw): ValueError unless raw in range(1 << size) *)
Definition from_bits (l : layout) (raw : Z) : res :=
  if (0 <=? raw) && (raw <? 2 ^ layout_size l) then Ok l raw else Err 3.
(* data.Const.as_bits() *)
Definition as_bits (r : res) : resz := match r with Ok _ v => Okz v | Err c => Errz c end.

(* tail of data.Const.__getitem__: value = hdl.Const(value, Shape.cast(shape)).value (the field bits read in the
   field's shape: negative when the shape is signed and the top bit is set), then shape.from_bits(value) for
   shape-castables, the value itself otherwise *)
Definition const_field (sub : layout) (bits : Z) : res :=
  match sub with
  | Leaf s => Ok sub (norm s bits)
  | ELeaf s _ ms => if memz (norm s bits) ms then Ok sub (norm s bits) else Err 3     (* cls(value) *)
  | _ => from_bits sub (mask (layout_size sub) bits)      (* Shape.cast(layout) = unsigned(size) *)
  end.
(* the same before the repair of finding C15-signed-enum-field: from_bits received the raw unsigned field bits *)
Definition const_field_before_fix (sub : layout) (bits : Z) : res :=
  match sub with
  | Leaf s => Ok sub (norm s bits)
  | ELeaf _ _ ms => if memz bits ms then Ok sub bits else Err 3
  | _ => from_bits sub bits
  end.

(* data.Const.__getitem__(key) with an int / str key on the constant (l, raw) *)
Definition const_getitem (l : layout) (raw k : Z) : res :=
  if negb (is_layout l) then Err 4 else
  match field_of l k with
  | Some (off, sub) => const_field sub (slice off (layout_size sub) raw)
  | None => Err (if is_array l then 2 else 1)
  end.

(* nested access const[k1][k2]... ; the path must go through layouts *)
Fixpoint const_path (l : layout) (raw : Z) (p : list Z) : res :=
  match p with
  | [] => Ok l raw
  | k :: r => match const_getitem l raw k with
              | Ok sub v => match r with [] => Ok sub v | _ => const_path sub v r end
              | e => e
              end
  end.

(* ------------------------------------------------------------------ Layout.const *)
Inductive init := IVal (v : Z) | IMap (kvs : list (Z * init)).

Section ConstFold.
  Variable rec : layout -> init -> resz.
  (* value of one field initialiser: hdl.Const(key_value, field.shape) *)
  Definition field_init (sub : layout) (x : init) : resz :=
    match sub with
    | Leaf s => match x with IVal v => Okz (norm s v) | IMap _ => Errz 4 end
    | ELeaf s _ ms => match x with
                      | IVal v => if memz v ms then Okz (norm s v) else Errz 3    (* cls(init); Const(member.value, shape) *)
                      | IMap _ => Errz 3
                      end
    | _ => rec sub x
    end.
  (* the loop of Layout.const *)
  Fixpoint const_fold (l : layout) (kvs : list (Z * init)) (cur : Z) : resz :=
    match kvs with
    | [] => Okz cur
    | (k, x) :: r =>
        match field_of l k with
        | None => Errz 3
        | Some (off, sub) =>
            match field_init sub x with
            | Okz v => const_fold l r (upd off (layout_size sub) cur v)
            | e => e
            end
        end
    end.
End ConstFold.

(* Layout.const(init) -> bit pattern of the resulting data.Const *)
Fixpoint layout_const (l : layout) (i : init) {struct i} : resz :=
  match i with
  | IVal _ => Errz 4
  | IMap kvs =>
      if negb (is_layout l) then Errz 4
      else if is_union l && (1 <? Z.of_nat (length kvs)) then Errz 3
      else const_fold (fun s x => layout_const s x) l kvs 0
  end.

(* ------------------------------------------------------------------ views under simulation *)
(* what ctx.get(view[k]) returns, given the value `bits` of the Slice/Part expression *)
Definition view_field (sub : layout) (bits : Z) : res :=
  match sub with
  | Leaf s => Ok sub (if sgn s then sext (width s) bits else bits)     (* value.as_signed() *)
  | ELeaf s vw ms =>
      let v := if sgn s then sext (width s) bits else bits in          (* value.as_signed(), then shape(value) *)
      if vw then (if memz v ms then Ok sub v else Err 3)      (* EnumView(cls, value); ctx.get: shape.from_bits(v) *)
      else Ok sub v                             (* IntEnum: cls(value) is the value itself *)
  | _ => from_bits sub bits                     (* View(sub, slice); ctx.get -> sub.from_bits(value) *)
  end.
(* the same before the repair of finding C15-signed-enum-field: shape(value) received the unsigned slice *)
Definition view_field_before_fix (sub : layout) (bits : Z) : res :=
  match sub with
  | Leaf s => Ok sub (if sgn s then sext (width s) bits else bits)
  | ELeaf s vw ms =>
      if vw then
        if sgn s then Err 4                     (* EnumView.__init__: slice is unsigned, enum shape is signed *)
        else if memz bits ms then Ok sub bits else Err 3
      else Ok sub bits                          (* IntEnum: the bare (unsigned) slice *)
  | _ => from_bits sub bits
  end.

(* View.__getitem__(key), key an int/str; tv = value of the view's target expression *)
Definition view_getitem (l : layout) (tv k : Z) : res :=
  if negb (is_layout l) then Err 4 else
  match field_of l k with
  | Some (off, sub) => view_field sub (slice off (layout_size sub) tv)
  | None => Err (if is_array l then 2 else 1)
  end.

(* View.__getitem__(key), key a Value with current value idx >= 0: target.word_select(key, elem_width) *)
Definition view_getitem_dyn (l : layout) (tv idx : Z) : res :=
  match l with
  | Array e _ => if layout_size e <=? 0 then Err 4        (* Part stride must be positive *)
                 else view_field e (slice (idx * layout_size e) (layout_size e) tv)
  | _ => Err 4
  end.

Fixpoint view_path (l : layout) (tv : Z) (p : list Z) : res :=
  match p with
  | [] => Ok l tv
  | k :: r => match view_getitem l tv k with
              | Ok sub v => match r with [] => Ok sub v | _ => view_path sub v r end
              | e => e
              end
  end.

(* the chain of (offset, width) of the Slice / Part nodes of view[k1][k2]..., outermost layout first;
   None if some key does not name a field *)
Fixpoint path_chain (l : layout) (p : list Z) : option (list (Z * Z) * layout) :=
  match p with
  | [] => Some ([], l)
  | k :: r => match field_of l k with
              | Some (off, sub) =>
                  match path_chain sub r with
                  | Some (c, t) => Some ((off, layout_size sub) :: c, t)
                  | None => None
                  end
              | None => None
              end
  end.

(* _pyeval._eval_assign_inner on nested Slice/Part nodes. `chain` lists the nodes from the LHS expression
   inwards (innermost field first), ending at the signal of width n with current value cur. *)
Fixpoint assign_chain (chain : list (Z * Z)) (n cur start rhs len : Z) : Z :=
  match chain with
  | [] =>
      let stop := if n <? start + len then n else start + len in
      if n <=? start then cur else
      let m := Z.shiftl 1 stop - Z.shiftl 1 start in
      Z.land (Z.lor (Z.land cur (Z.lnot m)) (Z.land (Z.shiftl rhs start) m)) (ones n)
  | (off, w) :: r =>
      if w <=? start then cur else
      assign_chain r n cur (start + off) rhs (if w <? start + len then w - start else len)
  end.

(* ctx.set(view[k1]...[kj], x) where x is an int and the last field is a Leaf; tv = current value of the
   underlying unsigned(size) signal; result = new value of the signal *)
Definition view_assign (l : layout) (tv : Z) (p : list Z) (x : Z) : resz :=
  match path_chain l p with
  | Some (c, t) =>
      match c with
      | [] => Errz 4
      | _ => Okz (assign_chain (rev c) (layout_size l) tv 0 x (layout_size t))
      end
  | None => Errz 1
  end.

(* ------------------------------------------------------------------ shaped enumerations *)
(* EnumType.from_bits(bits) = cls(bits): value lookup; ValueError if no member has this value *)
Definition enum_from_bits (ms : list Z) (bits : Z) : resz :=
  if memz bits ms then Okz bits else Errz 3.
(* Const.cast(EnumType.const(init)).value, init an int or a member (given by value); None -> cls(0) *)
Definition enum_const (s : shape) (ms : list Z) (i : Z) : resz :=
  if memz i ms then Okz (norm s i) else Errz 3.

(* ------------------------------------------------------------------ flags *)
Inductive boundary := STRICT | CONFORM | EJECT | KEEP.
Record flagcls := FlagCls { fwidth : Z; fmembers : list Z; fbound : boundary }.   (* shape = unsigned(fwidth) *)

(* enum._is_single_bit *)
Definition is_single_bit (v : Z) : bool := if v =? 0 then false else Z.land v (v - 1) =? 0.
Definition lor_list (l : list Z) : Z := fold_left Z.lor l 0.
(* EnumType.__new__: _flag_mask_, _singles_mask_, _all_bits_ *)
Definition flag_mask (E : flagcls) : Z := lor_list (fmembers E).
Definition py_singles (E : flagcls) : Z := lor_list (filter is_single_bit (fmembers E)).
Definition all_bits (E : flagcls) : Z := 2 ^ bit_length (flag_mask E) - 1.
(* FlagView.__invert__: `for flag in enum_cls` iterates the canonical (single-bit) members;
   the test there is (value & (value - 1)) == 0 *)
Definition am_singles (E : flagcls) : Z :=
  lor_list (filter (fun v => Z.land v (v - 1) =? 0) (filter is_single_bit (fmembers E))).

Inductive fres := FMem (v : Z) | FInt (v : Z) | FErr.

(* cls(value) for a Flag class: Enum.__new__ (value2member lookup) then Flag._missing_ (CPython 3.12) *)
Definition py_flag_new (E : flagcls) (value : Z) : fres :=
  if memz value (fmembers E) then FMem value else
  let fm := flag_mask E in
  let sm := py_singles E in
  let ab := all_bits E in
  let bad := negb ((Z.lnot ab <=? value) && (value <=? ab)) || negb (Z.land value (Z.lxor ab fm) =? 0) in
  let step1 : fres :=        (* FMem v: continue with v *)
    if bad then
      match fbound E with
      | STRICT => FErr
      | CONFORM => FMem (Z.land value fm)
      | EJECT => FInt value
      | KEEP => FMem (if value <? 0 then Z.max (ab + 1) (2 ^ bit_length value) + value else value)
      end
    else FMem value in
  match step1 with
  | FMem v1 =>
      let v := if v1 <? 0 then ab + 1 + v1 else v1 in
      let unknown := Z.land v (Z.lnot fm) in
      let aliases := Z.land v (Z.lnot sm) in
      let member_value := Z.land v sm in
      if negb (unknown =? 0) && negb (match fbound E with KEEP => true | _ => false end) then FErr
      else if negb (member_value =? 0) || negb (aliases =? 0) then
        let combined0 := Z.land member_value fm in
        let combined :=
          if negb (aliases =? 0) then
            fold_left (fun c pm => if negb (pm =? 0) && (Z.land pm v =? pm) then Z.lor c pm else c)
                      (fmembers E) combined0
          else combined0 in
        let unknown' := Z.lxor v combined in
        if combined =? 0 then FMem v
        else if negb (unknown' =? 0) && (match fbound E with STRICT => true | _ => false end) then FErr
        else FMem v
      else FMem v
  | r => r
  end.

Inductive bop := BAnd | BOr | BXor.
Definition bop_z (o : bop) : Z -> Z -> Z :=
  match o with BAnd => Z.land | BOr => Z.lor | BXor => Z.lxor end.

(* Python: Flag.__and__/__or__/__xor__/__invert__ on members with values x, y *)
Definition py_flag_bop (E : flagcls) (o : bop) (x y : Z) : fres := py_flag_new E (bop_z o x y).
Definition py_flag_not (E : flagcls) (x : Z) : fres :=
  match fbound E with
  | EJECT | KEEP => py_flag_new E (Z.lnot x)
  | _ => py_flag_new E (Z.land (py_singles E) (Z.lnot x))
  end.

(* Amaranth: FlagView operators on unsigned(w) values x, y, observed with ctx.get (-> from_bits = cls(raw)).
   raw value of the resulting expression first (None = TypeError from EnumView.__init__: shape differs) *)
Definition fv_bop_raw (E : flagcls) (o : bop) (x y : Z) : Z := mask (fwidth E) (bop_z o x y).
Definition fv_not_raw (E : flagcls) (x : Z) : option Z :=
  match fbound E with
  | EJECT | KEEP => Some (mask (fwidth E) (Z.lnot x))
  | _ => let sm := am_singles E in
         if fwidth E <? bits_for sm false then None
         else Some (Z.land (mask (fwidth E) (Z.lnot x)) sm)
  end.
Definition fv_bop (E : flagcls) (o : bop) (x y : Z) : fres := py_flag_new E (fv_bop_raw E o x y).
Definition fv_not (E : flagcls) (x : Z) : option fres :=
  match fv_not_raw E x with Some r => Some (py_flag_new E r) | None => None end.

(* EnumType.from_bits / const for a flag class *)
Definition flag_from_bits (E : flagcls) (bits : Z) : fres := py_flag_new E bits.
Definition flag_const (E : flagcls) (i : Z) : resz :=
  match py_flag_new E i with
  | FMem m => Okz (mask (fwidth E) m)
  | FInt _ => Errz 5            (* int has no .value: AttributeError *)
  | FErr => Errz 3
  end.

(* ------------------------------------------------------------------ specification-side predicates
   (hypotheses of the round-trip theorems, as boolean functions so that instances can be computed) *)
Definition disjb (o1 w1 o2 w2 : Z) : bool := (o1 + w1 <=? o2) || (o2 + w2 <=? o1).

(* the fields named by ks exist and are pairwise non-overlapping *)
Fixpoint keys_disjoint (l : layout) (ks : list Z) : bool :=
  match ks with
  | [] => true
  | k :: r =>
      match field_of l k with
      | None => false
      | Some (o, s) =>
          forallb (fun k' => match field_of l k' with
                             | None => false
                             | Some (o', s') => disjb o (layout_size s) o' (layout_size s')
                             end) r
          && keys_disjoint l r
      end
  end.

(* hereditarily: an initialiser whose mappings only name existing, pairwise non-overlapping fields *)
Fixpoint init_ok (l : layout) (i : init) {struct i} : bool :=
  match i with
  | IVal _ => negb (is_layout l)
  | IMap kvs =>
      is_layout l && keys_disjoint l (map fst kvs) &&
      forallb (fun kx => match field_of l (fst kx) with
                         | Some (_, sub) => init_ok sub (snd kx)
                         | None => false
                         end) kvs
  end.

(* the sub-initialiser reached by a path of keys *)
Fixpoint init_at (i : init) (p : list Z) : option init :=
  match p with
  | [] => Some i
  | k :: r => match i with
              | IMap kvs => match assoc k kvs with Some x => init_at x r | None => None end
              | IVal _ => None
              end
  end.

(* sum of the offsets of a chain of nested fields *)
Definition chain_off (c : list (Z * Z)) : Z := fold_right (fun ow acc => fst ow + acc) 0 c.

(* a field through which a view can be read like the constant: always, except that for IntEnum fields (a plain
   value on the view side, by design not validated) the bits, read in the field's shape, must be those of a member *)
Definition view_ok_field (sub : layout) (bits : Z) : bool :=
  match sub with
  | ELeaf s vw ms => vw || memz (norm s bits) ms
  | _ => true
  end.

(* ------------------------------------------------------------------ Layout.const with every initialiser kind
   Field initialisers may also be amaranth hdl.Const objects (used as they are: their own width/signedness; the
   per-field clear/insert mask of Layout.const is built from the FIELD width) and lib.data.Const objects
   (accepted by a layout-shaped field iff the layouts compare equal).  Enumeration members are XVal of their value;
   Python sequences are XMap over the indices 0, 1, ... *)
Inductive xinit :=
| XVal (v : Z)
| XMap (kvs : list (Z * xinit))
| XConst (v : Z) (c : shape)          (* hdl.Const(v, c) *)
| XDConst (l : layout) (raw : Z).     (* lib.data.Const(l, raw), 0 <= raw < 2^size *)

(* Shape.cast(field.shape) *)
Definition cast_shape (l : layout) : shape :=
  match l with Leaf s => s | ELeaf s _ _ => s | _ => Sh (layout_size l) false end.
(* Field.__eq__: same offset, same cast shape *)
Definition field_eqb (a b : Z * layout) : bool :=
  (fst a =? fst b) && shape_eqb (cast_shape (snd a)) (cast_shape (snd b)).
(* Layout.__eq__: same size and dict(iter(self)) == dict(iter(other)); array keys are ints, all others strings *)
Definition layout_eqb (l1 l2 : layout) : bool :=
  let F1 := fields_of l1 in let F2 := fields_of l2 in
  (layout_size l1 =? layout_size l2) && Nat.eqb (length F1) (length F2) &&
  forallb (fun kf => match assoc (fst kf) F2 with Some f => field_eqb (snd kf) f | None => false end) F1 &&
  (Bool.eqb (is_array l1) (is_array l2) || Nat.eqb (length F1) 0).

Section GFold.
  Context {I : Type}.
  Variable fi : layout -> I -> resz.
  (* the loop of Layout.const, for any way `fi` of turning a field initialiser into the inserted integer *)
  Fixpoint gfold (l : layout) (kvs : list (Z * I)) (cur : Z) : resz :=
    match kvs with
    | [] => Okz cur
    | (k, x) :: r =>
        match field_of l k with
        | None => Errz 3
        | Some (off, sub) =>
            match fi sub x with
            | Okz v => gfold l r (upd off (layout_size sub) cur v)
            | e => e
            end
        end
    end.
End GFold.

(* key_value after the conversions in the loop body (its .value; NOT yet reduced to the field width) *)
Definition xfield_init (rec : layout -> xinit -> resz) (sub : layout) (x : xinit) : resz :=
  let eqchk l' raw := if layout_eqb sub l' then Okz raw else Errz 3 in
  match sub with
  | Leaf s =>
      match x with
      | XVal v => Okz (norm s v)              (* hdl.Const(v, field shape) *)
      | XConst v c => Okz (norm c v)          (* an hdl.Const is taken as it is *)
      | _ => Errz 4
      end
  | ELeaf s vw ms =>
      let of_value v c :=                     (* cls(Value): EnumView(cls, value) / the value itself *)
        if vw then (if shape_eqb c s then Errz 5 else Errz 4) else Okz (norm s (norm c v)) in
      match x with
      | XVal v => if memz v ms then Okz (norm s v) else Errz 3
      | XConst v c => of_value v c
      | XDConst l' raw => of_value raw (Sh (layout_size l') false)
      | XMap _ => Errz 3
      end
  | _ =>
      match x with
      | XMap _ => rec sub x
      | XVal _ => Errz 4
      | XConst v c => if is_union sub && (1 <? width c) then Errz 5 else Errz 4      (* len(init) *)
      | XDConst l' raw => eqchk l' raw        (* UnionLayout.const skips len() for a lib.data.Const; then
                                                 Layout.const: same layout passes through, else ValueError *)
      end
  end.

Fixpoint xlayout_const (l : layout) (i : xinit) {struct i} : resz :=
  match i with
  | XMap kvs =>
      if negb (is_layout l) then Errz 4
      else if is_union l && (1 <? Z.of_nat (length kvs)) then Errz 3
      else gfold (xfield_init (fun s x => xlayout_const s x)) l kvs 0
  | _ => Errz 4
  end.

(* ------------------------------------------------------------------ designs that assign through views
   m.d.comb += view[path].eq(in_j)  /  m.d.sync += view[path][idx_signal].eq(in_j): every statement is a masked
   update of the signal's next value, applied in program order (later statements win on shared bits);
   comb statements start from the value held by the signal (init for bits no sync statement drives),
   sync statements from the current value, at each rising clock edge. *)
Record sasg := SAsg { sa_path : list Z; sa_in : nat; sa_ix : option nat }.

Definition arr_len (l : layout) (p : list Z) : option nat :=
  match path_chain l p with Some (_, Array _ n) => Some n | _ => None end.

Definition asg_apply (l : layout) (env : list Z) (cur : Z) (a : sasg) : Z :=
  let x := nth (sa_in a) env 0 in
  match sa_ix a with
  | None => match view_assign l cur (sa_path a) x with Okz v => v | Errz _ => cur end
  | Some j =>
      let i := nth j env 0 in
      match arr_len l (sa_path a) with
      | Some n => if (0 <=? i) && (i <? Z.of_nat n)
                  then match view_assign l cur (sa_path a ++ [i]) x with Okz v => v | Errz _ => cur end
                  else cur                       (* index past the end: no element is written *)
      | None => cur
      end
  end.
Definition asgs_apply (l : layout) (env : list Z) (cur : Z) (asgs : list sasg) : Z :=
  fold_left (asg_apply l env) asgs cur.

Inductive sstep := SData (sets : list (nat * Z)) | SClk (v : Z).
Fixpoint set_nth (n : nat) (v : Z) (l : list Z) : list Z :=
  match n, l with
  | O, _ :: r => v :: r
  | S m, x :: r => x :: set_nth m v r
  | _, [] => []
  end.
(* value of the signal observed after every step *)
Fixpoint synth_run (l : layout) (casgs sasgs : list sasg) (env : list Z) (clk st : Z) (steps : list sstep) : list Z :=
  match steps with
  | [] => []
  | SData sets :: r =>
      let env' := fold_left (fun e p => set_nth (fst p) (snd p) e) sets env in
      asgs_apply l env' st casgs :: synth_run l casgs sasgs env' clk st r
  | SClk v :: r =>
      (* only the clocked statements' bits are registers: the comb-driven bits of `st` stay at their init value,
         so an element a dynamic comb index no longer selects falls back to init, not to a latched copy *)
      let st' := if (clk =? 0) && (v =? 1) then asgs_apply l env st sasgs else st in
      asgs_apply l env st' casgs :: synth_run l casgs sasgs env v st' r
  end.
Definition synth (l : layout) (tv : Z) (casgs sasgs : list sasg) (env0 : list Z) (steps : list sstep) : list Z :=
  asgs_apply l env0 tv casgs :: synth_run l casgs sasgs env0 0 tv steps.

(* Layout.format / ArrayLayout.format (run by Signal(layout)) build shape(slice.as_signed() if signed) for every
   field, recursively: every layout formats (no case of the model) *)

(* FlexibleLayout.__init__: ValueError when a field ends past the declared size *)
Definition flex_new_ok (sz : Z) (fs : list (Z * (Z * layout))) : bool :=
  forallb (fun kf => fst (snd kf) + layout_size (snd (snd kf)) <=? sz) fs.

(* the range / hole test at the head of Flag._missing_ *)
Definition flag_bad (E : flagcls) (v : Z) : bool :=
  negb ((Z.lnot (all_bits E) <=? v) && (v <=? all_bits E)) ||
  negb (Z.land v (Z.lxor (all_bits E) (flag_mask E)) =? 0).

(* a shaped Flag class used as a layout field, for the boundaries under which cls(bits) either returns the member
   with value bits or raises (STRICT, KEEP): the enumeration leaf whose members are the accepted bit patterns *)
Definition flag_values (E : flagcls) : list Z :=
  filter (fun v => match py_flag_new E v with FMem m => m =? v | _ => false end)
         (map Z.of_nat (seq 0 (Z.to_nat (2 ^ fwidth E)))).
Definition flag_leaf (E : flagcls) (vw : bool) : layout := ELeaf (Sh (fwidth E) false) vw (flag_values E).

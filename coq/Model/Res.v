(* Res.v — model of amaranth/build/res.py (ResourceManager.request), amaranth/build/dsl.py
   (Pins.map_names, Connector) and amaranth/build/plat.py (iter_port_constraints_bits).
   Names (resources, subsignals, attribute keys/values, platform pins, connectors) are integer
   identifiers; the harness maps them injectively to strings.  No proofs here. *)
From Coq Require Import ZArith List Bool.
Import ListNotations.
Open Scope Z_scope.

(* ---------------------------------------------------------------- names and connectors *)
(* A pin name either contains no ":" (platform pin) or is "<conn>_<num>:<pin>" (connector pin). *)
Inductive pname := Plat (p : Z) | CPin (c k : Z).
Definition ckey := (Z * Z)%type.
Definition ckey_eqb (a b : ckey) : bool := (fst a =? fst b) && (snd a =? snd b).
(* ResourceManager._conn_pins: connector pin -> platform pin or another connector's pin *)
Definition connmap := list (ckey * pname).
Fixpoint cm_lookup (cm : connmap) (k : ckey) : option pname :=
  match cm with
  | [] => None
  | (k', v) :: r => if ckey_eqb k' k then Some v else cm_lookup r k
  end.

Fixpoint ckey_mem (a : ckey) (l : list ckey) : bool :=
  match l with [] => false | b :: r => ckey_eqb a b || ckey_mem a r end.

(* Pins.map_names, inner `while ":" in name` loop with its `seen` set, on fuel:
     if name not in mapping: NameError (MMissing); if name in seen: NameError (MCycle); seen.add(name)
   MLoop = fuel exhausted; unreachable with fuel cm_fuel (Proofs/ResP.v, resolve_terminates) *)
Inductive mres := MOk (p : Z) | MMissing | MCycle | MLoop.
Fixpoint resolve_seen (fuel : nat) (cm : connmap) (seen : list ckey) (n : pname) {struct fuel} : mres :=
  match n with
  | Plat p => MOk p
  | CPin c k =>
    match fuel with
    | O => MLoop
    | S f => match cm_lookup cm (c, k) with
             | None => MMissing
             | Some n' => if ckey_mem (c, k) seen then MCycle
                          else resolve_seen f cm ((c, k) :: seen) n'
             end
    end
  end.
Definition resolve_name (fuel : nat) (cm : connmap) (n : pname) : mres := resolve_seen fuel cm [] n.
Definition cm_fuel (cm : connmap) : nat := S (length cm).

Inductive lres := LOk (l : list Z) | LMissing | LCycle | LLoop.
Fixpoint map_names (fuel : nat) (cm : connmap) (ns : list pname) : lres :=
  match ns with
  | [] => LOk []
  | n :: r => match resolve_name fuel cm n with
              | MOk p => match map_names fuel cm r with LOk l => LOk (p :: l) | e => e end
              | MMissing => LMissing
              | MCycle => LCycle
              | MLoop => LLoop
              end
  end.

(* ---------------------------------------------------------------- platform description *)
Inductive dirs := Di | Do | Doe | Dio.
Definition dirs_eqb (a b : dirs) : bool :=
  match a, b with Di, Di | Do, Do | Doe, Doe | Dio, Dio => true | _, _ => false end.
Definition alist := list (Z * Z).
Inductive phys := PPins (names : list pname) | PDiff (p n : list pname).
Record leafd := mkLeaf { l_phys : phys; l_dir : dirs; l_inv : bool; l_clock : option Z (* period, fs *) }.
(* Subsignal: either one Pins/DiffPairs (+ optional Clock) or a list of Subsignals *)
Inductive node :=
| Leaf (name : Z) (attrs : alist) (l : leafd)
| Group (name : Z) (attrs : alist) (subs : list node).
Definition node_name (n : node) : Z := match n with Leaf a _ _ | Group a _ _ => a end.
Definition node_attrs (n : node) : alist := match n with Leaf _ a _ | Group _ a _ => a end.
Definition key := (Z * Z)%type.                     (* (resource name, number) *)
Definition key_eqb (a b : key) : bool := (fst a =? fst b) && (snd a =? snd b).
Definition table := list (Z * node).                (* (number, Resource); name = node_name *)
Fixpoint tbl_lookup (t : table) (k : key) : option node :=
  match t with
  | [] => None
  | (num, n) :: r => if key_eqb (node_name n, num) k then Some n else tbl_lookup r k
  end.

(* ---------------------------------------------------------------- request options *)
(* dir=: None | "-" | "i"/"o"/"oe"/"io" | anything else that is not a dict | dict *)
Inductive dval := DNone | DDash | DDir (d : dirs) | DBad | DDict (l : list (Z * dval)).
(* xdr=: None | int | anything else that is not a dict | dict *)
Inductive xval := XNone | XInt (z : Z) | XBad | XDict (l : list (Z * xval)).

Section Dict.
  Context {V : Type}.
  Fixpoint dict_get (l : list (Z * V)) (k : Z) : option V :=
    match l with [] => None | (k', v) :: r => if k' =? k then Some v else dict_get r k end.
  Fixpoint dict_set (l : list (Z * V)) (k : Z) (v : V) : list (Z * V) :=
    match l with
    | [] => [(k, v)]
    | (k', v') :: r => if k' =? k then (k, v) :: r else (k', v') :: dict_set r k v
    end.
End Dict.
Definition dget (l : list (Z * dval)) (k : Z) : dval := match dict_get l k with Some v => v | None => DNone end.
Definition xget (l : list (Z * xval)) (k : Z) : xval := match dict_get l k with Some v => v | None => XNone end.

(* the three causes of ResourceError: lookup() "does not exist", request() "has already been requested",
   resolve() "uses physical pin ... already used by ..." *)
Inductive rcause := RNoSuch | RAgain | RConflict.
Inductive err := EResource (c : rcause) | EType | EValue | EName | EHang.

(* merge_options, leaf branch *)
Definition merge_leaf (ld : dirs) (d : dval) (x : xval) : err + (dval * xval) :=
  let d1 := match d with DNone => DDir ld | _ => d end in
  let x1 := match x with XNone => XInt 0 | _ => x end in
  let dir_ok := match d1 with DDash | DDir _ => true | _ => false end in
  if negb dir_ok then inl EType
  else if match d1 with DDir d' => negb (dirs_eqb d' ld) && negb (dirs_eqb ld Dio) | _ => false end then inl EValue
  else match x1 with
       | XInt z => if z <? 0 then inl EValue else inr (d1, x1)
       | _ => inl EValue
       end.

(* merge_options *)
Fixpoint merge_options (n : node) (d : dval) (x : xval) {struct n} : err + (dval * xval) :=
  match n with
  | Leaf _ _ l => merge_leaf (l_dir l) d x
  | Group _ _ subs =>
    let dash := match d with DDash => true | _ => false end in
    let d1 := match d with DNone | DDash => DDict [] | _ => d end in
    let x1 := match x with XNone => XDict [] | _ => x end in
    match d1 with
    | DDict dd0 =>
      match x1 with
      | XDict xd0 =>
        (fix go (ss : list node) (dd : list (Z * dval)) (xd : list (Z * xval)) : err + (dval * xval) :=
           match ss with
           | [] => inr (DDict dd, XDict xd)
           | s :: r =>
             let sd := if dash then DDash else dget dd (node_name s) in
             let sx := xget xd (node_name s) in
             match merge_options s sd sx with
             | inl e => inl e
             | inr (d', x') => go r (dict_set dd (node_name s) d') (dict_set xd (node_name s) x')
             end
           end) subs dd0 xd0
      | _ => inl EType
      end
    | _ => inl EType
    end
  end.

(* ---------------------------------------------------------------- manager state, returned values *)
Definition path := (key * list Z)%type.             (* ("<name>_<number>", sub names...) *)
Definition path_snoc (p : path) (s : Z) : path := (fst p, snd p ++ [s]).
Record port := mkPort {
  pt_path : path; pt_diff : bool;
  pt_p : list Z;            (* physical pins of io / p, bit k = k-th element *)
  pt_n : list Z;            (* physical pins of n (differential only) *)
  pt_inv : bool; pt_dir : dirs; pt_attrs : alist }.
Record pinrec := mkPin { pn_width : Z; pn_dir : dirs; pn_xdr : Z; pn_path : path }.
Record lval := mkLval {
  lv_name : Z; lv_isport : bool;  (* dir="-": the port itself is returned; otherwise a Pin *)
  lv_port : port; lv_pin : pinrec;
  lv_clock : option Z }.          (* ghost: period passed to add_clock_constraint for this port *)
Inductive value := VLeaf (v : lval) | VGroup (name : Z) (vs : list value).

Record state := mkSt {
  requested : list key;                      (* _requested (keys, insertion order) *)
  phys_reqd : list (Z * path);               (* _phys_reqd *)
  io_clocks : list ((path * Z) * Z);         (* _io_clocks: (port = path + suffix 0:io 1:p 2:n) -> period *)
  pins : list (pinrec * port) }.             (* _pins *)
Definition init_state : state := mkSt [] [] [] [].

Fixpoint zmem (a : Z) (l : list Z) : bool := match l with [] => false | b :: r => (a =? b) || zmem a r end.
Fixpoint key_mem (a : key) (l : list key) : bool := match l with [] => false | b :: r => key_eqb a b || key_mem a r end.

(* `for phys_name in phys_names: if phys_name in self._phys_reqd: raise ...; self._phys_reqd[phys_name] = path` *)
Fixpoint claim (ph : list (Z * path)) (names : list Z) (pth : path) : list (Z * path) * bool :=
  match names with
  | [] => (ph, true)
  | a :: r => if zmem a (map fst ph) then (ph, false) else claim (ph ++ [(a, pth)]) r pth
  end.

Fixpoint amerge (a b : alist) : alist :=           (* {**a, **b} *)
  match b with [] => a | (k, v) :: r => amerge (dict_set a k v) r end.

Definition add_clock (st : state) (pk : path * Z) (c : option Z) : state :=
  match c with
  | None => st
  | Some f => mkSt (requested st) (phys_reqd st) (io_clocks st ++ [(pk, f)]) (pins st)
  end.
Definition out_dir (d : dirs) : dirs := match d with Doe => Do | _ => d end.
Definition phys_len (p : phys) : Z := match p with PPins l => Z.of_nat (length l) | PDiff l _ => Z.of_nat (length l) end.

(* resolve, Pins/DiffPairs branch, after the names were mapped: port construction, clock constraint,
   pin bookkeeping, Pin/PinBuffer creation; (d, x) are the merged options of this leaf *)
Definition leaf_finish (nm : Z) (l : leafd) (d : dval) (x : xval) (pth : path) (attrs : alist) (st : state)
           (pp nn : list Z) (diff : bool) : state * (err + lval) :=
  let pt := mkPort pth diff pp nn (l_inv l) (out_dir (l_dir l)) attrs in
  let st1 := add_clock st (pth, if diff then 1 else 0) (l_clock l) in
  let (ph, ok) := claim (phys_reqd st1) (pp ++ nn) pth in
  let st2 := mkSt (requested st1) ph (io_clocks st1) (pins st1) in
  if negb ok then (st2, inl (EResource RConflict))
  else match d with
       | DDash => (st2, inr (mkLval nm true pt (mkPin (phys_len (l_phys l)) Dio 0 pth) (l_clock l)))
       | DDir dd =>
         match x with
         | XInt z =>
           let pn := mkPin (phys_len (l_phys l)) dd z pth in
           if (z =? 0) || (z =? 1) || (z =? 2)
           then (mkSt (requested st2) (phys_reqd st2) (io_clocks st2) (pins st2 ++ [(pn, pt)]),
                 inr (mkLval nm false pt pn (l_clock l)))
           else (st2, inl EValue)                  (* PinBuffer: Unsupported 'xdr' value *)
         | _ => (st2, inl EValue)
         end
       | _ => (st2, inl EType)
       end.

Definition resolve_leaf (fuel : nat) (cm : connmap) (nm : Z) (l : leafd) (d : dval) (x : xval)
           (pth : path) (attrs : alist) (st : state) : state * (err + lval) :=
  match l_phys l with
  | PPins ns =>
    match map_names fuel cm ns with
    | LOk pp => leaf_finish nm l d x pth attrs st pp [] false
    | LMissing | LCycle => (st, inl EName)
    | LLoop => (st, inl EHang)
    end
  | PDiff ps ns =>
    match map_names fuel cm ps with
    | LOk pp => match map_names fuel cm ns with
                | LOk nn => leaf_finish nm l d x pth attrs st pp nn true
                | LMissing | LCycle => (st, inl EName)
                | LLoop => (st, inl EHang)
                end
    | LMissing | LCycle => (st, inl EName)
    | LLoop => (st, inl EHang)
    end
  end.

Definition ddict (d : dval) : list (Z * dval) := match d with DDict l => l | _ => [] end.
Definition xdict (x : xval) : list (Z * xval) := match x with XDict l => l | _ => [] end.

(* resolve; `attrs` already contains the node's own attributes, as in the code *)
Fixpoint resolve (fuel : nat) (cm : connmap) (n : node) (d : dval) (x : xval) (pth : path) (attrs : alist)
         (st : state) {struct n} : state * (err + value) :=
  match n with
  | Leaf nm _ l =>
    match resolve_leaf fuel cm nm l d x pth attrs st with
    | (st', inl e) => (st', inl e)
    | (st', inr v) => (st', inr (VLeaf v))
    end
  | Group nm _ subs =>
    match (fix go (ss : list node) (st : state) : state * (err + list value) :=
             match ss with
             | [] => (st, inr [])
             | s :: r =>
               match resolve fuel cm s (dget (ddict d) (node_name s)) (xget (xdict x) (node_name s))
                             (path_snoc pth (node_name s)) (amerge attrs (node_attrs s)) st with
               | (st', inl e) => (st', inl e)
               | (st', inr v) => match go r st' with
                                 | (st'', inl e) => (st'', inl e)
                                 | (st'', inr vs) => (st'', inr (v :: vs))
                                 end
               end
             end) subs st with
    | (st', inl e) => (st', inl e)
    | (st', inr vs) => (st', inr (VGroup nm vs))
    end
  end.

(* ---------------------------------------------------------------- request *)
Inductive result := Ok (v : value) | Error (e : err).
Record req := mkReq { q_name : Z; q_num : Z; q_dir : dval; q_xdr : xval }.
Definition q_key (q : req) : key := (q_name q, q_num q).

Definition request (t : table) (cm : connmap) (st : state) (q : req) : state * result :=
  match tbl_lookup t (q_key q) with
  | None => (st, Error (EResource RNoSuch))                   (* lookup: does not exist *)
  | Some res =>
    if key_mem (q_key q) (requested st) then (st, Error (EResource RAgain))   (* already requested *)
    else
      match merge_options res (q_dir q) (q_xdr q) with
      | inl e => (st, Error e)
      | inr (d, x) =>
        match resolve (cm_fuel cm) cm res d x (q_key q, []) (node_attrs res) st with
        | (st', inl e) =>
          (* except Exception: restore _phys_reqd, _io_clocks, del _pins[pins_len:]; raise *)
          (mkSt (requested st') (phys_reqd st) (io_clocks st) (firstn (length (pins st)) (pins st')),
           Error e)
        | (st', inr v) =>
          (mkSt (requested st' ++ [q_key q]) (phys_reqd st') (io_clocks st') (pins st'), Ok v)
        end
      end
  end.

Definition step (t : table) (cm : connmap) (acc : state * list (req * result)) (q : req)
  : state * list (req * result) :=
  let (st', r) := request t cm (fst acc) q in (st', snd acc ++ [(q, r)]).
Definition run (t : table) (cm : connmap) (hist : list req) : state * list (req * result) :=
  fold_left (step t cm) hist (init_state, []).

(* ---------------------------------------------------------------- spec-side views *)
Fixpoint leaves_of (n : node) : list leafd :=
  match n with
  | Leaf _ _ l => [l]
  | Group _ _ subs => (fix go (ss : list node) : list leafd :=
                         match ss with [] => [] | s :: r => leaves_of s ++ go r end) subs
  end.
Fixpoint leaves (v : value) : list lval :=
  match v with
  | VLeaf l => [l]
  | VGroup _ vs => (fix go (ss : list value) : list lval :=
                      match ss with [] => [] | s :: r => leaves s ++ go r end) vs
  end.
Definition port_pins (p : port) : list Z := pt_p p ++ pt_n p.
Definition value_pins (v : value) : list Z := concat (map (fun l => port_pins (lv_port l)) (leaves v)).
Definition clock_of (l : lval) : list ((path * Z) * Z) :=
  match lv_clock l with
  | Some f => [((pt_path (lv_port l), if pt_diff (lv_port l) then 1 else 0), f)]
  | None => []
  end.
Definition value_clocks (v : value) : list ((path * Z) * Z) := concat (map clock_of (leaves v)).
Fixpoint granted (outs : list (req * result)) : list (req * value) :=
  match outs with
  | [] => []
  | (q, Ok v) :: r => (q, v) :: granted r
  | (_, Error _) :: r => granted r
  end.

(* IOPorts of a value with their per-bit metadata (pin name, attrs); a differential port yields p and n *)
Record ioport := mkIO { io_name : path * Z; io_meta : list Z; io_attrs : alist }.
Definition port_ioports (p : port) : list ioport :=
  if pt_diff p then [mkIO (pt_path p, 1) (pt_p p) (pt_attrs p); mkIO (pt_path p, 2) (pt_n p) (pt_attrs p)]
  else [mkIO (pt_path p, 0) (pt_p p) (pt_attrs p)].
Definition value_ioports (v : value) : list ioport := concat (map (fun l => port_ioports (lv_port l)) (leaves v)).

(* iter_port_constraints_bits: `name` for 1-bit ports, `name[bit]` otherwise *)
Record constr := mkC { c_port : path * Z; c_bit : option Z; c_pin : Z; c_attrs : alist }.
Fixpoint bits_from (port : path * Z) (at_ : alist) (k : Z) (meta : list Z) : list constr :=
  match meta with
  | [] => []
  | m :: r => mkC port (Some k) m at_ :: bits_from port at_ (k + 1) r
  end.
Definition port_entries (p : ioport) : list constr :=
  match io_meta p with
  | [m] => [mkC (io_name p) None m (io_attrs p)]
  | meta => bits_from (io_name p) (io_attrs p) 0 meta
  end.
Definition port_constraints (ports : list ioport) : list constr := concat (map port_entries ports).
Definition clock_constraints (st : state) : list ((path * Z) * Z) := io_clocks st.

(* ---------------------------------------------------------------- manager construction, build plan *)
(* ResourceManager.add_resources: NameError when two resources have the same name and number *)
Fixpoint table_dup (t : table) : bool :=
  match t with
  | [] => false
  | (num, n) :: r => (match tbl_lookup r (node_name n, num) with Some _ => true | None => false end) || table_dup r
  end.

(* vendor get_io_buffer: which I/O ports of a buffered port reach the design.  io / p always; the n port of a
   differential pair: Gowin (TLVDS/ELVDS primitives take both pads) always; iCE40 only for outputs (two SB_IO,
   the input uses SB_LVDS_INPUT on p alone); ECP5 / Nexus never (ILVDS/OLVDS take p only) *)
Inductive vendor := VIce40 | VEcp5 | VGowin | VNexus.
Definition vendor_uses_n (v : vendor) (p : port) : bool :=
  match v with VGowin => true | VIce40 => dirs_eqb (pt_dir p) Do | VEcp5 | VNexus => false end.
(* .pcf has no attribute syntax; the Apicula .cst carries no clock constraints *)
Definition vendor_attrs (v : vendor) : bool := match v with VIce40 => false | _ => true end.
Definition vendor_clocks (v : vendor) : bool := match v with VGowin => false | _ => true end.
Definition used_ioports (v : vendor) (p : port) : list ioport :=
  filter (fun io => negb (snd (io_name io) =? 2) || vendor_uses_n v p) (port_ioports p).

Fixpoint zl_eqb (a b : list Z) : bool :=
  match a, b with [], [] => true | x :: a', y :: b' => (x =? y) && zl_eqb a' b' | _, _ => false end.
Definition path_eqb (a b : path) : bool := key_eqb (fst a) (fst b) && zl_eqb (snd a) (snd b).
Fixpoint path_mem (a : path) (l : list path) : bool :=
  match l with [] => false | b :: r => path_eqb a b || path_mem a r end.

Record plan := mkPlan { pl_constraints : list constr; pl_clocks : list ((path * Z) * Z) }.
(* Platform.prepare for a design that performs the requests `hist` (refusals caught by the design) and buffers
   every granted port except those at the paths `unused`: then create_missing_domain("sync") requests
   default_clk and default_rst (number 0, dir="-") — a refusal there aborts the build — and buffers them;
   the constraint file lists iter_port_constraints_bits over the design's ports and the port clock constraints
   (of ALL requested ports, buffered or not). *)
Definition strip_attrs (c : constr) : constr := mkC (c_port c) (c_bit c) (c_pin c) [].
Definition sys_reqs (dclk drst : option Z) : list req :=
  match dclk with
  | None => []
  | Some c => mkReq c 0 DDash XNone :: match drst with Some r => [mkReq r 0 DDash XNone] | None => [] end
  end.
Fixpoint sys_go (t : table) (cm : connmap) (ex : list req) (st : state) (vals : list value) : err + (state * list value) :=
  match ex with
  | [] => inr (st, vals)
  | q :: r => match request t cm st q with
              | (_, Error e) => inl e
              | (st', Ok v) => sys_go t cm r st' (vals ++ [v])
              end
  end.
(* ports of the design that were not created by request(): a raw IOPort has no metadata (None for every bit)
   and iter_port_constraints_bits skips it (`continue`), whatever its width and position in Design.ports *)
Inductive dport := DRes (p : ioport) | DRaw (width : Z).
Definition dport_entries (d : dport) : list constr := match d with DRes p => port_entries p | DRaw _ => [] end.
Definition design_constraints (ds : list dport) : list constr := concat (map dport_entries ds).
(* raw = (position, width): the design uses the raw port just before buffering its position-th granted port
   (Design.ports lists ports in order of first use); positions past the end come after the last one *)
Fixpoint raws_at (raw : list (nat * Z)) (i : nat) : list dport :=
  match raw with [] => [] | (k, w) :: r => (if Nat.eqb k i then [DRaw w] else []) ++ raws_at r i end.
Fixpoint raws_from (raw : list (nat * Z)) (i : nat) : list dport :=
  match raw with [] => [] | (k, w) :: r => (if Nat.leb i k then [DRaw w] else []) ++ raws_from r i end.
Fixpoint weave (v : vendor) (raw : list (nat * Z)) (i : nat) (ls : list lval) : list dport :=
  match ls with
  | [] => raws_from raw i
  | l :: r => raws_at raw i ++ map DRes (used_ioports v (lv_port l)) ++ weave v raw (S i) r
  end.

Definition build (v : vendor) (t : table) (cm : connmap) (hist : list req) (dclk drst : option Z)
           (unused : list path) (raw : list (nat * Z)) : list (req * result) * (err + plan) :=
  let acc := run t cm hist in
  match sys_go t cm (sys_reqs dclk drst) (fst acc) [] with
  | inl e => (snd acc, inl e)
  | inr (st, sysvals) =>
    let designed := filter (fun l => negb (path_mem (pt_path (lv_port l)) unused))
                           (concat (map (fun qv => leaves (snd qv)) (granted (snd acc)))) in
    let sysports := concat (map (fun l => used_ioports v (lv_port l)) (concat (map leaves sysvals))) in
    let cs := design_constraints (weave v raw 0 designed ++ map DRes sysports) in
    (snd acc, inr (mkPlan (if vendor_attrs v then cs else map strip_attrs cs)
                          (if vendor_clocks v then clock_constraints st else [])))
  end.

(* Format.v — model for C20 (Print / Assert / Format).
   Text is a list of code points (list Z).  No proofs here (see Proofs/FormatP.v).

   Part 1  format-spec record and `parse_spec`  (hdl/_ast.py Format._FORMAT_SPEC_PATTERN, _parse_format_spec)
   Part 2  `py_format` : CPython's int.__format__ / str.__format__ on the accepted sub-grammar
           (Python/formatter_unicode.c: parse_internal_render_format_spec, calc_number_widths,
            _PyUnicode_InsertThousandsGrouping, fill_number) and value_to_string (sim/_pyeval.py)
   Part 3  `emit_format` (sim/_pyrtl.py _StatementCompiler.emit_format)
   Part 4  Print / Property activity in a sync process (on_Print, on_Property, _emit_switch, edge_waker) *)
From Coq Require Import ZArith List Bool.
From V.Model Require Import Bits.
Import ListNotations.
Open Scope Z_scope.

(* ------------------------------------------------------------------ *)
(* Part 1: the spec record and its recogniser                           *)

Inductive align := ALeft | ARight | AEq.              (* '<' '>' '='  ('^' is rejected) *)
Inductive signo := SMinus | SPlus | SSpace.           (* '-' '+' ' ' *)
Inductive ftype := Tb | To | Td | Tx | TX | Tc | Ts.  (* 'n' is rejected *)

Record spec := Spec {
  f_fill  : option Z;        (* fill character, only present together with an alignment *)
  f_align : option align;
  f_sign  : option signo;
  f_alt   : bool;            (* '#' *)
  f_zero  : bool;            (* '0' flag before the width *)
  f_width : Z;               (* 0 = absent (a present width never starts with 0) *)
  f_group : bool;            (* '_' *)
  f_type  : option ftype }.

Definition is_align_char (c : Z) : bool := (c =? 60) || (c =? 62) || (c =? 61) || (c =? 94).
Definition align_of (c : Z) : option align :=
  if c =? 60 then Some ALeft else if c =? 62 then Some ARight else if c =? 61 then Some AEq else None.
Definition sign_of (c : Z) : option signo :=
  if c =? 45 then Some SMinus else if c =? 43 then Some SPlus else if c =? 32 then Some SSpace else None.
Definition type_of (c : Z) : option ftype :=
  if c =? 98 then Some Tb else if c =? 111 then Some To else if c =? 100 then Some Td
  else if c =? 120 then Some Tx else if c =? 88 then Some TX else if c =? 99 then Some Tc
  else if c =? 115 then Some Ts else None.

(* (?: (?P<fill>.)? (?P<align>[<>=^]) )?   — '.' does not match '\n'; the rest of the pattern never starts
   with an alignment character, so the backtracking regex has exactly this deterministic reading *)
Definition parse_fill_align (s : list Z) : option Z * option Z * list Z :=
  match s with
  | c :: a :: r =>
      if is_align_char a && negb (c =? 10) then (Some c, Some a, r)
      else if is_align_char c then (None, Some c, a :: r) else (None, None, s)
  | [c] => if is_align_char c then (None, Some c, []) else (None, None, s)
  | [] => (None, None, [])
  end.

Definition eat (p : Z -> bool) (s : list Z) : bool * list Z :=
  match s with c :: r => if p c then (true, r) else (false, s) | [] => (false, []) end.

Definition is_digit (c : Z) : bool := (48 <=? c) && (c <=? 57).
Fixpoint eat_digits (s : list Z) (acc : Z) : Z * list Z :=
  match s with
  | c :: r => if is_digit c then eat_digits r (acc * 10 + (c - 48)) else (acc, s)
  | [] => (acc, [])
  end.
(* (?P<width>[1-9][0-9]* )? *)
Definition eat_width (s : list Z) : Z * list Z :=
  match s with
  | c :: r => if (49 <=? c) && (c <=? 57) then eat_digits r (c - 48) else (0, s)
  | [] => (0, [])
  end.

(* shape-independent part: fullmatch of the pattern, then the '^' / ',' / 'n' rejections *)
Definition parse_raw (s : list Z) : option spec :=
  let '(fill, al, s1) := parse_fill_align s in
  let al' := match al with Some a => align_of a | None => None end in
  let bad_align := match al, al' with Some _, None => true | _, _ => false end in
  let sg := match s1 with c :: _ => sign_of c | [] => None end in
  let s2 := match sg, s1 with Some _, _ :: r => r | _, _ => s1 end in
  let '(alt, s3) := eat (Z.eqb 35) s2 in
  let '(zero, s4) := eat (Z.eqb 48) s3 in
  let '(w, s5) := eat_width s4 in
  let '(grp, s6) := eat (Z.eqb 95) s5 in
  let mk t := Some (Spec fill al' sg alt zero w grp t) in
  if bad_align then None
  else match s6 with
       | [] => mk None
       | [t] => match type_of t with Some ty => mk (Some ty) | None => None end
       | _ => None                                   (* includes ',' grouping, 'n', precision, junk *)
       end.

Definition is_cs (t : option ftype) : bool :=
  match t with Some Tc | Some Ts => true | _ => false end.

(* the shape-dependent rejections of _parse_format_spec *)
Definition check_shape (sp : spec) (sh : shape) : bool :=
  (if is_cs (f_type sp) then
     negb (sgn sh)
     && negb (match f_align sp with Some AEq => true | _ => false end)
     && negb (f_alt sp) && negb (f_zero sp)
     && negb (match f_sign sp with Some _ => true | None => false end)
     && negb (f_group sp)
   else true)
  && (match f_type sp with Some Ts => width sh mod 8 =? 0 | _ => true end).

Definition parse_spec (s : list Z) (sh : shape) : option spec :=
  match parse_raw s with
  | Some sp => if check_shape sp sh then Some sp else None
  | None => None
  end.

(* the dict returned by _parse_format_spec:
   [fill|-1; align|-1; sign|-1; show_base; width; grouping|-1; type|-1] *)
Definition align_char (a : align) : Z := match a with ALeft => 60 | ARight => 62 | AEq => 61 end.
Definition sign_char (s : signo) : Z := match s with SMinus => 45 | SPlus => 43 | SSpace => 32 end.
Definition type_char (t : ftype) : Z :=
  match t with Tb => 98 | To => 111 | Td => 100 | Tx => 120 | TX => 88 | Tc => 99 | Ts => 115 end.
Definition oz (o : option Z) : Z := match o with Some c => c | None => -1 end.
(* `fill`/`align` of the returned dict: the '0' flag sets them only when no alignment was written *)
Definition dict_zf (sp : spec) : bool := f_zero sp && match f_align sp with None => true | _ => false end.
Definition dict_fill (sp : spec) : option Z := if dict_zf sp then Some 48 else f_fill sp.
Definition dict_align (sp : spec) : option align := if dict_zf sp then Some AEq else f_align sp.
Definition spec_dict (sp : spec) : list Z :=
  [ oz (dict_fill sp);
    oz (option_map align_char (dict_align sp));
    oz (option_map sign_char (f_sign sp));
    if f_alt sp then 1 else 0;
    f_width sp;
    if f_group sp then 95 else -1;
    oz (option_map type_char (f_type sp)) ].

(* ------------------------------------------------------------------ *)
(* Part 2: CPython formatting                                           *)

(* digits of v >= 0 in base b >= 2, most significant first *)
Fixpoint digits_fuel (fuel : nat) (b v : Z) (acc : list Z) : list Z :=
  match fuel with
  | O => v :: acc
  | S f => if v <? b then v :: acc else digits_fuel f b (v / b) (v mod b :: acc)
  end.
Definition digits (b v : Z) : list Z := digits_fuel (Z.to_nat (Z.log2 v) + 1) b v [].

Definition digit_char (upper : bool) (d : Z) : Z :=
  if d <? 10 then 48 + d else (if upper then 55 else 87) + d.

Definition zlen (l : list Z) : Z := Z.of_nat (length l).
Definition pad (n : Z) (c : Z) : list Z := repeat c (Z.to_nat n).

(* _PyUnicode_InsertThousandsGrouping with a repeating group size G and separator '_'.
   rd = remaining digit characters, least significant first; acc = text already produced (to the right). *)
Fixpoint group_loop (fuel : nat) (G : Z) (rd : list Z) (mw : Z) (first : bool) (acc : list Z) : list Z :=
  match fuel with
  | O => acc
  | S f =>
    let remaining := zlen rd in
    let len := Z.min G (Z.max (Z.max remaining mw) 1) in
    let n_zeros := Z.max 0 (len - remaining) in
    let n_chars := Z.max 0 (Z.min remaining len) in
    let taken := firstn (Z.to_nat n_chars) rd in
    let rest := skipn (Z.to_nat n_chars) rd in
    let acc' := pad n_zeros 48 ++ rev taken ++ (if first then [] else [95]) ++ acc in
    let mw' := mw - len in
    if (zlen rest <=? 0) && (mw' <=? 0) then acc' else group_loop f G rest (mw' - 1) false acc'
  end.

(* digs = digit characters most significant first (non-empty); G = None: no grouping *)
Definition group_digits (G : option Z) (digs : list Z) (mw : Z) : list Z :=
  match G with
  | None => pad (Z.max (Z.max (zlen digs) mw) 1 - zlen digs) 48 ++ digs
  | Some g => group_loop (length digs + Z.to_nat mw + 1) g (rev digs) mw true []
  end.

(* SPEC of grouping: separators inserted from the right, one after every g characters counted from the least
   significant end (never in front of the leftmost character).  rl = characters least significant first,
   cnt = characters already in the current group. *)
Fixpoint sep_right_go (g cnt : Z) (rl acc : list Z) : list Z :=
  match rl with
  | [] => acc
  | c :: r => if cnt =? g then sep_right_go g 1 r (c :: 95 :: acc) else sep_right_go g (cnt + 1) r (c :: acc)
  end.
Definition sep_right (g : Z) (l : list Z) : list Z := sep_right_go g 0 (rev l) [].

(* length of n >= 1 characters once grouped by g *)
Definition grouped_len (g n : Z) : Z := n + (n - 1) / g.
(* "pad with zeros, then group, so that the width mw is met": the number of zeros put in front of n digits.
   A grouped text never has a length that is a multiple of g+1 (it would start with a separator), so a width that is
   a multiple of g+1 is met with one more character. *)
Definition zero_count (g n mw : Z) : Z :=
  let target := if mw mod (g + 1) =? 0 then mw + 1 else mw in
  if target <=? grouped_len g n then 0 else (target - target / (g + 1)) - n.
Definition pad_then_group (g : Z) (digs : list Z) (mw : Z) : list Z :=
  sep_right g (pad (zero_count g (zlen digs) mw) 48 ++ digs).

Definition eff_fill (sp : spec) : Z :=
  match f_fill sp with Some c => c | None => if f_zero sp then 48 else 32 end.
Definition eff_align (sp : spec) (dflt : align) : align :=
  match f_align sp with Some a => a | None => if f_zero sp then AEq else dflt end.

(* calc_number_widths + fill_number; `digs` may be empty (type 'c' and strings), `rem` is the text that
   follows the digits (the character for 'c', the whole string for 's') *)
Definition assemble (sp : spec) (dflt : align) (G : option Z) (sgn_txt pre digs rem : list Z) : list Z :=
  let fill := eff_fill sp in
  let al := eff_align sp dflt in
  let nondigit := zlen sgn_txt + zlen pre + zlen rem in
  let mw := if (fill =? 48) && match al with AEq => true | _ => false end
            then f_width sp - nondigit else 0 in
  let body := match digs with [] => [] | _ => group_digits G digs mw end in
  let npad := Z.max 0 (f_width sp - nondigit - zlen body) in
  match al with
  | ALeft  => sgn_txt ++ pre ++ body ++ rem ++ pad npad fill
  | ARight => pad npad fill ++ sgn_txt ++ pre ++ body ++ rem
  | AEq    => sgn_txt ++ pre ++ pad npad fill ++ body ++ rem
  end.

Definition base_of (t : option ftype) : Z :=
  match t with Some Tb => 2 | Some To => 8 | Some Tx | Some TX => 16 | _ => 10 end.
Definition upper_of (t : option ftype) : bool := match t with Some TX => true | _ => false end.
Definition prefix_of (t : option ftype) : list Z :=
  match t with Some Tb => [48; 98] | Some To => [48; 111] | Some Tx => [48; 120] | Some TX => [48; 88]
             | _ => [] end.
Definition group_size (t : option ftype) : Z := match t with None | Some Td => 3 | _ => 4 end.

Definition sign_text (sp : spec) (neg : bool) : list Z :=
  if neg then [45]
  else match f_sign sp with Some SPlus => [43] | Some SSpace => [32] | _ => [] end.

Definition digit_text (t : option ftype) (v : Z) : list Z :=
  map (digit_char (upper_of t)) (digits (base_of t) (Z.abs v)).

(* value_to_string: bytes least significant first, zero bytes dropped, then bytes.decode() (strict UTF-8) *)
Definition all_bytes (v : Z) : list Z := rev (digits 256 v).
Definition value_bytes (v : Z) : list Z := filter (fun b => negb (b =? 0)) (all_bytes v).

Definition in_rng (lo hi b : Z) : bool := (lo <=? b) && (b <=? hi).
Fixpoint utf8_decode (bs : list Z) : option (list Z) :=
  match bs with
  | [] => Some []
  | b0 :: r0 =>
    if in_rng 0 127 b0 then option_map (cons b0) (utf8_decode r0)
    else match r0 with
    | [] => None
    | b1 :: r1 =>
      if in_rng 194 223 b0 then
        if in_rng 128 191 b1
        then option_map (cons ((b0 - 192) * 64 + (b1 - 128))) (utf8_decode r1) else None
      else match r1 with
      | [] => None
      | b2 :: r2 =>
        if in_rng 224 239 b0 then
          if in_rng (if b0 =? 224 then 160 else 128) (if b0 =? 237 then 159 else 191) b1 && in_rng 128 191 b2
          then option_map (cons ((b0 - 224) * 4096 + (b1 - 128) * 64 + (b2 - 128))) (utf8_decode r2)
          else None
        else match r2 with
        | [] => None
        | b3 :: r3 =>
          if in_rng 240 244 b0 then
            if in_rng (if b0 =? 240 then 144 else 128) (if b0 =? 244 then 143 else 191) b1
               && in_rng 128 191 b2 && in_rng 128 191 b3
            then option_map (cons ((b0 - 240) * 262144 + (b1 - 128) * 4096 + (b2 - 128) * 64 + (b3 - 128)))
                            (utf8_decode r3)
            else None
          else None
        end
      end
    end
  end.

(* format(v, spec) for an int v (types none/b/o/d/x/X/c), format(value_to_string(v), spec[:-1]) for 's'.
   None = Python raises (OverflowError for 'c', UnicodeDecodeError for 's'). *)
Definition py_format (sp : spec) (v : Z) : option (list Z) :=
  match f_type sp with
  | Some Tc =>
      if (v <? 0) || (1114111 <? v) then None
      else Some (assemble sp ARight None [] [] [] [v])
  | Some Ts =>
      match utf8_decode (value_bytes v) with
      | Some txt => Some (assemble sp ALeft None [] [] [] txt)
      | None => None
      end
  | t =>
      Some (assemble sp ARight
              (if f_group sp then Some (group_size t) else None)
              (sign_text sp (v <? 0))
              (if f_alt sp then prefix_of t else [])
              (digit_text t v) [])
  end.

(* reading a rendered integer back (used to state that the renderer is correct) *)
Definition digit_val (c : Z) : Z :=
  if c <? 58 then c - 48 else if c <? 97 then c - 55 else c - 87.
Definition undigits (b : Z) (ds : list Z) : Z := fold_left (fun acc d => acc * b + d) ds 0.
Definition read_int (b : Z) (txt : list Z) : Z :=
  match txt with
  | c :: r => if c =? 45 then - undigits b (map digit_val r) else undigits b (map digit_val txt)
  | [] => 0
  end.

(* ------------------------------------------------------------------ *)
(* Part 3: values and emit_format                                        *)

(* the value of a field: a signal, or one reinterpreting / unary operator on it (raw values as in
   _RHSValueCompiler: 'u'/'s' leave the raw integer unchanged, ~ is ~mask(a), - is -sign(a)) *)
Inductive vexpr := VSig (i : nat) | VAsS (i : nat) | VAsU (i : nat) | VInv (i : nat) | VNeg (i : nat).

Definition sig_shape (sigs : list shape) (i : nat) : shape := nth i sigs (Sh 0 false).
Definition sig_val (env : list Z) (i : nat) : Z := nth i env 0.

Definition vshape (sigs : list shape) (e : vexpr) : shape :=
  match e with
  | VSig i | VInv i => sig_shape sigs i
  | VAsS i => Sh (width (sig_shape sigs i)) true
  | VAsU i => Sh (width (sig_shape sigs i)) false
  | VNeg i => Sh (width (sig_shape sigs i) + 1) true
  end.

Definition vraw (sigs : list shape) (env : list Z) (e : vexpr) : Z :=
  match e with
  | VSig i | VAsS i | VAsU i => sig_val env i
  | VInv i => Z.lnot (mask (width (sig_shape sigs i)) (sig_val env i))
  | VNeg i => - norm (sig_shape sigs i) (sig_val env i)
  end.

(* SPEC: the Python-integer meaning of the same expressions *)
Definition vdenote (sigs : list shape) (env : list Z) (e : vexpr) : Z :=
  match e with
  | VSig i => sig_val env i
  | VAsS i => sext (width (sig_shape sigs i)) (sig_val env i)
  | VAsU i => mask (width (sig_shape sigs i)) (sig_val env i)
  | VInv i => if sgn (sig_shape sigs i) then - sig_val env i - 1
              else 2 ^ width (sig_shape sigs i) - 1 - sig_val env i
  | VNeg i => - sig_val env i
  end.

Inductive res := Ok (t : list Z) | Err (code : Z).   (* 2 OverflowError, 3 UnicodeDecodeError *)

(* one field: rhs.sign(value), then "{:<spec>}".format(...), i.e. Python's format of the value in its shape.
   (The real code re-assembles one format string for str.format; for a '{' or '}' fill character that string is
   malformed and str.format raises ValueError at run time — finding C20-brace-fill; the model follows the
   specification, the harness recognises the disagreement.) *)
Definition emit_field (sp : spec) (sh : shape) (raw : Z) : res :=
  match py_format sp (norm sh raw) with
  | Some t => Ok t
  | None => Err (match f_type sp with Some Ts => 3 | _ => 2 end)
  end.

Inductive chunk := CLit (t : list Z) | CField (e : vexpr) (s : list Z).
Definition format := list chunk.

Definition field_spec (sigs : list shape) (e : vexpr) (s : list Z) : option spec :=
  parse_spec s (vshape sigs e).

(* arguments are evaluated first: value_to_string(...) calls run before str.format starts *)
Fixpoint args_check (sigs : list shape) (env : list Z) (f : format) : bool :=
  match f with
  | [] => true
  | CLit _ :: r => args_check sigs env r
  | CField e s :: r =>
      match field_spec sigs e s with
      | Some sp =>
          match f_type sp with
          | Some Ts => match utf8_decode (value_bytes (norm (vshape sigs e) (vraw sigs env e))) with
                       | Some _ => args_check sigs env r | None => false end
          | _ => args_check sigs env r
          end
      | None => args_check sigs env r
      end
  end.

Fixpoint render (sigs : list shape) (env : list Z) (f : format) (acc : list Z) : res :=
  match f with
  | [] => Ok acc
  | CLit t :: r => render sigs env r (acc ++ t)
  | CField e s :: r =>
      match field_spec sigs e s with
      | Some sp =>
          match emit_field sp (vshape sigs e) (vraw sigs env e) with
          | Ok t => render sigs env r (acc ++ t)
          | Err c => Err c
          end
      | None => Err 9                      (* not reachable for a program that passed prog_ok *)
      end
  end.

Definition emit_format (sigs : list shape) (env : list Z) (f : format) : res :=
  if args_check sigs env f then render sigs env f [] else Err 3.

(* Format(...) construction: every field spec must be accepted for the shape of its value *)
Fixpoint format_ok (sigs : list shape) (f : format) : bool :=
  match f with
  | [] => true
  | CLit _ :: r => format_ok sigs r
  | CField e s :: r => match field_spec sigs e s with Some _ => format_ok sigs r | None => false end
  end.

(* ------------------------------------------------------------------ *)
(* Part 4: Print / Assert / Assume / Cover in a sync process              *)

(* conditions: If(sig) = sig != 0;  Case(patterns) on Switch(sig): some (mask, value) with
   value == mask & test, test = sig masked to its width  (Default = [(0,0)], Case() = []) *)
Inductive cond := CNz (i : nat) | CPat (i : nat) (pats : list (Z * Z)).

Definition eval_cond (sigs : list shape) (env : list Z) (c : cond) : bool :=
  match c with
  | CNz i => negb (mask (width (sig_shape sigs i)) (sig_val env i) =? 0)
  | CPat i pats =>
      let test := mask (width (sig_shape sigs i)) (sig_val env i) in
      existsb (fun mv => snd mv =? Z.land (fst mv) test) pats
  end.

Inductive pkind := KAssert | KAssume | KCover.

Inductive prog :=
| PSkip
| PSeq (a b : prog)
| PPrint (f : format)                                  (* Print(Format(...)) : end="\n" *)
| PProp (k : pkind) (t : vexpr) (m : option format)
| PIf (c : cond) (t e : prog).

Inductive outcome := Cont (out : list Z) | Stop (out : list Z) (code : Z) (msg : list Z).

Definition assert_text (k : pkind) : list Z :=
  match k with
  | KAssert => [65;115;115;101;114;116;105;111;110;32;118;105;111;108;97;116;101;100]      (* Assertion violated *)
  | _ => [65;115;115;117;109;112;116;105;111;110;32;118;105;111;108;97;116;101;100]        (* Assumption violated *)
  end.

Definition COVER_MARK : Z := 31.   (* stands for "Coverage hit at <file>:<line>:" *)

(* the action of one statement that is reached *)
Definition fire_print (sigs : list shape) (env : list Z) (f : format) (out : list Z) : outcome :=
  match emit_format sigs env f with
  | Ok t => Cont (out ++ t ++ [10])
  | Err c => Stop out c []
  end.

Definition fire_prop (sigs : list shape) (env : list Z) (k : pkind) (t : vexpr) (m : option format)
    (out : list Z) : outcome :=
  let tv := norm (vshape sigs t) (vraw sigs env t) in
  match k with
  | KCover =>
      match m with
      | None => Cont out
      | Some f => if tv =? 0 then Cont out
                  else match emit_format sigs env f with
                       | Ok txt => Cont (out ++ [COVER_MARK; 32] ++ txt ++ [10])
                       | Err c => Stop out c []
                       end
      end
  | _ =>
      if tv =? 0 then
        match m with
        | None => Stop out 1 (assert_text k)
        | Some f => match emit_format sigs env f with
                    | Ok txt => Stop out 1 (assert_text k ++ [58; 32] ++ txt)
                    | Err c => Stop out c []
                    end
        end
      else Cont out
  end.

(* one run of the compiled sync process (nested if/elif of _emit_switch, statements in order;
   an exception leaves the process immediately) *)
Fixpoint exec (sigs : list shape) (env : list Z) (p : prog) (out : list Z) : outcome :=
  match p with
  | PSkip => Cont out
  | PSeq a b => match exec sigs env a out with Cont out' => exec sigs env b out' | s => s end
  | PPrint f => fire_print sigs env f out
  | PProp k t m => fire_prop sigs env k t m out
  | PIf c t e => if eval_cond sigs env c then exec sigs env t out else exec sigs env e out
  end.

Fixpoint prog_ok (sigs : list shape) (p : prog) : bool :=
  match p with
  | PSkip => true
  | PSeq a b => prog_ok sigs a && prog_ok sigs b
  | PPrint f => format_ok sigs f
  | PProp _ _ m => match m with Some f => format_ok sigs f | None => true end
  | PIf _ t e => prog_ok sigs t && prog_ok sigs e
  end.

(* testbench steps: ctx.set(sig, v); ctx.set(clk, b); ctx.set(rst, b) (synchronous reset: no effect on
   Print/Property).  The process runs when clk changes to the domain's polarity. *)
Inductive step := StSet (i : nat) (v : Z) | StClk (b : bool) | StRst (b : bool).

Fixpoint set_nth (i : nat) (v : Z) (l : list Z) : list Z :=
  match i, l with
  | O, _ :: r => v :: r
  | S j, x :: r => x :: set_nth j v r
  | _, [] => []
  end.

Definition is_edge (pos clk b : bool) : bool := negb (Bool.eqb b clk) && Bool.eqb b pos.

(* returns the outcome and the index of the step at which the run stopped (or the number of steps) *)
Fixpoint run_steps (sigs : list shape) (pos : bool) (p : prog) (steps : list step)
    (env : list Z) (clk : bool) (idx : Z) (out : list Z) : outcome * Z :=
  match steps with
  | [] => (Cont out, idx)
  | StSet i v :: r => run_steps sigs pos p r (set_nth i (norm (sig_shape sigs i) v) env) clk (idx + 1) out
  | StRst _ :: r => run_steps sigs pos p r env clk (idx + 1) out
  | StClk b :: r =>
      if is_edge pos clk b then
        match exec sigs env p out with
        | Cont out' => run_steps sigs pos p r env b (idx + 1) out'
        | s => (s, idx)
        end
      else run_steps sigs pos p r env b (idx + 1) out
  end.

Definition init_env (sigs : list shape) : list Z := map (fun _ => 0) sigs.

(* SPEC side of the activity clauses ------------------------------------------------- *)

Inductive leaf := LPrint (f : format) | LProp (k : pkind) (t : vexpr) (m : option format).

(* statements in program order with the conditions they are nested under *)
Fixpoint leaves (p : prog) (path : list (cond * bool)) : list (list (cond * bool) * leaf) :=
  match p with
  | PSkip => []
  | PSeq a b => leaves a path ++ leaves b path
  | PPrint f => [(path, LPrint f)]
  | PProp k t m => [(path, LProp k t m)]
  | PIf c t e => leaves t ((c, true) :: path) ++ leaves e ((c, false) :: path)
  end.

Definition path_holds (sigs : list shape) (env : list Z) (path : list (cond * bool)) : bool :=
  forallb (fun cb => Bool.eqb (eval_cond sigs env (fst cb)) (snd cb)) path.

Definition fire (sigs : list shape) (env : list Z) (l : leaf) (out : list Z) : outcome :=
  match l with
  | LPrint f => fire_print sigs env f out
  | LProp k t m => fire_prop sigs env k t m out
  end.

(* an edge: every statement whose enclosing conditions all hold acts, in program order, up to the first stop *)
Fixpoint scan (sigs : list shape) (env : list Z) (ls : list (list (cond * bool) * leaf)) (out : list Z) : outcome :=
  match ls with
  | [] => Cont out
  | (path, l) :: r =>
      if path_holds sigs env path then
        match fire sigs env l out with Cont out' => scan sigs env r out' | s => s end
      else scan sigs env r out
  end.

(* the environments seen at the active edges *)
Fixpoint edge_envs (sigs : list shape) (pos : bool) (steps : list step) (env : list Z) (clk : bool) : list (list Z) :=
  match steps with
  | [] => []
  | StSet i v :: r => edge_envs sigs pos r (set_nth i (norm (sig_shape sigs i) v) env) clk
  | StRst _ :: r => edge_envs sigs pos r env clk
  | StClk b :: r => if is_edge pos clk b then env :: edge_envs sigs pos r env b else edge_envs sigs pos r env b
  end.

(* a run over a list of edge samples: stops at the first edge whose process run stops *)
Fixpoint run_edges (sigs : list shape) (p : prog) (envs : list (list Z)) (n : nat) (out : list Z) : outcome * nat :=
  match envs with
  | [] => (Cont out, n)
  | env :: r => match exec sigs env p out with
                | Cont out' => run_edges sigs p r (S n) out'
                | s => (s, n)
                end
  end.

(* "an Assert/Assume is active and its condition is zero at this edge" *)
Definition leaf_fails (sigs : list shape) (env : list Z) (pl : list (cond * bool) * leaf) : bool :=
  match snd pl with
  | LProp KCover _ _ => false
  | LProp _ t _ => path_holds sigs env (fst pl) && (norm (vshape sigs t) (vraw sigs env t) =? 0)
  | LPrint _ => false
  end.
Definition edge_fails (sigs : list shape) (env : list Z) (p : prog) : bool :=
  existsb (leaf_fails sigs env) (leaves p []).

(* no formatting error can occur at this edge (every format of the program renders) *)
Definition leaf_renders (sigs : list shape) (env : list Z) (pl : list (cond * bool) * leaf) : bool :=
  match snd pl with
  | LPrint f | LProp _ _ (Some f) => match emit_format sigs env f with Ok _ => true | Err _ => false end
  | LProp _ _ None => true
  end.
Definition edge_renders (sigs : list shape) (env : list Z) (p : prog) : bool :=
  forallb (leaf_renders sigs env) (leaves p []).

(* ------------------------------------------------------------------ *)
(* Part 5: the FORMAT parameter of the RTLIL $print cell (back/rtlil.py ModuleEmitter.emit_print)          *)

Inductive rbase := Rb | Ro | Rd | Rh | RH | Rstr.     (* b o d h H, and c (string) *)

(* {<size>:<justify><padding><width?><base><sign?><#?><_?><s|u>} *)
Record ritem := RItem {
  r_size : Z; r_just : align; r_pad : Z; r_width : Z; r_base : rbase;
  r_sign : option signo; r_show : bool; r_group : bool; r_signed : bool }.

Inductive rchunk :=
| RText (t : list Z)       (* literal text; braces are doubled in the FORMAT string *)
| RFill (c n : Z)          (* fill * n appended to the FORMAT string as is (around {N:U}) *)
| RUni (size : Z)          (* {N:U} *)
| RInt (it : ritem).

Definition rbase_of (t : option ftype) : rbase :=
  match t with
  | Some Tb => Rb | Some To => Ro | Some Tx => Rh | Some TX => RH | Some Ts => Rstr | _ => Rd
  end.
Definition is_left (a : align) : bool := match a with ALeft => true | _ => false end.
Definition is_rd (b : rbase) : bool := match b with Rd => true | _ => false end.

(* one FormatValue chunk; None = NotImplementedError (non-ASCII fill) *)
Definition rtl_emit_field (sp : spec) (size : Z) (signed : bool) : option (list rchunk) :=
  let width := f_width sp in
  let is_chr := is_cs (f_type sp) in
  let al := match dict_align sp with Some a => a | None => if is_chr then ALeft else ARight end in
  let fill := match dict_fill sp with Some c => c | None => 32 end in
  if 128 <=? fill then None
  else match f_type sp with
       | Some Tc =>
           Some ((if negb (is_left al) && negb (width =? 0) then [RFill fill (width - 1)] else [])
                 ++ [RUni size]
                 ++ (if is_left al && negb (width =? 0) then [RFill fill (width - 1)] else []))
       | t =>
           let b := rbase_of t in
           Some [RInt (RItem size al fill width b (f_sign sp) (f_alt sp && negb (is_rd b)) (f_group sp) signed)]
       end.

(* the text of the FORMAT parameter *)
Definition dec_text (n : Z) : list Z := map (digit_char false) (digits 10 n).
Definition base_char (b : rbase) : Z :=
  match b with Rb => 98 | Ro => 111 | Rd => 100 | Rh => 104 | RH => 72 | Rstr => 99 end.
Definition escape_braces (t : list Z) : list Z :=
  flat_map (fun c => if (c =? 123) || (c =? 125) then [c; c] else [c]) t.
Definition rchunk_text (c : rchunk) : list Z :=
  match c with
  | RText t => escape_braces t
  | RFill c n => pad n c
  | RUni size => [123] ++ dec_text size ++ [58; 85; 125]
  | RInt it =>
      [123] ++ dec_text (r_size it) ++ [58; align_char (r_just it); r_pad it]
      ++ (if r_width it =? 0 then [] else dec_text (r_width it))
      ++ [base_char (r_base it)]
      ++ match r_sign it with Some sg => [sign_char sg] | None => [] end
      ++ (if r_show it then [35] else [])
      ++ (if r_group it then [95] else [])
      ++ match r_base it with Rstr => [] | _ => [if r_signed it then 115 else 117] end
      ++ [125]
  end.

(* a whole Format -> chunks (the value of each field is a signal expression of known shape) *)
Fixpoint rtl_format (sigs : list shape) (f : format) : option (list rchunk) :=
  match f with
  | [] => Some []
  | CLit t :: r => option_map (cons (RText t)) (rtl_format sigs r)
  | CField e s :: r =>
      match field_spec sigs e s with
      | Some sp =>
          match rtl_emit_field sp (width (vshape sigs e)) (sgn (vshape sigs e)), rtl_format sigs r with
          | Some cs, Some cs' => Some (cs ++ cs')
          | _, _ => None
          end
      | None => None
      end
  end.

(* DENOTATION of the FORMAT items, as the fields read (Yosys manual, $print): justify / padding character / width
   are literal; numeric justification puts the padding between sign+prefix and digits; with '_' the digits are
   grouped from the right by 4 (b o h H) or 3 (d), and zero padding under numeric justification is padded then
   grouped.  This reading is NOT validated against Yosys (none available here); only the emitted text is validated. *)
Definition layout (al : align) (fill width : Z) (s p body r : list Z) : list Z :=
  let npad := Z.max 0 (width - (zlen s + zlen p + zlen r) - zlen body) in
  match al with
  | ALeft  => s ++ p ++ body ++ r ++ pad npad fill
  | ARight => pad npad fill ++ s ++ p ++ body ++ r
  | AEq    => s ++ p ++ pad npad fill ++ body ++ r
  end.

Definition rbase_radix (b : rbase) : Z := match b with Rb => 2 | Ro => 8 | Rd => 10 | _ => 16 end.
Definition rbase_group (b : rbase) : Z := match b with Rd => 3 | _ => 4 end.
Definition rbase_prefix (b : rbase) : list Z :=
  match b with Rb => [48; 98] | Ro => [48; 111] | Rh => [48; 120] | RH => [48; 88] | _ => [48; 100] end.

(* v = the value of the argument read in the item's signedness *)
Definition ritem_render (it : ritem) (v : Z) : list Z :=
  match r_base it with
  | Rstr => layout (r_just it) (r_pad it) (r_width it) [] [] [] (value_bytes v)   (* bytes, NULs skipped *)
  | b =>
      let s := if v <? 0 then [45]
               else match r_sign it with Some SPlus => [43] | Some SSpace => [32] | _ => [] end in
      let p := if r_show it then rbase_prefix b else [] in
      let d := map (digit_char (match b with RH => true | _ => false end)) (digits (rbase_radix b) (Z.abs v)) in
      let body :=
        if r_group it then
          if match r_just it with AEq => true | _ => false end && (r_pad it =? 48)
          then pad_then_group (rbase_group b) d (r_width it - zlen s - zlen p)
          else sep_right (rbase_group b) d
        else d in
      layout (r_just it) (r_pad it) (r_width it) s p body []
  end.

Definition is_brace (c : Z) : bool := (c =? 123) || (c =? 125).

Definition rchunk_render (c : rchunk) (v : Z) : option (list Z) :=
  match c with
  | RText t => Some t
  | RFill c n => if is_brace c then (if n mod 2 =? 0 then Some (pad (n / 2) c) else None)   (* "{{" reads as one brace *)
                 else Some (pad n c)
  | RUni _ => if (v <? 0) || (1114111 <? v) then None else Some [v]
  | RInt it => Some (ritem_render it v)
  end.

Fixpoint rchunks_render (cs : list rchunk) (v : Z) : option (list Z) :=
  match cs with
  | [] => Some []
  | c :: r => match rchunk_render c v, rchunks_render r v with
              | Some a, Some b => Some (a ++ b)
              | _, _ => None
              end
  end.

(* ------------------------------------------------------------------ *)
(* Part 6: designs — DSL control flow, registers, several clock domains, a comb process                      *)

(* 6.1  If/Elif/Else and Switch/Case as written with the DSL, lowered to the priority chain _emit_switch runs.
   A Case pattern is the string of '0' '1' '-' characters (most significant first); None = Default. *)
Inductive dstmt :=
| DPrint (f : format)
| DProp (k : pkind) (t : vexpr) (m : option format)
| DIf (arms : darms) (els : dprog)
| DSwitch (i : nat) (cases : dcases)
with dprog := DNil | DCons (s : dstmt) (r : dprog)
with darms := ANil | ACons (i : nat) (b : dprog) (r : darms)
with dcases := KNil | KCons (pats : option (list (list Z))) (b : dprog) (r : dcases).

(* mask = int of ('0' if b == '-' else '1'), value = int of ('0' if b == '-' else b), base 2 *)
Definition pat_mv (p : list Z) : Z * Z :=
  fold_left (fun mv c => (2 * fst mv + (if c =? 45 then 0 else 1), 2 * snd mv + (if c =? 49 then 1 else 0))) p (0, 0).

Fixpoint lower_stmt (s : dstmt) : prog :=
  match s with
  | DPrint f => PPrint f
  | DProp k t m => PProp k t m
  | DIf arms els => lower_arms arms (lower_prog els)
  | DSwitch i cs => lower_cases i cs
  end
with lower_prog (p : dprog) : prog :=
  match p with DNil => PSkip | DCons s r => PSeq (lower_stmt s) (lower_prog r) end
with lower_arms (a : darms) (els : prog) : prog :=
  match a with ANil => els | ACons i b r => PIf (CNz i) (lower_prog b) (lower_arms r els) end
with lower_cases (i : nat) (cs : dcases) : prog :=
  match cs with
  | KNil => PSkip
  | KCons pats b r =>
      PIf (CPat i (match pats with None => [(0, 0)] | Some ps => map pat_mv ps end)) (lower_prog b) (lower_cases i r)
  end.

(* SPEC of the DSL: a pattern matches when every non '-' position equals the bit of the test;
   the first arm / case that matches runs, nothing else *)
Fixpoint pat_matches_lsb (l : list Z) (test : Z) : bool :=      (* l = pattern, last character first *)
  match l with
  | [] => true
  | c :: r => (if c =? 45 then true else Bool.eqb (Z.odd test) (c =? 49)) && pat_matches_lsb r (Z.div2 test)
  end.
Definition pat_matches (p : list Z) (test : Z) : bool := pat_matches_lsb (rev p) test.

Definition sig_test (sigs : list shape) (env : list Z) (i : nat) : Z :=
  mask (width (sig_shape sigs i)) (sig_val env i).

Fixpoint dexec_stmt (sigs : list shape) (env : list Z) (s : dstmt) (out : list Z) : outcome :=
  match s with
  | DPrint f => fire_print sigs env f out
  | DProp k t m => fire_prop sigs env k t m out
  | DIf arms els => dexec_arms sigs env arms out (dexec_prog sigs env els out)
  | DSwitch i cs => dexec_cases sigs env i cs out
  end
with dexec_prog (sigs : list shape) (env : list Z) (p : dprog) (out : list Z) : outcome :=
  match p with
  | DNil => Cont out
  | DCons s r => match dexec_stmt sigs env s out with Cont o => dexec_prog sigs env r o | x => x end
  end
with dexec_arms (sigs : list shape) (env : list Z) (a : darms) (out : list Z) (otherwise : outcome) : outcome :=
  match a with
  | ANil => otherwise
  | ACons i b r => if negb (sig_test sigs env i =? 0) then dexec_prog sigs env b out
                   else dexec_arms sigs env r out otherwise
  end
with dexec_cases (sigs : list shape) (env : list Z) (i : nat) (cs : dcases) (out : list Z) : outcome :=
  match cs with
  | KNil => Cont out
  | KCons pats b r =>
      if match pats with None => true | Some ps => existsb (fun p => pat_matches p (sig_test sigs env i)) ps end
      then dexec_prog sigs env b out else dexec_cases sigs env i r out
  end.

(* 6.2  run-time ValueError of finding C20-brace-fill (bf = true: semantics of the unrepaired code) *)
Definition brace_fill (sp : spec) : bool :=
  match f_fill sp with Some c => is_brace c | None => false end.

Fixpoint render_b (bf : bool) (sigs : list shape) (env : list Z) (f : format) (acc : list Z) : res :=
  match f with
  | [] => Ok acc
  | CLit t :: r => render_b bf sigs env r (acc ++ t)
  | CField e s :: r =>
      match field_spec sigs e s with
      | Some sp =>
          if bf && brace_fill sp then Err 4
          else match emit_field sp (vshape sigs e) (vraw sigs env e) with
               | Ok t => render_b bf sigs env r (acc ++ t)
               | Err c => Err c
               end
      | None => Err 9
      end
  end.
Definition emit_format_b (bf : bool) (sigs : list shape) (env : list Z) (f : format) : res :=
  if args_check sigs env f then render_b bf sigs env f [] else Err 3.

Definition fire_print_b (bf : bool) (sigs : list shape) (env : list Z) (f : format) (out : list Z) : outcome :=
  match emit_format_b bf sigs env f with
  | Ok t => Cont (out ++ t ++ [10])
  | Err c => Stop out c []
  end.

Definition fire_prop_b (bf : bool) (sigs : list shape) (env : list Z) (k : pkind) (t : vexpr) (m : option format)
    (out : list Z) : outcome :=
  let tv := norm (vshape sigs t) (vraw sigs env t) in
  match k with
  | KCover =>
      match m with
      | None => Cont out
      | Some f => if tv =? 0 then Cont out
                  else match emit_format_b bf sigs env f with
                       | Ok txt => Cont (out ++ [COVER_MARK; 32] ++ txt ++ [10])
                       | Err c => Stop out c []
                       end
      end
  | _ =>
      if tv =? 0 then
        match m with
        | None => Stop out 1 (assert_text k)
        | Some f => match emit_format_b bf sigs env f with
                    | Ok txt => Stop out 1 (assert_text k ++ [58; 32] ++ txt)
                    | Err c => Stop out c []
                    end
        end
      else Cont out
  end.

Fixpoint exec_b (bf : bool) (sigs : list shape) (env : list Z) (p : prog) (out : list Z) : outcome :=
  match p with
  | PSkip => Cont out
  | PSeq a b => match exec_b bf sigs env a out with Cont out' => exec_b bf sigs env b out' | s => s end
  | PPrint f => fire_print_b bf sigs env f out
  | PProp k t m => fire_prop_b bf sigs env k t m out
  | PIf c t e => if eval_cond sigs env c then exec_b bf sigs env t out else exec_b bf sigs env e out
  end.

(* 6.3  designs *)
(* a register  `with m.If(en): m.d.<dom> += r.eq(r + step)`  (en = None: unconditional) *)
Record reg := Reg { g_idx : nat; g_dom : nat; g_en : option nat; g_step : Z; g_init : Z; g_rless : bool }.
Record dom := Dom { d_pos : bool; d_rst : bool; d_async : bool; d_prog : prog }.
Record design := Design { ds_sigs : list shape; ds_doms : list dom; ds_comb : prog; ds_regs : list reg }.

Inductive tstep :=
| TSet (i : nat) (v : Z) | TClk (d : nat) (b : bool) | TRst (d : nat) (b : bool)
| TBoth (d : nat) (cb rb : bool).      (* ctx.set(Cat(clk, rst), ...): clock and reset of one domain in one command *)
Record dstate := DS { s_env : list Z; s_clk : list bool; s_rst : list bool }.

Fixpoint set_nthb (i : nat) (v : bool) (l : list bool) : list bool :=
  match i, l with
  | O, _ :: r => v :: r
  | S j, x :: r => x :: set_nthb j v r
  | _, [] => []
  end.

Definition dom_of (D : design) (d : nat) : dom := nth d (ds_doms D) (Dom true false false PSkip).

(* value of a register after a run of its domain's process, from the values before the run *)
Definition reg_next (sigs : list shape) (env : list Z) (rst : bool) (r : reg) : Z :=
  let cur := sig_val env (g_idx r) in
  if rst && negb (g_rless r) then g_init r
  else if match g_en r with None => true | Some e => eval_cond sigs env (CNz e) end
       then norm (sig_shape sigs (g_idx r)) (cur + g_step r) else cur.

Fixpoint update_regs (sigs : list shape) (env0 : list Z) (rst : bool) (d : nat) (regs : list reg) (env : list Z) : list Z :=
  match regs with
  | [] => env
  | r :: rs => update_regs sigs env0 rst d rs
                 (if Nat.eqb (g_dom r) d then set_nth (g_idx r) (reg_next sigs env0 rst r) env else env)
  end.

(* documented asynchronous reset: the registers take their initial value when rst rises, nothing else happens *)
Fixpoint reset_regs (d : nat) (regs : list reg) (env : list Z) : list Z :=
  match regs with
  | [] => env
  | r :: rs => reset_regs d rs (if Nat.eqb (g_dom r) d && negb (g_rless r) then set_nth (g_idx r) (g_init r) env else env)
  end.

(* signals read by a process (its wakers, for the comb process) *)
Definition vexpr_sig (e : vexpr) : nat := match e with VSig i | VAsS i | VAsU i | VInv i | VNeg i => i end.
Fixpoint format_sigs (f : format) : list nat :=
  match f with [] => [] | CLit _ :: r => format_sigs r | CField e _ :: r => vexpr_sig e :: format_sigs r end.
Fixpoint prog_sigs (p : prog) : list nat :=
  match p with
  | PSkip => []
  | PSeq a b => prog_sigs a ++ prog_sigs b
  | PPrint f => format_sigs f
  | PProp _ t m => vexpr_sig t :: match m with Some f => format_sigs f | None => [] end
  | PIf c t e => match c with CNz i | CPat i _ => i end :: prog_sigs t ++ prog_sigs e
  end.
Definition changed (sens : list nat) (env env' : list Z) : bool :=
  existsb (fun i => negb (sig_val env i =? sig_val env' i)) sens.

(* the comb process runs again when a signal it reads changed *)
Definition after_change (bf : bool) (D : design) (env env' : list Z) (out : list Z) : outcome :=
  if changed (prog_sigs (ds_comb D)) env env' then exec_b bf (ds_sigs D) env' (ds_comb D) out else Cont out.

(* one run of the process of domain d (rst = level of its reset seen by the run): statements read the values
   before the run; then the registers are updated; then comb logic follows *)
Definition proc_run (bf : bool) (D : design) (d : nat) (rst : bool) (env : list Z) (out : list Z) : outcome * list Z :=
  match exec_b bf (ds_sigs D) env (d_prog (dom_of D d)) out with
  | Cont out' =>
      let env' := update_regs (ds_sigs D) env rst d (ds_regs D) env in
      (after_change bf D env env' out', env')
  | s => (s, env)
  end.

(* f7 = true: semantics of the unrepaired code for finding F7 (the rise of an asynchronous reset runs the process) *)
Definition dstep_run (f7 bf : bool) (D : design) (t : tstep) (st : dstate) (out : list Z) : outcome * dstate :=
  match t with
  | TSet i v =>
      let env' := set_nth i (norm (sig_shape (ds_sigs D) i) v) (s_env st) in
      (after_change bf D (s_env st) env' out, DS env' (s_clk st) (s_rst st))
  | TClk d b =>
      let st' := DS (s_env st) (set_nthb d b (s_clk st)) (s_rst st) in
      if is_edge (d_pos (dom_of D d)) (nth d (s_clk st) false) b then
        let '(o, env') := proc_run bf D d (nth d (s_rst st) false) (s_env st) out in
        (o, DS env' (s_clk st') (s_rst st'))
      else (Cont out, st')
  | TRst d b =>
      let rsts' := set_nthb d b (s_rst st) in
      if d_async (dom_of D d) && b && negb (nth d (s_rst st) false) then
        if f7 then
          let '(o, env') := proc_run bf D d true (s_env st) out in (o, DS env' (s_clk st) rsts')
        else
          let env' := reset_regs d (ds_regs D) (s_env st) in
          (after_change bf D (s_env st) env' out, DS env' (s_clk st) rsts')
      else (Cont out, DS (s_env st) (s_clk st) rsts')
  | TBoth d cb rb =>
      let clks' := set_nthb d cb (s_clk st) in
      let rsts' := set_nthb d rb (s_rst st) in
      if is_edge (d_pos (dom_of D d)) (nth d (s_clk st) false) cb then
        (* an active edge: the process sees the new level of the reset *)
        let '(o, env') := proc_run bf D d rb (s_env st) out in (o, DS env' clks' rsts')
      else if d_async (dom_of D d) && rb && negb (nth d (s_rst st) false) then
        if f7 then
          let '(o, env') := proc_run bf D d true (s_env st) out in (o, DS env' clks' rsts')
        else
          let env' := reset_regs d (ds_regs D) (s_env st) in
          (after_change bf D (s_env st) env' out, DS env' clks' rsts')
      else (Cont out, DS (s_env st) clks' rsts')
  end.

Fixpoint run_dsteps (f7 bf : bool) (D : design) (steps : list tstep) (st : dstate) (idx : Z) (out : list Z) : outcome * Z :=
  match steps with
  | [] => (Cont out, idx)
  | t :: r =>
      match dstep_run f7 bf D t st out with
      | (Cont out', st') => run_dsteps f7 bf D r st' (idx + 1) out'
      | (s, _) => (s, idx)
      end
  end.

Fixpoint init_regs (regs : list reg) (env : list Z) : list Z :=
  match regs with [] => env | r :: rs => init_regs rs (set_nth (g_idx r) (g_init r) env) end.
Definition design_init (D : design) : dstate :=
  DS (init_regs (ds_regs D) (init_env (ds_sigs D))) (map (fun _ => false) (ds_doms D)) (map (fun _ => false) (ds_doms D)).

(* the comb process runs once when the simulation starts *)
Definition run_design (f7 bf : bool) (D : design) (steps : list tstep) : outcome * Z :=
  let st := design_init D in
  match exec_b bf (ds_sigs D) (s_env st) (ds_comb D) [] with
  | Cont out => run_dsteps f7 bf D steps st 0 out
  | s => (s, 0)
  end.

Definition design_ok (D : design) : bool :=
  forallb (fun dm => prog_ok (ds_sigs D) (d_prog dm)) (ds_doms D) && prog_ok (ds_sigs D) (ds_comb D).

(* Shape.v — hand model of amaranth/utils.py and of Shape.cast / Shape._unify /
   Const.__init__ in amaranth/hdl/_ast.py.  No proofs here. *)
From Coq Require Import ZArith List Bool.
Import ListNotations.
From V.Model Require Import Bits.
Open Scope Z_scope.

(* utils.ceil_log2: None = ValueError *)
Definition ceil_log2 (n : Z) : option Z :=
  if n <? 0 then None
  else if n =? 0 then Some 0
  else Some (bit_length (n - 1)).

(* utils.exact_log2 *)
Definition exact_log2 (n : Z) : option Z :=
  if (n <=? 0) || negb (Z.land n (n - 1) =? 0) then None
  else Some (bit_length (n - 1)).

(* utils.bits_for; total because ceil_log2 is only called on non-negative arguments *)
Definition bits_for (n : Z) (require_sign_bit : bool) : Z :=
  if 0 <? n then
    bit_length n + (if require_sign_bit then 1 else 0)
  else
    (if n =? 0 then 0 else bit_length (- n - 1)) + 1.

(* len(range(start, stop, step)), step <> 0 *)
Definition range_len (start stop step : Z) : Z :=
  if 0 <? step then
    (if start <? stop then (stop - start - 1) / step + 1 else 0)
  else
    (if stop <? start then (start - stop - 1) / (- step) + 1 else 0).

Definition range_nth (start step k : Z) : Z := start + k * step.

(* Shape.cast(range(start, stop, step)) *)
Definition cast_range (start stop step : Z) : shape :=
  let n := range_len start stop step in
  if n =? 0 then Sh 0 false
  else
    let first := start in
    let last  := range_nth start step (n - 1) in
    let signed := (first <? 0) || (last <? 0) in
    let w := Z.max (bits_for first signed) (bits_for last signed) in
    if (first =? 0) && (last =? 0) then Sh 0 signed else Sh w signed.

(* shape of Const(v) with shape=None *)
Definition const_shape (v : Z) : shape := Sh (bits_for v false) (v <? 0).

(* one iteration of Shape._cast_plain_enum: accumulator (width, signed), member shape *)
Definition enum_step (acc : shape) (m : shape) : shape :=
  if negb (sgn acc) && sgn m then Sh (Z.max (width acc + 1) (width m)) true
  else if sgn acc && negb (sgn m) then Sh (Z.max (width acc) (width m + 1)) (sgn acc)
  else Sh (Z.max (width acc) (width m)) (sgn acc).

Definition cast_enum (members : list Z) : shape :=
  fold_left enum_step (map const_shape members) (Sh 0 false).

(* Shape._unify *)
Definition unify_acc (acc : Z * Z * bool) (s : shape) : Z * Z * bool :=
  let '(uw, sw, hs) := acc in
  if sgn s then (uw, Z.max sw (width s), true) else (Z.max uw (width s), sw, hs).

Definition unify (shapes : list shape) : shape :=
  let '(uw, sw, hs) := fold_left unify_acc shapes (0, 0, false) in
  if hs then Sh (Z.max sw (uw + 1)) true else Sh uw false.

Definition unify2 (a b : shape) : shape := unify [a; b].

(* tail of Const.__init__: the stored value *)
Definition const_norm (s : shape) (value : Z) : Z :=
  if sgn s && Z.odd (Z.shiftr value (width s - 1))
  then Z.lor value (- (Z.shiftl 1 (width s)))
  else Z.land value (Z.shiftl 1 (width s) - 1).

(* Const(value, int shape): Shape(shape, signed = value < 0) ; None = TypeError *)
Definition const_int_shape (value w : Z) : option shape :=
  let s := Sh w (value <? 0) in if wf_shape s then Some s else None.

(* Signal init for range shapes: _get_init_value wraps through Const; a range-shaped signal
   whose init is outside the range is rejected, except init == start on an empty range... mirrored in harness *)

(* ---- constant-castable expressions: Const.cast on Const / Cat / Slice trees ---- *)
Inductive cexpr :=
| CConst (v : Z) (s : shape)
| CCat (parts : list cexpr)
| CSlice (e : cexpr) (lo hi : Z).

(* the accumulation loop of the Concat branch of Const.cast over already-cast parts *)
Definition cat_step (acc : Z * Z) (p : Z * shape) : Z * Z :=
  let '(value, width) := acc in
  let '(pv, psh) := p in
  let part_value := const_norm (Sh (Bits.width psh) false) pv in
  (Z.lor value (Z.shiftl part_value width), width + Bits.width psh).

(* Const.cast: returns (value, shape) of the resulting Const *)
Fixpoint const_cast (e : cexpr) : Z * shape :=
  match e with
  | CConst v s => (const_norm s v, s)
  | CCat parts =>
      let '(value, width) := fold_left cat_step (map const_cast parts) (0, 0) in
      (const_norm (Sh width (value <? 0)) value, Sh width (value <? 0))
  | CSlice e' lo hi =>
      let '(v, _) := const_cast e' in
      let s := Sh (hi - lo) false in
      (const_norm s (Z.shiftr v lo), s)
  end.

(* SPEC: evaluating the expression on integers / bit sequences *)
Fixpoint cwidth (e : cexpr) : Z :=
  match e with
  | CConst _ s => width s
  | CCat parts => fold_right (fun p acc => cwidth p + acc) 0 parts
  | CSlice _ lo hi => hi - lo
  end.

Fixpoint cdenote (e : cexpr) : Z :=
  match e with
  | CConst v s => norm s v
  | CCat parts =>
      (fix go (ps : list cexpr) : Z :=
         match ps with
         | [] => 0
         | p :: ps' => (cdenote p) mod 2 ^ (cwidth p) + 2 ^ (cwidth p) * go ps'
         end) parts
  | CSlice e' lo hi => (cdenote e' / 2 ^ lo) mod 2 ^ (hi - lo)
  end.

(* well-formedness as enforced by the constructors: shapes valid, 0 <= lo <= hi <= len *)
Fixpoint cwf (e : cexpr) : bool :=
  match e with
  | CConst _ s => wf_shape s
  | CCat parts => forallb cwf parts
  | CSlice e' lo hi => cwf e' && (0 <=? lo) && (lo <=? hi) && (hi <=? cwidth e')
  end.

(* PyRTL.v — model of amaranth/sim/_pyrtl.py _RHSValueCompiler: the Python expression compiled for a
   value node, evaluated on RAW (un-normalised) Python integers exactly as the generated code does.
   `mask`/`sign` are the helpers of the same name in the source.  No proofs here. *)
From Coq Require Import ZArith List Bool.
From V.Model Require Import Bits Shape Ast Denote.
Import ListNotations.
Open Scope Z_scope.

(* helpers["sign"]: lambda value, sign: value | sign if value & sign else value, with sign = -1 << (w-1) *)
Definition py_sign (value sign : Z) : Z := if Z.land value sign =? 0 then value else Z.lor value sign.

(* f"({(1 << len(v)) - 1:#x} & {raw})" *)
Definition rmask (w raw : Z) : Z := Z.land (Z.shiftl 1 w - 1) raw.
(* _RHSValueCompiler.sign(value) / the local sign() of on_Operator *)
Definition rsign (s : shape) (raw : Z) : Z :=
  if sgn s then py_sign (rmask (width s) raw) (Z.shiftl (-1) (width s - 1)) else rmask (width s) raw.

Definition zdiv (l r : Z) : Z := if r =? 0 then 0 else l / r.
Definition zmod (l r : Z) : Z := if r =? 0 then 0 else l mod r.

Definition rtl_op1 (o : op1) (sa : shape) (raw : Z) : Z :=
  match o with
  | ONot => Z.lnot (rmask (width sa) raw)
  | ONeg => - rsign sa raw
  | OBool => b2z (negb (rmask (width sa) raw =? 0))
  | ORor => b2z (negb (0 =? rmask (width sa) raw))
  | ORand => b2z (Z.shiftl 1 (width sa) - 1 =? rmask (width sa) raw)
  | ORxor => parity (rmask (width sa) raw)
  | OU | OS => raw
  end.

Definition rtl_op2 (o : op2) (l r : Z) : Z :=   (* l, r are sign(lhs), sign(rhs) *)
  match o with
  | OAdd => l + r
  | OSub => l - r
  | OMul => l * r
  | ODiv => zdiv l r
  | OMod => zmod l r
  | OAnd => Z.land l r
  | OOr => Z.lor l r
  | OXor => Z.lxor l r
  | OShl => Z.shiftl l r
  | OShr => Z.shiftr l r
  | OEq => b2z (l =? r)
  | ONe => b2z (negb (l =? r))
  | OLt => b2z (l <? r)
  | OLe => b2z (l <=? r)
  | OGt => b2z (r <? l)
  | OGe => b2z (r <=? l)
  end.

(* on_Concat: parts as (raw, width), LSB first *)
Fixpoint rtl_cat (ps : list (Z * Z)) (offset : Z) : Z :=
  match ps with
  | [] => 0
  | (raw, w) :: r => Z.lor (Z.shiftl (rmask w raw) offset) (rtl_cat r (offset + w))
  end.

(* _emit_switch: `match` statement when no pattern contains '-', if/elif chain with masks otherwise *)
Definition has_dash (p : pattern) : bool := existsb (fun b => match b with None => true | _ => false end) p.
Definition use_match (cs : list (option (list pattern))) : bool :=
  forallb (fun ps => match ps with None => true | Some l => negb (existsb has_dash l) end) cs.

Definition rtl_case_match (um : bool) (t : Z) (ps : option (list pattern)) : bool :=
  match ps with
  | None => true
  | Some l => if um then existsb (fun p => pat_value p =? t) l        (* case 0b0<pattern> | ... *)
              else existsb (fun p => if has_dash p then pat_value p =? Z.land (pat_mask p) t
                                     else pat_value p =? t) l
  end.

(* first selected case gives the value; rhs_switch = 0 otherwise *)
Fixpoint rtl_switch (um : bool) (t : Z) (cs : list (option (list pattern) * Z)) : Z :=
  match cs with
  | [] => 0
  | (ps, v) :: r => if rtl_case_match um t ps then v else rtl_switch um t r
  end.

Fixpoint eval_rtl (en : env) (e : expr) : Z :=
  match e with
  | EConst v s => const_norm s v                   (* f"{value.value}" — normalised at construction *)
  | ESig i _ => en i
  | EOp1 o a => rtl_op1 o (shape_of a) (eval_rtl en a)
  | EOp2 o a b => rtl_op2 o (rsign (shape_of a) (eval_rtl en a)) (rsign (shape_of b) (eval_rtl en b))
  | ESlice a lo hi => rmask (hi - lo) (Z.shiftr (eval_rtl en a) lo)
  | EPart a off w stride =>
      rmask w (Z.shiftr (rsign (shape_of a) (eval_rtl en a))
                        (stride * rmask (ewidth off) (eval_rtl en off)))
  | ECat parts => rtl_cat (map (fun p => (eval_rtl en p, ewidth p)) parts) 0
  | ESwitch test cases =>
      rtl_switch (use_match (map fst cases))
                 (rmask (ewidth test) (eval_rtl en test))
                 (map (fun c => (fst c, rsign (shape_of (snd c)) (eval_rtl en (snd c)))) cases)
  end.

(* value committed to a signal of shape s driven by e: on_Signal gen() = sign(mask & arg) of rhs.sign(e) *)
Definition rtl_drive (s : shape) (en : env) (e : expr) : Z :=
  rsign s (rsign (shape_of e) (eval_rtl en e)).

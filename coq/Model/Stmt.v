(* Stmt.v — assignment targets and statements:
   * assign_rtl / exec_rtl mirror _LHSValueCompiler and _StatementCompiler of sim/_pyrtl.py
     (read-modify-write of `next_<i>` with masks, Concat distribution, first-match switches);
   * assign_tb mirrors _eval_assign_inner of sim/_pyeval.py (window (lhs_start, rhs_len) carried downwards);
   * wr / addr are the SPEC: which target position addresses which signal bit.
   No proofs here. *)
From Coq Require Import ZArith List Bool.
From V.Model Require Import Bits Shape Ast Denote PyRTL PyEval.
Import ListNotations.
Open Scope Z_scope.

Inductive stmt :=
| SAssign (lhs rhs : expr)
| SSwitch (test : expr) (cases : list (option (list pattern) * list stmt)).

Definition upd (nx : env) (i : nat) (v : Z) : env := fun j => if Nat.eqb j i then v else nx j.

(* assignable targets *)
Fixpoint wf_lhs (e : expr) : bool :=
  match e with
  | ESig _ s => wf_shape s
  | EOp1 OU a | EOp1 OS a => wf_lhs a && (match e with EOp1 OS _ => 0 <? ewidth a | _ => true end)
  | ESlice a lo hi => wf_lhs a && (0 <=? lo) && (lo <=? hi) && (hi <=? ewidth a)
  | EPart a off w st => wf_lhs a && wf_expr off && negb (sgn (shape_of off)) && (0 <=? w) && (1 <=? st)
  | ECat parts => forallb wf_lhs parts
  | ESwitch t cs =>
      wf_expr t &&
      forallb (fun c => wf_lhs (snd c) &&
                 match fst c with None => true | Some ps => forallb (pattern_ok (ewidth t)) ps end) cs
  | _ => false
  end.

(* ---------- _pyrtl: the value of an lvalue read back in "next" mode (lrhs), offsets/tests in "curr" mode ---------- *)
Fixpoint lread (curr nx : env) (e : expr) : Z :=
  match e with
  | ESig i _ => nx i
  | EOp1 OU a | EOp1 OS a => lread curr nx a
  | ESlice a lo hi => rmask (hi - lo) (Z.shiftr (lread curr nx a) lo)
  | EPart a off w st =>
      rmask w (Z.shiftr (rsign (shape_of a) (lread curr nx a)) (st * rmask (ewidth off) (eval_rtl curr off)))
  | ECat parts => rtl_cat (map (fun p => (lread curr nx p, ewidth p)) parts) 0
  | ESwitch t cs =>
      rtl_switch (use_match (map fst cs)) (rmask (ewidth t) (eval_rtl curr t))
                 (map (fun c => (fst c, rsign (shape_of (snd c)) (lread curr nx (snd c)))) cs)
  | _ => eval_rtl nx e
  end.

(* read-modify-write of a field: (old & ~(wm << off)) | ((wm & arg) << off) *)
Definition rmw (old wm off arg : Z) : Z :=
  Z.lor (Z.land old (Z.lnot (Z.shiftl wm off))) (Z.shiftl (Z.land wm arg) off).

Fixpoint assign_rtl (curr : env) (lhs : expr) (arg : Z) (nx : env) : env :=
  match lhs with
  | ESig i s => upd nx i (rsign s arg)
  | EOp1 OU a | EOp1 OS a => assign_rtl curr a arg nx
  | ESlice a lo hi =>
      assign_rtl curr a (rmw (lread curr nx a) (Z.shiftl 1 (hi - lo) - 1) lo arg) nx
  | EPart a off w st =>
      assign_rtl curr a (rmw (lread curr nx a) (Z.shiftl 1 w - 1)
                             (st * rmask (ewidth off) (eval_rtl curr off)) arg) nx
  | ECat parts =>
      (fix go (ps : list expr) (offset : Z) (nx : env) : env :=
         match ps with
         | [] => nx
         | p :: ps' => go ps' (offset + ewidth p)
                          (assign_rtl curr p (rmask (ewidth p) (Z.shiftr arg offset)) nx)
         end) parts 0 nx
  | ESwitch t cs =>
      let um := use_match (map fst cs) in
      let tv := rmask (ewidth t) (eval_rtl curr t) in
      (fix go (cs : list (option (list pattern) * expr)) : env :=
         match cs with
         | [] => nx
         | c :: cs' => if rtl_case_match um tv (fst c) then assign_rtl curr (snd c) arg nx else go cs'
         end) cs
  | _ => nx
  end.

(* _StatementCompiler: on_Assign, on_Switch; statements read `curr`, write `next` *)
Fixpoint exec_rtl (curr : env) (s : stmt) (nx : env) : env :=
  match s with
  | SAssign lhs rhs => assign_rtl curr lhs (rsign (shape_of rhs) (eval_rtl curr rhs)) nx
  | SSwitch t cs =>
      let um := use_match (map fst cs) in
      let tv := rmask (ewidth t) (eval_rtl curr t) in
      (fix go (cs : list (option (list pattern) * list stmt)) : env :=
         match cs with
         | [] => nx
         | c :: cs' =>
             if rtl_case_match um tv (fst c)
             then (fix run (ss : list stmt) (nx : env) : env :=
                     match ss with [] => nx | s' :: ss' => run ss' (exec_rtl curr s' nx) end) (snd c) nx
             else go cs'
         end) cs
  end.

Definition exec_rtl_list (curr : env) (ss : list stmt) (nx : env) : env :=
  fold_left (fun nx s => exec_rtl curr s nx) ss nx.

(* ---------- _pyeval: _eval_assign_inner(lhs, lhs_start, rhs, rhs_len) ---------- *)
Definition tb_sig_write (s : shape) (old start stop rhs : Z) : Z :=
  let mask := Z.shiftl 1 stop - Z.shiftl 1 start in
  let value := Z.land old (Z.lnot mask) in
  let value := Z.lor value (Z.land (Z.shiftl rhs start) mask) in
  let value := Z.land value (Z.shiftl 1 (width s) - 1) in
  if sgn s && negb (Z.land value (Z.shiftl 1 (width s - 1)) =? 0)
  then Z.lor value (Z.shiftl (-1) (width s - 1)) else value.

Fixpoint assign_tb (curr : env) (lhs : expr) (start rhs len : Z) (nx : env) : env :=
  match lhs with
  | EOp1 OU a | EOp1 OS a => assign_tb curr a start rhs len nx
  | ESig i s =>
      let stop := if width s <? start + len then width s else start + len in
      if width s <=? start then nx
      else upd nx i (tb_sig_write s (nx i) start stop rhs)
  | ESlice a lo hi =>
      let lhs_len := hi - lo in
      if lhs_len <=? start then nx
      else let len' := if lhs_len <? start + len then lhs_len - start else len in
           assign_tb curr a (start + lo) rhs len' nx
  | ECat parts =>
      (fix go (ps : list expr) (part_stop : Z) (nx : env) : env :=
         match ps with
         | [] => nx
         | p :: ps' =>
             let part_start := part_stop in
             let part_len := ewidth p in
             let part_stop := part_start + part_len in
             if part_stop <=? start then go ps' part_stop nx
             else if start + len <=? part_start then go ps' part_stop nx
             else
               let part_lhs_start := if start <? part_start then 0 else start - part_start in
               let part_rhs_start := if start <? part_start then part_start - start else 0 in
               let part_rhs_len := if part_stop <=? start + len then part_stop - start - part_rhs_start
                                   else len - part_rhs_start in
               let part_rhs := Z.land (Z.shiftr rhs part_rhs_start) (Z.shiftl 1 part_rhs_len - 1) in
               go ps' part_stop (assign_tb curr p part_lhs_start part_rhs part_rhs_len nx)
         end) parts 0 nx
  | EPart a off w st =>
      let offset := eval_tb curr off * st in
      if w <=? start then nx
      else let len' := if w <? start + len then w - start else len in
           assign_tb curr a (start + offset) rhs len' nx
  | ESwitch t cs =>
      let tv := eval_tb curr t in
      (fix go (cs : list (option (list pattern) * expr)) : env :=
         match cs with
         | [] => nx
         | c :: cs' => if tb_case_match tv (fst c) then assign_tb curr (snd c) start rhs len nx else go cs'
         end) cs
  | _ => nx
  end.

(* eval_assign(sim, lhs, value) *)
Definition tb_set (curr : env) (lhs : expr) (value : Z) (nx : env) : env :=
  assign_tb curr lhs 0 value (ewidth lhs) nx.

(* ---------- SPEC: addressing ---------- *)
(* wr curr lhs i b = Some k : position k of the target addresses bit b of signal i
   (selector values taken from curr; positions outside an operand address nothing) *)
Fixpoint wr (curr : env) (lhs : expr) (i : nat) (b : Z) : option Z :=
  match lhs with
  | ESig j s => if Nat.eqb j i && (0 <=? b) && (b <? width s) then Some b else None
  | EOp1 OU a | EOp1 OS a => wr curr a i b
  | ESlice a lo hi =>
      match wr curr a i b with
      | Some k => if (lo <=? k) && (k <? hi) then Some (k - lo) else None
      | None => None
      end
  | EPart a off w st =>
      let o := denote curr off * st in
      match wr curr a i b with
      | Some k => if (o <=? k) && (k <? o + w) then Some (k - o) else None
      | None => None
      end
  | ECat parts =>
      (fix go (ps : list expr) (offset : Z) : option Z :=
         match ps with
         | [] => None
         | p :: ps' =>
             match wr curr p i b with
             | Some k => Some (k + offset)
             | None => go ps' (offset + ewidth p)
             end
         end) parts 0
  | ESwitch t cs =>
      let tv := (denote curr t) mod 2 ^ ewidth t in
      (fix go (cs : list (option (list pattern) * expr)) : option Z :=
         match cs with
         | [] => None
         | c :: cs' => if case_sem tv (fst c) then wr curr (snd c) i b else go cs'
         end) cs
  | _ => None
  end.

(* signals occurring in value positions of a target *)
Fixpoint sigs_of (lhs : expr) : list nat :=
  match lhs with
  | ESig j _ => [j]
  | EOp1 _ a => sigs_of a
  | ESlice a _ _ => sigs_of a
  | EPart a _ _ _ => sigs_of a
  | ECat parts => flat_map sigs_of parts
  | ESwitch _ cs => flat_map (fun c => sigs_of (snd c)) cs
  | _ => []
  end.

Definition disjointb (a b : list nat) : bool := forallb (fun x => negb (existsb (Nat.eqb x) b)) a.

(* a target is linear when no concatenation names a signal twice (no aliasing inside one target) *)
Fixpoint lin (lhs : expr) : bool :=
  match lhs with
  | ESig _ _ => true
  | EOp1 _ a => lin a
  | ESlice a _ _ => lin a
  | EPart a _ _ _ => lin a
  | ECat parts =>
      forallb lin parts &&
      (fix pairwise (ps : list expr) : bool :=
         match ps with
         | [] => true
         | p :: ps' => forallb (fun q => disjointb (sigs_of p) (sigs_of q)) ps' && pairwise ps'
         end) parts
  | ESwitch _ cs => forallb (fun c => lin (snd c)) cs
  | _ => true
  end.

(* ---------- testbench write to a memory row: the MemoryData._Row branch of _eval_assign_inner followed by
   _PyMemoryState.write(index, rhs << start, mask) on a row holding `old` ---------- *)
Definition tb_row_write (s : shape) (old start stop rhs : Z) : Z :=
  let mask := Z.shiftl 1 stop - Z.shiftl 1 start in
  let value := Z.lor (Z.land (Z.shiftl rhs start) mask) (Z.land old (Z.lnot mask)) in
  if sgn s then
    if negb (Z.land value (Z.shiftl 1 (width s - 1)) =? 0) then Z.lor value (Z.shiftl (-1) (width s))
    else Z.land value (Z.shiftl 1 (width s) - 1)
  else value.

(* Dsl.v — the control-flow constructs of the Module DSL (hdl/_dsl.py Module._pop_ctrl) and their lowering
   to Switch statements: If/Elif/Else becomes one Switch over Cat(tests) with patterns
   ("1" + "-"*k).rjust(n, "-") relying on first-match priority; Switch/Case/Default and FSM/State map to
   Switch directly.  `dactive` is the SPEC (direct semantics).  No proofs here. *)
From Coq Require Import ZArith List Bool.
From V.Model Require Import Bits Shape Ast Denote PyRTL PyEval Stmt.
Import ListNotations.
Open Scope Z_scope.

Inductive dstmt :=
| DAssign (lhs rhs : expr)
| DIf (branches : list (expr * list dstmt)) (has_else : bool) (els : list dstmt)
| DSwitch (test : expr) (cases : list (option (list pattern) * list dstmt)).

(* `if len(if_test) != 1: if_test = if_test.bool()` *)
Definition if_test (t : expr) : expr := if ewidth t =? 1 then t else EOp1 OBool t.

(* ("1" + "-" * k).rjust(n, "-"), MSB first *)
Definition if_pattern (n k : nat) : pattern := repeat None (n - 1 - k) ++ [Some true] ++ repeat None k.

Fixpoint lower (d : dstmt) : stmt :=
  match d with
  | DAssign l r => SAssign l r
  | DIf brs has_else els =>
      let n := length brs in
      SSwitch (ECat (map (fun br => if_test (fst br)) brs))
        ((fix go (brs : list (expr * list dstmt)) (k : nat) : list (option (list pattern) * list stmt) :=
            match brs with
            | [] => if has_else then [(None, map lower els)] else []
            | br :: brs' => (Some [if_pattern n k], map lower (snd br)) :: go brs' (S k)
            end) brs O)
  | DSwitch t cs => SSwitch t (map (fun c => (fst c, map lower (snd c))) cs)
  end.

(* SPEC: the assignments that are active, in program order. If/Elif/Else: the body of the first condition with
   a non-zero value, the Else body if none, nothing if there is no Else; Switch: the first case whose pattern
   set matches the test's bit pattern *)
Fixpoint dactive (curr : env) (d : dstmt) : list (expr * expr) :=
  match d with
  | DAssign l r => [(l, r)]
  | DIf brs has_else els =>
      (fix go (brs : list (expr * list dstmt)) : list (expr * expr) :=
         match brs with
         | [] => if has_else then flat_map (dactive curr) els else []
         | br :: brs' => if negb (denote curr (fst br) =? 0) then flat_map (dactive curr) (snd br) else go brs'
         end) brs
  | DSwitch t cs =>
      let tv := (denote curr t) mod 2 ^ ewidth t in
      (fix go (cs : list (option (list pattern) * list dstmt)) : list (expr * expr) :=
         match cs with
         | [] => []
         | c :: cs' => if case_sem tv (fst c) then flat_map (dactive curr) (snd c) else go cs'
         end) cs
  end.

Fixpoint wf_dstmt (d : dstmt) : bool :=
  match d with
  | DAssign l r => wf_lhs l && lin l && wf_expr r
  | DIf brs has_else els =>
      forallb (fun br => wf_expr (fst br) && forallb wf_dstmt (snd br)) brs && forallb wf_dstmt els
  | DSwitch t cs =>
      wf_expr t &&
      forallb (fun c => forallb wf_dstmt (snd c) &&
                 match fst c with None => true | Some ps => forallb (pattern_ok (ewidth t)) ps end) cs
  end.

(* conditions and tests read normalised state *)
Fixpoint dcond_ok (curr : env) (d : dstmt) : Prop :=
  match d with
  | DAssign _ _ => True
  | DIf brs has_else els =>
      (fix go (brs : list (expr * list dstmt)) : Prop :=
         match brs with
         | [] => True
         | br :: brs' => env_ok curr (fst br) /\
                         (fix run (l : list dstmt) : Prop := match l with [] => True | x :: l' => dcond_ok curr x /\ run l' end) (snd br) /\
                         go brs'
         end) brs /\
      (fix run (l : list dstmt) : Prop := match l with [] => True | x :: l' => dcond_ok curr x /\ run l' end) els
  | DSwitch t cs =>
      env_ok curr t /\
      (fix go (cs : list (option (list pattern) * list dstmt)) : Prop :=
         match cs with
         | [] => True
         | c :: cs' => (fix run (l : list dstmt) : Prop := match l with [] => True | x :: l' => dcond_ok curr x /\ run l' end) (snd c) /\ go cs'
         end) cs
  end.

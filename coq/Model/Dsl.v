(* Dsl.v — the control-flow constructs of the Module DSL (hdl/_dsl.py Module._pop_ctrl) and their lowering
   to Switch statements: If/Elif/Else becomes one Switch over Cat(tests) with patterns
   ("1" + "-"*k).rjust(n, "-") relying on first-match priority; Switch/Case/Default and FSM/State map to
   Switch directly.  `dactive` is the SPEC (direct semantics).  No proofs here. *)
From Coq Require Import ZArith List Bool.
From V.Model Require Import Bits Shape Ast Denote PyRTL PyEval Stmt.
Import ListNotations.
Open Scope Z_scope.

Inductive dstmt :=
| DAssign (lhs rhs : expr)
| DIf (branches : list (expr * list dstmt)) (has_else : bool) (els : list dstmt)
| DSwitch (test : expr) (cases : list (option (list pattern) * list dstmt)).

(* `if len(if_test) != 1: if_test = if_test.bool()` *)
Definition if_test (t : expr) : expr := if ewidth t =? 1 then t else EOp1 OBool t.

(* ("1" + "-" * k).rjust(n, "-"), MSB first *)
Definition if_pattern (n k : nat) : pattern := repeat None (n - 1 - k) ++ [Some true] ++ repeat None k.

Fixpoint lower (d : dstmt) : stmt :=
  match d with
  | DAssign l r => SAssign l r
  | DIf brs has_else els =>
      let n := length brs in
      SSwitch (ECat (map (fun br => if_test (fst br)) brs))
        ((fix go (brs : list (expr * list dstmt)) (k : nat) : list (option (list pattern) * list stmt) :=
            match brs with
            | [] => if has_else then [(None, map lower els)] else []
            | br :: brs' => (Some [if_pattern n k], map lower (snd br)) :: go brs' (S k)
            end) brs O)
  | DSwitch t cs => SSwitch t (map (fun c => (fst c, map lower (snd c))) cs)
  end.

(* SPEC: the assignments that are active, in program order. If/Elif/Else: the body of the first condition with
   a non-zero value, the Else body if none, nothing if there is no Else; Switch: the first case whose pattern
   set matches the test's bit pattern *)
Fixpoint dactive (curr : env) (d : dstmt) : list (expr * expr) :=
  match d with
  | DAssign l r => [(l, r)]
  | DIf brs has_else els =>
      (fix go (brs : list (expr * list dstmt)) : list (expr * expr) :=
         match brs with
         | [] => if has_else then flat_map (dactive curr) els else []
         | br :: brs' => if negb (denote curr (fst br) =? 0) then flat_map (dactive curr) (snd br) else go brs'
         end) brs
  | DSwitch t cs =>
      let tv := (denote curr t) mod 2 ^ ewidth t in
      (fix go (cs : list (option (list pattern) * list dstmt)) : list (expr * expr) :=
         match cs with
         | [] => []
         | c :: cs' => if case_sem tv (fst c) then flat_map (dactive curr) (snd c) else go cs'
         end) cs
  end.

Fixpoint wf_dstmt (d : dstmt) : bool :=
  match d with
  | DAssign l r => wf_lhs l && lin l && wf_expr r
  | DIf brs has_else els =>
      forallb (fun br => wf_expr (fst br) && forallb wf_dstmt (snd br)) brs && forallb wf_dstmt els
  | DSwitch t cs =>
      wf_expr t &&
      forallb (fun c => forallb wf_dstmt (snd c) &&
                 match fst c with None => true | Some ps => forallb (pattern_ok (ewidth t)) ps end) cs
  end.

(* conditions and tests read normalised state *)
Fixpoint dcond_ok (curr : env) (d : dstmt) : Prop :=
  match d with
  | DAssign _ _ => True
  | DIf brs has_else els =>
      (fix go (brs : list (expr * list dstmt)) : Prop :=
         match brs with
         | [] => True
         | br :: brs' => env_ok curr (fst br) /\
                         (fix run (l : list dstmt) : Prop := match l with [] => True | x :: l' => dcond_ok curr x /\ run l' end) (snd br) /\
                         go brs'
         end) brs /\
      (fix run (l : list dstmt) : Prop := match l with [] => True | x :: l' => dcond_ok curr x /\ run l' end) els
  | DSwitch t cs =>
      env_ok curr t /\
      (fix go (cs : list (option (list pattern) * list dstmt)) : Prop :=
         match cs with
         | [] => True
         | c :: cs' => (fix run (l : list dstmt) : Prop := match l with [] => True | x :: l' => dcond_ok curr x /\ run l' end) (snd c) /\ go cs'
         end) cs
  end.

(* ======================================================================================================
   FSM (appended): Module.FSM / State / `m.next = ` / FSM.ongoing and the "FSM" branch of Module._pop_ctrl.
   State names are `nat`; Python's insertion-ordered dicts are association lists in insertion order.
   No proofs here (Proofs/DslP.v). *)
From V.Model Require Import Derived.

Fixpoint assoc_get {V : Type} (d : list (nat * V)) (k : nat) : option V :=
  match d with
  | [] => None
  | (k', v) :: r => if Nat.eqb k' k then Some v else assoc_get r k
  end.
(* d[k] = v: the value of an existing key is replaced in place, a new key goes to the end *)
Fixpoint assoc_set {V : Type} (d : list (nat * V)) (k : nat) (v : V) : list (nat * V) :=
  match d with
  | [] => [(k, v)]
  | (k', v') :: r => if Nat.eqb k' k then (k', v) :: r else (k', v') :: assoc_set r k v
  end.
Fixpoint zassoc_set {V : Type} (d : list (Z * V)) (k : Z) (v : V) : list (Z * V) :=
  match d with
  | [] => [(k, v)]
  | (k', v') :: r => if Z.eqb k' k then (k', v) :: r else (k', v') :: zassoc_set r k v
  end.

(* first reference of a state name (State(name), m.next = name, fsm.ongoing(name)):
     if name not in encoding: encoding[name] = len(encoding); ongoing[name] = Signal()
   `fresh` is the identity of the one-bit signal created for ongoing(name) *)
Definition fsm_ref (st : list (nat * Z) * list (nat * expr)) (s : nat) (fresh : nat)
  : list (nat * Z) * list (nat * expr) :=
  match assoc_get (fst st) s with
  | Some _ => st
  | None => (assoc_set (fst st) s (Z.of_nat (length (fst st))), assoc_set (snd st) s (ESig fresh (Sh 1 false)))
  end.
(* the encoding after a sequence of references (the signal identities do not matter for it) *)
Definition fsm_encoding (refs : list nat) : list (nat * Z) :=
  fst (fold_left (fun st s => fsm_ref st s O) refs ([], [])).

(* Switch(test, [(k, stmts)]) with an int pattern: to_binary(k, len(test)); a value that the test's shape cannot
   represent is dropped with a warning (the case never matches) *)
Definition int_case_patterns (test : expr) (k : Z) : list pattern :=
  if in_rangeb (shape_of test) k then [bin_pattern (ewidth test) k] else [].

(* init = encoding[next(iter(states))] if init is None else encoding[init];  None = KeyError / StopIteration *)
Definition fsm_init_value {B : Type} (init : option nat) (enc : list (nat * Z)) (states : list (nat * B)) : option Z :=
  match init with
  | None => match states with [] => None | sb :: _ => assoc_get enc (fst sb) end
  | Some s => assoc_get enc s
  end.

(* decoding.update((n, s) for s, n in encoding.items()) *)
Definition fsm_decoding (dec0 : list (Z * nat)) (enc : list (nat * Z)) : list (Z * nat) :=
  fold_left (fun d sn => zassoc_set d (snd sn) (fst sn)) enc dec0.

(* the state register: Signal(Enum(.., [(label, n) for n in range(len(decoding))]), init=init) *)
Definition fsm_state_shape (dec : list (Z * nat)) : shape :=
  cast_enum (py_range 0 (Z.of_nat (length dec)) 1).

(* ongoing(s) signals: sig.eq(fsm_signal == encoding[s]), appended to the top-level comb statements *)
Definition fsm_ongoing_stmts (reg : expr) (enc : list (nat * Z)) (og : list (nat * expr)) : option (list stmt) :=
  opt_map (fun so => match assoc_get enc (fst so) with
                     | Some k => Some (SAssign (snd so) (EOp2 OEq reg (mk_const_auto k)))
                     | None => None
                     end) og.

(* Switch(fsm_signal, [(encoding[name], stmts) for name, stmts in states.items()]) *)
Definition lower_fsm (reg : expr) (enc : list (nat * Z)) (states : list (nat * list stmt)) : option stmt :=
  match opt_map (fun sb => match assoc_get enc (fst sb) with
                           | Some k => Some (Some (int_case_patterns reg k), snd sb)
                           | None => None
                           end) states with
  | Some cs => Some (SSwitch reg cs)
  | None => None
  end.

(* everything the "FSM" branch produces for one domain: (state register, its init value, statements appended to
   the top-level comb list, statements appended to the domain's list).  `reg_id` is the identity of the new
   register; no states: a 0-wide register and nothing else *)
Definition pop_fsm (reg_id : nat) (init : option nat) (enc : list (nat * Z)) (dec0 : list (Z * nat))
    (states : list (nat * list stmt)) (og : list (nat * expr)) : option (expr * Z * list stmt * list stmt) :=
  match states with
  | [] => Some (ESig reg_id (Sh 0 false), 0, [], [])
  | _ =>
    match fsm_init_value init enc states with
    | None => None
    | Some iv =>
      let reg := ESig reg_id (fsm_state_shape (fsm_decoding dec0 enc)) in
      match fsm_ongoing_stmts reg enc og with
      | None => None
      | Some ogs =>
        match lower_fsm reg enc states with
        | None => None
        | Some sw => Some (reg, iv, ogs, [sw])
        end
      end
    end
  end.

(* SPEC of an FSM Switch: the body of the first state whose encoding is the register's value *)
Fixpoint fsm_active_body (v : Z) (enc : list (nat * Z)) (states : list (nat * list stmt)) : list stmt :=
  match states with
  | [] => []
  | sb :: r => match assoc_get enc (fst sb) with
               | Some k => if v =? k then snd sb else fsm_active_body v enc r
               | None => fsm_active_body v enc r
               end
  end.

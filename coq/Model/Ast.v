(* Ast.v — the expression language of amaranth/hdl/_ast.py (value nodes), shapes, well-formedness.
   No proofs here. *)
From Coq Require Import ZArith List Bool.
From V.Model Require Import Bits Shape.
Import ListNotations.
Open Scope Z_scope.

Inductive op1 := ONot | ONeg | OBool | ORor | ORand | ORxor | OU | OS.
Inductive op2 := OAdd | OSub | OMul | ODiv | OMod | OAnd | OOr | OXor | OShl | OShr
               | OEq | ONe | OLt | OLe | OGt | OGe.

(* normalised switch pattern: MSB first; None is the don't-care '-' *)
Definition pattern := list (option bool).

Inductive expr :=
| EConst (v : Z) (s : shape)
| ESig (i : nat) (s : shape)
| EOp1 (o : op1) (a : expr)
| EOp2 (o : op2) (a b : expr)
| ESlice (a : expr) (lo hi : Z)
| EPart (a off : expr) (w stride : Z)
| ECat (parts : list expr)
| ESwitch (test : expr) (cases : list (option (list pattern) * expr)).

(* Operator.shape *)
Definition op1_shape (o : op1) (a : shape) : shape :=
  match o with
  | ONot => Sh (width a) (sgn a)
  | ONeg => Sh (width a + 1) true
  | OBool | ORor | ORand | ORxor => Sh 1 false
  | OU => Sh (width a) false
  | OS => Sh (width a) true
  end.

Definition op2_shape (o : op2) (a b : shape) : shape :=
  match o with
  | OAdd => let u := unify2 a b in Sh (width u + 1) (sgn u)
  | OSub => let u := unify2 a b in Sh (width u + 1) true
  | OMul => Sh (width a + width b) (sgn a || sgn b)
  | ODiv => Sh (width a + (if sgn b then 1 else 0)) (sgn a || sgn b)
  | OMod => Sh (width b) (sgn b)
  | OAnd | OOr | OXor => unify2 a b
  | OShl => Sh (width a + 2 ^ width b - 1) (sgn a)
  | OShr => Sh (width a) (sgn a)
  | OEq | ONe | OLt | OLe | OGt | OGe => Sh 1 false
  end.

Fixpoint shape_of (e : expr) : shape :=
  match e with
  | EConst _ s => s
  | ESig _ s => s
  | EOp1 o a => op1_shape o (shape_of a)
  | EOp2 o a b => op2_shape o (shape_of a) (shape_of b)
  | ESlice _ lo hi => Sh (hi - lo) false
  | EPart _ _ w _ => Sh w false
  | ECat parts => Sh (fold_right (fun p acc => width (shape_of p) + acc) 0 parts) false
  | ESwitch _ cases => unify (map (fun c => shape_of (snd c)) cases)
  end.

Definition ewidth (e : expr) : Z := width (shape_of e).

Definition pattern_ok (w : Z) (p : pattern) : bool := Z.of_nat (length p) =? w.

(* what the constructors accept (Shape(), Operator via Value methods, Slice, Part, SwitchValue) *)
Fixpoint wf_expr (e : expr) : bool :=
  match e with
  | EConst _ s => wf_shape s
  | ESig _ s => wf_shape s
  | EOp1 o a => wf_expr a && (match o with OS => 0 <? ewidth a | _ => true end)
  | EOp2 o a b => wf_expr a && wf_expr b &&
                  (match o with OShl | OShr => negb (sgn (shape_of b)) | _ => true end)
  | ESlice a lo hi => wf_expr a && (0 <=? lo) && (lo <=? hi) && (hi <=? ewidth a)
  | EPart a off w stride => wf_expr a && wf_expr off && negb (sgn (shape_of off)) && (0 <=? w) && (1 <=? stride)
  | ECat parts => forallb wf_expr parts
  | ESwitch test cases =>
      wf_expr test &&
      forallb (fun c => wf_expr (snd c) &&
                 match fst c with
                 | None => true
                 | Some ps => forallb (pattern_ok (ewidth test)) ps
                 end) cases
  end.

(* environments: value of signal i (a normalised Python int, as _PySignalState.curr) *)
Definition env := nat -> Z.

(* every signal occurrence holds a value in its shape's range *)
Fixpoint env_ok (en : env) (e : expr) : Prop :=
  match e with
  | EConst _ _ => True
  | ESig i s => in_range s (en i)
  | EOp1 _ a => env_ok en a
  | EOp2 _ a b => env_ok en a /\ env_ok en b
  | ESlice a _ _ => env_ok en a
  | EPart a off _ _ => env_ok en a /\ env_ok en off
  | ECat parts => (fix go (ps : list expr) : Prop :=
                     match ps with [] => True | p :: ps' => env_ok en p /\ go ps' end) parts
  | ESwitch test cases =>
      env_ok en test /\
      (fix go (cs : list (option (list pattern) * expr)) : Prop :=
         match cs with [] => True | c :: cs' => env_ok en (snd c) /\ go cs' end) cases
  end.

(* ---- patterns ---- *)
(* int(pattern with '-' -> 0, 2) and the mask of cared-for bits, as _emit_switch / _eval_matches compute them *)
Fixpoint pat_value_acc (p : pattern) (acc : Z) : Z :=
  match p with
  | [] => acc
  | Some true :: r => pat_value_acc r (2 * acc + 1)
  | _ :: r => pat_value_acc r (2 * acc)
  end.
Fixpoint pat_mask_acc (p : pattern) (acc : Z) : Z :=
  match p with
  | [] => acc
  | None :: r => pat_mask_acc r (2 * acc)
  | Some _ :: r => pat_mask_acc r (2 * acc + 1)
  end.
Definition pat_value (p : pattern) : Z := pat_value_acc p 0.
Definition pat_mask (p : pattern) : Z := pat_mask_acc p 0.

(* `value == (mask & test)` *)
Definition pat_match (t : Z) (p : pattern) : bool := pat_value p =? Z.land (pat_mask p) t.

(* a case is selected: default, or any of its patterns matches; an empty pattern tuple never matches *)
Definition case_match (t : Z) (ps : option (list pattern)) : bool :=
  match ps with
  | None => true
  | Some l => existsb (pat_match t) l
  end.

(* Fifo.v — cycle-accurate model of amaranth/lib/fifo.py SyncFIFO and SyncFIFOBuffered
   (with the part of lib/memory.py + the simulator's memory semantics they use), and the
   bounded-queue specification they are compared with.  No proofs here (see Proofs/FifoP.v).

   One step = one clock cycle: the outputs are the values of the combinational / registered
   outputs *before* the active edge, the new state is the register/memory contents after it. *)
From Coq Require Import ZArith List Bool.
From V.Model Require Import Bits Shape.
Import ListNotations.
Open Scope Z_scope.

(* ---------------------------------------------------------------- interface *)
Record inp := Inp { w_en : bool; w_data : Z; r_en : bool }.
Record out := Out { w_rdy : bool; r_rdy : bool; r_data : Z; level : Z; w_level : Z; r_level : Z }.

(* FIFOInterface.__init__ accepts exactly non-negative integers (TypeError otherwise) *)
Definition ctor_ok (w d : Z) : bool := (0 <=? w) && (0 <=? d).

(* len(Signal(range(n))) = Shape.cast(range(n)).width *)
Definition range_width (n : Z) : Z := width (cast_range 0 n 1).

(* fifo._incr(signal, modulo), assigned back to the pw-bit signal (pw = len(signal)) *)
Definition incr (pw x m : Z) : Z :=
  if m =? 2 ^ pw then mask pw (x + 1)
  else mask pw (if x =? m - 1 then 0 else x + 1).

(* memory rows as simulated (pysim._PyMemoryState.read / write): addresses are unsigned;
   a read outside the memory returns 0, a write outside is dropped *)
Definition mem_read (rows : list Z) (a : Z) : Z := nth (Z.to_nat a) rows 0.
Fixpoint upd (rows : list Z) (n : nat) (v : Z) : list Z :=
  match rows, n with
  | [], _ => []
  | _ :: r, O => v :: r
  | x :: r, S k => x :: upd r k v
  end.
Definition mem_write (rows : list Z) (a v : Z) : list Z := upd rows (Z.to_nat a) v.

(* ---------------------------------------------------------------- pointer/level/storage block
   The statements `produce`, `consume`, `level`/`inner_level`, `storage` of SyncFIFO.elaborate
   (fifo.py:159-186) and of SyncFIFOBuffered.elaborate (fifo.py:287-314) are the same up to the
   names of the two strobes; d = depth resp. inner_depth (d >= 1). *)
Record core := Core { produce : Z; consume : Z; lvl : Z; rows : list Z }.

Definition core_init (d : Z) : core := Core 0 0 0 (repeat 0 (Z.to_nat d)).

Definition core_step (w d : Z) (c : core) (do_write : bool) (wd : Z) (do_read : bool) : core :=
  let pw := range_width d in            (* produce, consume : Signal(range(d)) *)
  let lw := range_width (d + 1) in      (* level : Signal(range(d + 1)) *)
  Core (if do_write then incr pw (produce c) d else produce c)
       (if do_read then incr pw (consume c) d else consume c)
       (* two m.If blocks; the later statement wins (they are mutually exclusive) *)
       (if do_read && negb do_write then mask lw (lvl c - 1)
        else if do_write && negb do_read then mask lw (lvl c + 1)
        else lvl c)
       (if do_write then mem_write (rows c) (produce c) (mask w wd) else rows c).

(* ---------------------------------------------------------------- SyncFIFO *)
Definition sync_out (d : Z) (c : core) : out :=
  if d =? 0 then Out false false 0 0 0 0         (* nothing else is driven; no memory *)
  else Out (negb (lvl c =? d)) (negb (lvl c =? 0))
           (mem_read (rows c) (consume c))        (* comb read port, addr = consume *)
           (lvl c) (lvl c) (lvl c).

Definition sync_step (w d : Z) (c : core) (i : inp) : core * out :=
  let o := sync_out d c in
  if d =? 0 then (c, o)
  else
    let do_read := r_rdy o && r_en i in
    let do_write := w_rdy o && w_en i in
    (core_step w d c do_write (w_data i) do_read, o).

(* ---------------------------------------------------------------- SyncFIFOBuffered
   depth >= 2: inner block of depth-1 + sync read-port data register `rdata` (reset_less, init 0)
   + `r_rdy` register; depth = 1: registers `level` (blevel) and `r_data` (rdata); depth = 0: nothing. *)
Record bstate := BState { inner : core; rdata : Z; rrdy : bool; blevel : Z }.

Definition buf_init (d : Z) : bstate := BState (core_init (d - 1)) 0 false 0.

Definition b2z (b : bool) : Z := if b then 1 else 0.

Definition buf_out (d : Z) (s : bstate) : out :=
  if d =? 0 then Out false false 0 0 0 0
  else if d =? 1 then
    Out (blevel s =? 0) (blevel s =? 1) (rdata s) (blevel s) (blevel s) (blevel s)
  else
    let lv := mask (range_width (d + 1)) (lvl (inner s) + b2z (rrdy s)) in
    Out (negb (lvl (inner s) =? d - 1)) (rrdy s) (rdata s) lv lv lv.

Definition buf_step (w d : Z) (s : bstate) (i : inp) : bstate * out :=
  let o := buf_out d s in
  if d =? 0 then (s, o)
  else
    let do_write := w_rdy o && w_en i in
    let do_read := r_rdy o && r_en i in
    if d =? 1 then
      (BState (inner s)
              (if do_write then mask w (w_data i) else rdata s)
              (rrdy s)
              (if do_read then 0 else if do_write then 1 else blevel s), o)
    else
      let inner_r_rdy := negb (lvl (inner s) =? 0) in
      let do_inner_read := inner_r_rdy && (negb (rrdy s) || r_en i) in
      (BState (core_step w (d - 1) (inner s) do_write (w_data i) do_inner_read)
              (* sync read port, en = do_inner_read, not transparent: old row *)
              (if do_inner_read then mem_read (rows (inner s)) (consume (inner s)) else rdata s)
              (if do_inner_read then true else if r_en i then false else rrdy s)
              (blevel s), o).

(* ---------------------------------------------------------------- running a machine *)
Section Run.
  Context {S : Type}.
  Variable step : S -> inp -> S * out.
  Fixpoint run (s : S) (ins : list inp) : list out :=
    match ins with
    | [] => []
    | i :: r => snd (step s i) :: run (fst (step s i)) r
    end.
  Fixpoint reach (s : S) (ins : list inp) : S :=
    match ins with
    | [] => s
    | i :: r => reach (fst (step s i)) r
    end.
End Run.

Definition sync_run (w d : Z) := run (sync_step w d) (core_init d).
Definition buf_run (w d : Z) := run (buf_step w d) (buf_init d).
Definition sync_reach (w d : Z) := reach (sync_step w d) (core_init d).
Definition buf_reach (w d : Z) := reach (buf_step w d) (buf_init d).

(* r_data is unspecified while r_rdy = 0 *)
Definition vis (o : out) : out :=
  Out (w_rdy o) (r_rdy o) (if r_rdy o then r_data o else 0) (level o) (w_level o) (r_level o).

(* entries accepted / delivered along a run (ins and outs cycle by cycle) *)
Fixpoint accepted (w : Z) (ins : list inp) (outs : list out) : list Z :=
  match ins, outs with
  | i :: ri, o :: ro =>
      (if w_rdy o && w_en i then [mask w (w_data i)] else []) ++ accepted w ri ro
  | _, _ => []
  end.
Fixpoint delivered (ins : list inp) (outs : list out) : list Z :=
  match ins, outs with
  | i :: ri, o :: ro =>
      (if r_rdy o && r_en i then [r_data o] else []) ++ delivered ri ro
  | _, _ => []
  end.

(* ---------------------------------------------------------------- specification: bounded queue *)
Definition qlen (q : list Z) : Z := Z.of_nat (length q).

(* next queue contents given whether the write / the read is accepted in this cycle *)
Definition q_next (w : Z) (q : list Z) (wr : bool) (wd : Z) (rd : bool) : list Z :=
  (if rd then @tl Z else @id (list Z)) (q ++ if wr then [mask w wd] else []).

Definition q_out (d : Z) (q : list Z) : out :=
  Out (qlen q <? d) (negb (qlen q =? 0)) (hd 0 q) (qlen q) (qlen q) (qlen q).

Definition q_step (w d : Z) (q : list Z) (i : inp) : list Z * out :=
  let o := q_out d q in
  (q_next w q (w_rdy o && w_en i) (w_data i) (r_rdy o && r_en i), o).

Definition q_run (w d : Z) := run (q_step w d) [].

(* ---------------------------------------------------------------- abstraction functions *)
(* the n rows starting at c, cyclically in a memory of d rows *)
Definition window (rws : list Z) (d c : Z) (n : nat) : list Z :=
  map (fun i => mem_read rws ((c + Z.of_nat i) mod d)) (seq 0 n).

Definition core_abs (d : Z) (c : core) : list Z :=
  window (rows c) d (consume c) (Z.to_nat (lvl c)).

Definition sync_abs (d : Z) (c : core) : list Z :=
  if d =? 0 then [] else core_abs d c.

Definition buf_abs (d : Z) (s : bstate) : list Z :=
  if d =? 0 then []
  else if d =? 1 then (if blevel s =? 1 then [rdata s] else [])
  else (if rrdy s then [rdata s] else []) ++ core_abs (d - 1) (inner s).

(* ---------------------------------------------------------------- synchronous reset of the domain
   `rst` of the (synchronous-reset) domain is sampled at the same edge as everything else: the outputs of
   the cycle are unaffected; at the edge every register that is not reset_less takes its init value,
   overriding the statements (sim/_pyrtl.py: `if rst: next_x = init` after the statements).  The memory is
   not a register: a write accepted in that cycle still lands.  The data register of the sync read port is
   not reset either (it keeps its value, or captures the row when the port is enabled), and
   SyncFIFOBuffered(depth=1) keeps its reset_less r_data register. *)
Definition core_reset (c : core) : core := Core 0 0 0 (rows c).
Definition buf_reset (s : bstate) : bstate := BState (core_reset (inner s)) (rdata s) false 0.

Definition sync_step_r (w d : Z) (c : core) (ir : inp * bool) : core * out :=
  let r := sync_step w d c (fst ir) in
  (if snd ir then core_reset (fst r) else fst r, snd r).
Definition buf_step_r (w d : Z) (s : bstate) (ir : inp * bool) : bstate * out :=
  let r := buf_step w d s (fst ir) in
  (if snd ir then buf_reset (fst r) else fst r, snd r).

Section RunR.
  Context {S : Type}.
  Variable step : S -> inp * bool -> S * out.
  Fixpoint run_r (s : S) (ins : list (inp * bool)) : list out :=
    match ins with
    | [] => []
    | i :: r => snd (step s i) :: run_r (fst (step s i)) r
    end.
  Fixpoint reach_r (s : S) (ins : list (inp * bool)) : S :=
    match ins with
    | [] => s
    | i :: r => reach_r (fst (step s i)) r
    end.
End RunR.

Definition sync_run_r (w d : Z) := run_r (sync_step_r w d) (core_init d).
Definition buf_run_r (w d : Z) := run_r (buf_step_r w d) (buf_init d).
Definition sync_reach_r (w d : Z) := reach_r (sync_step_r w d) (core_init d).
Definition buf_reach_r (w d : Z) := reach_r (buf_step_r w d) (buf_init d).

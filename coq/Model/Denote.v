(* Denote.v — SPEC: Python integer / bit-sequence semantics of expressions on the true integer value
   of each operand (reference documentation of the operators).  No proofs here. *)
From Coq Require Import ZArith List Bool.
From V.Model Require Import Bits Shape Ast.
Import ListNotations.
Open Scope Z_scope.

Definition b2z (b : bool) : Z := if b then 1 else 0.

(* documented deviations: x // 0 = x % 0 = 0 *)
Definition pydiv (a b : Z) : Z := if b =? 0 then 0 else a / b.
Definition pymod (a b : Z) : Z := if b =? 0 then 0 else a mod b.

Definition den_op1 (o : op1) (sa : shape) (a : Z) : Z :=
  match o with
  | ONot => if sgn sa then - a - 1 else 2 ^ width sa - 1 - a     (* complement within the operand's shape *)
  | ONeg => - a
  | OBool | ORor => b2z (negb (a =? 0))
  | ORand => b2z (a mod 2 ^ width sa =? 2 ^ width sa - 1)          (* all bits of the pattern set *)
  | ORxor => parity (a mod 2 ^ width sa)
  | OU => a mod 2 ^ width sa
  | OS => sext (width sa) a
  end.

Definition den_op2 (o : op2) (a b : Z) : Z :=
  match o with
  | OAdd => a + b
  | OSub => a - b
  | OMul => a * b
  | ODiv => pydiv a b
  | OMod => pymod a b
  | OAnd => Z.land a b
  | OOr => Z.lor a b
  | OXor => Z.lxor a b
  | OShl => a * 2 ^ b
  | OShr => a / 2 ^ b
  | OEq => b2z (a =? b)
  | ONe => b2z (negb (a =? b))
  | OLt => b2z (a <? b)
  | OLe => b2z (a <=? b)
  | OGt => b2z (b <? a)
  | OGe => b2z (b <=? a)
  end.

(* bits [off, off+w) of the two's complement integer a: zeros above an unsigned MSB, sign bits above a
   signed one, because a is the true (possibly negative) value *)
Definition bits_at (a off w : Z) : Z := (a / 2 ^ off) mod 2 ^ w.

(* concatenation, LSB part first: list of (value, width) *)
Fixpoint cat_of (ps : list (Z * Z)) : Z :=
  match ps with
  | [] => 0
  | (v, w) :: r => v mod 2 ^ w + 2 ^ w * cat_of r
  end.

(* a pattern (MSB first) matches the bit pattern of t *)
Fixpoint pat_sem (p : pattern) (t : Z) : bool :=
  match p with
  | [] => true
  | b :: r =>
      (match b with
       | None => true
       | Some v => Bool.eqb (Z.testbit t (Z.of_nat (length r))) v
       end) && pat_sem r t
  end.

Definition case_sem (t : Z) (ps : option (list pattern)) : bool :=
  match ps with
  | None => true
  | Some l => existsb (fun p => pat_sem p t) l
  end.

(* first case whose pattern set matches; 0 if none *)
Fixpoint switch_of (t : Z) (cs : list (option (list pattern) * Z)) : Z :=
  match cs with
  | [] => 0
  | (ps, v) :: r => if case_sem t ps then v else switch_of t r
  end.

Fixpoint denote (en : env) (e : expr) : Z :=
  match e with
  | EConst v s => norm s v
  | ESig i _ => en i
  | EOp1 o a => den_op1 o (shape_of a) (denote en a)
  | EOp2 o a b => den_op2 o (denote en a) (denote en b)
  | ESlice a lo hi => bits_at (denote en a) lo (hi - lo)
  | EPart a off w stride => bits_at (denote en a) (denote en off * stride) w
  | ECat parts => cat_of (map (fun p => (denote en p, ewidth p)) parts)
  | ESwitch test cases =>
      switch_of ((denote en test) mod 2 ^ ewidth test)
                (map (fun c => (fst c, denote en (snd c))) cases)
  end.

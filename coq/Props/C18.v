(* C18 — I/O buffers apply direction, inversion and registering exactly per bit.
   Only statements here; proofs live in Proofs/IoP.v.  Model: Model/Io.v. *)
From Coq Require Import ZArith List Bool Lia.
From V.Model Require Import Bits Io.
From V.Proofs Require Import BitsP IoP.
Import ListNotations.
Open Scope Z_scope.

(* a sample simulation port: width 3, invert = (True, False, True), and a state of the i signals *)
Definition ex_p : port := Port KSim (base_refs 0 3) [] [true; false; true] DBidir.
Definition ex_st : pstate := init_pstate [ex_p] [5].

(* ------------------------------------------------------------------ Buffer on a simulation port *)
(* every width (incl. 0), every mask, every o/oe/previous state, Output and Bidir buffers:
   port.o = o xor invert, every port.oe wire = oe, nothing else changes *)
Theorem C18_buffer_out_spec p bd o oe st :
  bd <> DIn -> NoDup (p_refs p) -> length (p_inv p) = length (p_refs p) ->
  let st' := fst (buffer_comb bd p o oe st) in
  read_cat (s_o st') (p_refs p) = Z.lxor (mask (plen p) o) (inv_mask (p_inv p)) /\
  read_cat (s_oe st') (p_refs p) = (if Z.odd oe then 2 ^ plen p - 1 else 0) /\
  (forall k r, nth_error (p_refs p) k = Some r ->
     s_o st' r = xorb (Z.testbit o (Z.of_nat k)) (nthb (p_inv p) k) /\ s_oe st' r = Z.odd oe) /\
  (forall r, ~ In r (p_refs p) -> s_o st' r = s_o st r /\ s_oe st' r = s_oe st r) /\
  (forall r, s_i st' r = s_i st r).
Proof.
  intros Hbd Hnd Hlen st'. destruct (buffer_out_word p bd o oe st Hbd Hnd Hlen) as [H1 H2].
  destruct (buffer_out_bits p bd o oe st Hbd Hnd) as (H3 & H4 & H5).
  split; [exact H1|]. split; [exact H2|]. split; [exact H3|]. split; [exact H4|exact H5].
Qed.
Print Assumptions C18_buffer_out_spec.

Example C18_buffer_out_example :
  DBidir <> DIn /\ NoDup (p_refs ex_p) /\ length (p_inv ex_p) = length (p_refs ex_p) /\
  read_cat (s_o (fst (buffer_comb DBidir ex_p 6 1 ex_st))) (p_refs ex_p) = 3 /\
  read_cat (s_oe (fst (buffer_comb DBidir ex_p 6 1 ex_st))) (p_refs ex_p) = 7.
Proof. split; [discriminate|]. split; [apply base_refs_nodup|]. vm_compute. auto. Qed.

(* Input buffers: i = port.i xor invert, nothing is driven *)
Theorem C18_buffer_in_spec p o oe st :
  buffer_comb DIn p o oe st = (st, Z.lxor (read_cat (s_i st) (p_refs p)) (inv_mask (p_inv p))) /\
  forall k, Z.testbit (snd (buffer_comb DIn p o oe st)) (Z.of_nat k) =
            xorb (match nth_error (p_refs p) k with Some r => s_i st r | None => false end) (nthb (p_inv p) k).
Proof. split; [apply buffer_in_word|intros; apply buffer_in_bits]. Qed.
Print Assumptions C18_buffer_in_spec.

(* Bidir buffers: while oe is set the driven value comes back on i (the two inversions cancel),
   otherwise i = port.i xor invert *)
Theorem C18_buffer_bidir_loopback p o oe st :
  NoDup (p_refs p) -> length (p_inv p) = length (p_refs p) ->
  snd (buffer_comb DBidir p o oe st) =
    (if Z.odd oe then mask (plen p) o else Z.lxor (read_cat (s_i st) (p_refs p)) (inv_mask (p_inv p))) /\
  forall k r, nth_error (p_refs p) k = Some r ->
    Z.testbit (snd (buffer_comb DBidir p o oe st)) (Z.of_nat k) =
    if Z.odd oe then Z.testbit o (Z.of_nat k) else xorb (s_i st r) (nthb (p_inv p) k).
Proof. intros Hnd Hlen. split; [apply buffer_bidir_word; auto|intros; apply buffer_bidir_bits; auto]. Qed.
Print Assumptions C18_buffer_bidir_loopback.

Example C18_buffer_bidir_example :
  snd (buffer_comb DBidir ex_p 6 1 ex_st) = 6 /\ snd (buffer_comb DBidir ex_p 6 0 ex_st) = 0 /\
  snd (buffer_comb DIn ex_p 6 0 ex_st) = 0 /\ inv_mask (p_inv ex_p) = 5.
Proof. vm_compute. auto. Qed.

(* the buffer's i never exceeds the port width; an Output buffer has no i *)
Theorem C18_buffer_i_range p bd o oe st : length (p_inv p) = length (p_refs p) ->
  0 <= snd (buffer_comb bd p o oe st) < 2 ^ plen p.
Proof. exact (buffer_i_range p bd o oe st). Qed.
Print Assumptions C18_buffer_i_range.

(* which (port direction, buffer direction) pairs are accepted *)
Theorem C18_buffer_direction_check bd pd :
  (buffer_check bd pd = Ok tt <-> (pd = bd \/ pd = DBidir)) /\
  (buffer_check bd pd <> Ok tt -> buffer_check bd pd = Err EValue).
Proof. split; [apply buffer_check_spec|apply buffer_check_err]. Qed.
Print Assumptions C18_buffer_direction_check.

(* ------------------------------------------------------------------ FFBuffer *)
(* For every sequence of events evs (inputs + which domains have their edge) and every further event e:
   - o side (Output/Bidir): after an o_domain edge the port shows exactly what the combinational Buffer
     would show for the o/oe sampled at that edge; without the edge the port keeps its value (whatever o/oe do);
   - i side (Input/Bidir): after an i_domain edge i is the inner buffer's i of just before the edge; without
     the edge it holds.  So each direction has exactly one register, clocked by its own domain. *)
Theorem C18_ffbuffer_one_stage bd p evs e st :
  length (p_inv p) = length (p_refs p) ->
  let s := ff_run_state bd p evs in
  let s' := ff_run_state bd p (evs ++ [e]) in
  (bd <> DIn ->
     (ev_eo e = true -> fst (ff_comb bd p s' st) = fst (buffer_comb bd p (ev_o e) (ev_oe e) st)) /\
     (ev_eo e = false -> fst (ff_comb bd p s' st) = fst (ff_comb bd p s st))) /\
  (bd <> DOut ->
     (ev_ei e = true -> f_i s' = snd (buffer_comb bd p (f_o s) (f_oe s) (ev_st e))) /\
     (ev_ei e = false -> f_i s' = f_i s)) /\
  (bd = DIn -> fst (ff_comb bd p s' st) = st) /\
  (bd = DOut -> f_i s' = 0).
Proof.
  intros Hlen s s'. repeat split.
  - intros He. apply ff_port_after_edge; auto.
  - intros He. apply ff_port_hold; auto.
  - intros He. unfold s'. rewrite ff_run_snoc. pose proof (ff_step_i bd p s e H Hlen) as Hs. cbn zeta in Hs.
    rewrite He in Hs. exact Hs.
  - intros He. unfold s'. rewrite ff_run_snoc. pose proof (ff_step_i bd p s e H Hlen) as Hs. cbn zeta in Hs.
    rewrite He in Hs. exact Hs.
  - intros ->. reflexivity.
  - intros ->. unfold s'. clear s s'. generalize (evs ++ [e]) as l. clear. intros l.
    induction l as [|x r IH] using rev_ind; [reflexivity|]. rewrite ff_run_snoc.
    destruct (ff_step_unused DOut p (ff_run_state DOut p r) x) as [_ H2]. rewrite (H2 eq_refl). exact IH.
Qed.
Print Assumptions C18_ffbuffer_one_stage.

(* consequence for an Input FFBuffer and for the words on the port of an Output/Bidir FFBuffer *)
Theorem C18_ffbuffer_words bd p evs e st :
  NoDup (p_refs p) -> length (p_inv p) = length (p_refs p) ->
  (bd = DIn -> ev_ei e = true ->
     f_i (ff_run_state bd p (evs ++ [e])) = Z.lxor (read_cat (s_i (ev_st e)) (p_refs p)) (inv_mask (p_inv p))) /\
  (bd <> DIn -> ev_eo e = true ->
     read_cat (s_o (fst (ff_comb bd p (ff_run_state bd p (evs ++ [e])) st))) (p_refs p)
       = Z.lxor (mask (plen p) (ev_o e)) (inv_mask (p_inv p))).
Proof.
  intros Hnd Hlen. split.
  - intros -> He. rewrite ff_run_snoc. pose proof (ff_step_i DIn p (ff_run_state DIn p evs) e ltac:(discriminate) Hlen) as Hs.
    cbn zeta in Hs. rewrite He in Hs. rewrite Hs, buffer_in_word. reflexivity.
  - intros Hbd He. rewrite ff_port_after_edge by auto.
    destruct (buffer_out_word p bd (ev_o e) (ev_oe e) st Hbd Hnd Hlen) as [H _]. exact H.
Qed.
Print Assumptions C18_ffbuffer_words.

Example C18_ffbuffer_example :
  let e1 := Ev 6 1 ex_st true true in let e2 := Ev 1 0 ex_st true true in
  f_i (ff_run_state DBidir ex_p [e1]) = 0 /\            (* first edge: o_ff was 0, disabled: i = port.i xor 5 = 0 *)
  f_i (ff_run_state DBidir ex_p [e1; e2]) = 6 /\        (* second edge: loops back the o of the first edge *)
  read_cat (s_o (fst (ff_comb DBidir ex_p (ff_run_state DBidir ex_p [e1]) ex_st))) (p_refs ex_p) = 3.
Proof. vm_compute. auto. Qed.

(* ------------------------------------------------------------------ port algebra *)
Theorem C18_direction_and a b :
  dir_and a b = dir_and b a /\ dir_and a a = Ok a /\ dir_and DBidir a = Ok a /\
  match dir_and a b with
  | Ok d => (d = a /\ (b = a \/ b = DBidir)) \/ (d = b /\ a = DBidir)
  | Err e => e = EValue /\ ((a = DIn /\ b = DOut) \/ (a = DOut /\ b = DIn))
  end.
Proof. repeat split; [apply dir_and_comm|apply dir_and_idem|apply dir_and_bidir_l|apply dir_and_spec]. Qed.
Print Assumptions C18_direction_and.

(* ~p flips every flag and keeps wires, kind and direction; ~~p = p *)
Theorem C18_port_invert p : wf p ->
  port_invert p = Ok (Port (p_kind p) (p_refs p) (p_nrefs p) (map negb (p_inv p)) (p_dir p)) /\
  bind (port_invert p) port_invert = Ok p.
Proof. intros H. split; [apply port_invert_spec; auto|apply port_invert_involutive; auto]. Qed.
Print Assumptions C18_port_invert.

(* p + q concatenates wires and flags, narrows the direction; other kinds -> TypeError, Input+Output -> ValueError *)
Theorem C18_port_add p q : wf p -> wf q ->
  if negb (kind_eqb (p_kind p) (p_kind q)) then port_add p q = Err EType
  else match dir_and (p_dir p) (p_dir q) with
       | Err e => port_add p q = Err e
       | Ok d => let r := Port (p_kind p) (p_refs p ++ p_refs q) (p_nrefs p ++ p_nrefs q) (p_inv p ++ p_inv q) d in
                 port_add p q = Ok r /\ wf r
       end.
Proof. exact (port_add_spec p q). Qed.
Print Assumptions C18_port_add.

(* p[i]: Python index semantics (negative indices, IndexError outside [-n, n)) on wires and flags alike *)
Theorem C18_port_index p i : wf p ->
  let n := plen p in
  if (i <? - n) || (n <=? i) then port_index p i = Err EIndex
  else let j := Z.to_nat (if i <? 0 then i + n else i) in
       exists r b, nth_error (p_refs p) j = Some r /\ nth_error (p_inv p) j = Some b /\
         let q := Port (p_kind p) [r] (match nth_error (p_nrefs p) j with Some x => [x] | None => [] end) [b] (p_dir p) in
         port_index p i = Ok q /\ wf q.
Proof. exact (port_index_spec p i). Qed.
Print Assumptions C18_port_index.

(* p[a:b:s]: with (a', b', s') = slice.indices(len p), the result consists of the wires, flags (and n wires)
   at positions a', a'+s', ... — the same positions for all of them; its length is len(range(a', b', s')).
   Deviation from tuple semantics, inherited from Value/IOValue slicing: step 1 with start > stop raises IndexError. *)
Theorem C18_port_slice p k : wf p ->
  match slice_indices (plen p) k with
  | Err e => port_slice p k = Err e /\ e = EValue /\ sl_step k = Some 0
  | Ok (a, b, s) =>
      if (s =? 1) && (b <? a) then port_slice p k = Err EIndex
      else let idx := range_list a b s in
           let q := Port (p_kind p) (sel (p_refs p) idx) (sel (p_nrefs p) idx) (sel (p_inv p) idx) (p_dir p) in
           port_slice p k = Ok q /\ wf q /\ plen q = range_len a b s /\
           (forall j, (j < Z.to_nat (range_len a b s))%nat ->
              0 <= a + Z.of_nat j * s < plen p /\
              nth_error (p_refs q) j = nth_error (p_refs p) (Z.to_nat (a + Z.of_nat j * s)) /\
              nth_error (p_inv q) j = nth_error (p_inv p) (Z.to_nat (a + Z.of_nat j * s)))
  end.
Proof.
  intros Hw. pose proof (port_slice_spec p k Hw) as H.
  destruct (slice_indices (plen p) k) as [[[a b] s]|e] eqn:Hk.
  - destruct ((s =? 1) && (b <? a)); auto. cbn zeta in *. destruct H as (Hq & Hwq & Hv & Hl).
    split; [exact Hq|]. split; [exact Hwq|]. split; [exact Hl|]. intros j Hj.
    assert (H0 : 0 <= plen p) by (unfold plen, zlen; lia).
    split; [|split].
    + apply (range_in_bounds (plen p) k a b s); auto. lia.
    + cbn [p_refs]. rewrite sel_nth by exact Hv. rewrite range_list_nth by auto. reflexivity.
    + cbn [p_inv]. destruct Hw as [Hw1 _]. rewrite sel_nth.
      * rewrite range_list_nth by auto. reflexivity.
      * unfold valid_idx, zlen in *. rewrite Hw1. exact Hv.
  - split; auto. apply (slice_indices_err _ _ _ Hk).
Qed.
Print Assumptions C18_port_slice.

(* the slicing used by ports agrees with Python's tuple slicing whenever it does not raise *)
Theorem C18_slice_is_python {A} (l : list A) k r : hdl_slice l k = Ok r -> tuple_slice l k = Ok r.
Proof.
  intros H. pose proof (hdl_slice_spec l k) as S. destruct (slice_indices (zlen l) k) as [[[a b] s]|e].
  - destruct S as [St Sh]. destruct ((s =? 1) && (b <? a)); [destruct Sh; congruence|congruence].
  - destruct S; congruence.
Qed.
Print Assumptions C18_slice_is_python.

(* ... and the one place where it raises although a tuple would not: x[3:1] *)
Example C18_reversed_slice_raises :
  port_slice ex_p (Sl (Some 3) (Some 1) None) = Err EIndex /\
  tuple_slice (p_inv ex_p) (Sl (Some 3) (Some 1) None) = Ok [] /\
  port_slice ex_p (Sl (Some 3) (Some 1) (Some 2)) = Ok (Port KSim [] [] [] DBidir) /\
  port_slice ex_p (Sl None None (Some (-1))) = Ok (Port KSim [(0, 2); (0, 1); (0, 0)]%nat [] [true; false; true] DBidir) /\
  port_slice ex_p (Sl (Some (-2)) None None) = Ok (Port KSim [(0, 1); (0, 2)]%nat [] [false; true] DBidir).
Proof. vm_compute. repeat split. Qed.

(* (p + q)[k] selects from p or from q *)
Theorem C18_port_add_index p q r k : wf p -> wf q -> port_add p q = Ok r -> 0 <= k < plen r ->
  exists x, port_index r k = Ok x /\ p_dir x = p_dir r /\
    if k <? plen p
    then exists y, port_index p k = Ok y /\ p_refs x = p_refs y /\ p_nrefs x = p_nrefs y /\ p_inv x = p_inv y
    else exists y, port_index q (k - plen p) = Ok y /\ p_refs x = p_refs y /\ p_nrefs x = p_nrefs y /\ p_inv x = p_inv y.
Proof. exact (port_add_index p q r k). Qed.
Print Assumptions C18_port_add_index.

(* every port built from freshly constructed base ports by any expression is well formed
   (so the constructors' length checks never fire inside the algebra) *)
Theorem C18_port_expressions_wf bds env e p : mk_env bds = Ok env -> peval env e = Ok p -> wf p.
Proof. intros He Hp. apply (peval_wf env (mk_env_from_wf bds 0%nat env He) e p Hp). Qed.
Print Assumptions C18_port_expressions_wf.

Example C18_port_algebra_example :
  wf ex_p /\ mk_env [BSim DBidir 3 (InvList [true; false; true])] = Ok [ex_p] /\
  peval [ex_p] (PAdd (PInv (PSlice (PBase 0) (Sl (Some 1) None None))) (PIdx (PBase 0) (-3)))
    = Ok (Port KSim [(0, 1); (0, 2); (0, 0)]%nat [] [true; false; true] DBidir).
Proof. vm_compute. auto. Qed.

(* ------------------------------------------------------------------ netlists of buffers on real ports *)
(* For every list of buffers (any directions, any single-ended/differential ports): the netlist is produced
   iff no I/O wire is used twice; then its IOBuffer cells are those of the buffers in order and every used wire
   occurs in exactly one cell position; otherwise DriverConflict. *)
Theorem C18_iobuffer_each_bit_once bufs :
  all_wires (netlist_cells bufs) = flat_map (fun bp => used_wires (fst bp) (snd bp)) bufs /\
  match build_netlist bufs with
  | Ok cells => cells = netlist_cells bufs /\ NoDup (all_wires cells) /\
                (forall r, In r (all_wires cells) -> count_occ ref_eq_dec (all_wires cells) r = 1%nat)
  | Err e => e = EConflict /\ ~ NoDup (all_wires (netlist_cells bufs))
  end.
Proof. split; [apply netlist_wires|apply build_netlist_spec]. Qed.
Print Assumptions C18_iobuffer_each_bit_once.

(* the cells of one buffer: pad side = the raw wires of the port, no inversion there *)
Theorem C18_buffer_cells_shape bd p :
  all_wires (fst (buffer_cells bd p)) = used_wires bd p /\
  match p_kind p with
  | KSim => fst (buffer_cells bd p) = []
  | KSingle => map c_port (fst (buffer_cells bd p)) = [p_refs p] /\ map c_dir (fst (buffer_cells bd p)) = [bd]
  | KDiff => match bd with
             | DIn => map c_port (fst (buffer_cells bd p)) = [p_refs p] /\ map c_dir (fst (buffer_cells bd p)) = [DIn]
             | _ => map c_port (fst (buffer_cells bd p)) = [p_refs p; p_nrefs p] /\
                    map c_dir (fst (buffer_cells bd p)) = [bd; DOut]
             end
  end.
Proof. split; [apply buffer_cells_wires|apply buffer_cells_shape]. Qed.
Print Assumptions C18_buffer_cells_shape.

(* inversion on the fabric side: wire k of the port carries o[k] xor invert[k] while enabled (its n partner the
   complement), and i[k] = pad value of wire k xor invert[k] *)
Theorem C18_inversion_on_fabric_side bd p o oe pad k r :
  p_kind p <> KSim -> NoDup (p_refs p ++ p_nrefs p) -> wf p -> nth_error (p_refs p) k = Some r ->
  (bd <> DIn ->
     pad_drive (fst (buffer_cells bd p)) o oe r =
       (if oe then Some (xorb (Z.testbit o (Z.of_nat k)) (nthb (p_inv p) k)) else None) /\
     (p_kind p = KDiff -> forall r', nth_error (p_nrefs p) k = Some r' ->
        pad_drive (fst (buffer_cells bd p)) o oe r' =
          (if oe then Some (negb (xorb (Z.testbit o (Z.of_nat k)) (nthb (p_inv p) k))) else None))) /\
  (bd = DIn -> forall r', pad_drive (fst (buffer_cells bd p)) o oe r' = None) /\
  (bd <> DOut ->
     length (snd (buffer_cells bd p)) = length (p_refs p) /\
     exists b, nth_error (snd (buffer_cells bd p)) k = Some b /\
               ibit_value (fst (buffer_cells bd p)) pad b = xorb (pad r) (nthb (p_inv p) k)) /\
  (bd = DOut -> snd (buffer_cells bd p) = []).
Proof.
  intros Hk Hnd [Hw1 Hw2] Hn. pose proof Hnd as Hnd'. apply nodup_app_iff in Hnd'. destruct Hnd' as (Hp & _ & _).
  repeat split.
  - apply pad_drive_p; auto.
  - intros Hd r' Hr'. rewrite Hd in Hw2. apply pad_drive_n; auto.
  - intros -> r'. apply pad_drive_input.
  - destruct (buffer_cells_i bd p pad k r Hk H Hw1 Hn) as [Hl _]. exact Hl.
  - destruct (buffer_cells_i bd p pad k r Hk H Hw1 Hn) as [_ He]. exact He.
  - intros ->. apply buffer_cells_no_i.
Qed.
Print Assumptions C18_inversion_on_fabric_side.

Definition ex_d : port := Port KDiff (base_refs 0 2) (base_refs 1 2) [true; false] DBidir.
Example C18_netlist_example :
  p_kind ex_d <> KSim /\ NoDup (p_refs ex_d ++ p_nrefs ex_d) /\ wf ex_d /\
  build_netlist [(DBidir, ex_d)] =
    Ok [Cell [(0, 0); (0, 1)]%nat DBidir [OB 0 true; OB 1 false]; Cell [(1, 0); (1, 1)]%nat DOut [OB 0 false; OB 1 true]] /\
  build_netlist [(DBidir, ex_d); (DIn, ex_d)] = Err EConflict /\
  pad_drive (fst (buffer_cells DBidir ex_d)) 1 true (0, 0)%nat = Some false /\
  pad_drive (fst (buffer_cells DBidir ex_d)) 1 true (1, 0)%nat = Some true.
Proof.
  split; [discriminate|]. split; [repeat constructor; cbn; intuition congruence|].
  split; [unfold wf; cbn; auto|]. vm_compute. auto.
Qed.

(* ------------------------------------------------------------------ finding C18-SIM-LHS-ALIAS *)
(* The simulator's lowering of an assignment to Slice(Cat(...)) (Io.lv_assign, after _pyrtl._LHSValueCompiler)
   is NOT the per-bit assignment used by the theorems above (and by the netlist) when the Cat repeats a signal bit,
   even if the sliced target itself has no repeated wire: Cat(a, a[0:1])[0:1].eq(1) leaves a[0] at 0.
   The port ((p + p[0:1])[0]) is such a target; C18_buffer_out_spec describes the simulated Buffer only for ports
   whose underlying expression does not slice a port with a repeated wire. *)
Theorem C18_sim_lhs_alias_refuted :
  exists v st x r, NoDup (lv_wires v) /\ In r (lv_wires v) /\
    assign_cat st (lv_wires v) x r = true /\ lv_assign st v x r = false.
Proof.
  exists (LSlice (LCat [LSig 0 2; LSlice (LSig 0 2) 0 1]) 0 1), (fun _ => false), 1, (0%nat, 0%nat).
  split; [vm_compute; repeat constructor; intros []|]. split; [vm_compute; auto|]. split; vm_compute; reflexivity.
Qed.
Print Assumptions C18_sim_lhs_alias_refuted.

(* without the repeated bit the two agree on the same shape of target *)
Example C18_sim_lhs_no_alias_example :
  let v := LSlice (LCat [LSig 0 2; LSlice (LSig 1 2) 0 1]) 1 3 in
  forallb (fun x => forallb (fun r => Bool.eqb (lv_assign (fun _ => false) v x r) (assign_cat (fun _ => false) (lv_wires v) x r))
                            [(0, 0); (0, 1); (1, 0); (1, 1)]%nat) [0; 1; 2; 3] = true.
Proof. vm_compute. reflexivity. Qed.

(* ------------------------------------------------------------------ additions after the coverage audit *)
(* FFBuffer(direction, port, i_domain=, o_domain=): which domains the registers use (`x or "sync"`), and exactly when
   the constructor raises ValueError (a domain given for a direction the buffer does not have) *)
Theorem C18_ffbuffer_domains bd idom odom :
  match ff_domains bd idom odom with
  | Ok (i, o) => (bd = DOut -> idom = None) /\ (bd = DIn -> odom = None) /\
                 i = (if dir_eqb bd DOut then None else Some (dom_default idom)) /\
                 o = (if dir_eqb bd DIn then None else Some (dom_default odom))
  | Err e => e = EValue /\ ((bd = DOut /\ idom <> None) \/ (bd = DIn /\ odom <> None))
  end.
Proof. exact (ff_domains_spec bd idom odom). Qed.
Print Assumptions C18_ffbuffer_domains.

(* on real ports an FFBuffer has the cells of a Buffer (buffer_cells) and exactly one register per existing direction,
   in the resolved domain *)
Theorem C18_ffbuffer_netlist_regs bd pd idom odom d : ffbuffer_init bd pd idom odom = Ok d ->
  ff_regs d = ((if dir_eqb bd DIn then 0%nat else 1%nat, if dir_eqb bd DIn then None else Some (dom_default odom)),
               (if dir_eqb bd DOut then 0%nat else 1%nat, if dir_eqb bd DOut then None else Some (dom_default idom))).
Proof. exact (ff_regs_spec bd pd idom odom d). Qed.
Print Assumptions C18_ffbuffer_netlist_regs.

Example C18_ffbuffer_domains_example :
  ffbuffer_init DBidir DBidir (Some DA) None = Ok (Some DA, Some DSync) /\
  ffbuffer_init DOut DBidir (Some DA) None = Err EValue /\ ffbuffer_init DIn DOut None None = Err EValue.
Proof. vm_compute. auto. Qed.

(* several buffers in one design: buffers on ports without a common wire do not disturb each other (any order) *)
Theorem C18_buffers_disjoint_independent p1 p2 bd1 bd2 o1 oe1 o2 oe2 st :
  bd1 <> DIn -> bd2 <> DIn -> NoDup (p_refs p1) -> NoDup (p_refs p2) ->
  (forall r, In r (p_refs p1) -> ~ In r (p_refs p2)) ->
  let st12 := fst (buffer_comb bd2 p2 o2 oe2 (fst (buffer_comb bd1 p1 o1 oe1 st))) in
  let st21 := fst (buffer_comb bd1 p1 o1 oe1 (fst (buffer_comb bd2 p2 o2 oe2 st))) in
  (forall k r, nth_error (p_refs p1) k = Some r ->
     s_o st12 r = xorb (Z.testbit o1 (Z.of_nat k)) (nthb (p_inv p1) k) /\ s_oe st12 r = Z.odd oe1 /\
     s_o st21 r = s_o st12 r /\ s_oe st21 r = s_oe st12 r) /\
  (forall k r, nth_error (p_refs p2) k = Some r ->
     s_o st12 r = xorb (Z.testbit o2 (Z.of_nat k)) (nthb (p_inv p2) k) /\ s_oe st12 r = Z.odd oe2 /\
     s_o st21 r = s_o st12 r /\ s_oe st21 r = s_oe st12 r).
Proof. exact (buffers_disjoint p1 p2 bd1 bd2 o1 oe1 o2 oe2 st). Qed.
Print Assumptions C18_buffers_disjoint_independent.

(* The simulator's lowering of an assignment target (lv_assign) IS the per-bit assignment, for every Value tree in
   which no Slice is taken of an operand naming a signal bit twice, every state and every value.  Together with
   C18_sim_lhs_alias_refuted this delimits finding C18-SIM-LHS-ALIAS exactly. *)
Theorem C18_sim_lowering_is_per_bit v st x r : slice_safe v ->
  lv_assign st v x r = assign_cat st (lv_wires v) x r.
Proof. intros H. apply (lv_assign_flat v H st st x). intros q; reflexivity. Qed.
Print Assumptions C18_sim_lowering_is_per_bit.

(* For every port expression over simulation ports: the Value tree that the port algebra builds names exactly the
   port's wires, and if it is slice_safe the Buffer as the simulator executes it (buffer_comb_lv) is the Buffer of
   C18_buffer_out_spec / _in_spec / _bidir_loopback (buffer_comb), wire by wire. *)
Theorem C18_sim_buffer_is_per_bit bds env e p bd o oe st :
  Forall is_sim bds -> mk_env bds = Ok env -> peval env e = Ok p ->
  lv_wires (peval_lv env e) = p_refs p /\
  (slice_safe (peval_lv env e) ->
   let a := buffer_comb_lv bd p (peval_lv env e) o oe st in
   let b := buffer_comb bd p o oe st in
   (forall r, s_i (fst a) r = s_i (fst b) r) /\ (forall r, s_o (fst a) r = s_o (fst b) r) /\
   (forall r, s_oe (fst a) r = s_oe (fst b) r) /\ snd a = snd b).
Proof.
  intros Hs He Hp.
  assert (Hw : lv_wires (peval_lv env e) = p_refs p).
  { apply peval_lv_wires; auto; [eapply mk_env_sim_env; eauto|eapply mk_env_from_wf; eauto]. }
  split; [exact Hw|]. intros Hsafe. exact (buffer_comb_lv_flat bd p (peval_lv env e) o oe st Hsafe Hw).
Qed.
Print Assumptions C18_sim_buffer_is_per_bit.

Example C18_sim_buffer_example :
  let bds := [BSim DBidir 3 (InvList [true; false; true]); BSim DBidir 2 InvDefault] in
  let e := PSlice (PAdd (PBase 0) (PInv (PBase 1))) (Sl (Some 1) (Some 4) None) in
  Forall is_sim bds /\ (exists env p, mk_env bds = Ok env /\ peval env e = Ok p /\ slice_safe (peval_lv env e)) /\
  (* and an expression that is not slice_safe: ((~p) + p[0:1])[-3] *)
  ~ slice_safe (peval_lv [ex_p] (PIdx (PAdd (PInv (PBase 0)) (PSlice (PBase 0) (Sl (Some 0) (Some 1) None))) (-3))).
Proof.
  cbn zeta. split; [repeat constructor|]. split.
  - eexists. eexists. split; [reflexivity|]. split; [vm_compute; reflexivity|].
    vm_compute. repeat constructor; cbn; intuition congruence.
  - vm_compute. intros H. inversion H as [|? ? Hx Hr]; subst. inversion Hr as [|? ? Hy Hr2]; subst.
    inversion Hr2 as [|? ? Hz Hr3]; subst. apply Hx. cbn. auto.
Qed.

(* ================================================================== regenerated from the source (translator unit `io`)
   Gen/IoGen.v is produced on every run by translator/unit_io.py from the current text of amaranth/lib/io.py
   (Direction.__and__; __init__ / __len__ / __invert__ / __getitem__ (int and slice key) / __add__ of SingleEndedPort,
   DifferentialPort and SimulationPort; the direction and domain checks of Buffer.__init__ / FFBuffer.__init__);
   the port algebra and the construction checks every theorem above talks about are these, for all ports, keys,
   directions and domains. *)
From V.Gen Require IoGen.
From V.Proofs Require GenEqIo.

Theorem C18_translated_dir_and a b : IoGen.g_dir_and a b = dir_and a b.
Proof. exact (GenEqIo.gen_dir_and_eq a b). Qed.
Print Assumptions C18_translated_dir_and.

Theorem C18_translated_single_init io inv d :
  IoGen.g_single_init io inv d = mk_single io (norm_inv (length io) inv) d.
Proof. exact (GenEqIo.gen_single_init_eq io inv d). Qed.
Print Assumptions C18_translated_single_init.

Theorem C18_translated_diff_init p n inv d :
  IoGen.g_diff_init p n inv d = mk_diff p n (norm_inv (length p) inv) d.
Proof. exact (GenEqIo.gen_diff_init_eq p n inv d). Qed.
Print Assumptions C18_translated_diff_init.

Theorem C18_translated_sim_init b d (w : nat) inv :
  IoGen.g_sim_init b d (Z.of_nat w) inv = mk_sim b d w (norm_inv w inv).
Proof. exact (GenEqIo.gen_sim_init_eq b d w inv). Qed.
Print Assumptions C18_translated_sim_init.

Theorem C18_translated_port_len p : IoGen.g_port_len p = Ok (plen p).
Proof. exact (GenEqIo.gen_port_len_eq p). Qed.
Print Assumptions C18_translated_port_len.

Theorem C18_translated_port_invert p : IoGen.g_port_invert p = port_invert p.
Proof. exact (GenEqIo.gen_port_invert_eq p). Qed.
Print Assumptions C18_translated_port_invert.

Theorem C18_translated_port_index p i : IoGen.g_port_index p i = port_index p i.
Proof. exact (GenEqIo.gen_port_index_eq p i). Qed.
Print Assumptions C18_translated_port_index.

Theorem C18_translated_port_slice p k : IoGen.g_port_slice p k = port_slice p k.
Proof. exact (GenEqIo.gen_port_slice_eq p k). Qed.
Print Assumptions C18_translated_port_slice.

Theorem C18_translated_port_add p q : IoGen.g_port_add p q = port_add p q.
Proof. exact (GenEqIo.gen_port_add_eq p q). Qed.
Print Assumptions C18_translated_port_add.

Theorem C18_translated_peval env e : GenEqIo.g_peval env e = peval env e.
Proof. exact (GenEqIo.gen_peval_eq env e). Qed.
Print Assumptions C18_translated_peval.

Theorem C18_translated_buffer_init bd p : IoGen.g_buffer_init bd p = buffer_check bd (p_dir p).
Proof. exact (GenEqIo.gen_buffer_init_eq bd p). Qed.
Print Assumptions C18_translated_buffer_init.

Theorem C18_translated_ffbuffer_init bd p idom odom :
  IoGen.g_ffbuffer_init bd p idom odom = ffbuffer_init bd (p_dir p) idom odom.
Proof. exact (GenEqIo.gen_ffbuffer_init_eq bd p idom odom). Qed.
Print Assumptions C18_translated_ffbuffer_init.

Theorem C18_translated_buffer_invert p : IoGen.g_buffer_invert p = inv_mask (p_inv p).
Proof. exact (GenEqIo.gen_buffer_invert_eq p). Qed.
Print Assumptions C18_translated_buffer_invert.

(* Buffer.elaborate regenerated by symbolic execution of the source (IoGen.g_buffer_elab): the IOBufferInstance
   cells + i connection for SingleEndedPort / DifferentialPort, and the settled comb function for a SimulationPort *)
Theorem C18_translated_buffer_cells bd p o oe st :
  GenEqIo.g_cells_of p (IoGen.g_buffer_elab bd p o oe st) = buffer_cells bd p.
Proof. exact (GenEqIo.gen_buffer_cells_eq bd p o oe st). Qed.
Print Assumptions C18_translated_buffer_cells.

Theorem C18_translated_buffer_comb bd p o oe st :
  p_kind p = KSim -> IoGen.ge_sem (IoGen.g_buffer_elab bd p o oe st) = Some (buffer_comb bd p o oe st).
Proof. exact (GenEqIo.gen_buffer_comb_eq bd p o oe st). Qed.
Print Assumptions C18_translated_buffer_comb.

(* FFBuffer.elaborate regenerated by symbolic execution (IoGen.g_ff_edge / g_ff_sync): which edge registers what
   (inner Buffer = the regenerated g_buffer_elab), and one register stage per direction in the stored domains *)
Theorem C18_translated_ff_edge bd p ei eo o oe st s :
  p_kind p = KSim ->
  IoGen.g_ff_edge bd p ei eo o oe st s = (ff_edge bd p ei eo o oe st s, if dir_eqb bd DOut then 0 else f_i s).
Proof. exact (GenEqIo.gen_ff_edge_eq bd p ei eo o oe st s). Qed.
Print Assumptions C18_translated_ff_edge.

Theorem C18_translated_ff_regs bd idom odom r :
  ff_domains bd idom odom = Ok r ->
  GenEqIo.g_regs_of (IoGen.g_ff_sync bd r) = ff_regs r /\
  GenEqIo.g_stages IoGen.Gf_oe (IoGen.g_ff_sync bd r) = GenEqIo.g_stages IoGen.Gf_o (IoGen.g_ff_sync bd r).
Proof. exact (GenEqIo.gen_ff_regs_eq bd idom odom r). Qed.
Print Assumptions C18_translated_ff_regs.

(* C07 — every emitted RTLIL document is structurally well-formed.
   What is proved is a CERTIFIED CHECKER: the executable validator `wf_doc` that the harness runs by vm_compute on
   every document emitted by amaranth.back.rtlil decides exactly the declarative predicate `WellFormed`
   (Model/Rtlil.v: the property's clauses one by one).  The quantifier over designs is explored by the generator,
   not proved (level: translation validation).  Also: the naming step `_ir._add_name`.
   Only statements here; proofs live in Proofs/RtlilP.v. *)
From Coq Require Import ZArith List Bool String.
From V.Model Require Bits.
From V.Model Require Import Rtlil.
From V.Proofs Require Import RtlilP.
Import ListNotations.
Open Scope Z_scope.
Open Scope string_scope.

(* --- a concrete two-module document (module \top instantiating \top.sub, a $not cell, a process with a switch)
       and an instance of a foreign module with parameters, an attribute and three ports --- *)
Definition ex_sub : module :=
  Mod "\top.sub" [("\generator", PStr "Amaranth")]
    [Wire "\x" 4 (Some (DIn, 0)) false []; Wire "\y" 4 (Some (DOut, 1)) false []] [] []
    [Proc "$1" [] [PAssign [CSlice "\y" 3 0] [CSlice "\x" 3 0];
                   PSwitch [CSlice "\x" 0 0] [([[1]], [PAssign [CSlice "\y" 1 0] [CConst [0; 0]]]); ([], [])]]]
    [].
Definition ex_top (dup : bool) : module :=
  Mod "\top" [("\top", PInt 1)]
    [Wire "\a" 4 (Some (DIn, 0)) false []; Wire "\o" 4 (Some (DOut, 1)) false [];
     Wire "\pad" 2 (Some (DInout, 2)) false []; Wire "$1" 4 None false []; Wire "\r" 1 None false []]
    [Mem "\mem" 8 4 []]
    ([Cell "$2" "$not" [] [Par "\A_SIGNED" 0 (PInt 0); Par "\A_WIDTH" 0 (PInt 4); Par "\Y_WIDTH" 0 (PInt 4)]
        [("\A", [CSlice "\a" 3 0]); ("\Y", [CWire "$1"])];
      Cell "\sub" "\top.sub" [] [] [("\x", [CSlice "$1" 3 0]); ("\y", [CWire "\o"])];
      Cell "\u" "\foo" [("\keep", PInt 1)] [Par "\X" 0 (PInt 5); Par "\S" 1 (PBits [1; 0; 1])]
        [("\i", [CSlice "\a" 1 0; CConst [1]]); ("\q", [CWire "\r"]); ("\p", [CSlice "\pad" 1 0])];
      Cell "$3" "$meminit_v2" []
        [Par "\MEMID" 0 (PStr "\mem"); Par "\ABITS" 0 (PInt 0); Par "\WIDTH" 0 (PInt 8); Par "\WORDS" 0 (PInt 1)]
        [("\ADDR", []); ("\DATA", [CConst [1; 0; 0; 0; 0; 0; 0; 0]]); ("\EN", [CConst [1; 1; 1; 1; 1; 1; 1; 1]])]]
     ++ (if dup then [Cell "$4" "$not" [] [Par "\A_SIGNED" 0 (PInt 0); Par "\A_WIDTH" 0 (PInt 4); Par "\Y_WIDTH" 0 (PInt 4)]
                        [("\A", [CSlice "\a" 3 0]); ("\Y", [CWire "$1"])]] else []))
    [] [].
Definition ex_doc (dup : bool) : doc := Doc [ex_top dup; ex_sub].
Definition ex_foreign : list fspec :=
  [FS "\top" "\u" "\foo" [("\S", XConst (-3) 3 true); ("\X", XInt 5)] [("\keep", XInt 1)]
      [FP "\i" DIn 3 (Some [CSlice "\a" 0 0; CSlice "\a" 1 1; CConst [1]]); FP "\q" DOut 1 (Some [CWire "\r"]);
       FP "\p" DInout 2 None]].

(* --- the validator decides the declarative predicate: all documents, all expected-instance lists --- *)
Theorem C07_wf_doc_sound : forall (ex : list fspec) (d : doc), wf_doc ex d = true -> WellFormed ex d.
Proof. exact wf_doc_sound. Qed.
Print Assumptions C07_wf_doc_sound.
Example C07_wf_doc_sound_ex : wf_doc ex_foreign (ex_doc false) = true.
Proof. vm_compute. reflexivity. Qed.

(* a rejection is a real defect: no false alarm *)
Theorem C07_wf_doc_complete : forall (ex : list fspec) (d : doc), WellFormed ex d -> wf_doc ex d = true.
Proof. exact wf_doc_complete. Qed.
Print Assumptions C07_wf_doc_complete.
Example C07_wf_doc_complete_ex : WellFormed ex_foreign (ex_doc false).
Proof. apply wf_doc_sound. vm_compute. reflexivity. Qed.

Theorem C07_wf_module_decides : forall ex d m, wf_module ex d m = true <-> WfModule ex d m.
Proof. exact wf_module_spec. Qed.
Print Assumptions C07_wf_module_decides.

(* not vacuous: a second driver on wire $1 is rejected, and therefore not WellFormed; so is a wrong expectation *)
Theorem C07_rejects_double_driver : ~ WellFormed ex_foreign (ex_doc true).
Proof. intro H. apply wf_doc_complete in H. vm_compute in H. discriminate. Qed.
Print Assumptions C07_rejects_double_driver.
Theorem C07_rejects_wrong_instance : ~ WellFormed [FS "\top" "\u" "\foo" [("\S", XConst (-3) 3 true); ("\X", XInt 6)] [("\keep", XInt 1)] []] (ex_doc false).
Proof. intro H. apply wf_doc_complete in H. vm_compute in H. discriminate. Qed.
Print Assumptions C07_rejects_wrong_instance.

(* --- parameter / attribute values of foreign instances: back/rtlil.py _const() --- *)
(* for ALL integers v (any size and sign): the constant written for a plain Python int — decimal inside
   [0, 2^31-1), otherwise max(32, bits_for v) binary digits marked `signed` iff v < 0 — read back as a
   two's-complement number of that width (when signed) is v *)
Theorem C07_const_int_roundtrip : forall v : Z, decode_param (fst (emit_int v)) (snd (emit_int v)) = Some v.
Proof. exact emit_int_decodes. Qed.
Print Assumptions C07_const_int_roundtrip.
Example C07_const_int_roundtrip_ex :
  emit_int (-2147483649) = (1, PBits (repeat 1 31 ++ [0; 1])) /\ emit_int (2 ^ 31 - 2) = (0, PInt 2147483646) /\
  emit_int (2 ^ 31 - 1) = (0, PBits (repeat 1 31 ++ [0])) /\ emit_int (-1) = (1, PBits (repeat 1 32)) /\
  emit_int (- 2 ^ 40 + 5) = (1, PBits ([1; 0; 1] ++ repeat 0 37 ++ [1])) /\
  forallb (fun v => optz_eqb (decode_param (fst (emit_int v)) (snd (emit_int v))) v)
          [0; -1; 1; 2^31-2; 2^31-1; 2^31; 2^32; -2^31; -2^31-1; -2^32; -2^32+1; -2^40+5; 2^64; -2^64; -2^64-1] = true.
Proof. vm_compute. repeat split; reflexivity. Qed.

(* hence two different integers are never written alike *)
Theorem C07_const_int_injective : forall a b : Z, emit_int a = emit_int b -> a = b.
Proof. exact emit_int_inj. Qed.
Print Assumptions C07_const_int_injective.

(* Const(v, shape) of every well-formed shape: exactly `width` digits, denoting the constant's value *)
Theorem C07_const_value_roundtrip : forall v w sg, Bits.wf_shape (Bits.Sh w sg) = true ->
  decode_param (fst (emit_xval (XConst v w sg))) (snd (emit_xval (XConst v w sg))) = Some (Bits.norm (Bits.Sh w sg) v) /\
  (forall bits, snd (emit_xval (XConst v w sg)) = PBits bits -> Z.of_nat (List.length bits) = w).
Proof. exact emit_const_decodes. Qed.
Print Assumptions C07_const_value_roundtrip.
Example C07_const_value_roundtrip_ex :
  emit_xval (XConst (-2) 3 true) = (1, PBits [0; 1; 1]) /\ emit_xval (XConst 0 0 false) = (0, PBits []).
Proof. vm_compute. split; reflexivity. Qed.

(* --- the clauses in plain vocabulary (consequences of WellFormed) --- *)
(* with unique names, the checker's lookup is "the wire of that name" *)
Theorem C07_lookup_is_declarative : forall ex d m, WfModule ex d m ->
  forall n w, find_wire (mod_wires m) n = Some w <-> (In w (mod_wires m) /\ w_name w = n).
Proof.
  intros ex d m W n w. split.
  - apply find_wire_In.
  - intros [Hin E]. subst. eapply wf_wire_lookup; eassumption.
Qed.
Print Assumptions C07_lookup_is_declarative.
Example C07_lookup_is_declarative_ex : WfModule ex_foreign (ex_doc false) (ex_top false).
Proof. apply wf_module_spec. vm_compute. reflexivity. Qed.

(* the driver count used by the single-driver clause is the standard multiset count *)
Theorem C07_count_is_count_occ :
  forall (dec : forall x y : sbit, {x = y} + {x <> y}) b l, count b l = count_occ dec l b.
Proof. exact count_count_occ. Qed.
Print Assumptions C07_count_is_count_occ.

(* --- naming: _ir._add_name / the loop of Design._assign_names (retry loop, after fix cb9d97a) --- *)
(* for every set and every name: the loop terminates (fuel |set|+1 is never exhausted), the returned name is not
   in the set and is what gets added *)
Theorem C07_add_name_fresh : forall A n, exists n', add_name A n = Some (n', n' :: A) /\ ~ In n' A.
Proof. exact add_name_fresh. Qed.
Print Assumptions C07_add_name_fresh.
Example C07_add_name_fresh_ex :
  add_name ["a"; "clk"] "a" = Some ("a$2", ["a$2"; "a"; "clk"]) /\
  add_name ["a$2"; "a"] "a" = Some ("a$3", ["a$3"; "a$2"; "a"]).
Proof. vm_compute. split; reflexivity. Qed.

(* a free name is kept as it is *)
Theorem C07_add_name_keeps : forall A n, ~ In n A -> add_name A n = Some (n, n :: A).
Proof. exact add_name_keeps. Qed.
Print Assumptions C07_add_name_keeps.

(* for ALL reserved sets and ALL name lists (names containing `$` included): every name gets assigned, the
   assigned names are pairwise distinct and distinct from the reserved ones *)
Theorem C07_assign_names_unique : forall ns A, NoDup A ->
  exists out fin, assign_names A ns = Some (out, fin) /\
  NoDup out /\ (forall x, In x out -> ~ In x A) /\ NoDup fin /\
  List.length out = List.length ns /\ (forall x, In x fin <-> In x out \/ In x A).
Proof. exact assign_names_unique. Qed.
Print Assumptions C07_assign_names_unique.
Example C07_assign_names_unique_ex :
  assign_names ["clk"] ["a"; "a"; "clk"; "a"] = Some (["a"; "a$2"; "clk$3"; "a$4"], ["a$4"; "clk$3"; "a$2"; "a"; "clk"]).
Proof. vm_compute. reflexivity. Qed.

(* the former S3 witness (a, a$2, a tripped an assertion): the retry loop now gives three distinct names; with a
   reserved port o it is a, a$3, a *)
Example C07_former_S3_witness :
  assign_names [] ["a"; "a$2"; "a"] = Some (["a"; "a$2"; "a$3"], ["a$3"; "a$2"; "a"]) /\
  assign_names ["o"] ["a"; "a$3"; "a"] = Some (["a"; "a$3"; "a$4"], ["a$4"; "a$3"; "a"; "o"]).
Proof. vm_compute. split; reflexivity. Qed.

(* --- translator unit "rtlil": definitions regenerated from the CURRENT text of amaranth/back/rtlil.py (and
       hdl/_ir.py _add_name) on every run (Gen/RtlilGen.v) are equal to the model on all inputs
       (Proofs/GenEqRtlil.v).  The source writes text, the model keeps the parsed form: Model/RtlilText.v gives the
       concrete syntax of the parsed form (print_const / print_param / print_attr / print_wire / print_memory). --- *)
From V.Model Require Import RtlilText.
From V.Proofs Require Import GenEqRtlil.
From V.Gen Require RtlilGen.

(* _const: for every str, every int (any size and sign) and every Const of a well-formed shape, the text written is
   the concrete syntax of the constant the model predicts (emit_xval: decimal / max(32, bits_for v) digits / width
   digits / the string); a float makes _const raise *)
Theorem C07_translated_const : forall fuel x, (2 <= fuel)%nat -> xval_wf x = true ->
  RtlilGen.const fuel (of_xval x) = match x with XReal _ => None | _ => Some (print_const (snd (emit_xval x))) end.
Proof. exact gen_const_eq. Qed.
Print Assumptions C07_translated_const.

(* _const(Undef(w)): w digits x *)
Theorem C07_translated_const_undef : forall fuel w, 0 < w ->
  RtlilGen.const (S fuel) (PyUndef w) = Some (print_const (PBits (repeat 2 (Z.to_nat w)))).
Proof. exact gen_const_undef. Qed.
Print Assumptions C07_translated_const_undef.

(* _signed: the `signed` flag of the model *)
Theorem C07_translated_signed : forall x,
  RtlilGen.signed (of_xval x) = match x with XReal _ => None | _ => Some (fst (emit_xval x) =? 1) end.
Proof. exact gen_signed_eq. Qed.
Print Assumptions C07_translated_signed.

(* value.translate(_escape_map): the five escapes of a quoted string *)
Theorem C07_translated_escape : forall s, py_translate RtlilGen.escape_map s = esc_string s.
Proof. exact gen_escape_eq. Qed.
Print Assumptions C07_translated_escape.

(* the attribute loop body of Module/Wire/Cell/Memory/Process.emit and the parameter loop body of Cell.emit *)
Theorem C07_translated_attr_line : forall fuel name x, (2 <= fuel)%nat -> xval_wf x = true ->
  RtlilGen.attr_line fuel name (of_xval x) =
  match x with XReal _ => None | _ => Some (print_attr (xattr_text (public name, x))) end.
Proof. exact gen_attr_line_eq. Qed.
Print Assumptions C07_translated_attr_line.

Theorem C07_translated_param_line : forall fuel name x, (2 <= fuel)%nat -> xval_wf x = true -> real_ok x ->
  RtlilGen.param_line fuel name (of_xval x) = Some (print_param (xparam_text (public name, x))).
Proof. exact gen_param_line_eq. Qed.
Print Assumptions C07_translated_param_line.

(* Wire.emit / Memory.emit after the attribute loop: the declaration line, an empty line, the port counter *)
Theorem C07_translated_wire_lines_plain : forall nm wd sg ats pid,
  RtlilGen.wire_lines wd sg None nm pid = Some ([print_wire (Wire nm wd None sg ats); ""], pid).
Proof. exact gen_wire_lines_plain. Qed.
Print Assumptions C07_translated_wire_lines_plain.

Theorem C07_translated_wire_lines_port : forall nm wd sg ats d pid,
  RtlilGen.wire_lines wd sg (Some (dir_text d)) nm pid =
  Some ([print_wire (Wire nm wd (Some (d, pid)) sg ats); ""], pid + 1).
Proof. exact gen_wire_lines_port. Qed.
Print Assumptions C07_translated_wire_lines_port.

Theorem C07_translated_memory_lines : forall nm wd sz ats,
  RtlilGen.memory_lines wd sz nm = Some [print_memory (Mem nm wd sz ats); ""].
Proof. exact gen_memory_lines_eq. Qed.
Print Assumptions C07_translated_memory_lines.

(* Module._auto_name: private names $1, $2, ... *)
Theorem C07_translated_auto_name : forall k, RtlilGen.auto_name k = Some (auto_name k).
Proof. exact gen_auto_name_eq. Qed.
Print Assumptions C07_translated_auto_name.

(* Module._name: public names get a backslash, None the next private name; an already used name is the bare
   AssertionError (None) *)
Theorem C07_translated_module_name : forall k contents name,
  RtlilGen.module_name k contents name = module_name k contents name.
Proof. exact gen_module_name_eq. Qed.
Print Assumptions C07_translated_module_name.

(* hdl/_ir.py _add_name: the retry loop and the function are the model's (C07_add_name_fresh & co. are about them) *)
Theorem C07_translated_add_name_index : forall fuel A n i,
  RtlilGen.add_name_index fuel A n i = find_index fuel A n i.
Proof. exact gen_add_name_index_eq. Qed.
Print Assumptions C07_translated_add_name_index.

Theorem C07_translated_add_name : forall A n, RtlilGen.add_name A n = add_name A n.
Proof. exact gen_add_name_eq. Qed.
Print Assumptions C07_translated_add_name.

(* non-vacuity: the regenerated functions run and write the expected text *)
Example C07_translated_example :
  RtlilGen.const 2 (PyInt 5) = Some "5" /\
  RtlilGen.const 2 (PyInt (-2)) = Some "32'11111111111111111111111111111110" /\
  RtlilGen.const 2 (PyInt (2 ^ 31 - 1)) = Some "32'01111111111111111111111111111111" /\
  RtlilGen.const 2 (PyConst (-3) 3 true) = Some "3'101" /\
  RtlilGen.const 2 (PyConst 0 0 false) = Some "0'0" /\
  RtlilGen.const 2 (PyUndef 4) = Some "4'xxxx" /\
  RtlilGen.const 2 (PyStr "a""b\c") = Some """a\""b\\c""" /\
  RtlilGen.const 1 (PyInt (-2)) = None /\
  RtlilGen.param_line 2 "W" (PyInt (-2)) = Some "parameter signed \W 32'11111111111111111111111111111110" /\
  RtlilGen.param_line 2 "R" (PyFloat "1.5") = Some "parameter real \R ""1.5""" /\
  RtlilGen.attr_line 2 "keep" (PyInt 1) = Some "attribute \keep 1" /\
  RtlilGen.wire_lines 8 true (Some "input") "\a" 3 = Some (["wire width 8 input 3  signed \a"; ""], 4) /\
  RtlilGen.wire_lines 8 false None "$1" 3 = Some (["wire width 8 $1"; ""], 3) /\
  RtlilGen.memory_lines 8 4 "\mem" = Some ["memory width 8 size 4 \mem"; ""] /\
  RtlilGen.auto_name 6 = Some (7, "$7") /\
  RtlilGen.module_name 6 ["\s.f"] None = Some (7, "$7") /\ RtlilGen.module_name 6 ["\s.f"] (Some "s.f") = None /\
  RtlilGen.add_name ["a$2"; "a"] "a" = Some ("a$3", ["a$3"; "a$2"; "a"]).
Proof. vm_compute. repeat split; reflexivity. Qed.

(* C12 — synchronous FIFOs refine a bounded queue for every strobe sequence.
   Only statements here; the model is Model/Fifo.v (sync_step / buf_step follow
   amaranth/lib/fifo.py SyncFIFO / SyncFIFOBuffered cycle by cycle), proofs are in Proofs/FifoP.v.

   Every theorem quantifies over ALL widths w, depths d >= 0 and input lists `ins` (one
   (w_en, w_data, r_en) per cycle, w_data an arbitrary integer, truncated to w bits by the port).
   `sync_reach w d ins` / `buf_reach w d ins` is the register + memory state after driving `ins`
   from reset, `snd (step s i)` the outputs seen in the next cycle (before its edge) and
   `fst (step s i)` the state after it.  `sync_abs` / `buf_abs` is the abstraction function: the
   entries held, oldest first.  A write is accepted iff `w_rdy && w_en`, a read iff `r_rdy && r_en`;
   `q_next w q wr wd rd` = (if rd then tl else id) (q ++ if wr then [wd mod 2^w] else []). *)
From Coq Require Import ZArith List Bool.
From V.Model Require Import Bits Fifo.
From V.Proofs Require Import FifoP.
Import ListNotations.
Open Scope Z_scope.

(* ================================================================== SyncFIFO *)

(* one-cycle refinement at every reachable state: handshake outputs, data, levels, capacity, next contents *)
Theorem C12_sync_fifo_refines_queue w d ins i : 0 <= d ->
  let c := sync_reach w d ins in
  let o := snd (sync_step w d c i) in
  let c' := fst (sync_step w d c i) in
  let q := sync_abs d c in
  (r_rdy o = true <-> q <> []) /\
  (r_rdy o = true -> exists t, q = r_data o :: t) /\
  (w_rdy o = true <-> qlen q < d) /\
  level o = qlen q /\ w_level o = qlen q /\ r_level o = qlen q /\
  qlen q <= d /\
  sync_abs d c' = q_next w q (w_rdy o && w_en i) (w_data i) (r_rdy o && r_en i).
Proof. exact (sync_refines_queue w d ins i). Qed.
Print Assumptions C12_sync_fifo_refines_queue.

(* the whole visible trace (r_data masked while r_rdy = 0) is the trace of the bounded-queue machine *)
Theorem C12_sync_fifo_trace_is_bounded_queue w d ins : 0 <= d ->
  map vis (sync_run w d ins) = q_run w d ins.
Proof. exact (sync_trace_eq w d ins). Qed.
Print Assumptions C12_sync_fifo_trace_is_bounded_queue.

(* order, no loss, no duplication: accepted entries = delivered entries ++ entries still held *)
Theorem C12_sync_fifo_order w d ins : 0 <= d ->
  accepted w ins (sync_run w d ins) =
  delivered ins (sync_run w d ins) ++ sync_abs d (sync_reach w d ins).
Proof. exact (sync_order w d ins). Qed.
Print Assumptions C12_sync_fifo_order.

(* liveness: one free slot suffices for w_rdy *)
Theorem C12_sync_fifo_w_rdy_live w d ins : 0 <= d ->
  let c := sync_reach w d ins in
  qlen (sync_abs d c) < d -> w_rdy (sync_out d c) = true.
Proof.
  intros Hd c H. destruct (sync_refines_queue w d ins (Inp false 0 false) Hd) as (_ & _ & Hw & _).
  rewrite sync_step_out in Hw. apply Hw. exact H.
Qed.
Print Assumptions C12_sync_fifo_w_rdy_live.

(* liveness: the oldest entry is readable in the very cycle in which it is the oldest *)
Theorem C12_sync_fifo_readable_now w d ins x t : 0 <= d ->
  let c := sync_reach w d ins in
  sync_abs d c = x :: t -> r_rdy (sync_out d c) = true /\ r_data (sync_out d c) = x.
Proof. exact (sync_readable_now w d ins x t). Qed.
Print Assumptions C12_sync_fifo_readable_now.

(* representation invariant, including the assertions fifo.py states for platform = "formal" *)
Theorem C12_sync_fifo_invariant w d ins : 1 <= d ->
  let c := sync_reach w d ins in
  Z.of_nat (length (rows c)) = d /\ 0 <= lvl c <= d /\
  produce c = (consume c + lvl c) mod d /\
  0 <= produce c < d /\ 0 <= consume c < d /\
  (produce c = consume c -> lvl c = 0 \/ lvl c = d) /\
  (produce c > consume c -> lvl c = produce c - consume c) /\
  (produce c < consume c -> lvl c = d + produce c - consume c).
Proof. exact (sync_formal_asserts w d ins). Qed.
Print Assumptions C12_sync_fifo_invariant.

(* non-vacuity: width 8, depth 3; three writes fill it (300 is truncated to 44), the write of 11 on the full
   queue is refused while 5 is read, then read+write together, then reads drain it in order across the
   wrap-around of the pointers *)
Definition ex_ins : list inp :=
  [Inp true 5 false; Inp true 7 false; Inp true 300 false; Inp true 11 true; Inp true 13 true;
   Inp false 0 true; Inp false 0 true].
Example C12_sync_example :
  (sync_abs 3 (sync_reach 8 3 (firstn 3 ex_ins)), qlen (sync_abs 3 (sync_reach 8 3 (firstn 2 ex_ins))) <? 3,
   sync_abs 3 (sync_reach 8 3 ex_ins), consume (sync_reach 8 3 ex_ins),
   delivered ex_ins (sync_run 8 3 ex_ins), accepted 8 ex_ins (sync_run 8 3 ex_ins))
  = ([5; 7; 44], true, [], 1, [5; 7; 44; 13], [5; 7; 44; 13]).
Proof. vm_compute. reflexivity. Qed.

(* ================================================================== SyncFIFOBuffered *)

(* one-cycle refinement at every reachable state.  r_rdy implies an entry is held and r_data is the oldest;
   w_rdy is never asserted on a full queue and is asserted whenever two slots are free (exactly: iff the inner
   block, i.e. everything but the output register, has a free row); levels are exact *)
Theorem C12_buffered_fifo_refines_queue w d ins i : 0 <= d ->
  let s := buf_reach w d ins in
  let o := snd (buf_step w d s i) in
  let s' := fst (buf_step w d s i) in
  let q := buf_abs d s in
  (r_rdy o = true -> exists t, q = r_data o :: t) /\
  buf_abs d s' = q_next w q (w_rdy o && w_en i) (w_data i) (r_rdy o && r_en i) /\
  (w_rdy o = true -> qlen q < d) /\
  (qlen q + 2 <= d -> w_rdy o = true) /\
  (2 <= d -> (w_rdy o = true <-> qlen q - b2z (r_rdy o) < d - 1)) /\
  (d = 1 -> (w_rdy o = true <-> qlen q = 0)) /\
  level o = qlen q /\ w_level o = qlen q /\ r_level o = qlen q /\
  qlen q <= d.
Proof. exact (buf_refines_queue w d ins i). Qed.
Print Assumptions C12_buffered_fifo_refines_queue.

Theorem C12_buffered_fifo_order w d ins : 0 <= d ->
  accepted w ins (buf_run w d ins) =
  delivered ins (buf_run w d ins) ++ buf_abs d (buf_reach w d ins).
Proof. exact (buf_order w d ins). Qed.
Print Assumptions C12_buffered_fifo_order.

(* liveness: two free slots suffice for w_rdy *)
Theorem C12_buffered_w_rdy_live w d ins : 0 <= d ->
  let s := buf_reach w d ins in
  qlen (buf_abs d s) + 2 <= d -> w_rdy (buf_out d s) = true.
Proof.
  intros Hd s H. destruct (buf_refines_queue w d ins (Inp false 0 false) Hd) as (_ & _ & _ & Hw & _).
  rewrite buf_step_out in Hw. apply Hw. exact H.
Qed.
Print Assumptions C12_buffered_w_rdy_live.

(* liveness: the oldest entry is on the output in the cycle in which it is the oldest or, whatever the
   inputs of that cycle, in the next one — i.e. at most two cycles after the strobe that made it the oldest *)
Theorem C12_buffered_readable_within_two w d ins i x t : 0 <= d ->
  let s := buf_reach w d ins in
  buf_abs d s = x :: t ->
  (r_rdy (buf_out d s) = true /\ r_data (buf_out d s) = x) \/
  (r_rdy (buf_out d (fst (buf_step w d s i))) = true /\
   r_data (buf_out d (fst (buf_step w d s i))) = x).
Proof. exact (buf_readable_within_two w d ins i x t). Qed.
Print Assumptions C12_buffered_readable_within_two.

(* ... spelled out for an entry accepted while nothing is held (cycle t): it is the output at t+1 or t+2 *)
Theorem C12_buffered_fresh_entry_readable w d ins i1 i2 i3 : 0 <= d ->
  let s0 := buf_reach w d ins in
  let s1 := fst (buf_step w d s0 i1) in
  let s2 := fst (buf_step w d s1 i2) in
  buf_abs d s0 = [] -> w_rdy (buf_out d s0) && w_en i1 = true ->
  let x := mask w (w_data i1) in
  (r_rdy (snd (buf_step w d s1 i2)) = true /\ r_data (snd (buf_step w d s1 i2)) = x) \/
  (r_rdy (snd (buf_step w d s2 i3)) = true /\ r_data (snd (buf_step w d s2 i3)) = x).
Proof. exact (buf_fresh_entry_readable w d ins i1 i2 i3). Qed.
Print Assumptions C12_buffered_fresh_entry_readable.

Theorem C12_buffered_fifo_invariant w d ins : 2 <= d ->
  let c := inner (buf_reach w d ins) in
  Z.of_nat (length (rows c)) = d - 1 /\ 0 <= lvl c <= d - 1 /\
  produce c = (consume c + lvl c) mod (d - 1) /\
  0 <= produce c < d - 1 /\ 0 <= consume c < d - 1 /\
  (produce c = consume c -> lvl c = 0 \/ lvl c = d - 1) /\
  (produce c > consume c -> lvl c = produce c - consume c) /\
  (produce c < consume c -> lvl c = d - 1 + produce c - consume c).
Proof. exact (buf_formal_asserts w d ins). Qed.
Print Assumptions C12_buffered_fifo_invariant.

(* non-vacuity (width 8, depth 4, same stimulus): contents, order across the wrap-around of the 3-row inner
   memory, and the hypotheses of the liveness theorems:
   - after one write the entry is held but not yet on the output (r_rdy = 0), it is one cycle later;
   - with 2 entries held (2 free slots) w_rdy = 1 *)
Example C12_buffered_example :
  (buf_abs 4 (buf_reach 8 4 (firstn 3 ex_ins)), buf_abs 4 (buf_reach 8 4 ex_ins),
   delivered ex_ins (buf_run 8 4 ex_ins), accepted 8 ex_ins (buf_run 8 4 ex_ins),
   buf_abs 4 (buf_reach 8 4 (firstn 1 ex_ins)), r_rdy (buf_out 4 (buf_reach 8 4 (firstn 1 ex_ins))),
   r_rdy (buf_out 4 (buf_reach 8 4 (firstn 2 ex_ins))), r_data (buf_out 4 (buf_reach 8 4 (firstn 2 ex_ins))),
   qlen (buf_abs 4 (buf_reach 8 4 (firstn 2 ex_ins))) + 2 <=? 4, w_rdy (buf_out 4 (buf_reach 8 4 (firstn 2 ex_ins))))
  = ([5; 7; 44], [13], [5; 7; 44; 11], [5; 7; 44; 11; 13],
     [5], false, true, 5, true, true).
Proof. vm_compute. reflexivity. Qed.

(* hypotheses of C12_buffered_fresh_entry_readable hold at reset *)
Example C12_buffered_fresh_example :
  (buf_abs 4 (buf_reach 8 4 []), w_rdy (buf_out 4 (buf_reach 8 4 [])) && w_en (Inp true 5 false)) = ([], true).
Proof. vm_compute. reflexivity. Qed.

(* the "two free slots" of the buffered liveness clause cannot be improved to one: depth 2, one entry held
   (in the inner memory, not yet in the output register), one slot free, w_rdy = 0 *)
Example C12_buffered_two_slots_tight :
  let s := buf_reach 8 2 [Inp true 5 false] in
  (buf_abs 2 s, w_rdy (buf_out 2 s)) = ([5], false).
Proof. vm_compute. reflexivity. Qed.

(* ================================================================== runs with synchronous resets
   (audit follow-up: the domain's reset asserted in arbitrary cycles).  `sync_reach_r` / `buf_reach_r` drive a
   list of (inputs, rst); a reset at the edge of a cycle empties the queue, every other clause is unchanged. *)
Theorem C12_sync_fifo_refines_queue_with_reset w d ins i r : 0 <= d ->
  let c := sync_reach_r w d ins in
  let o := snd (sync_step_r w d c (i, r)) in
  let c' := fst (sync_step_r w d c (i, r)) in
  let q := sync_abs d c in
  (r_rdy o = true <-> q <> []) /\
  (r_rdy o = true -> exists t, q = r_data o :: t) /\
  (w_rdy o = true <-> qlen q < d) /\
  level o = qlen q /\ w_level o = qlen q /\ r_level o = qlen q /\
  qlen q <= d /\
  sync_abs d c' = if r then [] else q_next w q (w_rdy o && w_en i) (w_data i) (r_rdy o && r_en i).
Proof. exact (sync_refines_queue_r w d ins i r). Qed.
Print Assumptions C12_sync_fifo_refines_queue_with_reset.

Theorem C12_buffered_fifo_refines_queue_with_reset w d ins i r : 0 <= d ->
  let s := buf_reach_r w d ins in
  let o := snd (buf_step_r w d s (i, r)) in
  let s' := fst (buf_step_r w d s (i, r)) in
  let q := buf_abs d s in
  (r_rdy o = true -> exists t, q = r_data o :: t) /\
  (w_rdy o = true -> qlen q < d) /\
  (qlen q + 2 <= d -> w_rdy o = true) /\
  level o = qlen q /\ w_level o = qlen q /\ r_level o = qlen q /\
  qlen q <= d /\
  buf_abs d s' = if r then [] else q_next w q (w_rdy o && w_en i) (w_data i) (r_rdy o && r_en i).
Proof. exact (buf_refines_queue_r w d ins i r). Qed.
Print Assumptions C12_buffered_fifo_refines_queue_with_reset.

Theorem C12_buffered_readable_within_two_with_reset w d ins i x t : 0 <= d ->
  let s := buf_reach_r w d ins in
  buf_abs d s = x :: t ->
  (r_rdy (buf_out d s) = true /\ r_data (buf_out d s) = x) \/
  (r_rdy (buf_out d (fst (buf_step w d s i))) = true /\
   r_data (buf_out d (fst (buf_step w d s i))) = x).
Proof. exact (buf_readable_within_two_r w d ins i x t). Qed.
Print Assumptions C12_buffered_readable_within_two_with_reset.

(* non-vacuity: two writes, a reset in the cycle of a third (accepted) write, then a write: the queue holds only
   the entry written after the reset; the third write landed in the memory (row 2) but is not an entry *)
Example C12_reset_example :
  let ins := [(Inp true 5 false, false); (Inp true 7 false, false); (Inp true 9 false, true);
              (Inp true 11 false, false)] in
  (sync_abs 3 (sync_reach_r 8 3 (firstn 2 ins)), sync_abs 3 (sync_reach_r 8 3 (firstn 3 ins)),
   sync_abs 3 (sync_reach_r 8 3 ins), rows (sync_reach_r 8 3 ins),
   buf_abs 4 (buf_reach_r 8 4 (firstn 2 ins)), buf_abs 4 (buf_reach_r 8 4 ins))
  = ([5; 7], [], [11], [11; 7; 9], [5; 7], [11]).
Proof. vm_compute. reflexivity. Qed.

(* ================================================================== regenerated from the source (translator unit `fifo`)
   Gen/FifoGen.v is produced on every run by translator/unit_fifo.py from the current text of
   amaranth/lib/fifo.py (symbolic execution of SyncFIFO.elaborate / SyncFIFOBuffered.elaborate, _incr and
   the constructors); the step functions every theorem above talks about are these, for all w, d, states, inputs. *)
From V.Gen Require FifoGen.
From V.Proofs Require GenEqFifo.

Theorem C12_translated_sync_step w d c i : FifoGen.g_sync_step w d c i = sync_step w d c i.
Proof. exact (GenEqFifo.gen_sync_step_eq w d c i). Qed.
Print Assumptions C12_translated_sync_step.

Theorem C12_translated_buf_step w d s i : FifoGen.g_buf_step w d s i = buf_step w d s i.
Proof. exact (GenEqFifo.gen_buf_step_eq w d s i). Qed.
Print Assumptions C12_translated_buf_step.

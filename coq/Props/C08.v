(* C08 — simulation results do not depend on process scheduling order; exact integer-femtosecond timeline.
   Only statements here; the model is Model/Engine.v, the proofs are in Proofs/EngineP.v. *)
From Coq Require Import ZArith List Bool Permutation.
From V.Model Require Import Bits Shape Ast Denote PyRTL PyEval Stmt Process Engine.
From V.Proofs Require Import ProcessP EngineP.
Import ListNotations.
Open Scope Z_scope.

(* ---------------------------------------------------------------- order independence *)
(* one delta cycle of step_design: any iteration order of _active_triggers, _processes and pending gives the same state
   (all slots, all process / testbench states, converged flag) when no two processes write a common signal bit *)
Theorem C08_delta_order_independent ps o o' st :
  write_disjoint ps -> orders_equiv o o' -> run_delta ps o st = run_delta ps o' st.
Proof. intros WD E. exact (run_delta_order_independent ps WD o o' st E). Qed.
Print Assumptions C08_delta_order_independent.

Theorem C08_processes_order_independent ps own o o' st :
  disc ps own -> Permutation o o' -> fold_left (run_proc ps) o st = fold_left (run_proc ps) o' st.
Proof. intros D P. exact (procs_order_independent ps own D o o' st P). Qed.
Print Assumptions C08_processes_order_independent.

(* the commit phase needs no hypothesis at all *)
Theorem C08_commit_order_independent ps o o' x :
  Permutation o o' -> fold_left (commit_slot ps) o x = fold_left (commit_slot ps) o' x.
Proof. exact (commit_order_independent ps o o' x). Qed.
Print Assumptions C08_commit_order_independent.

Theorem C08_trigger_order_independent o o' st :
  Permutation o o' -> fold_left trig_step o st = fold_left trig_step o' st.
Proof. exact (trigger_order_independent o o' st). Qed.
Print Assumptions C08_trigger_order_independent.

(* step_design (all deltas until convergence), for any per-delta choice of the three orders *)
Theorem C08_settle_deterministic ps orc orc' fuel st :
  write_disjoint ps -> oracle_equiv orc orc' -> settle ps orc fuel st = settle ps orc' fuel st.
Proof. intros WD E. exact (settle_order_independent ps WD orc orc' E fuel st). Qed.
Print Assumptions C08_settle_deterministic.

(* whole runs: testbench trace, final signal values, process states and time, for any per-delta choice of orders *)
Theorem C08_run_order_independent ps orc orc' sfuel tfuel t_end fuel st :
  write_disjoint ps -> oracle_equiv orc orc' ->
  run ps orc sfuel tfuel t_end fuel st = run ps orc' sfuel tfuel t_end fuel st.
Proof. intros WD E. exact (run_order_independent ps WD orc orc' E sfuel tfuel t_end fuel st). Qed.
Print Assumptions C08_run_order_independent.

(* the hypotheses are satisfiable by a non-trivial instance: a clock, a combinational and a synchronous replacement process *)
Example C08_write_disjoint_example : write_disjoint ex_ps.
Proof. exact ex_write_disjoint. Qed.
Print Assumptions C08_write_disjoint_example.

Example C08_orders_equiv_example :
  orders_equiv (full_orders 3 2 4) (Ord (rev (o_trig (full_orders 3 2 4))) [2%nat; 0%nat; 1%nat] (rev (seq 0 4))).
Proof.
  repeat split; simpl.
  - apply Permutation_rev.
  - apply Permutation_sym. apply (Permutation_cons_app [0%nat; 1%nat] [] 2%nat). apply Permutation_refl.
  - apply (Permutation_rev [0%nat; 1%nat; 2%nat; 3%nat]).
Qed.
Print Assumptions C08_orders_equiv_example.

(* without write_disjoint the statement is false: two writers of one slot in one delta (the shape of the known
   cross-domain memory write collision S1) *)
Theorem C08_write_collision_refuted :
  exists ps o o' st, Permutation o o' /\ fold_left (run_proc ps) o st <> fold_left (run_proc ps) o' st.
Proof.
  exists bad_ps, [0%nat; 1%nat], [1%nat; 0%nat], bad_st. exact write_collision_order_dependent.
Qed.
Print Assumptions C08_write_collision_refuted.

(* ---------------------------------------------------------------- settling, sampling *)
(* a testbench's set() = write + step_design(); when it converges no process is runnable and pending is empty *)
Theorem C08_set_returns_settled ps orc sfuel sig sh v st st' :
  settle ps orc sfuel (tb_write sig sh v st) = (st', true) ->
  covers_oracle orc (length (e_procs st)) ->
  tb_set ps orc sfuel sig sh v st = st' /\
  (forall k, ps_run (nth k (e_procs st') no_pstate) = false) /\
  (forall s, In s (e_slots st') -> sp s = false).
Proof. exact (set_returns_settled ps orc sfuel sig sh v st st'). Qed.
Print Assumptions C08_set_returns_settled.

Definition ex_set_ps : list proc :=
  [P (fun i _ _ => Nat.eqb i 0) [] (fun l _ cu _ => PR l [W 1 (nth 0 cu 0 + 1) 31] None)].
Definition ex_set_st : estate := init_state [3; 0] [rtl_pstate true] [[]].

Example C08_set_returns_settled_example :
  snd (settle ex_set_ps (id_oracle 1 1 2) 10 (tb_write 0 (Sh 4 false) 9 ex_set_st)) = true /\
  currs (e_slots (tb_set ex_set_ps (id_oracle 1 1 2) 10 0 (Sh 4 false) 9 ex_set_st)) = [9; 10] /\
  covers_oracle (id_oracle 1 1 2) 1.
Proof.
  split; [vm_compute; reflexivity|]. split; [vm_compute; reflexivity|].
  intros n k H. simpl. destruct k; [auto|]. exfalso. apply (Nat.nlt_0_r k). apply (proj2 (Nat.succ_lt_mono k 0) H).
Qed.
Print Assumptions C08_set_returns_settled_example.

(* values sampled by a tick are read before the logic woken by the same edge has run and committed *)
Theorem C08_tick_samples_pre_edge ps o st k T :
  (k < length (e_tbs st))%nat -> In (OTb k) (o_trig o) ->
  tb_trig (nth k (e_tbs st) no_tb) = T -> t_active T = true ->
  tb_res (nth k (e_tbs (fst (run_delta ps o st))) no_tb) = compute_result (currs (e_slots st)) T.
Proof. exact (tick_samples_pre_edge ps o st k T). Qed.
Print Assumptions C08_tick_samples_pre_edge.

(* a counter register (slot 1) clocked by slot 0 whose edge has just been committed, a testbench waiting in tick().sample(reg):
   the delta that runs the register's process delivers the OLD register value 7 although the register becomes 8 *)
Definition ex_tick_ps : list proc :=
  [P (fun i _ n => Nat.eqb i 0 && (n =? 1)) [] (fun l _ cu nx => PR l [W 1 (nth 1 cu 0 + 1) 15] None)].
Definition ex_tick_trig : tstate :=
  TS [TP (TEdge 0 0 true) true true None; TP (TConst 0) true false None; TP (TConst 0) true false None;
      TP (TSample 1) true false None] true true false true.
Definition ex_tick_st : estate :=
  ES [Slot 1 1 false; Slot 7 7 false] [PS true [] None t_none [] false]
     [TB false [OAwait [] true] ex_tick_trig [] 1 0 true] 0 0 [].

Example C08_tick_samples_pre_edge_example :
  tb_res (nth 0 (e_tbs (fst (run_delta ex_tick_ps (full_orders 1 1 2) ex_tick_st))) no_tb) = [1; 0; 0; 7] /\
  currs (e_slots (fst (run_delta ex_tick_ps (full_orders 1 1 2) ex_tick_st))) = [1; 8].
Proof. split; vm_compute; reflexivity. Qed.
Print Assumptions C08_tick_samples_pre_edge_example.

(* testbenches are resumed by advance() only after step_design has converged: the registers of the edge have updated *)
Theorem C08_tick_resumes_post_update ps orc sfuel tfuel st st1 :
  settle ps orc sfuel st = (st1, true) -> covers_oracle orc (length (e_procs st)) ->
  fst (advance ps orc sfuel tfuel st) = tl_advance (tb_loop ps orc sfuel tfuel st1) /\
  (forall k, ps_run (nth k (e_procs st1) no_pstate) = false) /\
  (forall s, In s (e_slots st1) -> sp s = false).
Proof. exact (tick_resumes_post_update ps orc sfuel tfuel st st1). Qed.
Print Assumptions C08_tick_resumes_post_update.

(* ---------------------------------------------------------------- exact integer-femtosecond timeline *)
(* toggle k (k = 0, 1, ...) of an added clock happens at exactly phase + k * (period // 2) fs *)
Theorem C08_clock_edges_exact slot phase period k :
  clk_sys slot phase period (S k) = ([0], phase + Z.of_nat k * (period / 2)).
Proof. exact (clock_edges_exact slot phase period k). Qed.
Print Assumptions C08_clock_edges_exact.

Theorem C08_clock_toggle_writes slot phase period k cu :
  r_writes (clock_run slot phase period (fst (clk_sys slot phase period (S k))) cu) =
  [W slot (b2z (nth slot cu 0 =? 0)) (-1)].
Proof. exact (clock_toggle_writes slot phase period k cu). Qed.
Print Assumptions C08_clock_toggle_writes.

(* odd periods: "every half period" is period // 2, so a full cycle lasts period - 1 fs (1 fs drift per cycle) *)
Theorem C08_clock_full_cycle slot phase period k :
  0 < period ->
  snd (clk_sys slot phase period (S (S (S k)))) - snd (clk_sys slot phase period (S k)) = period - period mod 2.
Proof. exact (clock_full_cycle slot phase period k). Qed.
Print Assumptions C08_clock_full_cycle.

Example C08_clock_odd_period_example :
  snd (clk_sys 0 4 7 3) - snd (clk_sys 0 4 7 1) = 6 /\ default_phase 7 = 4 /\ 7 / 2 = 3.
Proof. repeat split; reflexivity. Qed.
Print Assumptions C08_clock_odd_period_example.

(* a 1 fs clock never lets time advance: every toggle happens at `phase` *)
Theorem C08_clock_half_period_zero slot phase k : snd (clk_sys slot phase 1 (S k)) = phase.
Proof. exact (clock_half_period_zero slot phase k). Qed.
Print Assumptions C08_clock_half_period_zero.

(* the same arithmetic inside the engine: a runnable clock process arms its waker at exactly now + (phase | period // 2) ... *)
Theorem C08_clock_step_engine ps st k slot phase period :
  (k < length (e_procs st))%nat ->
  nth k ps no_proc = clock_proc slot phase period ->
  ps_run (nth k (e_procs st) no_pstate) = true ->
  let p := nth k (e_procs st) no_pstate in
  let r := clock_run slot phase period (ps_local p) (currs (e_slots st)) in
  let st' := run_proc ps st k in
  e_slots st' = apply_writes (r_writes r) (e_slots st) /\
  ps_run (nth k (e_procs st') no_pstate) = false /\
  ps_local (nth k (e_procs st') no_pstate) = [0] /\
  ps_timer (nth k (e_procs st') no_pstate) =
    Some (e_now st + (if hd 1 (ps_local p) =? 0 then period / 2 else phase)) /\
  e_now st' = e_now st.
Proof. exact (clock_step_engine ps st k slot phase period). Qed.
Print Assumptions C08_clock_step_engine.

(* ... and the timeline wakes it exactly when `now` equals that deadline and can never pass it *)
Theorem C08_clock_wake_exact st k d :
  (k < length (e_procs st))%nat -> ps_timer (nth k (e_procs st) no_pstate) = Some d ->
  e_now (tl_advance st) <= d /\
  (e_now (tl_advance st) = d -> ps_run (nth k (e_procs (tl_advance st)) no_pstate) = true) /\
  (e_now (tl_advance st) <> d ->
     ps_run (nth k (e_procs (tl_advance st)) no_pstate) = ps_run (nth k (e_procs st) no_pstate) /\
     ps_timer (nth k (e_procs (tl_advance st)) no_pstate) = Some d).
Proof. exact (clock_wake_exact st k d). Qed.
Print Assumptions C08_clock_wake_exact.

Definition ex_clk_st : estate :=
  ES [Slot 0 0 false] [PS false [0] (Some 15) t_none [] false; PS false [0] (Some 12) t_none [] false] [] 10 0 [].
Example C08_clock_wake_example :
  e_now (tl_advance ex_clk_st) = 12 /\ map ps_run (e_procs (tl_advance ex_clk_st)) = [false; true] /\
  e_now (tl_advance (tl_advance ex_clk_st)) = 15.
Proof. repeat split; vm_compute; reflexivity. Qed.
Print Assumptions C08_clock_wake_example.

(* add_clock without phase: round-half-even of period / 2 (differs from period // 2 for odd periods with odd quotient) *)
Theorem C08_default_phase period :
  (Z.even period = true -> default_phase period = period / 2) /\
  (Z.even period = false -> default_phase period = period / 2 + (period / 2) mod 2).
Proof.
  split; [apply default_phase_even|]. intros H. exact (proj1 (default_phase_odd period H)).
Qed.
Print Assumptions C08_default_phase.

(* the timeline moves to the nearest deadline: never past an armed deadline, never backwards *)
Theorem C08_timeline_no_overshoot st d : In d (deadlines st) -> e_now (tl_advance st) <= d.
Proof. exact (timeline_no_overshoot st d). Qed.
Print Assumptions C08_timeline_no_overshoot.

Theorem C08_timeline_monotone st :
  (forall d, In d (deadlines st) -> e_now st <= d) -> e_now st <= e_now (tl_advance st).
Proof. exact (timeline_monotone st). Qed.
Print Assumptions C08_timeline_monotone.

(* delays: awaiting delay(d) at time `now` arms exactly now + d; the waiting testbench is hit exactly when `now` reaches it *)
Theorem C08_delay_armed spec os now d :
  In (TDelay d) spec -> In (TP (TDelay d) true false (Some (now + d))) (t_pos (fresh_trig spec os now)).
Proof. exact (delay_armed spec os now d). Qed.
Print Assumptions C08_delay_armed.

Theorem C08_delay_exact st k p t d :
  (k < length (e_tbs st))%nat ->
  In p (t_pos (tb_trig (nth k (e_tbs st) no_tb))) -> tp_dl p = Some (t + d) ->
  e_now (tl_advance st) <= t + d /\
  (pos_due (e_now (tl_advance st)) p = true <-> e_now (tl_advance st) = t + d).
Proof. exact (delay_exact st k p t d). Qed.
Print Assumptions C08_delay_exact.

Theorem C08_delay_fires_exactly D T :
  t_broken T = false -> t_waiting T = true -> existsb (pos_due D) (t_pos T) = true ->
  t_active (tl_fire D T) = true /\
  t_pos (tl_fire D T) = map (fun p => if pos_due D p then TP (tp_trig p) (tp_reg p) true None else p) (t_pos T).
Proof. exact (tl_fire_exact D T). Qed.
Print Assumptions C08_delay_fires_exactly.

Definition ex_delay_st : estate :=
  ES [] [] [TB false [OAwait [TDelay 7] false] (fresh_trig [TDelay 7] true 100) [] 1 0 true] 100 0 [].
Example C08_delay_example :
  e_now (tl_advance ex_delay_st) = 107 /\
  map (fun t => t_active (tb_trig t)) (e_tbs (tl_advance ex_delay_st)) = [true].
Proof. split; vm_compute; reflexivity. Qed.
Print Assumptions C08_delay_example.

(* ---------------------------------------------------------------- write_disjoint for every compiled process system *)
(* the general sufficient condition: members mask-local for pairwise-disjoint mask tables *)
Theorem C08_disjoint_masks_write_disjoint ps pms :
  Forall2 mask_local ps pms -> masks_disjoint pms -> write_disjoint ps.
Proof. exact (disjoint_masks_write_disjoint ps pms). Qed.
Print Assumptions C08_disjoint_masks_write_disjoint.

(* compiled RTL processes over ARBITRARY statement lists (nested If/Switch, slices, concatenations, part selects, array
   targets) are mask-local for their LHSMaskCollector masks; comb processes do not read `next` at all *)
Theorem C08_rtl_processes_mask_local ss tab n l inputs clk pol rst arst :
  ProcessP.design_ok ss tab -> Forall (stmt_lhs_ok ss) l ->
  mask_local (rtl_comb tab n l inputs) (pmask tab l) /\ mask_local (rtl_sync tab n l clk pol rst arst) (pmask tab l).
Proof.
  intros Hd Hl. split; [apply (rtl_comb_mask_local ss tab Hd)|apply (rtl_sync_mask_local ss tab Hd)]; auto.
Qed.
Print Assumptions C08_rtl_processes_mask_local.

(* every process system the simulator builds (compiled fragments, added clocks, the two documented user-process patterns):
   "each signal bit is driven by at most one process" is all that is needed *)
Theorem C08_compiled_write_disjoint ss tab n ds :
  ProcessP.design_ok ss tab -> Forall (cdesc_ok ss) ds -> masks_disjoint (map (cmask tab) ds) ->
  write_disjoint (map (cproc tab n) ds).
Proof. exact (compiled_write_disjoint ss tab n ds). Qed.
Print Assumptions C08_compiled_write_disjoint.

(* run_order_independent restated with that hypothesis only *)
Theorem C08_run_order_independent_compiled ss tab n ds orc orc' sfuel tfuel t_end fuel st :
  ProcessP.design_ok ss tab -> Forall (cdesc_ok ss) ds -> masks_disjoint (map (cmask tab) ds) -> oracle_equiv orc orc' ->
  run (map (cproc tab n) ds) orc sfuel tfuel t_end fuel st = run (map (cproc tab n) ds) orc' sfuel tfuel t_end fuel st.
Proof. exact (run_order_independent_compiled ss tab n ds orc orc' sfuel tfuel t_end fuel st). Qed.
Print Assumptions C08_run_order_independent_compiled.

(* non-vacuity: 3 compiled processes, 2 clock domains, a signed register split between the domains *)
Example C08_compiled_example :
  ProcessP.design_ok ex3_ss ex3_tab /\ Forall (cdesc_ok ex3_ss) ex3_ds /\ masks_disjoint (map (cmask ex3_tab) ex3_ds) /\
  map (fun d => cmask ex3_tab d 3%nat) ex3_ds = [0; 15; -16].
Proof.
  split; [exact ex3_design_ok|]. split; [exact ex3_ok|]. split; [exact ex3_disjoint|]. vm_compute. reflexivity.
Qed.
Print Assumptions C08_compiled_example.

(* ---------------------------------------------------------------- clocks in the composed system *)
(* one time step: clock k (any index; the other processes -- further clocks of any period and phase, compiled RTL,
   user processes -- and the testbenches are arbitrary) either stays in run-count j or makes exactly run j+1;
   clk_due j says: runnable, and now = the time of run j of the isolated clock; clk_sleep j: waker armed at exactly the
   time of run j+1, not yet passed *)
Theorem C08_clock_advance_step ps k slot phase period orc j sfuel tfuel st :
  nth k ps no_proc = clock_proc slot phase period -> 0 <= phase -> 0 <= period ->
  (forall n, In k (o_proc (orc n))) -> (0 < sfuel)%nat ->
  clk_inv k slot phase period j st ->
  clk_inv k slot phase period j (fst (advance ps orc sfuel tfuel st)) \/
  clk_inv k slot phase period (S j) (fst (advance ps orc sfuel tfuel st)).
Proof. intros H1 H2 H3 H4 H5. exact (advance_clock ps k slot phase period H1 H2 H3 orc H4 j sfuel tfuel st H5). Qed.
Print Assumptions C08_clock_advance_step.

(* whole runs from the initial state: whatever else is simulated, after any number of time steps clock k has made j' runs,
   run 0 at time 0 and run i+1 (toggle i) at exactly phase + i * (period // 2) *)
Theorem C08_clock_edges_exact_composed ps k slot phase period orc sfuel tfuel t_end fuel inits pst tbs :
  nth k ps no_proc = clock_proc slot phase period -> 0 <= phase -> 0 <= period ->
  (forall n, In k (o_proc (orc n))) -> (0 < sfuel)%nat ->
  (k < length pst)%nat -> nth k pst no_pstate = clock_pstate ->
  (exists j', clk_inv k slot phase period j' (run ps orc sfuel tfuel t_end fuel (init_state inits pst tbs))) /\
  (forall i, snd (clk_sys slot phase period (S i)) = phase + Z.of_nat i * (period / 2)).
Proof.
  intros H1 H2 H3 H4 H5 H6 H7. split.
  - destruct (run_clock ps k slot phase period H1 H2 H3 orc H4 sfuel tfuel t_end fuel 0
                (init_state inits pst tbs) H5 (or_introl (clk_due_init k slot phase period inits pst tbs H6 H7)))
      as (j' & _ & H). exists j'. exact H.
  - intros i. exact (proj2 (clk_time_closed_form slot phase period i)).
Qed.
Print Assumptions C08_clock_edges_exact_composed.

(* two clocks (periods 7 and 10, phases 4 and 0) and a compiled register: the hypotheses hold for both clocks *)
Definition ex_cc_ps : list proc :=
  [clock_proc 0 4 7; clock_proc 1 0 10; cproc ex3_tab 5 (nth 1 ex3_ds (CClock 0 0 0))].
Example C08_clock_composed_example :
  nth 0 ex_cc_ps no_proc = clock_proc 0 4 7 /\ nth 1 ex_cc_ps no_proc = clock_proc 1 0 10 /\
  (forall n, In 0%nat (o_proc (id_oracle 3 1 5 n)) /\ In 1%nat (o_proc (id_oracle 3 1 5 n))) /\
  (let st := run ex_cc_ps (id_oracle 3 1 5) 20 5 100 6
                (init_state [0; 0; 3; -3; 0] [clock_pstate; clock_pstate; rtl_pstate false] [[OAwait [TDelay 30] false]]) in
   (e_now st, map ps_run (e_procs st), map ps_timer (e_procs st)))
    = (13, [true; false; false], [None; Some 15; None]).   (* clock 0 due at 4 + 3*3, clock 1 asleep until 0 + 3*5 *)
Proof.
  split; [reflexivity|]. split; [reflexivity|]. split; [intros n; simpl; auto|]. vm_compute. reflexivity.
Qed.
Print Assumptions C08_clock_composed_example.

(* ---------------------------------------------------------------- testbenches run in insertion order *)
(* for ANY list of testbench scripts: one pass of advance() over the testbench list extends the trace by one segment per
   testbench, in insertion order (seq 0 n), the segment of testbench k holding only records made by testbench k *)
Theorem C08_testbench_order_is_insertion_order ps orc sfuel st ran :
  exists segs,
    e_trace (fst (tb_pass ps orc sfuel (seq 0 (length (e_tbs st))) (st, ran))) = e_trace st ++ concat segs /\
    Forall2 (fun k seg => Forall (fun r => fst r = k) seg) (seq 0 (length (e_tbs st))) segs.
Proof. exact (testbench_order_is_insertion_order ps orc sfuel st ran). Qed.
Print Assumptions C08_testbench_order_is_insertion_order.

(* ... and each testbench starts from the state its predecessors left, including everything their set() calls settled *)
Theorem C08_tb_pass_sequential ps orc sfuel ks ks' acc :
  tb_pass ps orc sfuel (ks ++ ks') acc = tb_pass ps orc sfuel ks' (tb_pass ps orc sfuel ks acc).
Proof. exact (tb_pass_sequential ps orc sfuel ks ks' acc). Qed.
Print Assumptions C08_tb_pass_sequential.

Example C08_testbench_order_example :
  e_trace (fst (tb_pass ex_tb_ps (id_oracle 1 3 2) 10 (seq 0 3) (fst (settle ex_tb_ps (id_oracle 1 3 2) 10 ex_tb_st), false)))
  = [(0%nat, [-1; 0]); (0%nat, [-1; 6]); (0%nat, [-9; 0]);
     (1%nat, [-1; 5]); (1%nat, [-1; 6]); (1%nat, [-9; 0]);
     (2%nat, [-1; 9]); (2%nat, [-1; 10]); (2%nat, [-9; 0])].
Proof. vm_compute. reflexivity. Qed.
Print Assumptions C08_testbench_order_example.

(* ---------------------------------------------------------------- translated source (translator unit "pysim") *)
(* coq/Gen/PySimGen.v is regenerated from /repo/amaranth/sim/pysim.py on every run; Proofs/GenEqPySim.v proves the
   regenerated state classes and loops equal to / refined by the model above (abstractions stated there). *)
From V.Proofs Require GenEqPySim.
From V.Gen Require PySimGen.

(* _run_wakers: every waker is called once, in order, with the same arguments; those returning True stay *)
Theorem C08_translated_run_wakers (A W : Type) (call : nat -> A -> W -> bool * W) wakers args w :
  PySimGen.run_wakers call wakers args w = Some (GenEqPySim.retain call args wakers w).
Proof. exact (GenEqPySim.gen_run_wakers_eq call wakers args w). Qed.
Print Assumptions C08_translated_run_wakers.

(* _PySignalState.__init__ / reset: the initial slots of the model *)
Theorem C08_translated_signal_init inits :
  map (fun v => match PySimGen.PySignalState_init v with Some g => GenEqPySim.abs_slot g false | None => Slot 0 0 false end)
      inits = init_slots inits.
Proof. exact (GenEqPySim.gen_init_slots_eq inits). Qed.
Print Assumptions C08_translated_signal_init.
Theorem C08_translated_signal_reset g :
  PySimGen.PySignalState_reset g =
  Some (PySimGen.Build_PySignalState (PySimGen.PySignalState_signal_init g) (PySimGen.PySignalState_is_comb g)
          (PySimGen.PySignalState_signal_init g) (PySimGen.PySignalState_signal_init g) (PySimGen.PySignalState_wakers g)).
Proof. exact (GenEqPySim.gen_signal_reset_eq g). Qed.
Print Assumptions C08_translated_signal_reset.

(* _PySignalState.update(value, mask) of the state object with index i = slot_apply of the write (i, value, mask):
   masked merge into `next`, registration in `pending` exactly when `next` changes; nothing else is touched *)
Theorem C08_translated_signal_update i g p v m :
  exists g' p',
    PySimGen.PySignalState_update i g p v m = Some (g', p') /\
    GenEqPySim.abs_slot g' (GenEqPySim.mem i p') = slot_apply i (GenEqPySim.abs_slot g (GenEqPySim.mem i p)) (W i v m) /\
    PySimGen.PySignalState_signal_init g' = PySimGen.PySignalState_signal_init g /\
    PySimGen.PySignalState_is_comb g' = PySimGen.PySignalState_is_comb g /\
    PySimGen.PySignalState_wakers g' = PySimGen.PySignalState_wakers g /\
    (forall j, j <> i -> GenEqPySim.mem j p' = GenEqPySim.mem j p).
Proof. exact (GenEqPySim.gen_signal_update_eq i g p v m). Qed.
Print Assumptions C08_translated_signal_update.

(* _PySignalState.commit(): False and no effect when curr == next; else wakers run with (curr, next), curr := next, True *)
Theorem C08_translated_signal_commit (W : Type) (call : nat -> Z * Z -> W -> bool * W) g w :
  PySimGen.PySignalState_commit call g w =
  if PySimGen.PySignalState_curr g =? PySimGen.PySignalState_next g then Some (false, g, w)
  else let (wk, w') := GenEqPySim.retain call (PySimGen.PySignalState_curr g, PySimGen.PySignalState_next g)
                         (PySimGen.PySignalState_wakers g) w in
       Some (true, PySimGen.Build_PySignalState (PySimGen.PySignalState_signal_init g) (PySimGen.PySignalState_is_comb g)
                     (PySimGen.PySignalState_next g) (PySimGen.PySignalState_next g) wk, w').
Proof. exact (GenEqPySim.gen_signal_commit_eq call g w). Qed.
Print Assumptions C08_translated_signal_commit.

(* _PyEngineState.commit(): for ANY order o, iterating `pending` in the order induced by o = the model's commit phase
   (fold of commit_slot over o, then clear_pending); the value returned is `converged` *)
Theorem C08_translated_engine_commit ps cm ini icf o st :
  PySimGen.PyEngineState_commit (GenEqPySim.notify_call ps) cm (fun l => l)
    (filter (GenEqPySim.flagged (e_slots st)) o) (GenEqPySim.heap_of ini icf (e_slots st)) None (e_procs st, e_tbs st)
  = let (st3, ch) := fold_left (commit_slot ps) o (st, false) in
    Some (negb ch, [], GenEqPySim.heap_of ini icf (clear_pending (e_slots st3)), (e_procs st3, e_tbs st3)).
Proof. exact (GenEqPySim.gen_engine_commit_eq ps cm ini icf o st). Qed.
Print Assumptions C08_translated_engine_commit.

(* _PyTimeline.set_waker: the deadline stored is now + interval *)
Theorem C08_translated_timeline_set_waker tl d k :
  exists tl', PySimGen.PyTimeline_set_waker tl d k = Some tl' /\
    PySimGen.PyTimeline_now tl' = PySimGen.PyTimeline_now tl /\
    forall k', PySimGen.py_dict_get Nat.eqb (PySimGen.PyTimeline_wakers tl') k' =
               if Nat.eqb k k' then Some (PySimGen.PyTimeline_now tl + d)
               else PySimGen.py_dict_get Nat.eqb (PySimGen.PyTimeline_wakers tl) k'.
Proof. exact (GenEqPySim.gen_timeline_set_waker_eq tl d k). Qed.
Print Assumptions C08_translated_timeline_set_waker.

(* _PyTimeline.advance(): `now` becomes the earliest deadline D; exactly the wakers with deadline D run (once each, in
   the set's iteration order) and are removed; False and no effect on an empty timeline *)
Theorem C08_translated_timeline_advance (W : Type) (cd : nat -> W -> W) ord tl w :
  (forall l, Permutation (ord l) l) -> NoDup (map fst (PySimGen.PyTimeline_wakers tl)) ->
  Forall (fun kv => PySimGen.PyTimeline_now tl <= snd kv) (PySimGen.PyTimeline_wakers tl) ->
  PySimGen.PyTimeline_advance cd ord tl w =
  match zmin_list (map snd (PySimGen.PyTimeline_wakers tl)) with
  | None => Some (false, tl, w)
  | Some D => Some (true,
                    PySimGen.Build_PyTimeline D (filter (fun kv => negb (snd kv =? D)) (PySimGen.PyTimeline_wakers tl)),
                    fold_left (fun w k => cd k w) (ord (GenEqPySim.due D (PySimGen.PyTimeline_wakers tl))) w)
  end.
Proof. exact (GenEqPySim.gen_timeline_advance_eq cd ord tl w). Qed.
Print Assumptions C08_translated_timeline_advance.

(* ... which is the model's tl_advance when the dict holds the model's deadlines *)
Theorem C08_translated_timeline_advance_model (W : Type) (cd : nat -> W -> W) ord tl w st :
  (forall l, Permutation (ord l) l) -> NoDup (map fst (PySimGen.PyTimeline_wakers tl)) ->
  Forall (fun kv => PySimGen.PyTimeline_now tl <= snd kv) (PySimGen.PyTimeline_wakers tl) ->
  PySimGen.PyTimeline_now tl = e_now st -> map snd (PySimGen.PyTimeline_wakers tl) = deadlines st ->
  exists tl' w',
    PySimGen.PyTimeline_advance cd ord tl w = Some (negb (PySimGen.py_is_empty (deadlines st)), tl', w') /\
    PySimGen.PyTimeline_now tl' = e_now (tl_advance st) /\
    w' = (if PySimGen.py_is_empty (deadlines st) then w
          else fold_left (fun w k => cd k w)
                 (ord (GenEqPySim.due (e_now (tl_advance st)) (PySimGen.PyTimeline_wakers tl))) w) /\
    map snd (PySimGen.PyTimeline_wakers tl') = filter (fun d => negb (d =? e_now (tl_advance st))) (deadlines st).
Proof. exact (GenEqPySim.gen_timeline_advance_model cd ord tl w st). Qed.
Print Assumptions C08_translated_timeline_advance_model.

(* PySimEngine.step_design() with the callbacks instantiated by the model's phases = settle *)
Theorem C08_translated_step_design ps orc procs fuel eng st :
  (forall n, o_proc (orc n) = procs) -> PySimGen.PySimEngine__processes eng = procs ->
  PySimGen.PySimEngine__vcd_writers eng = [] ->
  option_map snd
    (PySimGen.PySimEngine_step_design (GenEqPySim.m_get_active orc) (fun st => st) GenEqPySim.m_trig_run
       GenEqPySim.m_runnable GenEqPySim.m_set_runnable (GenEqPySim.m_proc_run ps) (GenEqPySim.m_commit ps orc)
       (fun l => l) (S fuel) eng st)
  = let (st', conv) := settle ps orc fuel st in if conv then Some st' else None.
Proof. exact (GenEqPySim.gen_step_design_eq ps orc procs fuel eng st). Qed.
Print Assumptions C08_translated_step_design.

(* PySimEngine.advance(): whenever it returns, world and result are those of the model's advance *)
Theorem C08_translated_advance ps orc procs f eng st r eng' st' :
  (forall n, o_proc (orc n) = procs) -> PySimGen.PySimEngine__processes eng = procs ->
  PySimGen.PySimEngine__vcd_writers eng = [] ->
  PySimGen.PySimEngine__testbenches eng = seq 0 (length (e_tbs st)) ->
  PySimGen.PySimEngine_advance (GenEqPySim.m_get_active orc) (fun st => st) GenEqPySim.m_trig_run GenEqPySim.m_runnable
    GenEqPySim.m_set_runnable (GenEqPySim.m_proc_run ps) (fun _ _ => false) GenEqPySim.m_tb_runnable
    GenEqPySim.m_tb_set_runnable (GenEqPySim.m_tb_run ps orc f) GenEqPySim.m_tb_critical (GenEqPySim.m_commit ps orc)
    GenEqPySim.m_timeline_advance (fun l => l) (S f) eng st = Some (r, eng', st') ->
  advance ps orc f f st = (st', r).
Proof. exact (GenEqPySim.gen_advance_eq ps orc procs f eng st r eng' st'). Qed.
Print Assumptions C08_translated_advance.

(* ---------------------------------------------------------------- audit follow-up *)
(* commit: `converged` is the OR over every pending slot / memory row, independent of which one is committed last *)
Theorem C08_commit_flag_is_or ps o st ch :
  snd (fold_left (commit_slot ps) o (st, ch)) = ch || existsb (dirty st) o.
Proof. exact (commit_flag_is_or ps o st ch). Qed.
Print Assumptions C08_commit_flag_is_or.

(* memories in the engine: rows are slots.  Two write ports on rows 1 and 2, the comb read port on row 1: after the
   testbench raises the clock, set() returns with the read data refreshed (9) although row 2, committed last, kept its 7 *)
Example C08_memory_example :
  flat_map (fun r => snd r) (e_trace (fst (advance exm_ps (id_oracle 2 1 12) 20 5 exm_st))) = [-1; 9; -1; 9; -1; 7; -9; 0] /\
  mask_local (nth 1 exm_ps no_proc) (fun i => Z.lor (among (seq 9 3) i) (among [] i)).
Proof. split; [vm_compute; reflexivity|]. apply mem_sync_mask_local. Qed.
Print Assumptions C08_memory_example.

Theorem C08_memory_processes_mask_local base depth rowsh clk pol wports rports inputs :
  mask_local (mem_comb base depth rowsh rports inputs) (among (map rp_data rports)) /\
  mask_local (mem_sync base depth rowsh clk pol wports rports)
             (fun i => Z.lor (among (seq base depth) i) (among (map rp_data rports) i)).
Proof. split; [apply mem_comb_mask_local|apply mem_sync_mask_local]. Qed.
Print Assumptions C08_memory_processes_mask_local.

(* asynchronous reset (F7 repaired): a reset rise alone only loads reset values; with a clock edge the process is the
   synchronous one; and such processes are covered by C08_compiled_write_disjoint (CSyncA) *)
Theorem C08_arst_reset_only tab n l clk pos rst lo res cu nx :
  hd 0 res = 0 ->
  forall w, In w (r_writes (p_run (rtl_sync_arst tab n l clk pos rst) lo res cu nx)) ->
    w_val w = sd_init (tab (w_sig w)) /\ sd_reset_less (tab (w_sig w)) = false /\ stmts_mask l (w_sig w) <> 0.
Proof. exact (arst_reset_only tab n l clk pos rst lo res cu nx). Qed.
Print Assumptions C08_arst_reset_only.

Theorem C08_arst_clock_edge_is_sync tab n l clk pos rst lo res cu nx :
  hd 0 res <> 0 ->
  r_writes (p_run (rtl_sync_arst tab n l clk pos rst) lo res cu nx) =
  r_writes (p_run (rtl_sync tab n l clk (b2z pos) (Some rst) true) lo [] cu nx).
Proof. exact (arst_clock_edge_is_sync tab n l clk pos rst lo res cu nx). Qed.
Print Assumptions C08_arst_clock_edge_is_sync.

Theorem C08_tick_spec_layout d samples :
  exists t1 t2, tick_spec d samples = TEdge (dd_clk d) 0 (dd_pos d) :: t1 :: t2 :: map TSample samples /\
  (dd_async d = true -> forall r, dd_rst d = Some r -> t1 = TEdge r 0 true /\ t2 = TSample r) /\
  (dd_async d = false -> t1 = TConst 0).
Proof. exact (tick_spec_layout d samples). Qed.
Print Assumptions C08_tick_spec_layout.

(* Period(unit=value) in femtoseconds *)
Theorem C08_period_units v :
  (period_fs 0 v = v * 10 ^ 15 /\ period_fs 1 v = v * 10 ^ 12 /\ period_fs 2 v = v * 10 ^ 9 /\
   period_fs 3 v = v * 10 ^ 6 /\ period_fs 4 v = v * 10 ^ 3 /\ period_fs 5 v = v) /\
  (0 < v -> 2 * Z.abs (10 ^ 15 - period_fs 6 v * v) <= v /\ 2 * Z.abs (10 ^ 12 - period_fs 7 v * v) <= v /\
            2 * Z.abs (10 ^ 9 - period_fs 8 v * v) <= v /\ 2 * Z.abs (10 ^ 6 - period_fs 9 v * v) <= v).
Proof. split; [apply period_fs_time_units|apply period_fs_frequency]. Qed.
Print Assumptions C08_period_units.

Example C08_period_example : period_fs 9 7 = 142857 /\ period_fs 8 3 = 333333333 /\ period_fs 9 4 = 250000 /\ period_fs 3 7 = 7000000.
Proof. repeat split; reflexivity. Qed.
Print Assumptions C08_period_example.

(* ---------------------------------------------------------------- translated source (translator unit "pyclock") *)
(* coq/Gen/PyClockGen.v is regenerated from /repo/amaranth/sim/_pyclock.py on every run; Proofs/GenEqPyclock.v proves the
   regenerated PyClockProcess equal to the clock process of Model/Engine.v for every object, slot heap and time.
   A process object is the model's  PS runnable [initial] timer  (abs_pstate); the update() / set_delay_waker() calls
   of run() are returned as effects: the writes and the delay of the model's `pres` (abs_pres). *)
From V.Proofs Require GenEqPyclock.
From V.Gen Require PyClockGen.

Theorem C08_translated_clock_run self cu :
  GenEqPyclock.abs_pres (PyClockGen.PyClockProcess_run (GenEqPyclock.slots_of cu) self) =
  clock_run (PyClockGen.PyClockProcess_slot self) (PyClockGen.PyClockProcess_phase self)
            (PyClockGen.PyClockProcess_period self) (GenEqPyclock.abs_local self) cu.
Proof. exact (GenEqPyclock.gen_clock_run_eq self cu). Qed.
Print Assumptions C08_translated_clock_run.

(* run() keeps slot / phase / period / critical, clears runnable and initial, and registers exactly one waker, which
   sets `runnable` and nothing else *)
Theorem C08_translated_clock_run_frame self cur :
  let r := PyClockGen.PyClockProcess_run cur self in
  PyClockGen.PyClockProcess_slot (fst r) = PyClockGen.PyClockProcess_slot self /\
  PyClockGen.PyClockProcess_phase (fst r) = PyClockGen.PyClockProcess_phase self /\
  PyClockGen.PyClockProcess_period (fst r) = PyClockGen.PyClockProcess_period self /\
  PyClockGen.PyClockProcess_critical (fst r) = PyClockGen.PyClockProcess_critical self /\
  PyClockGen.PyClockProcess_runnable (fst r) = false /\
  PyClockGen.PyClockProcess_initial (fst r) = false /\
  exists w, GenEqPyclock.eff_wakers (snd r) = [w] /\ forall p, w p = GenEqPyclock.wake p.
Proof. exact (GenEqPyclock.gen_clock_run_frame self cur). Qed.
Print Assumptions C08_translated_clock_run_frame.

(* one scheduled run in the engine model: proc_step of clock_proc on the abstracted object *)
Theorem C08_translated_clock_proc_step self now timer cu nx :
  let r := PyClockGen.PyClockProcess_run (GenEqPyclock.slots_of cu) self in
  exists d, GenEqPyclock.eff_delay (snd r) = Some d /\
  proc_step (clock_proc (PyClockGen.PyClockProcess_slot self) (PyClockGen.PyClockProcess_phase self)
                        (PyClockGen.PyClockProcess_period self))
            now (GenEqPyclock.abs_pstate self timer) cu nx =
  (GenEqPyclock.abs_pstate (fst r) (Some (now + d)), GenEqPyclock.eff_writes (snd r)).
Proof. exact (GenEqPyclock.gen_clock_proc_step_eq self now timer cu nx). Qed.
Print Assumptions C08_translated_clock_proc_step.

(* the waker, fired by the timeline at its deadline, is the model's ps_fire *)
Theorem C08_translated_clock_waker p D :
  GenEqPyclock.abs_pstate (GenEqPyclock.wake p) None = ps_fire D (GenEqPyclock.abs_pstate p (Some D)).
Proof. exact (GenEqPyclock.gen_clock_waker_eq p D). Qed.
Print Assumptions C08_translated_clock_waker.

(* __init__ (reset() inlined) builds clock_pstate; reset() rebuilds the same object *)
Theorem C08_translated_clock_init slot phase period :
  let p := PyClockGen.PyClockProcess_init slot phase period in
  GenEqPyclock.abs_pstate p None = clock_pstate /\
  PyClockGen.PyClockProcess_slot p = slot /\ PyClockGen.PyClockProcess_phase p = phase /\
  PyClockGen.PyClockProcess_period p = period /\ PyClockGen.PyClockProcess_critical p = false.
Proof. exact (GenEqPyclock.gen_clock_init_eq slot phase period). Qed.
Print Assumptions C08_translated_clock_init.

Theorem C08_translated_clock_reset self :
  PyClockGen.PyClockProcess_reset self =
  PyClockGen.PyClockProcess_init (PyClockGen.PyClockProcess_slot self) (PyClockGen.PyClockProcess_phase self)
                                 (PyClockGen.PyClockProcess_period self).
Proof. exact (GenEqPyclock.gen_clock_reset_eq self). Qed.
Print Assumptions C08_translated_clock_reset.

(* Period(unit=v).femtoseconds for an integer v (hdl/_time.py, regenerated): the model's period_fs; a frequency must be
   positive (otherwise the source raises, second theorem) *)
Theorem C08_translated_period_init u v :
  (u <= 9)%nat -> ((6 <= u)%nat -> 0 < v) ->
  PyClockGen.Period_init [(GenEqPyclock.unit_name u, PyClockGen.real_of_Z v)] =
  Some (PyClockGen.Build_Period (period_fs u v)).
Proof. exact (GenEqPyclock.gen_period_init_eq u v). Qed.
Print Assumptions C08_translated_period_init.

Theorem C08_translated_period_init_raises u v a b l :
  ((6 <= u)%nat -> v <= 0 -> PyClockGen.Period_init [(GenEqPyclock.unit_name u, PyClockGen.real_of_Z v)] = None) /\
  PyClockGen.Period_init (a :: b :: l) = None /\
  PyClockGen.Period_init [] = Some (PyClockGen.Build_Period 0).
Proof.
  split; [exact (GenEqPyclock.gen_period_init_nonpositive_frequency u v)|].
  split; [exact (GenEqPyclock.gen_period_init_two_raises a b l)|exact GenEqPyclock.gen_period_init_empty_eq].
Qed.
Print Assumptions C08_translated_period_init_raises.

(* period / 2 (Period.__truediv__, real-number branch): round-half-to-even of the exact quotient = default_phase *)
Theorem C08_translated_period_half p :
  PyClockGen.Period_truediv_real (PyClockGen.Build_Period p) (PyClockGen.real_of_Z 2) =
  Some (PyClockGen.Build_Period (default_phase p)).
Proof. exact (GenEqPyclock.gen_period_half_eq p). Qed.
Print Assumptions C08_translated_period_half.

(* Simulator.add_clock: the (phase, period) femtoseconds handed to add_clock_process, i.e. to PyClockProcess.__init__ *)
Theorem C08_translated_add_clock p ph :
  PyClockGen.Simulator_add_clock_args (PyClockGen.Build_Period p) None = Some (default_phase p, p) /\
  PyClockGen.Simulator_add_clock_args (PyClockGen.Build_Period p) (Some (PyClockGen.Build_Period ph)) = Some (ph, p).
Proof. split; [exact (GenEqPyclock.gen_add_clock_default_eq p)|exact (GenEqPyclock.gen_add_clock_phase_eq p ph)]. Qed.
Print Assumptions C08_translated_add_clock.

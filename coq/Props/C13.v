(* C13 placeholder *)

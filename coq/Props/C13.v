(* C13 — asynchronous FIFOs are safe under every interleaving of their clocks.
   Only statements here; proofs live in Proofs/AsyncFifoP.v, the model in Model/AsyncFifo.v.

   Reading guide.  [n] is depth_bits (AsyncFIFO depth 2^n, AsyncFIFOBuffered depth 2^n + 1), [tr] an arbitrary list
   of events (EW / ER / EWR = write-clock edge / read-clock edge / both at once) each with its inputs
   (w_en, w_data, r_en, rst).  [areach n width tr] = (state, monitor) after running [tr] from power-on; the monitor
   [mon] logs accepted writes ([wlog]: w_rdy & w_en at a write edge) and accepted reads ([rlog]: r_rdy & r_en at a
   read edge, logging r_data) and is defined from interface signals only; [held m] = #writes - #reads.
   The safety theorems are for runs without write-domain reset ([no_rst tr]; the start-up r_rst pulse is part of
   every run).  AsyncFIFO theorems hold under ANY read-domain reset activity ([i_rrst] is unconstrained: "when the
   read domain is reset, data remains in the FIFO"); AsyncFIFOBuffered theorems need [no_rrst tr] and the clause is
   refuted without it.  Write-domain reset: a sufficiently long episode ([suff_reset]) makes the AsyncFIFO a fresh
   FIFO from any state; shorter episodes are refuted. *)
From Coq Require Import ZArith List Bool Lia.
From V.Model Require Import Bits AsyncFifo.
From V.Proofs Require Import BitsP AsyncFifoP.
Import ListNotations.
Open Scope Z_scope.

(* ------------------------------------------------------------------ Gray algebra, all widths *)
Theorem C13_gray_dec_enc w x : 0 <= w -> 0 <= x < 2 ^ w -> gray_dec w (gray_enc x) = x.
Proof. exact (gray_dec_enc w x). Qed.
Print Assumptions C13_gray_dec_enc.
Example C13_gray_dec_enc_ex : 0 <= 5 /\ 0 <= 22 < 2 ^ 5 /\ gray_enc 22 = 29 /\ gray_dec 5 29 = 22.
Proof. vm_compute. repeat split; congruence. Qed.

Theorem C13_gray_enc_inj w a b : 0 <= w -> 0 <= a < 2 ^ w -> 0 <= b < 2 ^ w -> gray_enc a = gray_enc b -> a = b.
Proof. exact (gray_enc_inj w a b). Qed.
Print Assumptions C13_gray_enc_inj.

Theorem C13_gray_enc_range w x : 0 <= w -> 0 <= x < 2 ^ w -> 0 <= gray_enc x < 2 ^ w.
Proof. exact (gray_enc_range w x). Qed.
Print Assumptions C13_gray_enc_range.

Theorem C13_gray_enc_xor a b : gray_enc (Z.lxor a b) = Z.lxor (gray_enc a) (gray_enc b).
Proof. exact (gray_enc_xor a b). Qed.
Print Assumptions C13_gray_enc_xor.

(* consecutive pointer values (with wrap-around) have codes that differ in exactly one bit *)
Theorem C13_gray_succ_one_bit w x : 1 <= w -> 0 <= x < 2 ^ w ->
  exists k, 0 <= k < w /\ Z.lxor (gray_enc x) (gray_enc ((x + 1) mod 2 ^ w)) = 2 ^ k.
Proof. exact (gray_succ_one_bit w x). Qed.
Print Assumptions C13_gray_succ_one_bit.
Example C13_gray_succ_one_bit_ex : Z.lxor (gray_enc 7) (gray_enc ((7 + 1) mod 2 ^ 3)) = 2 ^ 2
                                   /\ Z.lxor (gray_enc 3) (gray_enc 4) = 2 ^ 2.
Proof. vm_compute. split; reflexivity. Qed.

(* the elaborated full test on Gray pointers <=> the binary pointers are exactly 2^n apart *)
Theorem C13_full_cond_iff n a b : 1 <= n -> 0 <= a < 2 ^ (n + 1) -> 0 <= b < 2 ^ (n + 1) ->
  gray_full n (gray_enc a) (gray_enc b) = true <-> (a - b) mod 2 ^ (n + 1) = 2 ^ n.
Proof. exact (full_cond_iff n a b). Qed.
Print Assumptions C13_full_cond_iff.
Example C13_full_cond_ex : gray_full 2 (gray_enc 1) (gray_enc 5) = true /\ (1 - 5) mod 2 ^ 3 = 2 ^ 2.
Proof. vm_compute. split; reflexivity. Qed.

Theorem C13_empty_cond_iff w a b : 0 <= w -> 0 <= a < 2 ^ w -> 0 <= b < 2 ^ w ->
  (gray_enc a =? gray_enc b) = true <-> a = b.
Proof. exact (empty_cond_iff w a b). Qed.
Print Assumptions C13_empty_cond_iff.

(* ------------------------------------------------------------------ AsyncFIFO: safety for every event list *)
(* a run that fills the depth-2 FIFO, lets the pointers cross, reads, and has a coincident edge *)
Definition ex_tr : list (ev * ain) :=
  [(EW, mkIn4 true 5 false false); (EW, mkIn4 true 6 false false); (EW, mkIn4 true 7 true false);
   (ER, mkIn4 false 0 true false); (ER, mkIn4 false 0 true false); (ER, mkIn4 false 0 true false);
   (EWR, mkIn4 true 1 true false); (EW, mkIn4 true 2 false false); (EWR, mkIn4 true 3 true false);
   (EW, mkIn4 true 4 false false); (ER, mkIn4 false 0 true false); (ER, mkIn4 false 0 false false)].
(* it ends full (2 held, w_rdy = 0) with r_rdy = 1 and r_data = 3 = oldest unread; the writes of 7, 1, 2 were refused *)
Example C13_ex_run :
  no_rst ex_tr /\ no_rrst ex_tr /\ wlog (snd (areach 1 3 ex_tr)) = [5; 6; 3; 4] /\ rlog (snd (areach 1 3 ex_tr)) = [5; 6]
  /\ o_wrdy 1 (fst (areach 1 3 ex_tr)) = false /\ o_rrdy (fst (areach 1 3 ex_tr)) = true
  /\ o_rdata (fst (areach 1 3 ex_tr)) = 3 /\ held (snd (areach 1 3 ex_tr)) = 2 ^ 1
  /\ wlog (snd (breach 1 3 ex_tr)) = [5; 6; 3; 4] /\ rlog (snd (breach 1 3 ex_tr)) = [5; 6].
Proof.
  split; [unfold no_rst, ex_tr; repeat (apply Forall_cons; [reflexivity|]); apply Forall_nil|].
  split; [unfold no_rrst, ex_tr; repeat (apply Forall_cons; [reflexivity|]); apply Forall_nil|].
  vm_compute. repeat split; reflexivity.
Qed.

(* ghost counters exist such that each side only ever sees an older-or-equal value of the other side's pointer
   (chain iv_ord of [Inv]), all pointer registers are the Gray/binary images of those counters, and at most 2^n
   entries are in flight *)
Theorem C13_async_pointer_invariant n width tr : 1 <= n -> no_rst tr ->
  exists g, Inv n (fst (areach n width tr)) (snd (areach n width tr)) g.
Proof. exact (Inv_reach n width tr). Qed.
Print Assumptions C13_async_pointer_invariant.

(* never more than depth entries held; w_rdy is not asserted while depth entries are held *)
Theorem C13_async_no_overflow n width tr : 1 <= n -> no_rst tr ->
  let (st, m) := areach n width tr in
  0 <= held m <= 2 ^ n /\ (held m = 2 ^ n -> o_wrdy n st = false).
Proof.
  intros Hn H. destruct (Inv_reach n width tr Hn H) as [g I]. unfold areach. destruct (arun n width tr (astate0 n, mon0)) as [st m].
  exact (Inv_no_overflow n st m g Hn I).
Qed.
Print Assumptions C13_async_no_overflow.

(* entries are read in the order written, none lost or duplicated: the read log is a prefix of the write log *)
Theorem C13_async_fifo_order n width tr : 1 <= n -> no_rst tr ->
  let m := snd (areach n width tr) in rlog m = firstn (length (rlog m)) (wlog m).
Proof. intros Hn H. destruct (Inv_reach n width tr Hn H) as [g I]. exact (Inv_order n _ _ g I). Qed.
Print Assumptions C13_async_fifo_order.

(* r_rdy implies r_data is the oldest unread entry *)
Theorem C13_async_r_rdy_data n width tr : 1 <= n -> no_rst tr ->
  let (st, m) := areach n width tr in
  o_rrdy st = true -> 0 < held m /\ o_rdata st = nth (length (rlog m)) (wlog m) 0.
Proof.
  intros Hn H. destruct (Inv_reach n width tr Hn H) as [g I]. unfold areach. destruct (arun n width tr (astate0 n, mon0)) as [st m].
  exact (Inv_rdy_data n st m g Hn I).
Qed.
Print Assumptions C13_async_r_rdy_data.

(* levels stay within 0..depth; the read side never sees more than is held *)
Theorem C13_async_levels_bounded n width tr : 1 <= n -> no_rst tr ->
  let (st, m) := areach n width tr in
  0 <= o_wlevel st <= 2 ^ n /\ 0 <= o_rlevel n st <= 2 ^ n /\ o_rlevel n st <= held m.
Proof.
  intros Hn H. destruct (Inv_reach n width tr Hn H) as [g I]. unfold areach. destruct (arun n width tr (astate0 n, mon0)) as [st m].
  exact (Inv_levels n st m g Hn I).
Qed.
Print Assumptions C13_async_levels_bounded.

(* once writing stops (tr2 has no w_en): nothing is written any more; after 2 read-clock edges (any number of write
   edges interleaved) every held entry is visible to the reader (r_level = held, r_rdy <-> held > 0); and if the
   reader keeps r_en asserted, after held + 2 read edges every written entry has been read *)
Theorem C13_async_drain_bounded n width tr1 tr2 : 1 <= n -> no_rst tr1 -> no_rst tr2 -> no_write tr2 ->
  let sm1 := areach n width tr1 in
  let sm2 := arun n width tr2 sm1 in
  wlog (snd sm2) = wlog (snd sm1) /\
  (2 <= r_edges tr2 -> o_rlevel n (fst sm2) = held (snd sm2) /\ o_rrdy (fst sm2) = (0 <? held (snd sm2))) /\
  (all_ren tr2 -> held (snd sm1) + 2 <= r_edges tr2 -> rlog (snd sm2) = wlog (snd sm1)).
Proof.
  intros Hn H1 H2 Hw. cbv zeta.
  pose proof (InvS_run n width tr1 Hn H1 (astate0 n, mon0, ghost0) (Inv_init n ltac:(lia))) as I.
  pose proof (drain_final n width tr2 _ Hn H2 Hw I) as D. cbv zeta in D.
  rewrite !grun_fst in D. exact D.
Qed.
Print Assumptions C13_async_drain_bounded.
Example C13_async_drain_ex :
  let tr2 := [(ER, mkIn4 false 0 true false); (EW, mkIn4 false 9 true false); (EWR, mkIn4 false 0 true false);
              (ER, mkIn4 false 0 true false); (ER, mkIn4 false 0 true false)] in
  let tr1 := [(EW, mkIn4 true 5 false false); (EW, mkIn4 true 6 false false)] in
  no_rst tr1 /\ no_rst tr2 /\ no_write tr2 /\ all_ren tr2 /\ held (snd (areach 1 3 tr1)) + 2 <= r_edges tr2
  /\ rlog (snd (arun 1 3 tr2 (areach 1 3 tr1))) = [5; 6].
Proof.
  cbv zeta. unfold no_rst, no_write, all_ren.
  repeat (split; [repeat (apply Forall_cons; [reflexivity|]); apply Forall_nil|]).
  split; [vm_compute; congruence|reflexivity].
Qed.

(* ------------------------------------------------------------------ AsyncFIFOBuffered (depth 2^n + 1) *)
Theorem C13_buffered_no_overflow n width tr : 1 <= n -> no_rst tr -> no_rrst tr ->
  let (st, m) := breach n width tr in
  0 <= held m <= 2 ^ n + 1 /\ (held m = 2 ^ n + 1 -> bo_wrdy n st = false).
Proof.
  intros Hn H H2. pose proof (BInv_reach n width tr Hn H H2) as I. unfold breach in *. destruct (brun n width tr (bstate0 n, mon0)) as [st m].
  exact (BInv_no_overflow n st m Hn I).
Qed.
Print Assumptions C13_buffered_no_overflow.

Theorem C13_buffered_fifo_order n width tr : 1 <= n -> no_rst tr -> no_rrst tr ->
  let m := snd (breach n width tr) in rlog m = firstn (length (rlog m)) (wlog m).
Proof. intros Hn H H2. exact (BInv_order n _ _ (BInv_reach n width tr Hn H H2)). Qed.
Print Assumptions C13_buffered_fifo_order.

Theorem C13_buffered_r_rdy_data n width tr : 1 <= n -> no_rst tr -> no_rrst tr ->
  let (st, m) := breach n width tr in
  bo_rrdy st = true -> 0 < held m /\ bo_rdata st = nth (length (rlog m)) (wlog m) 0.
Proof.
  intros Hn H H2. pose proof (BInv_reach n width tr Hn H H2) as I. unfold breach in *. destruct (brun n width tr (bstate0 n, mon0)) as [st m].
  exact (BInv_rdy_data n st m Hn I).
Qed.
Print Assumptions C13_buffered_r_rdy_data.

Theorem C13_buffered_levels_bounded n width tr : 1 <= n -> no_rst tr -> no_rrst tr ->
  let st := fst (breach n width tr) in
  0 <= bo_wlevel n st <= 2 ^ n + 1 /\ 0 <= bo_rlevel st <= 2 ^ n + 1.
Proof. intros Hn H H2. exact (BInv_levels n _ _ Hn (BInv_reach n width tr Hn H H2)). Qed.
Print Assumptions C13_buffered_levels_bounded.

(* once writing stops, after 3 read-clock edges (any r_en, any number of write edges interleaved) the output register
   shows an entry whenever one is held: r_rdy <-> held > 0 *)
Theorem C13_buffered_readable_bounded n width tr1 tr2 : 1 <= n -> no_rst tr1 -> no_rrst tr1 -> no_rst tr2 -> no_rrst tr2 ->
  no_write tr2 ->
  let sm1 := breach n width tr1 in
  let sm2 := brun n width tr2 sm1 in
  3 <= r_edges tr2 ->
  wlog (snd sm2) = wlog (snd sm1) /\ bo_rrdy (fst sm2) = (0 <? held (snd sm2)).
Proof. exact (bvis_final n width tr1 tr2). Qed.
Print Assumptions C13_buffered_readable_bounded.

(* once writing stops and the reader keeps r_en asserted, after held + 3 read-clock edges (any number of write
   edges interleaved) every written entry has been read (one edge more than AsyncFIFO: the output register) *)
Theorem C13_buffered_drain_bounded n width tr1 tr2 : 1 <= n -> no_rst tr1 -> no_rrst tr1 -> no_rst tr2 -> no_rrst tr2 ->
  no_write tr2 -> all_ren tr2 ->
  let sm1 := breach n width tr1 in
  let sm2 := brun n width tr2 sm1 in
  held (snd sm1) + 3 <= r_edges tr2 ->
  wlog (snd sm2) = wlog (snd sm1) /\ rlog (snd sm2) = wlog (snd sm1).
Proof. exact (bdrain_final n width tr1 tr2). Qed.
Print Assumptions C13_buffered_drain_bounded.
Example C13_buffered_drain_ex :
  let tr2 := [(ER, mkIn4 false 0 true false); (EW, mkIn4 false 9 true false); (EWR, mkIn4 false 0 true false);
              (ER, mkIn4 false 0 true false); (ER, mkIn4 false 0 true false); (ER, mkIn4 false 0 true false)] in
  let tr1 := [(EW, mkIn4 true 5 false false); (EW, mkIn4 true 6 false false)] in
  no_rst tr1 /\ no_rst tr2 /\ no_write tr2 /\ all_ren tr2 /\ held (snd (breach 1 3 tr1)) + 3 <= r_edges tr2
  /\ rlog (snd (brun 1 3 tr2 (breach 1 3 tr1))) = [5; 6].
Proof.
  cbv zeta. unfold no_rst, no_write, all_ren.
  repeat (split; [repeat (apply Forall_cons; [reflexivity|]); apply Forall_nil|]).
  split; [vm_compute; congruence|reflexivity].
Qed.

(* ------------------------------------------------------------------ resets *)
(* AsyncFIFO, read-domain reset: the theorems above do not constrain [i_rrst]; a run that asserts it *)
Example C13_async_read_reset_ex :
  let tr := [(EW, mkIn4 true 5 false false); (ER, mkIn false 0 true false true); (ER, mkIn false 0 true false true);
             (ER, mkIn false 0 true false true); (ER, mkIn false 0 true false true)] in
  no_rst tr /\ ~ no_rrst tr /\ rlog (snd (areach 1 3 tr)) = [5].
Proof.
  cbv zeta. split; [unfold no_rst; repeat (apply Forall_cons; [reflexivity|]); apply Forall_nil|].
  split; [|reflexivity]. intros H. inversion H as [|? ? _ H1]; subst. inversion H1 as [|? ? H2 _]; subst. discriminate H2.
Qed.

(* AsyncFIFO, write-domain reset held long enough (one write edge, then three read edges, then two write edges, any
   interleaving around them): from ANY state the FIFO becomes a fresh FIFO (invariant with empty logs) ... *)
Theorem C13_async_reset_recovers n width trr st m : 1 <= n -> length (mem st) = Z.to_nat (2 ^ n) -> suff_reset trr ->
  Inv n (fst (arun n width trr (st, m))) mon0 ghost0.
Proof. exact (reset_recovers n width trr st m). Qed.
Print Assumptions C13_async_reset_recovers.

(* ... hence after ANY history tr0 (resets of any length included) and a sufficient reset episode, every reset-free
   continuation observed by a fresh monitor is safe: order, no overflow, r_rdy data, levels *)
Theorem C13_async_safe_after_reset n width tr0 trr tr : 1 <= n -> suff_reset trr -> no_rst tr ->
  let st1 := fst (arun n width trr (areach n width tr0)) in
  let (st, m) := arun n width tr (st1, mon0) in
  rlog m = firstn (length (rlog m)) (wlog m) /\
  0 <= held m <= 2 ^ n /\ (held m = 2 ^ n -> o_wrdy n st = false) /\
  (o_rrdy st = true -> 0 < held m /\ o_rdata st = nth (length (rlog m)) (wlog m) 0) /\
  0 <= o_wlevel st <= 2 ^ n /\ 0 <= o_rlevel n st <= 2 ^ n.
Proof.
  intros Hn Hs Hr. cbv zeta. destruct (safe_after_reset n width tr0 trr tr Hn Hs Hr) as [g I]. cbv zeta in I.
  destruct (arun n width tr (fst (arun n width trr (areach n width tr0)), mon0)) as [st m]. cbn [fst snd] in I.
  destruct (Inv_no_overflow n st m g Hn I) as [A B]. destruct (Inv_levels n st m g Hn I) as (C & D & _).
  split; [apply (Inv_order n st m g I)|]. split; [exact A|]. split; [exact B|].
  split; [intros Hrd; apply (Inv_rdy_data n st m g Hn I Hrd)|]. split; [exact C|exact D].
Qed.
Print Assumptions C13_async_safe_after_reset.
Example C13_suff_reset_ex :
  let rs e := (e, mkIn4 false 0 false true) in
  suff_reset [rs EW; rs ER; rs EWR; rs ER; rs ER; rs EW; rs EWR].
Proof.
  cbv zeta. split; [unfold all_rst; repeat (apply Forall_cons; [reflexivity|]); apply Forall_nil|].
  exists [(EW, mkIn4 false 0 false true)],
         [(ER, mkIn4 false 0 false true); (EWR, mkIn4 false 0 false true); (ER, mkIn4 false 0 false true)],
         [(ER, mkIn4 false 0 false true); (EW, mkIn4 false 0 false true); (EWR, mkIn4 false 0 false true)].
  vm_compute. repeat split; congruence.
Qed.

(* a write-domain reset shorter than that is NOT safe in the code as written: one write edge under reset with no read
   edge leaves consume_r_gry stale; afterwards r_level = 6 on a depth-4 FIFO holding nothing, and r_rdy = 1
   (recorded by the check as reset observation wreset-too-short; C13's text does not quantify over resets) *)
Theorem C13_async_short_reset_refuted :
  exists n width tr0 trr tr, all_rst trr /\ 1 <= w_edges trr /\ no_rst tr /\
    let st := fst (arun n width tr (fst (arun n width trr (areach n width tr0)), mon0)) in
    2 ^ n < o_rlevel n st /\ o_rrdy st = true.
Proof.
  exists 2, 4, [(EW, mkIn4 true 5 false false); (EW, mkIn4 true 6 false false); (ER, mkIn4 false 0 false false);
                (ER, mkIn4 false 0 false false); (ER, mkIn4 false 0 false false)],
         [(EW, mkIn4 false 0 false true)], [(ER, mkIn4 false 0 false false); (ER, mkIn4 false 0 false false)].
  split; [repeat (apply Forall_cons; [reflexivity|]); apply Forall_nil|]. split; [vm_compute; congruence|].
  split; [repeat (apply Forall_cons; [reflexivity|]); apply Forall_nil|]. vm_compute. split; reflexivity.
Qed.
Print Assumptions C13_async_short_reset_refuted.

(* AsyncFIFOBuffered, read-domain reset: the output register is cleared while the inner FIFO has already consumed
   the entry: the entry is lost (reset observation buffered-rreset-drops-entry): 5 6 7 written, 6 7 read *)
Theorem C13_buffered_read_reset_refuted :
  exists n width tr, no_rst tr /\
    let m := snd (breach n width tr) in wlog m = [5; 6; 7] /\ rlog m = [6; 7].
Proof.
  exists 2, 4, [(EW, mkIn4 true 5 false false); (EW, mkIn4 true 6 false false); (EW, mkIn4 true 7 false false);
                (ER, mkIn4 false 0 false false); (ER, mkIn4 false 0 false false); (ER, mkIn4 false 0 false false);
                (ER, mkIn4 false 0 false false); (ER, mkIn false 0 false false true);
                (ER, mkIn4 false 0 true false); (ER, mkIn4 false 0 true false); (ER, mkIn4 false 0 true false);
                (ER, mkIn4 false 0 true false)].
  split; [repeat (apply Forall_cons; [reflexivity|]); apply Forall_nil|]. vm_compute. split; reflexivity.
Qed.
Print Assumptions C13_buffered_read_reset_refuted.

(* AsyncFIFOBuffered, write-domain reset: even a sufficient episode does not clear the output register when the
   reader is idle: the FIFO does not "become empty", it still offers the stale entry 5
   (reset observation buffered-wreset-keeps-entry) *)
Theorem C13_buffered_wreset_keeps_entry_refuted :
  exists n width tr0 trr, suff_reset trr /\
    let st := fst (brun n width trr (breach n width tr0)) in bo_rrdy st = true /\ bo_rdata st = 5.
Proof.
  exists 2, 4, [(EW, mkIn4 true 5 false false); (ER, mkIn4 false 0 false false); (ER, mkIn4 false 0 false false);
                (ER, mkIn4 false 0 false false); (ER, mkIn4 false 0 false false)],
         [(EW, mkIn4 false 0 false true); (ER, mkIn4 false 0 false true); (ER, mkIn4 false 0 false true);
          (ER, mkIn4 false 0 false true); (EW, mkIn4 false 0 false true); (EW, mkIn4 false 0 false true)].
  split.
  - split; [repeat (apply Forall_cons; [reflexivity|]); apply Forall_nil|].
    exists [(EW, mkIn4 false 0 false true)],
           [(ER, mkIn4 false 0 false true); (ER, mkIn4 false 0 false true); (ER, mkIn4 false 0 false true)],
           [(EW, mkIn4 false 0 false true); (EW, mkIn4 false 0 false true)].
    vm_compute. repeat split; congruence.
  - vm_compute. split; reflexivity.
Qed.
Print Assumptions C13_buffered_wreset_keeps_entry_refuted.

(* ------------------------------------------------------------------ constructors and elaboration *)
(* an elaborating non-empty AsyncFIFO has depth 2^n with n = depth_bits >= 1: the [n] of the theorems above *)
Theorem C13_async_ctor_shape depth exact d' : 0 <= depth ->
  async_ctor depth exact = Some d' -> d' <> 0 -> async_elab_ok d' = true ->
  d' = 2 ^ aceil_log2 d' /\ 1 <= aceil_log2 d' /\ depth <= d' /\ (exact = true -> d' = depth).
Proof.
  intros H0 C N E. destruct (async_ctor_shape depth exact d' H0 C N) as (S1 & S2 & S3).
  pose proof (proj1 (async_elab_iff d' ltac:(lia)) E). repeat split; try assumption; lia.
Qed.
Print Assumptions C13_async_ctor_shape.
Example C13_async_ctor_ex : async_ctor 5 false = Some 8 /\ async_elab_ok 8 = true /\ aceil_log2 8 = 3
                            /\ async_ctor 5 true = None /\ async_buf_ctor 4 false = Some 5.
Proof. vm_compute. repeat split; reflexivity. Qed.

(* "every constructible depth elaborates" holds except for the depths of finding F4 ... *)
Theorem C13_async_depths_elaborate depth exact d' : 0 <= depth -> depth <> 1 ->
  async_ctor depth exact = Some d' -> async_elab_ok d' = true.
Proof. exact (async_depths_elaborate depth exact d'). Qed.
Print Assumptions C13_async_depths_elaborate.

Theorem C13_async_buf_depths_elaborate depth exact d' : 0 <= depth -> depth <> 1 -> depth <> 2 ->
  async_buf_ctor depth exact = Some d' -> async_buf_elab_ok d' = true.
Proof. exact (async_buf_depths_elaborate depth exact d'). Qed.
Print Assumptions C13_async_buf_depths_elaborate.

(* ... and is false of the code as written for exactly those (F4-asyncfifo-depth1-elaborate):
   AsyncFIFO(depth=1) and AsyncFIFOBuffered(depth=1 or 2) construct, but produce_w_gry[-2] is out of range *)
Theorem C13_async_depths_elaborate_refuted :
  exists depth exact d', 0 <= depth /\ async_ctor depth exact = Some d' /\ async_elab_ok d' = false.
Proof. exists 1, true, 1. vm_compute. repeat split; congruence. Qed.
Print Assumptions C13_async_depths_elaborate_refuted.

Theorem C13_async_buf_depths_elaborate_refuted :
  (exists d', async_buf_ctor 1 false = Some d' /\ async_buf_elab_ok d' = false) /\
  (exists exact d', async_buf_ctor 2 exact = Some d' /\ async_buf_elab_ok d' = false).
Proof. split; [exists 2|exists true, 2]; vm_compute; split; reflexivity. Qed.
Print Assumptions C13_async_buf_depths_elaborate_refuted.

(* ================================================================== regenerated from the source (translator unit `asyncfifo`)
   Gen/AsyncFifoGen.v is produced on every run by translator/unit_asyncfifo.py from the current text of
   amaranth/lib/fifo.py (AsyncFIFO.__init__, AsyncFIFOBuffered.__init__, _gray_encode, _gray_decode, w_full of AsyncFIFO.elaborate); the
   constructors and Gray functions the theorems above talk about are these, for all arguments. *)
From V.Gen Require AsyncFifoGen.
From V.Proofs Require GenEqAsyncfifo.

(* the generated AsyncFIFO constructor returns (self.depth, self._ctr_bits) *)
Theorem C13_translated_async_ctor depth exact :
  AsyncFifoGen.g_async_ctor depth exact =
  match async_ctor depth exact with Some d => Some (d, aceil_log2 d + 1) | None => None end.
Proof. exact (GenEqAsyncfifo.gen_async_ctor_eq depth exact). Qed.
Print Assumptions C13_translated_async_ctor.

Theorem C13_translated_async_buf_ctor depth exact :
  AsyncFifoGen.g_async_buf_ctor depth exact = async_buf_ctor depth exact.
Proof. exact (GenEqAsyncfifo.gen_async_buf_ctor_eq depth exact). Qed.
Print Assumptions C13_translated_async_buf_ctor.

Theorem C13_translated_gray_encode len val : AsyncFifoGen.g_gray_encode len val = gray_enc val.
Proof. exact (GenEqAsyncfifo.gen_gray_encode_eq len val). Qed.
Print Assumptions C13_translated_gray_encode.

Theorem C13_translated_gray_decode len val : AsyncFifoGen.g_gray_decode len val = gray_dec len val.
Proof. exact (GenEqAsyncfifo.gen_gray_decode_eq len val). Qed.
Print Assumptions C13_translated_gray_decode.

(* the `w_full.eq(..)` statement of AsyncFIFO.elaborate, read at ctr_bits = n + 1, is the model's gray_full ... *)
Theorem C13_translated_w_full n p c : AsyncFifoGen.g_w_full (n + 1) p c = gray_full n p c.
Proof. exact (GenEqAsyncfifo.gen_w_full_eq n p c). Qed.
Print Assumptions C13_translated_w_full.

(* ... and its integer indices are in range exactly when the model says elaboration succeeds (finding F4) *)
Theorem C13_translated_w_full_idx_ok d :
  (d =? 0) || AsyncFifoGen.g_w_full_idx_ok (aceil_log2 d + 1) = async_elab_ok d.
Proof. exact (GenEqAsyncfifo.gen_w_full_idx_ok_eq d). Qed.
Print Assumptions C13_translated_w_full_idx_ok.

(* the rest of AsyncFIFO.elaborate as a two-clock step function, regenerated by symbolic execution of its
   m.d.comb / m.d[self._w_domain] / m.d[self._r_domain] statements (produce / consume counters and Gray registers, w_rdy,
   r_empty, r_rdy, both FFSynchronizer chains as 2-stage shift registers in the receiving domain, consume_w_bin, w_level,
   r_level, the memory ports, the AsyncFFSynchronizer flops producing r_rst, the m.If(r_rst) override block, self.r_rst,
   the synchronous domain resets of the registers that are not reset_less): one event of the generated step on the
   registers read off the model state (GenEqAsyncfifo.to_g) is the model's async_step, for EVERY state, event and input
   (including write-domain and read-domain resets). *)
Theorem C13_translated_async_step n width st e i : 0 <= n ->
  AsyncFifoGen.g_async_step (n + 1) n (alvl_bits n) width (has_w e) (has_r e)
    (Z.b2z (i_wen i)) (i_wdata i mod 2 ^ width) (Z.b2z (i_ren i)) (Z.b2z (i_rst i)) (Z.b2z (i_rrst i))
    (GenEqAsyncfifo.to_g st)
  = GenEqAsyncfifo.to_g (async_step n width st e i).
Proof. exact (GenEqAsyncfifo.gen_async_step_eq n width st e i). Qed.
Print Assumptions C13_translated_async_step.

(* the generated combinational interface outputs (w_rdy, r_rdy, r_level, r_data) are the model's observations (taken, as in
   arun_step, after the asynchronous effect a_pre of the write-domain reset) *)
Theorem C13_translated_async_out n width wen wdata ren (rst : bool) rdr st : 0 <= n ->
  AsyncFifoGen.g_async_out (n + 1) n (alvl_bits n) width wen wdata ren (Z.b2z rst) rdr (GenEqAsyncfifo.to_g st)
  = (Z.b2z (o_wrdy n (a_pre st rst)), Z.b2z (o_rrdy (a_pre st rst)), o_rlevel n (a_pre st rst), o_rdata (a_pre st rst)).
Proof. exact (GenEqAsyncfifo.gen_async_out_eq n width wen wdata ren rst rdr st). Qed.
Print Assumptions C13_translated_async_out.

(* C15 — data layouts and shaped enumerations obey the shape-castable laws.
   Only statements here; proofs live in Proofs/DataP.v.  Model: Model/Data.v. *)
From Coq Require Import ZArith List Bool Lia.
From V.Model Require Import Bits Shape Data.
From V.Proofs Require Import BitsP DataP.
Import ListNotations.
Open Scope Z_scope.

(* running example: struct { f0: unsigned(3); f1: signed(4); f2: array[2] of struct { f0: u2; f1: s2 } ;
   f3: union { f0: u5; f1: s3 } } *)
Definition ex_inner := Struct [(0, Leaf (Sh 2 false)); (1, Leaf (Sh 2 true))].
Definition ex_layout :=
  Struct [(0, Leaf (Sh 3 false)); (1, Leaf (Sh 4 true)); (2, Array ex_inner 2);
          (3, Union [(0, Leaf (Sh 5 false)); (1, Leaf (Sh 3 true))])].
Definition ex_init :=
  IMap [(1, IVal (-3)); (0, IVal 13); (2, IMap [(1, IMap [(1, IVal (-1)); (0, IVal 2)])]); (3, IMap [(1, IVal (-2))])].

(* ---------------------------------------------------------------- placement *)
(* all struct member lists (any nesting below), every member position i *)
Theorem C15_struct_fields_contiguous fs i k f : wf_layout (Struct fs) = true -> nth_error fs i = Some (k, f) ->
  nth_error (fields_of (Struct fs)) i = Some (k, (zsum (sizes (firstn i fs)), f)) /\
  field_of (Struct fs) k = Some (zsum (sizes (firstn i fs)), f) /\
  layout_size (Struct fs) = zsum (sizes fs).
Proof.
  intros Hwf Hn. destruct (struct_fields_contiguous fs i k f Hwf Hn). repeat split; auto. apply struct_size_sum; auto.
Qed.
Print Assumptions C15_struct_fields_contiguous.
Example C15_struct_example : wf_layout ex_layout = true /\
  map (fun kf => fst (snd kf)) (fields_of ex_layout) = [0; 3; 7; 15] /\ layout_size ex_layout = 20.
Proof. vm_compute. repeat split. Qed.

Theorem C15_union_offsets_zero fs k :
  (forall off sub, field_of (Union fs) k = Some (off, sub) -> off = 0 /\ In (k, sub) fs) /\
  (forall f, wf_layout (Union fs) = true -> In (k, f) fs -> field_of (Union fs) k = Some (0, f)).
Proof. split; [intros; apply union_field; auto|intros; apply union_field_in; auto]. Qed.
Print Assumptions C15_union_offsets_zero.

Theorem C15_union_size_max fs :
  (forall k f, In (k, f) fs -> layout_size f <= layout_size (Union fs)) /\
  (fs <> [] -> exists k f, In (k, f) fs /\ layout_size f = layout_size (Union fs)) /\
  (fs = [] -> layout_size (Union fs) = 0).
Proof. exact (union_size_max fs). Qed.
Print Assumptions C15_union_size_max.

(* element i (and its negative alias i - n) of every array layout *)
Theorem C15_array_elem_offset e n i : 0 <= i < Z.of_nat n ->
  field_of (Array e n) i = Some (i * layout_size e, e) /\
  field_of (Array e n) (i - Z.of_nat n) = Some (i * layout_size e, e) /\
  nth_error (fields_of (Array e n)) (Z.to_nat i) = Some (i, (i * layout_size e, e)) /\
  layout_size (Array e n) = layout_size e * Z.of_nat n.
Proof. exact (array_elem_offset e n i). Qed.
Print Assumptions C15_array_elem_offset.

(* every field of every well-formed layout (struct / union / array / flexible) lies inside the layout *)
Theorem C15_field_within_layout l k off sub : wf_layout l = true -> field_of l k = Some (off, sub) ->
  0 <= off /\ off + layout_size sub <= layout_size l /\ wf_layout sub = true /\ 0 <= layout_size sub.
Proof.
  intros Hwf Hf. destruct (field_of_within l k off sub Hwf Hf) as (A & B & C). repeat split; auto.
  apply layout_size_nonneg; auto.
Qed.
Print Assumptions C15_field_within_layout.

(* ---------------------------------------------------------------- Layout.const and reading fields back *)
(* all layouts, all initialiser mappings naming pairwise non-overlapping fields, every initialised key *)
Theorem C15_const_field_roundtrip l kvs v k x : wf_layout l = true ->
  layout_const l (IMap kvs) = Okz v -> keys_disjoint l (map fst kvs) = true -> In (k, x) kvs ->
  0 <= v < 2 ^ layout_size l /\
  exists off sub, field_of l k = Some (off, sub) /\
    (forall s xv, sub = Leaf s -> x = IVal xv -> const_getitem l v k = Ok (Leaf s) (norm s xv)) /\
    (is_layout sub = true -> exists fv, layout_const sub x = Okz fv /\ const_getitem l v k = Ok sub fv) /\
    (forall s vw ms m, sub = ELeaf s vw ms -> x = IVal m -> in_range s m ->
       const_getitem l v k = Ok sub m).
Proof.
  intros Hwf Hc Hkd Hin. split; [apply (layout_const_range l _ v Hwf Hc)|].
  destruct (const_field_roundtrip l kvs v k x Hwf Hc Hkd Hin) as (off & sub & fv & Hfo & _ & _).
  exists off, sub. split; auto. split; [|split].
  - intros s xv -> ->. eapply const_field_roundtrip_leaf; eauto.
  - intros Hl. eapply const_field_roundtrip_nested; eauto.
  - intros s vw ms m -> -> Hm. eapply const_field_roundtrip_enum; eauto.
Qed.
Print Assumptions C15_const_field_roundtrip.

(* nested: every path into a hereditarily non-overlapping initialiser *)
Theorem C15_const_path_roundtrip l i v p x : wf_layout l = true -> init_ok l i = true ->
  layout_const l i = Okz v -> p <> [] -> init_at i p = Some x ->
  exists c sub, path_chain l p = Some (c, sub) /\
    (forall s xv, sub = Leaf s -> x = IVal xv -> const_path l v p = Ok (Leaf s) (norm s xv)) /\
    (is_layout sub = true -> exists fv, layout_const sub x = Okz fv /\ const_path l v p = Ok sub fv).
Proof.
  intros Hwf Hok Hc Hne Hat.
  destruct (const_path_roundtrip p l i v x Hwf Hok Hc Hne Hat) as (c & sub & fv & Hpc & Hfi & Hcp).
  destruct (path_chain_within p l c sub Hwf Hpc) as (_ & _ & Hws).
  exists c, sub. split; auto. split.
  - intros s xv -> ->. simpl in Hfi. inversion Hfi; subst. rewrite Hcp. apply const_field_leaf. exact Hws.
  - intros Hl. rewrite field_init_layout in Hfi by auto. exists fv. split; auto. rewrite Hcp.
    apply const_field_layout; auto. apply (layout_const_range sub x fv Hws Hfi).
Qed.
Print Assumptions C15_const_path_roundtrip.
Example C15_const_example :
  wf_layout ex_layout = true /\ init_ok ex_layout ex_init = true /\
  layout_const ex_layout ex_init = Okz 225389 /\
  const_path ex_layout 225389 [2; 1; 1] = Ok (Leaf (Sh 2 true)) (-1) /\
  const_path ex_layout 225389 [0] = Ok (Leaf (Sh 3 false)) 5 /\
  const_path ex_layout 225389 [3; 1] = Ok (Leaf (Sh 3 true)) (-2).
Proof. vm_compute. repeat split. Qed.

(* union: with the single initialised field; a second initialiser is rejected *)
Theorem C15_union_const fs k x v : wf_layout (Union fs) = true ->
  layout_const (Union fs) (IMap [(k, x)]) = Okz v ->
  exists sub, field_of (Union fs) k = Some (0, sub) /\
    (forall s xv, sub = Leaf s -> x = IVal xv -> const_getitem (Union fs) v k = Ok (Leaf s) (norm s xv)).
Proof.
  intros Hwf Hc.
  assert (keys_disjoint (Union fs) (map fst [(k, x)]) = true) as Hkd.
  { simpl. rewrite layout_const_map in Hc. simpl in Hc. destruct (assoc k _) as [[o s]|]; [reflexivity|discriminate]. }
  destruct (const_field_roundtrip (Union fs) [(k, x)] v k x Hwf Hc Hkd ltac:(left; reflexivity))
    as (off & sub & fv & Hfo & _ & _).
  destruct (union_field fs k off sub Hfo) as [-> _]. exists sub. split; auto.
  intros s xv -> ->. eapply const_field_roundtrip_leaf; eauto. left; reflexivity.
Qed.
Print Assumptions C15_union_const.
Theorem C15_union_two_initialisers_rejected fs a b r : layout_const (Union fs) (IMap (a :: b :: r)) = Errz 3.
Proof. rewrite layout_const_map. simpl is_layout. simpl negb. cbv iota.
  replace (is_union (Union fs) && (1 <? Z.of_nat (length (a :: b :: r)))) with true; [reflexivity|].
  simpl is_union. simpl length. lia. Qed.
Print Assumptions C15_union_two_initialisers_rejected.

(* ---------------------------------------------------------------- bits round trip *)
Theorem C15_bits_roundtrip l raw :
  (0 <= raw < 2 ^ layout_size l -> from_bits l raw = Ok l raw /\ as_bits (from_bits l raw) = Okz raw) /\
  (~ 0 <= raw < 2 ^ layout_size l -> from_bits l raw = Err 3).
Proof.
  unfold from_bits. split; intros H.
  - replace ((0 <=? raw) && (raw <? 2 ^ layout_size l)) with true by lia. split; reflexivity.
  - replace ((0 <=? raw) && (raw <? 2 ^ layout_size l)) with false by lia. reflexivity.
Qed.
Print Assumptions C15_bits_roundtrip.

(* ---------------------------------------------------------------- views *)
(* all layouts, all values of the target, all keys: View.__getitem__ under simulation = data.Const.__getitem__ *)
Theorem C15_view_matches_const l tv k : wf_layout l = true ->
  (forall off sub, field_of l k = Some (off, sub) -> view_ok_field sub (slice off (layout_size sub) tv) = true) ->
  view_getitem l tv k = const_getitem l tv k.
Proof. exact (view_matches_const l tv k). Qed.
Print Assumptions C15_view_matches_const.

(* a plain-shape field = the bit slice of the underlying value reinterpreted in the field's shape *)
Theorem C15_view_leaf_is_bit_slice l tv k off s : wf_layout l = true -> field_of l k = Some (off, Leaf s) ->
  view_getitem l tv k = Ok (Leaf s) (norm s ((tv / 2 ^ off) mod 2 ^ width s)) /\
  const_getitem l tv k = Ok (Leaf s) (norm s ((tv / 2 ^ off) mod 2 ^ width s)) /\
  (forall i, 0 <= i < width s ->
     Z.testbit (norm s ((tv / 2 ^ off) mod 2 ^ width s)) i = Z.testbit tv (off + i)).
Proof. exact (view_leaf_spec l tv k off s). Qed.
Print Assumptions C15_view_leaf_is_bit_slice.

(* nested views / constants: iterated slicing = one slice at the summed offset; view = const on every path *)
Theorem C15_view_path_matches_const l tv p c t : wf_layout l = true -> path_chain l p = Some (c, t) -> p <> [] ->
  view_path l tv p = view_field t (slice (chain_off c) (layout_size t) tv) /\
  const_path l tv p = const_field t (slice (chain_off c) (layout_size t) tv) /\
  (view_ok_field t (slice (chain_off c) (layout_size t) tv) = true -> view_path l tv p = const_path l tv p).
Proof.
  intros Hwf Hpc Hne. rewrite (view_path_offset p l tv c t Hwf Hpc Hne), (const_path_offset p l tv c t Hwf Hpc Hne).
  split; auto. split; auto. intros Hok.
  destruct (path_chain_within p l c t Hwf Hpc) as (H0 & _ & Hwt).
  apply view_field_const; auto. apply slice_range; auto. apply layout_size_nonneg; auto.
Qed.
Print Assumptions C15_view_path_matches_const.

(* dynamic array index within range selects the same element as the constant index *)
Theorem C15_view_dynamic_index e n tv idx : 0 <= idx < Z.of_nat n -> 0 < layout_size e ->
  view_getitem_dyn (Array e n) tv idx = view_getitem (Array e n) tv idx.
Proof. exact (view_dyn_matches e n tv idx). Qed.
Print Assumptions C15_view_dynamic_index.

(* assignment through a (nested) view field: exactly the field's bits change; it reads back norm(shape, x) *)
Theorem C15_view_assign_only_field l tv p x c t : wf_layout l = true -> 0 <= tv < 2 ^ layout_size l ->
  path_chain l p = Some (c, t) -> p <> [] ->
  let off := chain_off c in let w := layout_size t in
  exists tv', view_assign l tv p x = Okz tv' /\ 0 <= tv' < 2 ^ layout_size l /\
    (forall i, 0 <= i -> Z.testbit tv' i =
        if (off <=? i) && (i <? off + w) then Z.testbit x (i - off) else Z.testbit tv i) /\
    (forall o2 w2, 0 <= o2 -> 0 <= w2 -> o2 + w2 <= off \/ off + w <= o2 -> slice o2 w2 tv' = slice o2 w2 tv) /\
    view_path l tv' p = view_field t (mask w x) /\
    (forall s, t = Leaf s -> view_path l tv' p = Ok (Leaf s) (norm s x)).
Proof. exact (view_assign_only_field l tv p x c t). Qed.
Print Assumptions C15_view_assign_only_field.
Example C15_view_example :
  path_chain ex_layout [2; 1; 1] = Some ([(7, 8); (4, 4); (2, 2)], Leaf (Sh 2 true)) /\
  view_path ex_layout 225389 [2; 1; 1] = Ok (Leaf (Sh 2 true)) (-1) /\
  view_assign ex_layout 225389 [2; 1; 1] 5 = Okz (225389 - 2 * 2 ^ 13) /\
  view_getitem_dyn (Array ex_inner 2) 182 1 = Ok ex_inner 11.
Proof. vm_compute. repeat split. Qed.

(* enumeration fields (Enum with a view class, signed shapes and negative members included): every field of every
   well-formed layout, every value of the target: the view's field, read in the simulator, is the member whose value
   is the field's bit slice reinterpreted in the enumeration's shape, exactly as the constant's field; a pattern
   that is no member's is a ValueError on both sides *)
Theorem C15_view_enum_is_bit_slice l tv k off s ms : wf_layout l = true -> field_of l k = Some (off, ELeaf s true ms) ->
  let v := norm s ((tv / 2 ^ off) mod 2 ^ width s) in
  view_getitem l tv k = const_getitem l tv k /\
  view_getitem l tv k = (if memz v ms then Ok (ELeaf s true ms) v else Err 3).
Proof. exact (view_enum_spec l tv k off s ms). Qed.
Print Assumptions C15_view_enum_is_bit_slice.
Example C15_view_signed_enum_example :
  let l := Struct [(0, Leaf (Sh 1 false)); (1, ELeaf (Sh 2 true) true [-1; 1; 0])] in
  wf_layout l = true /\ layout_const l (IMap [(1, IVal (-1))]) = Okz 6 /\
  const_getitem l 6 1 = Ok (ELeaf (Sh 2 true) true [-1; 1; 0]) (-1) /\
  view_getitem l 6 1 = Ok (ELeaf (Sh 2 true) true [-1; 1; 0]) (-1) /\
  view_getitem l 4 1 = Err 3 /\ const_getitem l 4 1 = Err 3.
Proof. vm_compute. repeat split. Qed.

(* REPAIRED finding C15-signed-enum-field (fix: lib.data hands ShapeCastable.__call__ / from_bits the field read in
   the field's shape): the tails of View.__getitem__ / Const.__getitem__ as they were before the repair refused a
   signed enumeration with a view class (TypeError) and could not read a negative member back (ValueError); the
   current ones return the member on the same inputs *)
Theorem C15_signed_enum_before_fix_refuted : exists sub bits m,
  sub = ELeaf (Sh 2 true) true [-1; 1; 0] /\ field_init layout_const sub (IVal m) = Okz m /\ bits = mask 2 m /\
  view_field_before_fix sub bits = Err 4 /\ const_field_before_fix sub bits = Err 3 /\
  view_field sub bits = Ok sub m /\ const_field sub bits = Ok sub m.
Proof. exists (ELeaf (Sh 2 true) true [-1; 1; 0]), 3, (-1). vm_compute. repeat split. Qed.
Print Assumptions C15_signed_enum_before_fix_refuted.

(* ---------------------------------------------------------------- shaped enumerations *)
(* all shapes, all member lists whose values fit the shape, all raw values *)
Theorem C15_enum_roundtrip s ms : wf_shape s = true -> (forall x, In x ms -> in_range s x) ->
  (forall raw m, enum_from_bits ms raw = Okz m -> m = raw /\ enum_const s ms m = Okz raw) /\
  (forall m, In m ms -> enum_const s ms m = Okz m /\ enum_from_bits ms m = Okz m) /\
  (* the constant's bit pattern, read back in the enumeration's shape (what lib.data hands to from_bits) *)
  (forall m v, In m ms -> enum_const s ms m = Okz v -> enum_from_bits ms (norm s (mask (width s) v)) = Okz m).
Proof.
  intros Hs Hr. split; [|split].
  - intros raw m H. apply (enum_from_bits_const s ms raw m Hs Hr H).
  - intros m Hin. apply enum_const_from_bits; auto.
  - intros m v Hin Hc. apply (enum_pattern_roundtrip s ms m v Hs Hin); auto.
Qed.
Print Assumptions C15_enum_roundtrip.
Example C15_enum_example : enum_const (Sh 3 false) [0; 2; 5] 5 = Okz 5 /\ enum_from_bits [0; 2; 5] 5 = Okz 5 /\
  enum_from_bits [0; 2; 5] 3 = Errz 3.
Proof. vm_compute. repeat split. Qed.
Example C15_enum_signed_example : enum_const (Sh 2 true) [-1; 1; 0] (-1) = Okz (-1) /\
  enum_from_bits [-1; 1; 0] (norm (Sh 2 true) (mask 2 (-1))) = Okz (-1).
Proof. vm_compute. repeat split. Qed.

(* ---------------------------------------------------------------- flags *)
Definition ex_flags := FlagCls 4 [1; 2; 8; 3] STRICT.

(* & | ^ : all flag classes, all operand values of the enumeration's width *)
Theorem C15_flag_ops_match_python E o x y : 0 <= fwidth E -> 0 <= x < 2 ^ fwidth E -> 0 <= y < 2 ^ fwidth E ->
  fv_bop E o x y = py_flag_bop E o x y /\ 0 <= fv_bop_raw E o x y < 2 ^ fwidth E.
Proof. exact (flag_bop_match E o x y). Qed.
Print Assumptions C15_flag_ops_match_python.

(* ~ under STRICT / CONFORM (singles_mask rule): all classes whose single-bit flags fit the shape, all x *)
Theorem C15_flag_invert_strict_conform E x : (fbound E = STRICT \/ fbound E = CONFORM) -> 0 <= fwidth E ->
  0 <= py_singles E -> bits_for (py_singles E) false <= fwidth E ->
  fv_not E x = Some (py_flag_not E x) /\ am_singles E = py_singles E.
Proof. intros. split; [apply flag_not_match_strict; auto|apply am_singles_eq]. Qed.
Print Assumptions C15_flag_invert_strict_conform.
Example C15_flag_example : 0 <= py_singles ex_flags /\ bits_for (py_singles ex_flags) false <= fwidth ex_flags /\
  fv_not ex_flags 1 = Some (FMem 10) /\ fv_bop ex_flags BOr 1 8 = FMem 9 /\ fv_bop ex_flags BXor 1 5 = FErr.
Proof. vm_compute. repeat split; discriminate. Qed.

(* ~ under EJECT / KEEP, closed form when the shape spans exactly the members' bits and there is no hole
   (special case of the two exact theorems below) *)
Theorem C15_flag_invert_ek_nohole E x : (fbound E = EJECT \/ fbound E = KEEP) -> 0 <= fwidth E ->
  Forall (fun m => 0 <= m) (fmembers E) -> flag_mask E = 2 ^ fwidth E - 1 -> 0 <= x < 2 ^ fwidth E ->
  fv_not E x = Some (py_flag_not E x) /\ py_flag_not E x = FMem (2 ^ fwidth E - 1 - x).
Proof. exact (flag_not_match_keep E x). Qed.
Print Assumptions C15_flag_invert_ek_nohole.

(* EXACT, KEEP: for every shaped Flag class with non-negative members and every width: ~view equals Python's
   Flag.__invert__ for ALL values iff the shape is exactly as wide as the members' bits (all_bits + 1 = 2^width),
   holes or not; otherwise already ~F(0) differs (finding C15-flag-invert-wide) *)
Theorem C15_flag_invert_keep_exact E : Forall (fun m => 0 <= m) (fmembers E) -> 0 <= fwidth E -> fbound E = KEEP ->
  (all_bits E + 1 = 2 ^ fwidth E -> forall x, 0 <= x < 2 ^ fwidth E ->
      fv_not E x = Some (py_flag_not E x) /\ py_flag_not E x = FMem (2 ^ fwidth E - 1 - x)) /\
  (all_bits E + 1 <> 2 ^ fwidth E ->
      fv_not E 0 = Some (FMem (2 ^ fwidth E - 1)) /\ py_flag_not E 0 = FMem (all_bits E) /\
      fv_not E 0 <> Some (py_flag_not E 0)).
Proof. intros Hnn Hw Hb. exact (flag_not_keep_iff E Hnn Hw Hb). Qed.
Print Assumptions C15_flag_invert_keep_exact.

(* EXACT, EJECT: for every class, width and value: ~view equals Python's result iff the shape is exactly as wide
   as the members' bits AND ~x sets no bit that is not a flag (otherwise Python ejects the negative int ~x, or
   the widths differ: finding C15-flag-invert-wide) *)
Theorem C15_flag_invert_eject_exact E x : Forall (fun m => 0 <= m) (fmembers E) -> 0 <= fwidth E ->
  fbound E = EJECT -> 0 <= x < 2 ^ fwidth E ->
  (fv_not E x = Some (py_flag_not E x) <->
   (all_bits E + 1 = 2 ^ fwidth E /\ Z.land (Z.lnot x) (Z.lxor (all_bits E) (flag_mask E)) = 0)).
Proof. intros Hnn Hw Hb Hx. exact (flag_not_eject_iff E Hnn Hw x Hb Hx). Qed.
Print Assumptions C15_flag_invert_eject_exact.

(* EXACT, STRICT / CONFORM: besides C15_flag_invert_strict_conform, the only other case: single-bit flags that do
   not fit the shape make the operator raise TypeError (EnumView refuses the wider `~v & singles_mask`) *)
Theorem C15_flag_invert_strict_refused E x : (fbound E = STRICT \/ fbound E = CONFORM) ->
  fwidth E < bits_for (py_singles E) false -> fv_not E x = None.
Proof. exact (flag_not_strict_refused E x). Qed.
Print Assumptions C15_flag_invert_strict_refused.
Example C15_flag_invert_exact_example :
  (* KEEP with a hole (members 1, 4), shape exactly 3 bits: agrees for every value *)
  all_bits (FlagCls 3 [1; 4] KEEP) + 1 = 2 ^ 3 /\
  forallb (fun x => match fv_not (FlagCls 3 [1; 4] KEEP) x with
                    | Some r => match r, py_flag_not (FlagCls 3 [1; 4] KEEP) x with FMem a, FMem b => a =? b | _, _ => false end
                    | None => false end) [0; 1; 2; 3; 4; 5; 6; 7] = true /\
  (* EJECT with the same hole: agrees exactly when bit 1 of x is set *)
  fv_not (FlagCls 3 [1; 4] EJECT) 2 = Some (py_flag_not (FlagCls 3 [1; 4] EJECT) 2) /\
  Z.land (Z.lnot 2) (Z.lxor 7 5) = 0 /\ Z.land (Z.lnot 1) (Z.lxor 7 5) = 2.
Proof. vm_compute. repeat split. Qed.

(* a shaped Flag class (STRICT / KEEP) used as a layout field is the enumeration leaf of its accepted patterns:
   every theorem about ELeaf fields applies to Flag-typed fields *)
Theorem C15_flag_field_is_enum_field E v : 0 <= fwidth E -> 0 <= v < 2 ^ fwidth E ->
  (memz v (flag_values E) = true <-> flag_from_bits E v = FMem v).
Proof. exact (flag_values_spec E v). Qed.
Print Assumptions C15_flag_field_is_enum_field.
Example C15_flag_keep_example : flag_mask (FlagCls 3 [1; 2; 4] KEEP) = 2 ^ 3 - 1 /\
  fv_not (FlagCls 3 [1; 2; 4] KEEP) 5 = Some (FMem 2).
Proof. vm_compute. repeat split. Qed.
(* FINDING (C15-flag-invert-wide): EJECT / KEEP with a shape wider than the members' bits, or a hole *)
Theorem C15_flag_invert_keep_refuted :
  (exists E x, fbound E = KEEP /\ 0 <= x < 2 ^ fwidth E /\ fv_not E x = Some (FMem 6) /\ py_flag_not E x = FMem 2) /\
  (exists E x, fbound E = EJECT /\ 0 <= x < 2 ^ fwidth E /\ fv_not E x = Some (FInt 6) /\ py_flag_not E x = FInt (-2)).
Proof.
  split.
  - exists (FlagCls 3 [1; 2] KEEP), 1. vm_compute. repeat split; discriminate.
  - exists (FlagCls 3 [1; 4] EJECT), 1. vm_compute. repeat split; discriminate.
Qed.
Print Assumptions C15_flag_invert_keep_refuted.

(* from_bits / const: an accepted non-negative bit pattern is returned unchanged (CONFORM discards bits by design) *)
Theorem C15_flag_from_bits_value E raw m : 0 <= raw -> fbound E <> CONFORM ->
  flag_from_bits E raw = FMem m -> m = raw.
Proof. exact (flag_from_bits_value E raw m). Qed.
Print Assumptions C15_flag_from_bits_value.

(* ---------------------------------------------------------------- Layout.const, every initialiser kind
   Field initialisers: int (XVal), enumeration member (XVal of its value), nested mapping / sequence (XMap),
   amaranth hdl.Const of ANY width/signedness (XConst: taken as it is; only the field-width mask of the loop
   reduces it), lib.data.Const (XDConst: accepted iff the layouts compare equal).
   All layouts, all mixed initialiser mappings naming pairwise non-overlapping fields, every initialised key:
   an hdl.Const (cv, c) reads back as norm field_shape (norm c cv) — a narrow negative constant is sign-extended,
   a wide one is truncated to the field and (the result being read through the neighbours' own slices, which this
   theorem also covers) does not spill. *)
Theorem C15_const_any_initialiser l kvs v k x : wf_layout l = true ->
  xlayout_const l (XMap kvs) = Okz v -> keys_disjoint l (map fst kvs) = true -> In (k, x) kvs ->
  0 <= v < 2 ^ layout_size l /\
  exists off sub, field_of l k = Some (off, sub) /\ xreadback l v k sub x.
Proof.
  intros Hwf Hc Hkd Hin. split; [apply (xlayout_const_range l _ v Hwf Hc)|].
  destruct (xconst_field_roundtrip l kvs v k x Hwf Hc Hkd Hin) as (off & sub & fv & Hfo & Hfi & Hg).
  exists off, sub. split; auto. apply (xreadback_pack l v k off sub fv x Hwf Hfo Hfi Hg).
Qed.
Print Assumptions C15_const_any_initialiser.

(* arbitrary overlaps (flexible layouts): the initialiser written LAST fully determines its own field —
   a narrow constant completely overwrites whatever an overlapping field stored earlier *)
Theorem C15_const_last_initialiser_wins l kvs k x v : wf_layout l = true ->
  xlayout_const l (XMap (kvs ++ [(k, x)])) = Okz v ->
  exists off sub, field_of l k = Some (off, sub) /\ xreadback l v k sub x.
Proof.
  intros Hwf Hc. destruct (xconst_last_wins l kvs k x v Hwf Hc) as (off & sub & fv & Hfo & Hfi & Hg).
  exists off, sub. split; auto. apply (xreadback_pack l v k off sub fv x Hwf Hfo Hfi Hg).
Qed.
Print Assumptions C15_const_last_initialiser_wins.

(* UnionLayout.const (repaired by 65f681c: no len() of a lib.data.Const): a constant of the same union layout,
   e.g. the result of from_bits(), is accepted by a union-shaped field and passes through unchanged; a constant
   of a layout that compares different is refused with ValueError.  All unions, all raw values. *)
Theorem C15_union_const_passthrough rec fs l' raw : wf_layout (Union fs) = true ->
  xfield_init rec (Union fs) (XDConst (Union fs) raw) = Okz raw /\
  (layout_eqb (Union fs) l' = false -> xfield_init rec (Union fs) (XDConst l' raw) = Errz 3).
Proof. exact (union_const_passthrough rec fs l' raw). Qed.
Print Assumptions C15_union_const_passthrough.

(* the int-only model used above is the XVal/XMap fragment of the loop *)
Theorem C15_const_fold_is_generic rec l kvs cur : const_fold rec l kvs cur = gfold (field_init rec) l kvs cur.
Proof. exact (const_fold_gfold rec l kvs cur). Qed.
Print Assumptions C15_const_fold_is_generic.

Example C15_const_mixed_example :
  let l := Struct [(0, Leaf (Sh 4 true)); (1, Leaf (Sh 3 false)); (2, Leaf (Sh 2 true))] in
  let i := XMap [(0, XConst (-1) (Sh 2 true)); (1, XConst 255 (Sh 8 false)); (2, XConst 3 (Sh 2 false))] in
  wf_layout l = true /\ keys_disjoint l [0; 1; 2] = true /\ xlayout_const l i = Okz 511 /\
  const_getitem l 511 0 = Ok (Leaf (Sh 4 true)) (-1) /\ const_getitem l 511 1 = Ok (Leaf (Sh 3 false)) 7 /\
  const_getitem l 511 2 = Ok (Leaf (Sh 2 true)) (-1) /\
  (* flexible layout: wide field first, then a narrow constant into the overlapping signed(4) field at bit 2 *)
  xlayout_const (Flex 8 [(0, (0, Leaf (Sh 8 false))); (1, (2, Leaf (Sh 4 true)))])
                (XMap [(0, XVal 255); (1, XConst 1 (Sh 2 false))]) = Okz 199 /\
  (* lib.data.Const of an equal (flexible) layout into a struct-shaped field; a different layout is refused *)
  xlayout_const (Struct [(0, ex_inner)]) (XMap [(0, XDConst (Flex 4 [(1, (2, Leaf (Sh 2 true))); (0, (0, Leaf (Sh 2 false)))]) 9)]) = Okz 9 /\
  xlayout_const (Struct [(0, ex_inner)]) (XMap [(0, XDConst (Struct [(0, Leaf (Sh 4 false))]) 9)]) = Errz 3.
Proof. vm_compute. repeat split. Qed.

(* ---------------------------------------------------------------- designs assigning through views
   (`m.d.comb/sync += view[path].eq(x)`, any number of statements in program order; the same value is produced by
   the compiled simulator and by the emitted RTLIL, which the correspondence run executes through RtlilSem).
   All layouts, all statement lists with constant paths, all input values: the signal stays in range, every bit
   outside the assigned fields keeps the value it had (its own driver / init), and the statement that comes last
   makes its field read back the assigned value in the field's shape. *)
Theorem C15_design_assign_only_fields l env asgs cur : wf_layout l = true -> 0 <= cur < 2 ^ layout_size l ->
  (forall a, In a asgs -> sasg_ok l a) ->
  0 <= asgs_apply l env cur asgs < 2 ^ layout_size l /\
  forall i, 0 <= i ->
    (forall a c t, In a asgs -> path_chain l (sa_path a) = Some (c, t) ->
                   ~ (chain_off c <= i < chain_off c + layout_size t)) ->
    Z.testbit (asgs_apply l env cur asgs) i = Z.testbit cur i.
Proof. intros Hwf Hc Hok. exact (asgs_apply_outside l env Hwf asgs cur Hc Hok). Qed.
Print Assumptions C15_design_assign_only_fields.

Theorem C15_design_last_statement_wins l env asgs a cur c t : wf_layout l = true -> 0 <= cur < 2 ^ layout_size l ->
  (forall a', In a' asgs -> sasg_ok l a') -> sa_ix a = None -> sa_path a <> [] ->
  path_chain l (sa_path a) = Some (c, t) ->
  let r := asgs_apply l env cur (asgs ++ [a]) in
  view_path l r (sa_path a) = view_field t (mask (layout_size t) (nth (sa_in a) env 0)) /\
  (forall s, t = Leaf s -> view_path l r (sa_path a) = Ok (Leaf s) (norm s (nth (sa_in a) env 0))).
Proof. exact (asgs_apply_last l env asgs a cur c t). Qed.
Print Assumptions C15_design_last_statement_wins.

Example C15_design_example :
  sasg_ok ex_layout (SAsg [2; 1; 1] 0%nat None) /\ sasg_ok ex_layout (SAsg [0] 1%nat None) /\
  (* comb statements on f2[1].f1 and f0, then a clocked statement on f3.f1; inputs -1, 6, 5 *)
  synth ex_layout 225389 [SAsg [2; 1; 1] 0%nat None; SAsg [0] 1%nat None] [SAsg [3; 1] 2%nat None] [0; 0; 0]
        [SData [(0%nat, -1); (1%nat, 6); (2%nat, 5)]; SClk 1; SClk 0] = [200808; 225390; 192622; 192622].
Proof.
  split; [|split]; try (split; [reflexivity|split; [discriminate|eexists; eexists; vm_compute; reflexivity]]).
  vm_compute. reflexivity.
Qed.

(* ================================================================ translated source (translator unit "data")
   coq/Gen/DataGen.v is regenerated from the current text of /repo/amaranth/lib/data.py and lib/enum.py on every
   run; each generated function equals the hand model used above (Proofs/GenEqData.v).  LS = layout_size is the
   instance of `Shape.cast(_).width`; cv / cf / vf are the model's field_init / const_field / view_field. *)
From V.Model Require Import Ast Denote.
From V.Proofs Require Import GenEqData.
From V.Gen Require DataGen.

(* Field(shape, offset), .shape, .offset, .width *)
Theorem C15_translated_Field W f off : G.Field_new f off = (off, f) /\ G.Field_shape (off, f) = f /\
  G.Field_offset (off, f) = off /\ G.Field_width W (off, f) = W f.
Proof. exact (conj (gen_Field_new_eq f off) (conj (gen_Field_shape_eq off f)
                (conj (gen_Field_offset_eq off f) (gen_Field_width_eq W off f)))). Qed.
Print Assumptions C15_translated_Field.

(* StructLayout.__init__ (running offset), __iter__, __getitem__, size — all member lists, all keys *)
Theorem C15_translated_StructLayout fs k :
  G.StructLayout_new LS fs = struct_fields 0 fs /\
  G.StructLayout_iter (G.StructLayout_new LS fs) = fields_of (Struct fs) /\
  G.StructLayout_getitem (G.StructLayout_new LS fs) k = of_opt 1 (field_of (Struct fs) k) /\
  G.StructLayout_size LS (G.StructLayout_new LS fs) = layout_size (Struct fs).
Proof. exact (conj (gen_StructLayout_new_eq fs) (conj (gen_StructLayout_iter_eq fs)
                (conj (gen_StructLayout_getitem_eq fs k) (gen_StructLayout_size_eq fs)))). Qed.
Print Assumptions C15_translated_StructLayout.

(* UnionLayout.__init__ (offset 0), __iter__, __getitem__, size (max) *)
Theorem C15_translated_UnionLayout fs k :
  G.UnionLayout_iter (G.UnionLayout_new fs) = fields_of (Union fs) /\
  G.UnionLayout_getitem (G.UnionLayout_new fs) k = of_opt 1 (field_of (Union fs) k) /\
  G.UnionLayout_size LS (G.UnionLayout_new fs) = layout_size (Union fs).
Proof. exact (conj (gen_UnionLayout_iter_eq fs) (conj (gen_UnionLayout_getitem_eq fs k)
                (gen_UnionLayout_size_eq fs))). Qed.
Print Assumptions C15_translated_UnionLayout.

(* ArrayLayout.__iter__ (generator), __getitem__ (negative index, bounds -> KeyError), size — all lengths, all keys *)
Theorem C15_translated_ArrayLayout e n k :
  G.ArrayLayout_iter LS (G.ArrayLayout_new e (Z.of_nat n)) = fields_of (Array e n) /\
  G.ArrayLayout_getitem LS (G.ArrayLayout_new e (Z.of_nat n)) k = of_opt 1 (field_of (Array e n) k) /\
  G.ArrayLayout_size LS (G.ArrayLayout_new e (Z.of_nat n)) = layout_size (Array e n).
Proof. exact (conj (gen_ArrayLayout_iter_eq e n) (conj (gen_ArrayLayout_getitem_eq e n k)
                (gen_ArrayLayout_size_eq e n))). Qed.
Print Assumptions C15_translated_ArrayLayout.

(* FlexibleLayout.__init__: accepts what wf_layout describes and stores (size, fields); a field past the end is refused *)
Theorem C15_translated_FlexibleLayout_new sz fs : wf_layout (Flex sz fs) = true ->
  G.FlexibleLayout_new LS sz fs = G.Ret (sz, fs).
Proof. exact (gen_FlexibleLayout_new_eq sz fs). Qed.
Print Assumptions C15_translated_FlexibleLayout_new.
Theorem C15_translated_FlexibleLayout_new_rejects sz k o f r : sz < o + layout_size f ->
  G.FlexibleLayout_new LS sz ((k, (o, f)) :: r) = G.Raise 3.
Proof. exact (gen_FlexibleLayout_new_rejects sz k o f r). Qed.
Print Assumptions C15_translated_FlexibleLayout_new_rejects.

(* layout.__iter__ / layout[key] / layout.size through the class of the object — all layouts, all keys *)
Theorem C15_translated_Layout_methods l k : is_layout l = true ->
  G.Layout_iter LS l = fields_of l /\ G.Layout_getitem LS l k = of_opt 1 (field_of l k) /\
  G.Layout_size LS l = layout_size l /\ G.Layout_as_shape LS l = Sh (layout_size l) false.
Proof. exact (fun H => conj (gen_Layout_iter_eq l) (conj (gen_Layout_getitem_eq l k H)
                (conj (gen_Layout_size_eq l H) (gen_Layout_as_shape_eq l H)))). Qed.
Print Assumptions C15_translated_Layout_methods.

(* layout_size solves the recursion Shape.cast(obj).width -> as_shape() -> size of the source, and nothing else does *)
Theorem C15_translated_Shape_cast_width :
  (forall l, G.Shape_cast_width LS l = layout_size l) /\
  (forall W, (forall l, W l = G.Shape_cast_width W l) -> forall l, W l = layout_size l).
Proof. exact (conj gen_Shape_cast_width_eq gen_width_unique). Qed.
Print Assumptions C15_translated_Shape_cast_width.

(* data.Const(layout, target) / Layout.from_bits / Const.as_bits — all layouts, all integers *)
Theorem C15_translated_from_bits l raw : is_layout l = true ->
  G.Const_new LS l raw = of_res (from_bits l raw) /\ G.Layout_from_bits LS l raw = of_res (from_bits l raw) /\
  Okz (G.Const_as_bits (l, raw)) = as_bits (Ok l raw).
Proof. exact (fun H => conj (gen_Const_new_eq l raw H) (conj (gen_Layout_from_bits_eq l raw H)
                (gen_Const_as_bits_eq l raw))). Qed.
Print Assumptions C15_translated_from_bits.

(* Layout.const / UnionLayout.const: the packing loop — all well-formed layouts, all initialisers;
   `rec` is any treatment of nested initialisers, in particular the model itself *)
Theorem C15_translated_Layout_const l i : wf_layout l = true ->
  (forall rec, bits_of (G.Layout_const_virtual LS (cv rec) l i) = layout_const_step rec l i) /\
  bits_of (G.Layout_const_virtual LS (cv layout_const) l i) = layout_const l i.
Proof. exact (fun H => conj (fun rec => gen_Layout_const_virtual_step rec l i H)
                (gen_Layout_const_virtual_eq l i H)). Qed.
Print Assumptions C15_translated_Layout_const.

(* Const.__getitem__(int/str key) — everything, including non-layouts (TypeError) and missing keys *)
Theorem C15_translated_Const_getitem l raw k :
  G.Const_getitem LS cf (l, raw) k = of_res (const_getitem l raw k).
Proof. exact (gen_Const_getitem_eq l raw k). Qed.
Print Assumptions C15_translated_Const_getitem.

(* View.__getitem__ with an int/str key and with a Value key (current value idx) *)
Theorem C15_translated_View_getitem l tv k :
  G.View_getitem LS vf (l, tv) k = of_res (view_getitem l tv k) /\
  G.View_getitem_dyn LS vf (l, tv) k = of_res (view_getitem_dyn l tv k).
Proof. exact (conj (gen_View_getitem_eq l tv k) (gen_View_getitem_dyn_eq l tv k)). Qed.
Print Assumptions C15_translated_View_getitem.

(* FlagView.__invert__: the expression built by the source has the enum's shape exactly when the model answers
   Some, and then denotes the model's raw value; otherwise TypeError — all classes, all targets of the right shape *)
Theorem C15_translated_FlagView_invert E t en : 0 <= fwidth E -> shape_of t = Sh (fwidth E) false ->
  0 <= denote en t < 2 ^ fwidth E ->
  match G.FlagView_invert (E, t), fv_not_raw E (denote en t) with
  | G.Ret (E', e), Some v => E' = E /\ shape_of e = Sh (fwidth E) false /\ denote en e = v
  | G.Raise c, None => c = 4
  | _, _ => False
  end.
Proof. exact (gen_FlagView_invert_eq E t en). Qed.
Print Assumptions C15_translated_FlagView_invert.
Example C15_translated_FlagView_invert_example :
  G.FlagView_invert (ex_flags, ESig 0 (Sh 4 false)) =
    G.Ret (ex_flags, EOp2 OAnd (EOp1 ONot (ESig 0 (Sh 4 false))) (EConst 11 (Sh 4 false))) /\
  fv_not_raw ex_flags 1 = Some 10.
Proof. vm_compute. repeat split. Qed.

(* FlagView.__and__ / __or__ / __xor__ (through __bitop) *)
Theorem C15_translated_FlagView_bitop E a b o en : 0 <= fwidth E ->
  shape_of a = Sh (fwidth E) false -> shape_of b = Sh (fwidth E) false ->
  0 <= denote en a < 2 ^ fwidth E -> 0 <= denote en b < 2 ^ fwidth E ->
  let o2 := match o with BAnd => OAnd | BOr => OOr | BXor => OXor end in
  G.FlagView_bitop (E, a) (E, b) o2 = G.Ret (E, EOp2 o2 a b) /\
  shape_of (EOp2 o2 a b) = Sh (fwidth E) false /\
  denote en (EOp2 o2 a b) = fv_bop_raw E o (denote en a) (denote en b).
Proof. exact (gen_FlagView_bitop_eq E a b o en). Qed.
Print Assumptions C15_translated_FlagView_bitop.
Theorem C15_translated_FlagView_ops s o :
  G.FlagView_and s o = G.FlagView_bitop s o OAnd /\ G.FlagView_or s o = G.FlagView_bitop s o OOr /\
  G.FlagView_xor s o = G.FlagView_bitop s o OXor.
Proof. exact (conj (gen_FlagView_and_eq s o) (conj (gen_FlagView_or_eq s o) (gen_FlagView_xor_eq s o))). Qed.
Print Assumptions C15_translated_FlagView_ops.

(* placeholder *)
From V.Model Require Import Nir.

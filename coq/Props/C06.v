(* C06 — multiply-driven bits and combinational loops are rejected; legal designs are not.
   Model: Model/Nir.v (emit_assign / emit_drivers / connect / emit_top_ports / Module._add_statement;
   comb_edges_to of every cell and Netlist.check_comb_cycles).  Proofs: Proofs/NirP.v. *)
From Coq Require Import ZArith List Bool Arith.
From V.Model Require Import Nir.
From V.Proofs Require Import NirP.
Import ListNotations.

(* ---------------------------------------------------------------- example netlists *)
(* s (3 bits): s[1:3] = ~s[0:2], s[0] = input — bits of one signal feeding other bits of the same signal *)
Definition g_shift : netlist :=
  Netlist [CTop [(2, 1)]; COperator KNot 2 [[NL 3; NL 2]]]
          [(3, NC 0 2); (2, NC 1 0); (1, NC 1 1)] [[NL 3; NL 2; NL 1]].
(* the same wiring through a word-level operator (every output depends on every input) *)
Definition g_shift_word : netlist :=
  Netlist [CTop [(2, 1)]; COperator KOther 2 [[NL 3; NL 2]]]
          [(3, NC 0 2); (2, NC 1 0); (1, NC 1 1)] [[NL 3; NL 2; NL 1]].
(* a (2 bits): a = a[0] + 1 *)
Definition g_cyc : netlist :=
  Netlist [CTop []; COperator KOther 2 [[NL 2; NC 0 0]; [NC 0 1; NC 0 0]]]
          [(2, NC 1 0); (1, NC 1 1)] [[NL 2; NL 1]].

(* ---------------------------------------------------------------- cycles *)

(* For ALL netlists g whose cell 0 is Top (any other cells, connections, signals): a reported
   CombinationalCycle path p is a real, non-empty chain of comb edges from the reporting frame's net m back
   to m — or to an output s merged with m (same non-per-bit cell, hence the same comb edges) — and s lies on
   a real cycle (no false positive of the DFS). *)
Theorem C06_dfs_sound : forall g p,
  top_first g = true -> check_cycles g = VCycle p ->
  exists s m, chain g s p /\ p <> [] /\ last p s = m /\ (s = m \/ In s (extras g m)) /\ reach g s s.
Proof. exact dfs_sound. Qed.
Print Assumptions C06_dfs_sound.
Example C06_dfs_sound_ex : check_cycles g_cyc = VCycle [NL 2; NC 1 0] /\ top_first g_cyc = true
                           /\ check_cycles g_shift_word = VCycle [NL 2; NC 1 0].
Proof. vm_compute. repeat split. Qed.

(* For ALL netlists g — including cells whose outputs the DFS merges into one node (extra_nets) —:
   acceptance means that no net of the netlist reaches itself through >= 1 comb edge (no false negative).
   Running out of fuel is a different verdict (VFuel), excluded for well-formed netlists by C06_dfs_fuel. *)
Theorem C06_dfs_complete : forall g,
  check_cycles g = VAccept -> forall n, In n (all_nets g) -> ~ reach g n n.
Proof. exact dfs_complete. Qed.
Print Assumptions C06_dfs_complete.
Example C06_dfs_complete_ex : check_cycles g_shift = VAccept /\ wf_netlist g_shift = true.
Proof. vm_compute. split; reflexivity. Qed.

(* For ALL netlists whose edges stay inside the netlist: fuel = number of nets + 1 never runs out. *)
Theorem C06_dfs_fuel : forall g, wf_netlist g = true -> check_cycles g <> VFuel.
Proof. exact dfs_fuel. Qed.
Print Assumptions C06_dfs_fuel.
Example C06_dfs_fuel_ex : wf_netlist g_cyc = true /\ wf_netlist g_shift_word = true.
Proof. vm_compute. split; reflexivity. Qed.

(* For ALL netlists: the top-level `assert traverse(net) is None` never fails — a Cycle object always
   starts at a busy net, busy nets are the frames' nets and their merged siblings, and since the fix
   `cycle.start == net or cycle.start in extra_nets` (repo commit 93c56bc) both are caught by the owning frame. *)
Theorem C06_dfs_no_assert : forall g, check_cycles g <> VAssert.
Proof. exact dfs_no_assert. Qed.
Print Assumptions C06_dfs_no_assert.

(* For ALL well-formed netlists: a cycle through any of its nets is rejected with CombinationalCycle
   (no false negative, right exception). *)
Theorem C06_dfs_rejects_cycles : forall g n,
  wf_netlist g = true -> In n (all_nets g) -> reach g n n -> exists p, check_cycles g = VCycle p.
Proof. exact dfs_rejects_cycles. Qed.
Print Assumptions C06_dfs_rejects_cycles.
(* m.d.comb += a.eq(a[1] + 1): entered by adder output 0, closed on sibling output 1 (formerly AssertionError) *)
Example C06_dfs_rejects_cycles_ex :
  wf_netlist g_assert = true /\ top_first g_assert = true /\ reach g_assert (NL 1) (NL 1)
  /\ check_cycles g_assert = VCycle [NL 1; NC 1 0].
Proof. exact dfs_sibling_cycle_reported. Qed.

(* For ALL per-bit cells (~ & | ^ Mux AssignmentList IOBuffer), bits and valuations: output bit `bit`
   is a function of the nets in comb_edges c bit only — the modelled edge relation contains every input
   bit that can influence the output bit, and for these cells nothing but position `bit` of each operand
   (Slice / Cat are pure re-indexings of nets and create no cell).  So bits of one signal feeding other
   bits of the same signal create no cycle in the model (C06_dfs_complete_ex: g_shift is accepted, while
   the same wiring through a word-level operator, g_shift_word, is reported). *)
Theorem C06_per_bit_precise : forall c bit v1 v2,
  per_bit c = true -> (forall n, In n (comb_edges c bit) -> v1 n = v2 n) ->
  cell_bit v1 c bit = cell_bit v2 c bit.
Proof. exact per_bit_precise. Qed.
Print Assumptions C06_per_bit_precise.
Example C06_per_bit_precise_ex :
  per_bit (COperator KXor 2 [[NL 1; NL 2]; [NL 3; NL 4]]) = true
  /\ comb_edges (COperator KXor 2 [[NL 1; NL 2]; [NL 3; NL 4]]) 1 = [NL 2; NL 4]
  /\ comb_edges (CAssign [NL 1; NL 2] [(NL 9, 1, [NL 5])]) 0 = [NL 1]
  /\ comb_edges (CAssign [NL 1; NL 2] [(NL 9, 1, [NL 5])]) 1 = [NL 2; NL 9; NL 5].
Proof. vm_compute. repeat split. Qed.

(* ---------------------------------------------------------------- design level *)
(* For ALL designs of the statement language of Model/Nir.v Part III (wiring / bit-precise / word-level expressions,
   targets that read signals through a part-select offset or an array index, flip-flops with clock and asynchronous
   reset, read ports, I/O buffers; any number of statements): the oracle the harness runs next to the real emitter and
   checker — dependency graph, one word-level cell per driven bit, then the verified DFS — answers "cyclic" exactly
   when some signal bit depends on itself through >= 1 step of the dependency SPEC dep1.  (That the real
   emit_rhs / emit_assign produce a netlist with these dependencies is what the differential run compares.) *)
Theorem C06_design_cyclicb_iff : forall sts, design_cyclicb sts = true <-> design_cyclic sts.
Proof. exact design_cyclicb_iff. Qed.
Print Assumptions C06_design_cyclicb_iff.
Example C06_design_cyclicb_ex :
  (* s.bit_select(s[0:2], 1).eq(1): every bit of s depends on s[0:2] through the target's offset *)
  design_cyclicb [CSAssign None (CTPart 0 0 4 (XSl 0 0 2) 1 1) (XConst 1) None] = true
  /\ design_cyclicb [CSAssign None (CTPart 0 2 4 (XSl 0 0 2) 1 1) (XConst 1) None] = false
  (* a register clocked by a gate on its own output; the same with the clock from an input *)
  /\ design_cyclicb [CSAssign (Some [(8, 0)]) (CTSl 0 0 1) (XConst 1) None;
                     CSAssign None (CTSl 8 0 1) (XBw (XSl 0 0 1) (XSl 2 0 1)) None] = true
  /\ design_cyclicb [CSAssign (Some [(8, 0)]) (CTSl 0 0 1) (XNot (XSl 0 0 1)) None;
                     CSAssign None (CTSl 8 0 1) (XSl 2 0 1) None] = false
  (* a = a << s is cyclic, a[1:4] = ~a[0:3] is not *)
  /\ design_cyclicb [CSAssign None (CTSl 0 0 4) (XW2 X_shl (XSl 0 0 4) (XSl 2 0 2)) None] = true
  /\ design_cyclicb [CSAssign None (CTSl 0 1 4) (XNot (XSl 0 0 3)) None] = false.
Proof. vm_compute. repeat split. Qed.

(* ---------------------------------------------------------------- drivers *)

(* For ALL well-formed targets t (any nesting of Slice / Part / Cat / array element / casts, any widths,
   offsets, strides) and all signal bits: the bit ranges emit_assign records in the NetlistDriver for
   `t.eq(...)` cover exactly the bits that t may address for SOME selector value (spec `addr`: slices exact;
   part-select: every offset value below 2^len(offset) whose window starts inside the operand, clipped to it;
   Cat: the part the position falls into; array element: any element). *)
Theorem C06_emit_assign_spec : forall t s b, wf_tgt t = true ->
  (covered (emit_assign t 0 (tlen t)) s b <-> may_drive t s b).
Proof. intros t s b W. exact (emit_assign_may_drive t s b W). Qed.
Print Assumptions C06_emit_assign_spec.
Example C06_emit_assign_spec_ex :
  let t := TCat [TPart (TSlice (TSig 0 8) 2 8) 2 3 2; TSwitch 2 [TSlice (TSig 1 4) 1 3; TSig 2 2]] in
  wf_tgt t = true /\ tlen t = 5
  /\ emit_assign t 0 5 = [AR 0 8 2 3; AR 0 8 4 3; AR 0 8 6 2; AR 1 4 1 2; AR 2 2 0 2].
Proof. vm_compute. repeat split. Qed.

(* The same for every target the public API builds, INCLUDING arrays whose elements have different widths
   (ArrayProxy pushes slices / part-selects into the elements, so a SwitchValue with narrower elements is only
   assigned from position 0, possibly through Cat parts and casts): whole assignments cover exactly may_drive. *)
Theorem C06_emit_assign_spec_top : forall t, wf_tgt_top t = true -> forall s b,
  (covered (emit_assign t 0 (tlen t)) s b <-> may_drive t s b).
Proof. exact emit_assign_spec_top. Qed.
Print Assumptions C06_emit_assign_spec_top.
Example C06_emit_assign_spec_top_ex :
  let t := TCat [TSwitch 4 [TSig 1 2; TSig 2 4]; TCast (TSwitch 3 [TSlice (TSig 3 8) 1 4; TSig 4 1])] in
  wf_tgt_top t = true
  /\ emit_assign t 0 (tlen t) = [AR 1 2 0 2; AR 2 4 0 4; AR 3 8 1 3; AR 4 1 0 1].
Proof. vm_compute. repeat split. Qed.

(* For ALL well-formed targets and windows: every record emit_assign makes names a signal of the target with that
   signal's width and lies inside it — in particular through a slice of a choice between values of different widths
   (Mux(idx, a4, b8)[2:6]: a4 is recorded on [2:4], not [2:6]; the pre-961f42e code overhung and died with IndexError). *)
Theorem C06_emit_assign_bounds : forall t, wf_tgt t = true -> forall start len r,
  start + len <= tlen t -> In r (emit_assign t start len) ->
  In (a_sig r, a_w r) (tgt_sigs t) /\ a_start r + a_len r <= a_w r.
Proof. exact emit_assign_bounds. Qed.
Print Assumptions C06_emit_assign_bounds.
Example C06_emit_assign_bounds_ex :
  let t := TSlice (TSwitch 8 [TSig 2 8; TSig 1 4]) 2 6 in
  wf_tgt t = true /\ emit_assign t 0 4 = [AR 2 8 2 4; AR 1 4 2 2]
  /\ emit_assign (TSlice (TSwitch 8 [TSig 2 8; TSig 1 4]) 5 7) 0 2 = [AR 2 8 5 2].
Proof. vm_compute. repeat split. Qed.

(* For ALL targets: the computable form used by conflictb (and run by the harness) is the declarative spec *)
Theorem C06_may_driveb_iff : forall t s b, may_driveb t s b = true <-> may_drive t s b.
Proof. exact may_driveb_iff. Qed.
Print Assumptions C06_may_driveb_iff.

(* For ALL bit lists and connection tables: connect() — the final single-driver assertion every driver,
   instance / read-port / buffer output and input port goes through — succeeds exactly when every bit is
   connected for the first time (and then records all of them); a raised error names a bit of the new value
   that is already connected (or listed twice in the value itself). *)
Theorem C06_connect_spec : forall bits conns c',
  connect bits conns = inl c' <->
  (NoDup bits /\ (forall x, In x bits -> ~ In x conns) /\ c' = rev bits ++ conns).
Proof. exact connect_spec. Qed.
Print Assumptions C06_connect_spec.
Theorem C06_connect_err : forall bits conns e,
  connect bits conns = inr e ->
  exists s b, e = ErrConnect s b /\ In (s, b) bits /\ (In (s, b) conns \/ ~ NoDup bits).
Proof. exact connect_err. Qed.
Print Assumptions C06_connect_err.
Example C06_connect_ex :
  connect [(0, 2); (0, 3)] [(0, 1); (0, 0)] = inl [(0, 3); (0, 2); (0, 1); (0, 0)]
  /\ connect [(0, 1); (0, 2)] [(0, 1); (0, 0)] = inr (ErrConnect 0 1).
Proof. vm_compute. split; reflexivity. Qed.

(* UNBOUNDED.  For EVERY design tree (any number of modules at any depth, statements, domains, signals, widths, target
   forms incl. part-selects / Cat / arrays of different widths, any number of Instance / read-port / buffer outputs and
   ports) that is well-formed —
     targets are ones the API can build (wf_tgt_top: slices inside their operand — EMPTY slices s[1:1] included —, stride
       >= 1, array / choice elements no wider than the array value);
     every signal has ONE width W s, in all targets and ports;
     every signal is a port at most once —
   the whole-design check as modelled (walk with preorder module indices, per-(module, domain) drivers, outputs connected
   at once, emit_drivers with its `len(sig_drivers) == 1` shortcut and per-bit driven_bits, connect(), emit_top_ports)
   raises DriverConflict IF AND ONLY IF some signal bit has two different sources: two different (module, domain) pairs
   that may address it for some selector value, logic and an instance / memory / buffer output, two outputs, or any of
   these and an Input port.  Both directions: no false negative, no false positive for bit-disjoint drivers.
   The former hypothesis "every driver the emitter creates covers at least one bit" is gone: since the repo fix of
   C06-zero-width-driver-vs-input-port the single-driver shortcut of emit_drivers requires the driver to assign at least
   one bit (`any(len(assign.value) for assign in driver.assignments)`), so a bit-less driver (s[1:1].eq(0)) is no source
   of any bit in the code as in the spec (d3 in the Example: formerly DriverConflict on bit 0 against the Input port).
   That emit_assign's records stay inside their signal (the IndexError of C06-choice-target-overhang-indexerror, repaired
   by repo 961f42e) is no longer assumed: it is NirP.emit_assign_bounds, proved for the repaired SwitchValue branch. *)
Theorem C06_driver_check_iff : forall W d, wf_design W d -> (driver_table d <> None <-> conflict d).
Proof. exact driver_check_iff. Qed.
Print Assumptions C06_driver_check_iff.
Example C06_driver_check_iff_ex :
  let W := fun s => match s with 0 => 4 | 1 => 2 | _ => 1 end in
  let d1 := Design (FMod [(0, TSlice (TSig 0 4) 0 2)]
                         [FMod [(1, TPart (TSig 0 4) 1 2 2); (0, TSwitch 2 [TSig 1 2; TSlice (TSig 2 1) 0 1])]
                               [FOut [TSlice (TSig 0 4) 3 4]; FMod [(2, TCat [TSlice (TSig 0 4) 2 3; TSig 3 1])] []]])
                   [(4, 1, PIn); (3, 1, PNone)] in
  let d2 := Design (FMod [(0, TSlice (TSig 0 4) 0 2)] [FMod [(1, TSlice (TSig 0 4) 2 3)] [FOut [TSlice (TSig 0 4) 3 4]]])
                   [(1, 2, PIn)] in
  let d3 := Design (FMod [(1, TSlice (TSig 0 4) 1 1)] [FMod [(0, TCat [TSlice (TSig 0 4) 2 2; TSlice (TSig 1 2) 0 0])] []])
                   [(0, 4, PIn); (1, 2, PNone)] in
  wf_designb W d1 = true /\ driver_table d1 = Some (ErrDomain 0 0)
  /\ wf_designb W d2 = true /\ driver_table d2 = None
  /\ wf_designb W d3 = true /\ driver_table d3 = None.
Proof. vm_compute. repeat split. Qed.
Example C06_driver_check_iff_wf : forall W d, wf_designb W d = true -> wf_design W d.
Proof. exact wf_designb_sound. Qed.

(* PARTIAL (finite domain, by computation): on every design of the systematic family
     (fan tree)   {slice of every range in 3 (module, domain) positions, 5 part-selects of the whole signal,
                   an Instance-style output on every range}
                  x {every target form (slice / part-select / Cat / array element / cast / whole-signal
                     part-select) of every range x 3 modules x 3 domains, outputs under 3 modules}
     (chain tree) {slices in 2 positions, outputs} x {the same 525 placements}
     (ports)      every single placement x port direction None / Input / Output
   the whole-design check raises DriverConflict iff some bit has two sources (conflictb: two different
   (module, domain) pairs that may address it for some selector value, or logic and an output / input port).
   Missing for the full statement: the unbounded induction over arbitrary trees and statement lists;
   the differential run compares driver_table and conflictb with the real emitter on ~8k designs. *)
Theorem C06_driver_check_iff_partial : forall d,
  In d (family true placements_a [] ++ family false placements_b [] ++ family_ports) ->
  (driver_table d <> None <-> conflictb d = true).
Proof. exact driver_check_iff_family. Qed.
Print Assumptions C06_driver_check_iff_partial.
Example C06_driver_check_iff_partial_ex :
  Z.of_nat (length (family true placements_a [] ++ family false placements_b [] ++ family_ports)) = 40950%Z
  /\ driver_table (Design (tree true [PStmt 1 0 (TSlice (TSig 0 4) 0 2); PStmt 2 0 (TSlice (TSig 0 4) 1 3)]) [])
     = Some (ErrModule 0 1)
  /\ driver_table (Design (tree true [PStmt 1 0 (TSlice (TSig 0 4) 0 2); PStmt 2 1 (TSlice (TSig 0 4) 2 4)]) [])
     = None.
Proof. vm_compute. repeat split. Qed.

(* "designs whose drivers are bit-disjoint are accepted" is FALSE of the DSL's early check (S2):
   s.word_select(o1, 2) in comb and s[4:8] in another domain of the same module are bit-disjoint, the
   whole-design check accepts them (third conjunct: same drivers in two submodules), Module._add_statement
   raises SyntaxError on bit 4 because LHSMaskCollector takes Part => whole operand. *)
Theorem C06_early_conflict_refuted :
  early_conflict s2_stmts = Some (0, 4) /\ conflictb (Design (FMod s2_stmts []) []) = false
  /\ driver_table (Design (FMod [] [FMod [(0, TPart (TSig 0 8) 1 2 2)] []; FMod [(1, TSlice (TSig 0 8) 4 8)] []]) []) = None.
Proof. exact early_conflict_refuted. Qed.
Print Assumptions C06_early_conflict_refuted.

(* For ALL statement lists of one module (any targets, domains, order): Module._add_statement raises its early
   "Driver-driver conflict" SyntaxError exactly when two statements of DIFFERENT domains have a common bit in their
   LHSMaskCollector masks (mbits: slices exact, Cat distributes, array element = every element, Part = its whole
   operand — which is where S2 comes from: see the Example). *)
Theorem C06_early_conflict_iff : forall stmts,
  early_conflict stmts <> None <->
  exists x d1 t1 d2 t2, d1 <> d2 /\ In (d1, t1) stmts /\ In (d2, t2) stmts /\ In x (mbits t1) /\ In x (mbits t2).
Proof. exact early_conflict_iff. Qed.
Print Assumptions C06_early_conflict_iff.
Example C06_early_conflict_iff_ex :
  mbits (TPart (TSig 0 8) 1 2 2) = [(0,0);(0,1);(0,2);(0,3);(0,4);(0,5);(0,6);(0,7)]
  /\ mbits (TSlice (TSig 0 8) 4 8) = [(0,4);(0,5);(0,6);(0,7)]
  /\ mbits (TCat [TSlice (TSig 0 8) 1 3; TSwitch 2 [TSlice (TSig 1 4) 0 2; TSlice (TSig 2 4) 2 4]])
     = [(0,1);(0,2);(1,0);(1,1);(2,2);(2,3)]
  /\ early_conflict [(0, TSlice (TSig 0 8) 0 4); (1, TSlice (TSig 0 8) 4 8); (0, TSig 1 2)] = None
  /\ early_conflict [(0, TSlice (TSig 0 8) 0 5); (0, TSig 1 2); (1, TSlice (TSig 0 8) 4 8)] = Some (0, 4).
Proof. vm_compute. repeat split. Qed.

(* For ALL targets (any nesting of slices, part-selects, Cat, arrays / choices of any widths, casts) whose signals have
   one width each (table W): every bit the target may address for SOME selector value (may_drive, the relation used in
   `conflict`) is set in its LHSMaskCollector mask. *)
Theorem C06_mask_covers_may_drive : forall W t s b, sigs_ok W t -> may_drive t s b -> In (s, b) (mbits t).
Proof. exact mask_covers_may_drive. Qed.
Print Assumptions C06_mask_covers_may_drive.

(* For ALL statement lists of one module whose targets give each signal one width: if two statements of DIFFERENT
   domains may drive a common bit, Module._add_statement raises its early SyntaxError — the early check never misses an
   intra-module domain conflict.  The CONVERSE IS FALSE (finding S2-early-conflict-part-overapprox, C06_early_conflict_
   refuted above: s.word_select(o1, 2) in comb and s[4:8] in another domain share no bit, yet the error is raised,
   because the mask of a part-select is its whole operand — see C06_early_conflict_iff_ex). *)
Theorem C06_early_check_complete : forall W stmts,
  (forall dm t, In (dm, t) stmts -> sigs_ok W t) ->
  (exists s b d1 t1 d2 t2, d1 <> d2 /\ In (d1, t1) stmts /\ In (d2, t2) stmts /\ may_drive t1 s b /\ may_drive t2 s b) ->
  early_conflict stmts <> None.
Proof. exact early_check_complete. Qed.
Print Assumptions C06_early_check_complete.
Example C06_early_check_complete_ex :
  (* hypotheses satisfiable: a part-select that really reaches bit 3 from comb, the slice s[3:5] from domain 1 *)
  let stmts := [(0, TPart (TSlice (TSig 0 8) 0 4) 1 3 1); (1, TSlice (TSig 0 8) 3 5)] in
  may_driveb (snd (nth 0 stmts (0, TSig 0 0))) 0 3 = true /\ may_driveb (snd (nth 1 stmts (0, TSig 0 0))) 0 3 = true
  /\ early_conflict stmts = Some (0, 3)
  (* and the converse fails on the S2 statements: no common drivable bit, error raised *)
  /\ early_conflict s2_stmts = Some (0, 4)
  /\ forallb (fun b => negb (may_driveb (TPart (TSig 0 8) 1 2 2) 0 b && may_driveb (TSlice (TSig 0 8) 4 8) 0 b)) (seq 0 8) = true.
Proof. vm_compute. repeat split. Qed.

(* marginal, now covered by C06_driver_check_iff: a zero-width target creates a bit-less sole driver; emit_drivers no
   longer widens it to the whole signal (repo fix of C06-zero-width-driver-vs-input-port), so the signal can be an Input
   port (formerly DriverConflict "Bit 0 ... has multiple drivers" although no bit has two sources); a sole driver of ONE
   bit is still widened, and collides with the Input port — rightly, bit 1 has two sources — with connect() naming bit 0 *)
Theorem C06_zero_width_accepted :
  let d := Design (FMod [(0, TSlice (TSig 0 4) 1 1)] []) [(0, 4, PIn)] in
  let d1 := Design (FMod [(0, TSlice (TSig 0 4) 1 2)] []) [(0, 4, PIn)] in
  driver_table d = None /\ conflictb d = false /\ driver_table d1 = Some (ErrConnect 0 0) /\ conflictb d1 = true.
Proof. exact zero_width_accepted. Qed.
Print Assumptions C06_zero_width_accepted.

(* ---------------------------------------------------------------- regenerated from the source (translator unit "nir") *)
(* Gen/NirGen.v is regenerated from the current text of /repo/amaranth/hdl/_nir.py on every run (class Net, every
   Cell subclass's comb_edges_to / comb_edges_is_per_bit / output_nets, Netlist.check_comb_cycles); Proofs/GenEqNir.v
   proves it equal to Model/Nir.v.  `alpha` maps a Python cell (the typed fields of its __init__) to the model's
   cell; `G.Error` = any exception other than CombinationalCycle. *)
From V.Gen Require NirGen.
From V.Proofs Require GenEqNir.

(* For ALL Python cells (any class, any operator string, any widths) and ALL bits: comb_edges_to(bit) as translated
   yields exactly the model's edge list, in yield order — or raises exactly when `edges_defined` says so (IndexError
   of `value[bit]`, `assert self.operator == "m"`, NotImplementedError of the classes without the method).
   Guard py_ok: start positions are >= 0 and an Operator has at most 3 inputs (what the netlist builder produces). *)
Theorem C06_translated_comb_edges_to : forall c bit, GenEqNir.py_ok c ->
  NirGen.cell_comb_edges_to c (Z.of_nat bit) =
  if GenEqNir.edges_defined c bit then NirGen.Ok (comb_edges (GenEqNir.alpha c) bit) else NirGen.Error.
Proof. exact GenEqNir.gen_comb_edges_to_eq. Qed.
Print Assumptions C06_translated_comb_edges_to.

(* For ALL Python cells: comb_edges_is_per_bit() as translated = the model's per_bit (no guard). *)
Theorem C06_translated_comb_edges_is_per_bit : forall c,
  NirGen.cell_comb_edges_is_per_bit c =
  if GenEqNir.has_edges c then NirGen.Ok (per_bit (GenEqNir.alpha c)) else NirGen.Error.
Proof. exact GenEqNir.gen_comb_edges_is_per_bit_eq. Qed.
Print Assumptions C06_translated_comb_edges_is_per_bit.

(* For ALL Python cells and cell indices: output_nets(idx) as translated (sets as lists in insertion order) = the
   model's outputs; an Operator with an unknown operator string has no width (`assert False`). *)
Theorem C06_translated_output_nets : forall c idx, GenEqNir.py_ok c ->
  NirGen.cell_output_nets c (Z.of_nat idx) =
  if GenEqNir.width_defined c then NirGen.Ok (outputs (GenEqNir.alpha c) idx) else NirGen.Error.
Proof. exact GenEqNir.gen_output_nets_eq. Qed.
Print Assumptions C06_translated_output_nets.

(* For ALL Python netlists (any cells, connections, signals): Netlist.check_comb_cycles as translated (the closure
   `traverse` with its `checked` / `busy` sets, `extra_nets`, the `cycle.start == net or cycle.start in extra_nets`
   test, the two root loops), run with the model's fuel, either dies with an exception other than
   CombinationalCycle, or ends exactly like the model on the abstracted netlist: returns / raises
   CombinationalCycle with the same path / runs out of fuel. *)
Theorem C06_translated_check_comb_cycles : forall cells conn signals, Forall GenEqNir.py_ok cells ->
  let g := Netlist (map GenEqNir.alpha cells) conn (map snd signals) in
  let r := NirGen.check_comb_cycles cells (map (fun p => (NL (fst p), snd p)) conn) signals (S (length (all_nets g))) in
  r = NirGen.Error \/ r = GenEqNir.result_of_verdict (check_cycles g).
Proof. exact GenEqNir.gen_check_comb_cycles_eq. Qed.
Print Assumptions C06_translated_check_comb_cycles.
(* the guards hold and the Error alternative is not taken on concrete netlists (cyclic and acyclic ones) *)
Example C06_translated_check_comb_cycles_ex :
  Forall GenEqNir.py_ok GenEqNir.py_mux /\ Forall GenEqNir.py_ok GenEqNir.py_sibling
  /\ NirGen.check_comb_cycles GenEqNir.py_sibling (GenEqNir.pyc GenEqNir.conn2) [(0%Z, [NL 2; NL 1])] 20
     = NirGen.RaiseCycle [NL 1; NC 1 0]
  /\ NirGen.check_comb_cycles GenEqNir.py_shift (GenEqNir.pyc GenEqNir.conn3) [(0%Z, [NL 3; NL 2; NL 1])] 20
     = NirGen.Ok tt.
Proof.
  split; [apply GenEqNir.py_examples_ok|]. split; [apply GenEqNir.py_examples_ok|].
  split; [apply GenEqNir.gen_check_examples|apply GenEqNir.gen_check_examples].
Qed.

(* For ALL WELL-FORMED Python netlists — cell outputs are not the constant nets and are listed once, signals hold
   late / constant / cell-output nets, every late net is connected (wf_struct), every comb edge stays inside the netlist
   (wf_netlist), every cell's width / comb_edges_to are defined on its own output bits (cells_defined) — the Error
   alternative above is NOT taken: the translated search raises no IndexError / KeyError / AssertionError (busy.remove
   always finds its net, `assert extra_net not in checked` and `assert traverse(net) is None` never fail), does not run
   out of the model's fuel, and ends exactly like the model: returns, or raises CombinationalCycle with the same path.
   (The harness checks wf_struct / wf_netlist on every netlist the real emitter produces and runs the translated
   function on each of them.) *)
From V.Proofs Require GenEqNirSafe.
Theorem C06_translated_check_comb_cycles_wf : forall cells conn signals, Forall GenEqNir.py_ok cells ->
  let g := Netlist (map GenEqNir.alpha cells) conn (map snd signals) in
  wf_struct g = true -> wf_netlist g = true -> GenEqNirSafe.cells_defined cells = true ->
  let r := NirGen.check_comb_cycles cells (map (fun p => (NL (fst p), snd p)) conn) signals (S (length (all_nets g))) in
  r = GenEqNir.result_of_verdict (check_cycles g) /\ r <> NirGen.Error /\ r <> NirGen.Fuel.
Proof. exact GenEqNirSafe.gen_check_comb_cycles_wf. Qed.
Print Assumptions C06_translated_check_comb_cycles_wf.
Example C06_translated_check_comb_cycles_wf_ex :
  let g := Netlist (map GenEqNir.alpha GenEqNir.py_sibling) GenEqNir.conn2 [[NL 2; NL 1]] in
  wf_struct g = true /\ wf_netlist g = true /\ GenEqNirSafe.cells_defined GenEqNir.py_sibling = true
  /\ GenEqNirSafe.cells_defined GenEqNir.py_mux = true.
Proof. vm_compute. repeat split. Qed.

(* class Net over the raw Python integers agrees with the abstract nets NC cell bit / NL late used everywhere
   else, through the encoding (cell << 16) | bit, negative = late; guard net_ok: bit < 2^16, late index >= 1. *)
Theorem C06_translated_Net : forall n, GenEqNir.net_ok n ->
  NirGen.Net_is_const (GenEqNir.enc n) = NirGen.Ok (is_const n)
  /\ NirGen.Net_is_late (GenEqNir.enc n) = NirGen.Ok (NirGen.net_is_late n)
  /\ NirGen.Net_cell (GenEqNir.enc n) = NirGen.net_cell n
  /\ NirGen.Net_bit (GenEqNir.enc n) = NirGen.net_bit n.
Proof.
  intros n H. repeat split;
    [apply GenEqNir.gen_Net_is_const_eq|apply GenEqNir.gen_Net_is_late_eq|apply GenEqNir.gen_Net_cell_eq
    |apply GenEqNir.gen_Net_bit_eq]; exact H.
Qed.
Print Assumptions C06_translated_Net.
(* Net.from_cell: its three assertions, then the encoding of the abstract net (all cell indices, all bits) *)
Theorem C06_translated_Net_from_cell : forall c b,
  NirGen.Net_from_cell (Z.of_nat c) (Z.of_nat b) =
  if ((Z.of_nat b <? 65536)%Z && (negb (c =? 0) || (2 <=? b)))%bool
  then NirGen.Ok (GenEqNir.enc (NirGen.mk_net (Z.of_nat c) (Z.of_nat b))) else NirGen.Error.
Proof. exact GenEqNir.gen_Net_from_cell_eq. Qed.
Print Assumptions C06_translated_Net_from_cell.

(* C09 — elaboration and simulation are reproducible.
   Only statements here; proofs live in Proofs/ReproP.v.  Model: Model/Repro.v (DomainCollector,
   _create_missing_domains, _add_name / _assign_port_names / _assign_names, BuildPlan, Simulator.reset
   as written in the pinned tree).  Every place where the code iterates a Python `set` takes the
   enumeration order as an argument; the theorems say the result is the same for every enumeration.
   The clause "in separate interpreters with different string-hash seeds" is about CPython's set
   iteration and is EXPLORED by the harness (harness/props/c09.py, extra()), not proved: what is proved
   is that the modelled steps do not depend on any set enumeration order. *)
From Coq Require Import ZArith List Bool Permutation Sorted.
From V.Model Require Import Repro.
From V.Proofs Require Import ReproP.
Import ListNotations.
Open Scope Z_scope.

Definition n_a : name := [97].
Definition n_b : name := [98].
Definition n_alpha : name := [97; 108; 112; 104; 97].
Definition n_beta : name := [98; 101; 116; 97].
Definition n_gamma : name := [103; 97; 109; 109; 97].
Definition n_sync : name := s_sync.

(* ------------------------------------------------------------------ sorted() is enumeration independent *)
(* all lists of strings (no NoDup needed: the order on strings is antisymmetric) *)
Theorem C09_sorted_order_independent l l' : Permutation l l' -> sort l = sort l'.
Proof. exact (sort_perm_eq l l'). Qed.
Print Assumptions C09_sorted_order_independent.

Theorem C09_sorted_is_sorted l : StronglySorted (fun a b => lex_leb a b = true) (sort l) /\ Permutation (sort l) l.
Proof. split; [exact (sort_sorted l)|exact (sort_perm l)]. Qed.
Print Assumptions C09_sorted_is_sorted.

(* ------------------------------------------------------------------ (1) missing clock domains *)
(* for every set of used-but-undefined domains and any two enumerations o, o' of it: the same domains are
   created in the same order, hence the same clk/rst ports in the same order *)
Theorem C09_missing_domains_order_independent o o' :
  Permutation o o' ->
  create_missing_sorted o = create_missing_sorted o' /\
  new_ports (create_missing_sorted o) = new_ports (create_missing_sorted o').
Proof. exact (missing_domains_order_independent o o'). Qed.
Print Assumptions C09_missing_domains_order_independent.

Example C09_missing_domains_example :
  Permutation [n_gamma; n_alpha; n_sync; n_beta] [n_beta; n_sync; n_gamma; n_alpha] /\
  create_missing_sorted [n_gamma; n_alpha; n_sync; n_beta] = [n_alpha; n_beta; n_gamma; n_sync] /\
  nth 6 (new_ports (create_missing_sorted [n_beta; n_sync; n_gamma; n_alpha])) [] = s_clk.
Proof.
  split; [|split; vm_compute; reflexivity].
  apply Permutation_sym. apply (Permutation_trans (l' := [n_sync; n_beta; n_gamma; n_alpha])); [apply perm_swap|].
  apply (Permutation_trans (l' := [n_sync; n_gamma; n_beta; n_alpha])); [apply perm_skip, perm_swap|].
  apply (Permutation_trans (l' := [n_gamma; n_sync; n_beta; n_alpha])); [apply perm_swap|].
  apply perm_skip. apply (Permutation_trans (l' := [n_sync; n_alpha; n_beta])); [apply perm_skip, perm_swap|].
  apply (Permutation_trans (l' := [n_alpha; n_sync; n_beta])); [apply perm_swap|]. apply Permutation_refl.
Qed.

(* exactly the missing domains are created (none lost, none invented), whatever the enumeration *)
Theorem C09_missing_domains_complete o :
  Permutation (create_missing_sorted o) (filter (fun d => negb (name_eqb d s_comb)) o).
Proof. exact (created_sorted_perm o). Qed.
Print Assumptions C09_missing_domains_complete.

(* F3 (the defect fixed by 7c54fac): iterating the set itself, two enumerations give different port lists *)
Theorem C09_missing_domains_unsorted_refuted :
  exists o o', Permutation o o' /\ new_ports (create_missing_hashed o) <> new_ports (create_missing_hashed o').
Proof. exact missing_domains_unsorted_refuted. Qed.
Print Assumptions C09_missing_domains_unsorted_refuted.

(* ------------------------------------------------------------------ (2) name assignment *)
(* assigned_names is a Python set: for every two layouts A, B of the same set and every run of requests,
   _add_name hands out the same names (or fails in both) *)
Theorem C09_names_depend_on_ordered_input_only ns A B :
  Permutation A B -> option_map fst (add_names A ns) = option_map fst (add_names B ns).
Proof. exact (add_names_set_independent ns A B). Qed.
Print Assumptions C09_names_depend_on_ordered_input_only.

(* every name handed out by any run of _add_name calls on any set is new and unlike all the others *)
Theorem C09_add_names_unique A ns out A' :
  NoDup A -> add_names A ns = Some (out, A') ->
  NoDup out /\ (forall x, In x out -> ~ In x A) /\ length out = length ns.
Proof. exact (add_names_unique A ns out A'). Qed.
Print Assumptions C09_add_names_unique.

(* one fragment, all ports / used signals (in first-use order) / IO ports / subfragments: if
   _assign_names returns, all names of signals, IO ports and subfragments are pairwise distinct *)
Theorem C09_names_unique tports sigs ios subs r :
  NoDup (map pname tports) -> assign_names tports sigs ios subs = Some r ->
  NoDup (vals (nm_signals r) ++ vals (nm_ios r) ++ nm_subs r).
Proof. exact (assign_names_unique tports sigs ios subs r). Qed.
Print Assumptions C09_names_unique.

(* ... and it ALWAYS returns: for every fragment, whatever the names (since fix cb9d97a the retry loop of
   _add_name replaces the assertion; its |assigned|+1 iterations of fuel in the model are never exhausted) *)
Theorem C09_names_total tports sigs ios subs : exists r, assign_names tports sigs ios subs = Some r.
Proof. exact (assign_names_total tports sigs ios subs). Qed.
Print Assumptions C09_names_total.

(* every run of _add_name calls on every set returns *)
Theorem C09_add_names_total ns A : exists out A', add_names A ns = Some (out, A').
Proof. exact (add_names_total ns A). Qed.
Print Assumptions C09_add_names_total.

(* what a single call returns: a name not in the set; either the requested one, or (requested name already
   taken) name$i with i >= len(set); the set grows by exactly that name *)
Theorem C09_add_name_spec A n n' A' : add_name A n = Some (n', A') ->
  ~ In n' A /\ A' = A ++ [n'] /\
  (n' = n \/ (In n A /\ exists i, zlen A <= i /\ n' = n ++ [dollar] ++ dec i)).
Proof. exact (add_name_spec A n n' A'). Qed.
Print Assumptions C09_add_name_spec.

(* two signals a, an anonymous subfragment of type a at index 0 and one named a: names a, a$1, a$0, a$3 *)
Example C09_names_example :
  option_map (fun r => (vals (nm_signals r), nm_subs r))
             (assign_names [] [(0, n_a); (1, n_a)] [] [(None, n_a); (Some n_a, n_b)])
  = Some ([[97]; [97; 36; 49]], [[97; 36; 48]; [97; 36; 51]]).
Proof. vm_compute; reflexivity. Qed.

(* S3 (fixed by cb9d97a; the old code died with AssertionError): signals a, a$2, a in one fragment —
   index 2 = len(set) is taken by the user's a$2, the loop moves on to a$3 *)
Example C09_names_s3_example :
  option_map (fun r => vals (nm_signals r)) (assign_names [] s3_sigs [] []) = Some [[97]; [97; 36; 50]; [97; 36; 51]].
Proof. exact assign_names_s3. Qed.

(* top fragment with ports a (signal 0, named a) and b (signal 1, named a): signal 0 shares the port name,
   signal 1 and a third signal a get a$2, a$3; the hypotheses of C09_names_unique / C09_add_names_unique hold *)
Example C09_names_unique_example :
  let tports := [(n_a, 0, n_a, false); (n_b, 1, n_a, false)] in
  NoDup (map pname tports) /\
  option_map (fun r => nm_signals r) (assign_names tports [(0, n_a); (1, n_a); (2, n_a)] [] [])
  = Some [(0, [97]); (1, [97; 36; 50]); (2, [97; 36; 51])] /\
  NoDup [n_a] /\ add_names [n_a] [n_a; n_b; n_a] = Some ([[97; 36; 49]; [98]; [97; 36; 51]], [[97]; [97; 36; 49]; [98]; [97; 36; 51]]) /\
  assign_port_names [(None, n_a); (Some n_b, n_a); (None, n_a)] = Ok [[97]; [98]; [97; 36; 50]].
Proof.
  split; [repeat constructor; simpl; intuition discriminate|]. split; [vm_compute; reflexivity|].
  split; [repeat constructor; simpl; tauto|]. split; vm_compute; reflexivity.
Qed.

(* Design._assign_port_names: the generated port names are new and pairwise distinct *)
Theorem C09_port_names_unique ports A l :
  NoDup A -> port_names_go A ports = Ok l ->
  let gen := map snd (filter (fun p => match fst (fst p) with None => true | Some _ => false end) (combine ports l)) in
  NoDup gen /\ (forall x, In x gen -> ~ In x A) /\ length l = length ports.
Proof. exact (port_names_go_unique ports A l). Qed.
Print Assumptions C09_port_names_unique.

(* ------------------------------------------------------------------ (3) build plans *)
(* for every plan with unique file names (all plans built by add_file) and every other insertion order of
   the same (name, content) pairs: digest() hashes the same bytes, archive() writes the same members *)
Theorem C09_digest_order_independent fs fs' script :
  NoDup (map fst fs) -> Permutation fs fs' ->
  digest_input fs script = digest_input fs' script /\ archive_members fs = archive_members fs'.
Proof.
  intros Hd Hp. split; [exact (digest_order_independent fs fs' script Hd Hp)|exact (members_order_independent fs fs' Hd Hp)].
Qed.
Print Assumptions C09_digest_order_independent.

Theorem C09_add_file_unique_names fs k c fs' :
  NoDup (map fst fs) -> add_file fs k c = Some fs' -> NoDup (map fst fs').
Proof. exact (add_file_NoDup fs k c fs'). Qed.
Print Assumptions C09_add_file_unique_names.

(* the archive holds every planned file once, under its name, with its content, names ascending *)
Theorem C09_archive_members_exact fs :
  NoDup (map fst fs) ->
  map fst (archive_members fs) = sort (map fst fs) /\
  forall k b, In (k, b) (archive_members fs) -> exists c, In (k, c) fs /\ b = content_bytes c.
Proof. intro Hd. split; [exact (members_keys fs)|intros k b; exact (members_content fs k b Hd)]. Qed.
Print Assumptions C09_archive_members_exact.

(* extract() into an empty directory writes exactly the planned files with the planned contents *)
Theorem C09_extract_writes_exactly_plan fs : NoDup (map fst fs) -> extract [] fs = plan_dir fs.
Proof. exact (extract_writes_exactly_plan fs). Qed.
Print Assumptions C09_extract_writes_exactly_plan.

Example C09_plan_example :
  let fs := [([116; 111; 112], CStr [233]); (n_a, CBytes [0; 255]); ([65], CStr n_b)] in
  let fs' := [(n_a, CBytes [0; 255]); ([65], CStr n_b); ([116; 111; 112], CStr [233])] in
  NoDup (map fst fs) /\ Permutation fs fs' /\
  digest_input fs n_b = [65; 98; 97; 0; 255; 116; 111; 112; 195; 169; 98].
Proof.
  split; [|split; [|vm_compute; reflexivity]].
  - repeat constructor; simpl; intuition discriminate.
  - apply (Permutation_trans (l' := [(n_a, CBytes [0; 255]); ([116; 111; 112], CStr [233]); ([65], CStr n_b)]));
      [apply perm_swap|apply perm_skip, perm_swap].
Qed.

(* ------------------------------------------------------------------ (4) Simulator.reset() *)
(* for EVERY engine state (reachable or not): after reset() every observed field — signal values, memory
   rows and queued writes, pending set, time, scheduled wake-ups, active triggers, process flags and
   coroutine positions, clock phases — equals that of a freshly constructed simulator of the same design *)
Theorem C09_reset_restores_init e : observe (reset e) = observe (fresh e).
Proof. exact (reset_restores_init e). Qed.
Print Assumptions C09_reset_restores_init.

Theorem C09_reset_signals_and_memories_initial e s : In s (e_slots (reset e)) ->
  match s with
  | SSig g => sg_curr g = sg_init g /\ sg_next g = sg_init g
  | SMem m => mm_data m = mm_init m /\ mm_wq m = []
  end.
Proof. exact (reset_slots_init e s). Qed.
Print Assumptions C09_reset_signals_and_memories_initial.

Theorem C09_reset_idempotent e : reset (reset e) = reset e.
Proof. exact (reset_idempotent e). Qed.
Print Assumptions C09_reset_idempotent.

(* run / reset / rerun: for every step function and output function that read only the observed fields,
   every state e and every length n, the rerun after reset() yields the trace of a fresh simulator *)
Theorem C09_reset_rerun_same_trace step out :
  (forall e1 e2, observe e1 = observe e2 -> observe (step e1) = observe (step e2) /\ out e1 = out e2) ->
  forall n e, trace step out n (reset e) = trace step out n (fresh e).
Proof. exact (reset_rerun_same_trace step out). Qed.
Print Assumptions C09_reset_rerun_same_trace.

Example C09_reset_example :
  observe (reset s5_engine) = observe (fresh s5_engine) /\ observe s5_engine <> observe (fresh s5_engine).
Proof. split; [vm_compute; reflexivity|vm_compute; discriminate]. Qed.

(* what reset() leaves alone: _delta_cycles (VCD time stamps) and the waker lists of the slots *)
Theorem C09_reset_frame e :
  e_delta (reset e) = e_delta e /\
  map slot_wakers (e_slots (reset e)) = map slot_wakers (e_slots e).
Proof. exact (reset_frame e). Qed.
Print Assumptions C09_reset_frame.

(* S5 (fixed by 3953703): reset() empties _active_triggers, so for every state, every set of fresh deadlines
   and every number of advance() calls the rerun stops at the same instants as a fresh simulator *)
Theorem C09_reset_rerun_same_stops e ws n :
  e_active (reset e) = [] /\ stops n (rearm 0 (e_active (reset e)) ws) = stops n ws.
Proof. split; [exact (reset_clears_active e)|exact (reset_rerun_same_stops e ws n)]. Qed.
Print Assumptions C09_reset_rerun_same_stops.

(* the reset() of the tree before the fix (kept _active_triggers) violates both statements *)
Theorem C09_reset_keeping_triggers_refuted :
  exists e ws n, observe (reset_keeping_triggers e) <> observe (fresh e) /\
                 stops n (rearm 0 (e_active (reset_keeping_triggers e)) ws) <> stops n ws.
Proof. exact reset_keeping_triggers_refuted. Qed.
Print Assumptions C09_reset_keeping_triggers_refuted.

(* _assign_port_names either returns the port names or raises TypeError (a private-named unnamed port) *)
Theorem C09_port_names_total ports A : port_names_go A ports <> AssertErr.
Proof. exact (port_names_go_total ports A). Qed.
Print Assumptions C09_port_names_total.

(* ------------------------------------------------------------------ audit follow-up *)
(* the hypothesis of C09_reset_rerun_same_trace is satisfiable by real engine code: the concrete step
   "commit every pending slot (_PyEngineState.commit), then _PyTimeline.advance" with the output "time and all
   signal values / memory rows" reads only observed fields ... *)
Theorem C09_step_commit_advance_respects e1 e2 : observe e1 = observe e2 ->
  observe (step_commit_advance e1) = observe (step_commit_advance e2) /\ out_values e1 = out_values e2.
Proof. exact (step_commit_advance_respects e1 e2). Qed.
Print Assumptions C09_step_commit_advance_respects.

(* ... hence for every engine state and every number of steps the rerun after reset() produces the trace of a
   new simulator.  (The process bodies run between two commits are compiled user code: their model is C08's
   Engine.v, whose state type is a different record; it is not instantiated here.) *)
Theorem C09_reset_rerun_commit_advance n e :
  trace step_commit_advance out_values n (reset e) = trace step_commit_advance out_values n (fresh e).
Proof. exact (reset_rerun_commit_advance n e). Qed.
Print Assumptions C09_reset_rerun_commit_advance.

Example C09_step_example :
  let e := mkEng [SSig (mkSig 0 1 2 3); SMem (mkMem [5; 6] [5; 6] [(1, 9)] 0)] [0; 1] 3 [(0, 10); (1, 7)] [] [] 0 [] true in
  trace step_commit_advance out_values 3 e = [[3; 1; 5; 6]; [7; 2; 5; 9]; [10; 2; 5; 9]] /\
  trace step_commit_advance out_values 3 (reset e) = [[0; 0; 5; 6]; [0; 0; 5; 6]; [0; 0; 5; 6]].
Proof. split; vm_compute; reflexivity. Qed.

(* extract() into a directory that already holds other files: they stay, the planned files are added *)
Theorem C09_extract_into_nonempty_dir fs d :
  NoDup (map fst d ++ map fst fs) -> extract d fs = d ++ plan_dir fs.
Proof. exact (extract_app fs d). Qed.
Print Assumptions C09_extract_into_nonempty_dir.

(* add_file / extract with their checks: a plan accepted by add_file has no absolute name; extract refuses
   (AssertionError) exactly when some name is absolute or has a ".." component, and otherwise is `extract` *)
Theorem C09_plan_checks fs k c fs' d :
  (add_file_checked fs k c = FOk fs' -> add_file fs k c = Some fs' /\ is_abs k = false) /\
  (forallb (fun f => negb (is_abs (fst f) || has_dotdot (fst f))) fs = true ->
   extract_checked d fs = Some (extract d fs)) /\
  (forall d', extract_checked d fs = Some d' -> d' = extract d fs).
Proof.
  split; [exact (add_file_checked_ok fs k c fs')|]. split; [exact (extract_checked_ok fs d)|exact (extract_checked_sound fs d)].
Qed.
Print Assumptions C09_plan_checks.

Example C09_plan_checks_example :
  is_abs [49; 58; 47; 120] = true /\ is_abs [67; 58; 120] = false /\ has_dotdot [97; 47; 46; 46; 47; 98] = true /\
  has_dotdot [97; 47; 46; 46; 98] = false /\
  extract_checked [([107], [1])] [([97], CBytes [2]); ([107], CBytes [3])] = Some [([107], [3]); ([97], [2])].
Proof. repeat split; vm_compute; reflexivity. Qed.

(* DomainRenamer with an empty map changes no fragment *)
Theorem C09_rename_nil f : rename_frag [] f = f.
Proof. exact (rename_frag_nil f). Qed.
Print Assumptions C09_rename_nil.

(* ================================================================== translated source
   coq/Gen/ReproGen.v is regenerated on every run from the text of /repo/amaranth/hdl/_ir.py (_add_name,
   Design._assign_port_names) and /repo/amaranth/build/run.py (BuildPlan.add_file / digest / archive / extract) by
   translator/unit_repro.py: every function becomes a function into the exception monad `pyres` (Ret v | Raise e);
   the `while` loop of _add_name runs on a `fuel : nat` argument.  The theorems below (proofs in Proofs/GenEqRepro.v)
   say that every regenerated function is the function of Model/Repro.v the theorems above are about, for all
   inputs and every sufficient fuel. *)
From V.Proofs Require Import GenEqRepro.
From V.Gen Require ReproGen.

(* _add_name: for every fuel above |assigned_names| the loop ends before the fuel does *)
Theorem C09_translated_add_name fuel (A : list name) (n : name) :
  (length A < fuel)%nat -> ReproGen.g_add_name fuel A n = of_opt (add_name A n).
Proof. exact (gen_add_name_eq fuel A n). Qed.
Print Assumptions C09_translated_add_name.

Theorem C09_translated_add_name_returns fuel (A : list name) (n : name) :
  (length A < fuel)%nat ->
  exists n' A', add_name A n = Some (n', A') /\ ReproGen.g_add_name fuel A n = ReproGen.Ret (n', A').
Proof. exact (gen_add_name_returns fuel A n). Qed.
Print Assumptions C09_translated_add_name_returns.

(* Design._assign_port_names: ports are (explicit name or None, conn, dir); `strip` keeps (name, conn.name),
   `res_of` the names of the rewritten port list (TypeError = TypeErr, any other exception = AssertErr) *)
Theorem C09_translated_assign_port_names fuel (ports : list gport) :
  (length (prenamed (map strip ports)) + length ports < fuel)%nat ->
  res_of (ReproGen.g_assign_port_names fuel ports) = assign_port_names (map strip ports).
Proof. exact (gen_assign_port_names_eq fuel ports). Qed.
Print Assumptions C09_translated_assign_port_names.

Theorem C09_translated_assign_port_names_fuel (ports : list gport) :
  res_of (ReproGen.g_assign_port_names (S (2 * length ports)) ports) = assign_port_names (map strip ports).
Proof. exact (gen_assign_port_names_fuel ports). Qed.
Print Assumptions C09_translated_assign_port_names_fuel.

(* BuildPlan.add_file: AssertionError / ValueError / the extended OrderedDict *)
Theorem C09_translated_add_file (fs : files) (k : name) (c : content) :
  ReproGen.g_add_file k c fs = of_fres (add_file_checked fs k c).
Proof. exact (gen_add_file_eq fs k c). Qed.
Print Assumptions C09_translated_add_file.

(* BuildPlan.digest: the bytes fed to the hasher (blake2b itself is abstracted on both sides) *)
Theorem C09_translated_digest size (fs : files) (script : name) :
  ReproGen.g_digest size fs script = ReproGen.Ret (digest_input fs script).
Proof. exact (gen_digest_eq size fs script). Qed.
Print Assumptions C09_translated_digest.

(* BuildPlan.archive: the zip members written, in order *)
Theorem C09_translated_archive file (fs : files) :
  ReproGen.g_archive file fs = ReproGen.Ret (archive_members fs).
Proof. exact (gen_archive_eq file fs). Qed.
Print Assumptions C09_translated_archive.

(* BuildPlan.extract; guard: no name is absolute for PureWindowsPath (add_file refuses those:
   C09_translated_extract_guard) — extract() itself only tests pathlib.Path(...).is_absolute() *)
Theorem C09_translated_extract root (fs : files) (d : dir) :
  Forall (fun f => ReproGen.py_windows_is_absolute (fst f) = false) fs ->
  ReproGen.g_extract root fs d = of_extract (extract_checked d fs).
Proof. exact (gen_extract_eq root fs d). Qed.
Print Assumptions C09_translated_extract.

Theorem C09_translated_extract_guard (fs : files) (k : name) c fs' :
  Forall (fun f => ReproGen.py_windows_is_absolute (fst f) = false) fs ->
  ReproGen.g_add_file k c fs = ReproGen.Ret fs' ->
  Forall (fun f => ReproGen.py_windows_is_absolute (fst f) = false) fs'.
Proof. exact (add_file_keeps_guard fs k c fs'). Qed.
Print Assumptions C09_translated_extract_guard.

Example C09_translated_example :
  ReproGen.g_add_name 3 [[97]; [97; 36; 2 + 48]] [97] = ReproGen.Ret ([97; 36; 51], [[97]; [97; 36; 50]; [97; 36; 51]]) /\
  res_of (ReproGen.g_assign_port_names 5
            [(None, ReproGen.mkConn 0 [97] false, 0); (Some [97], ReproGen.mkConn 1 [98] false, 1)])
    = Ok [[97; 36; 49]; [97]] /\
  ReproGen.g_extract [] [([97; 47; 46; 46], CBytes [1])] [] = ReproGen.Raise ReproGen.AssertionError.
Proof. repeat split; vm_compute; reflexivity. Qed.

(* ---------------------------------------------------------------------------------------------------------------
   Converting / simulating the SAME design object twice (Model/DomScope.v, second part; proofs Proofs/DomScopeP.v):
   Fragment.prepare deletes exactly the domain entries it added to the fragments of the hierarchy, so a fragment
   object the user holds (an Instance) is left as it was found, and a second preparation — whose auto-created
   domains are new objects — resolves every name as a first one would. *)
From V.Model Require DomScope.
From V.Proofs Require DomScopeP.

Theorem C09_prepare_leaves_user_fragments_unchanged : forall own parent,
  DomScope.after_prepare own parent = own.
Proof. exact DomScopeP.after_prepare_restores. Qed.
Print Assumptions C09_prepare_leaves_user_fragments_unchanged.

Theorem C09_second_prepare_like_first : forall own parent1 parent2 n,
  DomScope.dlookup (DomScope.second_table own parent1 parent2) n
  = DomScope.dlookup (DomScope.dmerge own parent2) n.
Proof. exact DomScopeP.second_prepare_like_first. Qed.
Print Assumptions C09_second_prepare_like_first.

(* the defect that was repaired (finding C09-prepare-leaves-propagated-domains): the propagated entry of the first
   conversion (object 7) shadows the domain the second conversion creates (object 8) *)
Theorem C09_second_prepare_leaky_refuted :
  DomScope.dlookup (DomScope.second_table_leaky nil ((0, 7) :: nil) ((0, 8) :: nil))%nat 0%nat = Some 7%nat /\
  DomScope.dlookup (DomScope.dmerge nil ((0, 8) :: nil))%nat 0%nat = Some 8%nat.
Proof. exact DomScopeP.second_prepare_leaky_refuted. Qed.
Print Assumptions C09_second_prepare_leaky_refuted.

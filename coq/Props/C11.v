(* C11 — placeholder while the proofs are being written *)
From Coq Require Import ZArith List Bool.
From V.Model Require Import Bits Mem.
From V.Proofs Require Import MemP.

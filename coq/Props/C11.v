(* C11 — memories behave as arrays of rows under any port configuration.
   Only statements here; the model is Model/Mem.v, proofs are in Proofs/MemP.v.

   Model (follows the simulator): `mem_step md st ev` — md = row shape, depth, write ports (domain, width of the
   enable word), read ports (domain or comb, transparent_for as write-port indices in the given order, init of the
   data signal); st = committed rows + data signal of every read port + current read-port inputs; ev =
   `EStep doms wi ri` (port inputs wi/ri, then the clocks of the listed domains rise in ONE ctx.set, each with the
   level of its reset — which does not reach the memory: read data registers have no reset; the processes run in the order of the list) or `ETbSet i v` (ctx.set(mem.data[i], v)).
   Specification: `spec_step` — an array of rows; all writes of the ports whose clock rises are applied to the
   addressed rows in PORT order, `spec_write_row` replaces the enabled granules; no write queue, no process order.

   Every theorem quantifies over ALL shapes (wf_shape: unsigned width >= 0, signed width >= 1), depths >= 0, port
   lists (wf_wport: the enable width divides the data width), states satisfying wf_state (all reachable states do:
   C11_reachable_states_wf), port inputs (arbitrary integers) and events.
   ev_ok = the domains of an event are distinct and no two write ports of DIFFERENT domains that are clocked by the
   event write a common bit of the same existing row (S1: that case is order dependent, see
   C11_cross_domain_collision_order_dependent; hardware/RTLIL leave it undefined). *)
From Coq Require Import ZArith List Bool.
From V.Model Require Import Bits Mem.
From V.Proofs Require Import MemP.
Import ListNotations.
Open Scope Z_scope.

(* ------------------------------------------------------------------ a concrete instance of the hypotheses *)
(* 5 rows of unsigned(8); write ports: domain 0 with 4 enable bits, domain 1 with 1, domain 0 with 2;
   read ports: domain 0 transparent for ports 2 and 0, comb, domain 1 *)
Definition ex_md : memd :=
  MD (Sh 8 false) 5 [WP 0 4; WP 1 1; WP 0 2] [RP (Some 0) [2%nat; 0%nat] 0; RP None [] 0; RP (Some 1) [] 0].
Definition ex_wi (l : list win) : nat -> win := fun j => nth j l (WI 0 0 0).
Definition ex_ri (l : list rin) : nat -> rin := fun j => nth j l (RI 0 0).
Definition ex_evs : list event :=
  [ EStep [(0, false); (1, false)] (ex_wi [WI 1 171 5; WI 2 7 1; WI 1 255 2]) (ex_ri [RI 1 1; RI 2 0; RI 2 1]);
    ETbSet 4 (-3);
    EStep [(1, true); (0, false)] (ex_wi [WI 3 1 15; WI 3 240 0; WI 7 9 3]) (ex_ri [RI 3 0; RI 4 0; RI 9 0]) ].

Example ex_hypotheses : wf_md ex_md = true /\ forallb (ev_ok ex_md) ex_evs = true.
Proof. vm_compute. split; reflexivity. Qed.

(* ------------------------------------------------------------------ refinement *)
(* one event, from any well-formed state *)
Theorem C11_step_refines_array md st ev : wf_md md = true -> wf_state md st -> ev_ok md ev = true ->
  mem_step md st ev = spec_step md st ev.
Proof. exact (step_refines md st ev). Qed.
Print Assumptions C11_step_refines_array.

(* any event sequence from the declared initial contents: rows, read data and inputs coincide *)
Theorem C11_memory_refines_array md init evs : wf_md md = true -> forallb (ev_ok md) evs = true ->
  mem_run md (init_state md init) evs = spec_run md (init_state md init) evs.
Proof. intros Hmd Hok. apply run_refines; auto. apply init_state_wf; auto. Qed.
Print Assumptions C11_memory_refines_array.

Theorem C11_reachable_states_wf md init evs : wf_md md = true -> forallb (ev_ok md) evs = true ->
  wf_state md (mem_run md (init_state md init) evs).
Proof. intros Hmd Hok. apply run_wf; auto. apply init_state_wf; auto. Qed.
Print Assumptions C11_reachable_states_wf.

(* an event that clocks one domain satisfies ev_ok whatever the inputs are *)
Theorem C11_single_domain_event_ok md d rst wi ri : ev_ok md (EStep [(d, rst)] wi ri) = true.
Proof. exact (single_domain_ok md d rst wi ri). Qed.
Print Assumptions C11_single_domain_event_ok.

(* ------------------------------------------------------------------ write ports *)
(* meaning of spec_write_row: bit i of the new row comes from the data iff enable bit i / g is set *)
Theorem C11_written_row_bits s g n en d old i : wf_shape s = true -> 0 < g -> g * Z.of_nat n = width s ->
  0 <= i < width s ->
  Z.testbit (spec_write_row s g n en d old) i = if Z.testbit en (i / g) then Z.testbit d i else Z.testbit old i.
Proof. exact (spec_write_row_bits s g n en d old i). Qed.
Print Assumptions C11_written_row_bits.

Example ex_written_row : spec_write_row (Sh 8 false) 2 4 5 171 255 = 239.
Proof. vm_compute. reflexivity. Qed.

(* all clocked write ports together: row a becomes the old row with the requested writes applied in port order *)
Theorem C11_rows_after_step md st doms wi ri a : wf_md md = true -> wf_state md st ->
  ev_ok md (EStep doms wi ri) = true -> in_depth (md_depth md) a = true ->
  nth (Z.to_nat a) (st_rows (mem_step md st (EStep doms wi ri))) 0 =
  spec_apply (md_shape md) (spec_writes (all_sacts md wi) doms) a (nth (Z.to_nat a) (st_rows st) 0).
Proof. intros Hmd Hst. exact (rows_after_step md st Hmd Hst doms wi ri a). Qed.
Print Assumptions C11_rows_after_step.

(* write_port_spec: if exactly one of the clocked ports addresses row a, its enabled granules are replaced *)
Theorem C11_write_port_spec md st doms wi ri a l1 l2 enw en d : wf_md md = true -> wf_state md st ->
  ev_ok md (EStep doms wi ri) = true -> in_depth (md_depth md) a = true ->
  spec_writes (all_sacts md wi) doms = l1 ++ (a, enw, en, d) :: l2 ->
  (forall t, In t (l1 ++ l2) -> saddr t <> a) ->
  nth (Z.to_nat a) (st_rows (mem_step md st (EStep doms wi ri))) 0 =
  spec_write_row (md_shape md) (granularity (md_width md) enw) (Z.to_nat enw) en d (nth (Z.to_nat a) (st_rows st) 0).
Proof. intros Hmd Hst. exact (write_port_sole md st Hmd Hst doms wi ri a l1 l2 enw en d). Qed.
Print Assumptions C11_write_port_spec.

Example ex_write_port_hyp :
  let e := EStep [(0, false)] (ex_wi [WI 1 171 5; WI 2 7 1; WI 3 255 2]) (ex_ri []) in
  ev_ok ex_md e = true /\ in_depth 5 1 = true /\
  spec_writes (all_sacts ex_md (ex_wi [WI 1 171 5; WI 2 7 1; WI 3 255 2])) [(0, false)] = [] ++ (1, 4, 5, 171) :: [(3, 2, 2, 255)].
Proof. vm_compute. repeat split; reflexivity. Qed.

(* ... and every row no clocked port addresses is unchanged *)
Theorem C11_write_frame md st doms wi ri a : wf_md md = true -> wf_state md st ->
  ev_ok md (EStep doms wi ri) = true -> in_depth (md_depth md) a = true ->
  (forall t, In t (spec_writes (all_sacts md wi) doms) -> saddr t <> a) ->
  nth (Z.to_nat a) (st_rows (mem_step md st (EStep doms wi ri))) 0 = nth (Z.to_nat a) (st_rows st) 0.
Proof. intros Hmd Hst. exact (write_frame md st Hmd Hst doms wi ri a). Qed.
Print Assumptions C11_write_frame.

(* writes to addresses beyond the depth change nothing *)
Theorem C11_write_beyond_depth_no_change md st doms wi ri : wf_md md = true -> wf_state md st ->
  ev_ok md (EStep doms wi ri) = true ->
  (forall t, In t (spec_writes (all_sacts md wi) doms) -> md_depth md <= saddr t) ->
  st_rows (mem_step md st (EStep doms wi ri)) = st_rows st.
Proof. intros Hmd Hst. exact (write_beyond_depth md st Hmd Hst doms wi ri). Qed.
Print Assumptions C11_write_beyond_depth_no_change.

Example ex_beyond_depth_hyp :
  spec_writes (all_sacts ex_md (ex_wi [WI 5 1 15; WI 6 2 1; WI 7 3 3])) [(0, false); (1, false)] =
  [(5, 4, 15, 1); (6, 1, 1, 2); (7, 2, 3, 3)] /\ ev_ok ex_md (EStep [(0, false); (1, false)] (ex_wi [WI 5 1 15; WI 6 2 1; WI 7 3 3]) (ex_ri [])) = true.
Proof. vm_compute. split; reflexivity. Qed.

(* same-domain collisions: an event of ONE domain (no hypothesis on the inputs): the last port in port order that
   addresses row a is applied last, i.e. the later port wins on every granule both write *)
Theorem C11_same_domain_collision_port_order md st d rst wi ri a l enw en dd : wf_md md = true -> wf_state md st ->
  in_depth (md_depth md) a = true ->
  spec_writes (all_sacts md wi) [(d, rst)] = l ++ [(a, enw, en, dd)] ->
  nth (Z.to_nat a) (st_rows (mem_step md st (EStep [(d, rst)] wi ri))) 0 =
  spec_write_row (md_shape md) (granularity (md_width md) enw) (Z.to_nat enw) en dd
                 (spec_apply (md_shape md) l a (nth (Z.to_nat a) (st_rows st) 0)).
Proof.
  intros Hmd Hst Ha Hw.
  exact (collision_port_order md st Hmd Hst [(d, rst)] wi ri a l enw en dd (single_domain_ok md d rst wi ri) Ha Hw).
Qed.
Print Assumptions C11_same_domain_collision_port_order.

Example ex_same_domain_collision :
  spec_writes (all_sacts ex_md (ex_wi [WI 1 171 15; WI 1 7 1; WI 1 255 2])) [(0, true)] = [(1, 4, 15, 171)] ++ [(1, 2, 2, 255)] /\
  st_rows (mem_step ex_md (init_state ex_md [1; 2; 3]) (EStep [(0, true)] (ex_wi [WI 1 171 15; WI 1 7 1; WI 1 255 2]) (ex_ri []))) = [1; 251; 3; 0; 0].
Proof. vm_compute. split; reflexivity. Qed.

(* the same for several domains under ev_ok *)
Theorem C11_collision_port_order md st doms wi ri a l enw en dd : wf_md md = true -> wf_state md st ->
  ev_ok md (EStep doms wi ri) = true -> in_depth (md_depth md) a = true ->
  spec_writes (all_sacts md wi) doms = l ++ [(a, enw, en, dd)] ->
  nth (Z.to_nat a) (st_rows (mem_step md st (EStep doms wi ri))) 0 =
  spec_write_row (md_shape md) (granularity (md_width md) enw) (Z.to_nat enw) en dd
                 (spec_apply (md_shape md) l a (nth (Z.to_nat a) (st_rows st) 0)).
Proof. intros Hmd Hst. exact (collision_port_order md st Hmd Hst doms wi ri a l enw en dd). Qed.
Print Assumptions C11_collision_port_order.

(* simultaneous edges: the order in which the simulator runs the domains' processes is immaterial under ev_ok *)
Theorem C11_simultaneous_edge_order_irrelevant md st doms doms' wi ri : wf_md md = true -> wf_state md st ->
  ev_ok md (EStep doms wi ri) = true -> ev_ok md (EStep doms' wi ri) = true ->
  (forall d, dom_active doms d = dom_active doms' d) ->
  mem_step md st (EStep doms wi ri) = mem_step md st (EStep doms' wi ri).
Proof. exact (edge_order_irrelevant md st doms doms' wi ri). Qed.
Print Assumptions C11_simultaneous_edge_order_irrelevant.

(* S1: without the collision hypothesis the surviving value depends on the order of the processes *)
Theorem C11_cross_domain_collision_order_dependent :
  exists md init wi ri,
    wf_md md = true /\
    ev_ok md (EStep [(0, false); (1, false)] wi ri) = false /\
    st_rows (mem_step md (init_state md init) (EStep [(0, false); (1, false)] wi ri)) <>
    st_rows (mem_step md (init_state md init) (EStep [(1, false); (0, false)] wi ri)).
Proof.
  exists (MD (Sh 8 false) 2 [WP 0 1; WP 1 1] []), [], (ex_wi [WI 0 11 1; WI 0 22 1]), (ex_ri []).
  vm_compute. repeat split; try reflexivity. discriminate.
Qed.
Print Assumptions C11_cross_domain_collision_order_dependent.

(* ------------------------------------------------------------------ read ports *)
(* all cases of a read port after a step *)
Theorem C11_read_data_after_step md st doms wi ri j p : wf_md md = true -> wf_state md st ->
  ev_ok md (EStep doms wi ri) = true -> nth_error (md_rports md) j = Some p ->
  nth j (st_rdata (mem_step md st (EStep doms wi ri))) 0 =
  let a := mask (md_abits md) (ri_addr (ri j)) in
  match rp_dom p with
  | None => spec_read md (st_rows (mem_step md st (EStep doms wi ri))) a
  | Some d =>
      if dom_active doms d then
        if Z.odd (ri_en (ri j))
        then spec_apply (md_shape md) (spec_transp (all_sacts md wi) (rp_transp p)) a (spec_read md (st_rows st) a)
        else nth j (st_rdata st) 0
      else nth j (st_rdata st) 0
  end.
Proof. intros Hmd Hst. exact (rdata_after_step md st Hmd Hst doms wi ri j p). Qed.
Print Assumptions C11_read_data_after_step.

(* async_read_spec: a comb port shows the addressed row of the contents AFTER the event (port writes or testbench write) *)
Theorem C11_async_read_spec md st doms wi ri j p : wf_md md = true -> wf_state md st ->
  ev_ok md (EStep doms wi ri) = true -> nth_error (md_rports md) j = Some p -> rp_dom p = None ->
  nth j (st_rdata (mem_step md st (EStep doms wi ri))) 0 =
  spec_read md (st_rows (mem_step md st (EStep doms wi ri))) (mask (md_abits md) (ri_addr (ri j))).
Proof. intros Hmd Hst. exact (async_read md st Hmd Hst doms wi ri j p). Qed.
Print Assumptions C11_async_read_spec.

Theorem C11_async_read_after_row_write md st i v j p : wf_md md = true -> wf_state md st ->
  nth_error (md_rports md) j = Some p -> rp_dom p = None ->
  nth j (st_rdata (mem_step md st (ETbSet i v))) 0 =
  spec_read md (st_rows (mem_step md st (ETbSet i v))) (mask (md_abits md) (ri_addr (st_rin st j))).
Proof. intros Hmd Hst. exact (async_read_tb md st Hmd Hst i v j p). Qed.
Print Assumptions C11_async_read_after_row_write.

(* sync_read_spec: an enabled non-transparent port captures the row as it was BEFORE the edge's writes *)
Theorem C11_sync_read_spec md st doms wi ri j p d : wf_md md = true -> wf_state md st ->
  ev_ok md (EStep doms wi ri) = true -> nth_error (md_rports md) j = Some p -> rp_dom p = Some d ->
  dom_active doms d = true -> Z.odd (ri_en (ri j)) = true -> rp_transp p = [] ->
  nth j (st_rdata (mem_step md st (EStep doms wi ri))) 0 =
  spec_read md (st_rows st) (mask (md_abits md) (ri_addr (ri j))).
Proof. intros Hmd Hst. exact (sync_read_pre_edge md st Hmd Hst doms wi ri j p d). Qed.
Print Assumptions C11_sync_read_spec.

(* transparent_read_spec: the pre-edge row with the writes of the transparency set's ports (those addressing the
   same row; their enabled granules) applied, in transparent_for order *)
Theorem C11_transparent_read_spec md st doms wi ri j p d : wf_md md = true -> wf_state md st ->
  ev_ok md (EStep doms wi ri) = true -> nth_error (md_rports md) j = Some p -> rp_dom p = Some d ->
  dom_active doms d = true -> Z.odd (ri_en (ri j)) = true ->
  nth j (st_rdata (mem_step md st (EStep doms wi ri))) 0 =
  spec_apply (md_shape md) (spec_transp (all_sacts md wi) (rp_transp p)) (mask (md_abits md) (ri_addr (ri j)))
             (spec_read md (st_rows st) (mask (md_abits md) (ri_addr (ri j)))).
Proof. intros Hmd Hst. exact (transparent_read md st Hmd Hst doms wi ri j p d). Qed.
Print Assumptions C11_transparent_read_spec.

Example ex_transparent_read :
  let st' := mem_step ex_md (init_state ex_md [1; 2; 3])
               (EStep [(0, false)] (ex_wi [WI 1 171 1; WI 2 7 1; WI 1 255 2]) (ex_ri [RI 1 1; RI 1 0; RI 1 1])) in
  st_rdata st' = [243; 243; 0] /\ st_rows st' = [1; 243; 3; 0; 0].
Proof. vm_compute. split; reflexivity. Qed.

(* remark: when two ports of the transparency set write a common granule of the row being read (a same-domain
   collision), the captured value follows transparent_for order while the stored row follows port order, so they
   can differ (here transparent_for = (w2, w0), both write bits 4-5 of row 1) *)
Theorem C11_transparent_collision_follows_transparent_for_order :
  exists wi ri,
    let st' := mem_step ex_md (init_state ex_md [1; 2; 3]) (EStep [(0, false)] wi ri) in
    ev_ok ex_md (EStep [(0, false)] wi ri) = true /\
    nth 0 (st_rdata st') 0 = 227 /\ nth 1 (st_rows st') 0 = 243.
Proof.
  exists (ex_wi [WI 1 171 5; WI 2 7 1; WI 1 255 2]), (ex_ri [RI 1 1; RI 1 0; RI 1 1]).
  vm_compute. repeat split; reflexivity.
Qed.
Print Assumptions C11_transparent_collision_follows_transparent_for_order.

(* read_hold_spec: a port whose clock does not rise, or that is disabled, holds — whatever the level of its domain's
   reset (the read data register has no reset; the reset levels carried by `doms` are arbitrary here) *)
Theorem C11_read_hold_spec md st doms wi ri j p d : wf_md md = true -> wf_state md st ->
  ev_ok md (EStep doms wi ri) = true -> nth_error (md_rports md) j = Some p -> rp_dom p = Some d ->
  dom_active doms d = false \/ Z.odd (ri_en (ri j)) = false ->
  nth j (st_rdata (mem_step md st (EStep doms wi ri))) 0 = nth j (st_rdata st) 0.
Proof. intros Hmd Hst. exact (read_hold md st Hmd Hst doms wi ri j p d). Qed.
Print Assumptions C11_read_hold_spec.

Theorem C11_read_hold_over_row_write md st i v j p d : wf_md md = true -> wf_state md st ->
  nth_error (md_rports md) j = Some p -> rp_dom p = Some d ->
  nth j (st_rdata (mem_step md st (ETbSet i v))) 0 = nth j (st_rdata st) 0.
Proof. intros Hmd Hst. exact (read_hold_tb md st Hmd Hst i v j p d). Qed.
Print Assumptions C11_read_hold_over_row_write.

Example ex_read_hold_under_reset :
  let md := MD (Sh 8 false) 4 [] [RP (Some 0) [] 0] in
  let e1 := EStep [(0, false)] (ex_wi []) (ex_ri [RI 1 1]) in
  let e2 := EStep [(0, true)] (ex_wi []) (ex_ri [RI 1 0]) in
  st_rdata (mem_run md (init_state md [5; 6; 7; 8]) [e1]) = [6] /\
  st_rdata (mem_run md (init_state md [5; 6; 7; 8]) [e1; e2]) = [6].
Proof. vm_compute. split; reflexivity. Qed.

(* ------------------------------------------------------------------ testbench row access: the same storage *)
(* ctx.set(mem.data[i], v) then ctx.get(mem.data[a]) *)
Theorem C11_row_access_same_storage md st i v a : wf_md md = true -> wf_state md st ->
  in_depth (md_depth md) a = true ->
  tb_get md (mem_step md st (ETbSet i v)) a = if a =? i then norm (md_shape md) v else tb_get md st a.
Proof. intros Hmd Hst. exact (tb_set_get md st Hmd Hst i v a). Qed.
Print Assumptions C11_row_access_same_storage.

(* port writes are seen by ctx.get(mem.data[a]) (and testbench writes by the ports: C11_async_read_after_row_write,
   C11_sync_read_spec read st_rows, the storage ETbSet writes) *)
Theorem C11_row_read_after_port_write md st doms wi ri a : wf_md md = true -> wf_state md st ->
  ev_ok md (EStep doms wi ri) = true -> in_depth (md_depth md) a = true ->
  tb_get md (mem_step md st (EStep doms wi ri)) a =
  spec_apply (md_shape md) (spec_writes (all_sacts md wi) doms) a (tb_get md st a).
Proof. intros Hmd Hst. exact (tb_get_after_port_write md st Hmd Hst doms wi ri a). Qed.
Print Assumptions C11_row_read_after_port_write.

(* ------------------------------------------------------------------ configurations as the constructors derive them *)
(* every (shape, depth, granularities) Memory / WritePort.Signature accept for a plain shape (wsig_ctor = 0) yields a
   well-formed configuration, so the theorems above apply to every memory that can be constructed with a plain shape *)
Theorem C11_accepted_configuration_wf s depth wps rps : wf_shape s = true -> 0 <= depth ->
  forallb (fun p : Z * option Z => wsig_ctor s (snd p) =? 0) wps = true ->
  wf_md (mk_md (RSPlain s) depth wps rps) = true.
Proof. exact (mk_md_plain_wf s depth wps rps). Qed.
Print Assumptions C11_accepted_configuration_wf.

Example ex_accepted_configuration :
  forallb (fun p : Z * option Z => wsig_ctor (Sh 6 false) (snd p) =? 0) [(0, None); (1, Some 2); (0, Some 6); (0, Some 1)] = true /\
  map wp_enw (md_wports (mk_md (RSPlain (Sh 6 false)) 5 [(0, None); (1, Some 2); (0, Some 6); (0, Some 1)] [])) = [1; 3; 1; 6] /\
  wf_md (mk_md (RSArray (Sh 2 false) 4) 3 [(0, Some 2)] []) = true /\
  wf_md (mk_md (RSStruct [Sh 3 false; Sh 5 true]) 3 [(0, None)] []) = true.
Proof. vm_compute. repeat split; reflexivity. Qed.

(* shape-castable rows with a non-zero default (data.Struct field defaults): rows not initialised and the read data
   signals start at the default; the refinement holds from that state as well *)
Theorem C11_memory_refines_array_default md dflt init evs : wf_md md = true -> forallb (ev_ok md) evs = true ->
  mem_run md (init_state_d md dflt init) evs = spec_run md (init_state_d md dflt init) evs.
Proof. intros Hmd Hok. apply run_refines; auto. apply init_state_d_wf; auto. Qed.
Print Assumptions C11_memory_refines_array_default.

(* ------------------------------------------------------------------ translated source (translator unit "pysim") *)
(* coq/Gen/PySimGen.v is regenerated from /repo/amaranth/sim/pysim.py on every run; Proofs/GenEqPySim.v proves the
   regenerated _PyMemoryState methods equal to ms_read / ms_write / ms_commit of the model. *)
From V.Proofs Require GenEqPySim.
From V.Gen Require PySimGen.

Theorem C11_translated_memory_read s depth rows q wk a : depth <= Z.of_nat (length rows) ->
  PySimGen.PyMemoryState_read (GenEqPySim.mem_obj s depth rows q wk) a = Some (ms_read depth rows a).
Proof. exact (GenEqPySim.gen_memory_read_eq s depth rows q wk a). Qed.
Print Assumptions C11_translated_memory_read.

(* write(addr, value, mask): the queue after the call is ms_write's; the object registers itself in `pending` exactly
   when the address is a row *)
Theorem C11_translated_memory_write i s depth rows q wk p a v m : depth <= Z.of_nat (length rows) -> 0 <= width s ->
  PySimGen.PyMemoryState_write i (GenEqPySim.mem_obj s depth rows q wk) p a v (Some m) =
  Some (GenEqPySim.mem_obj s depth rows (ms_write s depth rows q a v m) wk,
        if in_depth depth a then PySimGen.py_set_add Nat.eqb p i else p).
Proof. exact (GenEqPySim.gen_memory_write_eq i s depth rows q wk p a v m). Qed.
Print Assumptions C11_translated_memory_write.

Theorem C11_translated_memory_write_nomask i g p a v :
  PySimGen.PyMemoryState_write i g p a v None = PySimGen.PyMemoryState_write i g p a v (Some (-1)).
Proof. exact (GenEqPySim.gen_memory_write_nomask i g p a v). Qed.
Print Assumptions C11_translated_memory_write_nomask.

(* commit(): data becomes ms_commit, the queue is emptied, the wakers run first; `changed` accumulates over the rows *)
Theorem C11_translated_memory_commit (W : Type) (call : nat -> unit -> W -> bool * W) s depth rows q wk w :
  q <> [] -> Forall (fun kv => 0 <= fst kv < Z.of_nat (length rows)) q ->
  PySimGen.PyMemoryState_commit call (GenEqPySim.mem_obj s depth rows q wk) w =
  let (wk', w') := GenEqPySim.retain call tt wk w in
  Some (GenEqPySim.writes_change rows q, GenEqPySim.mem_obj s depth (ms_commit rows q) [] wk', w').
Proof. exact (GenEqPySim.gen_memory_commit_eq call s depth rows q wk w). Qed.
Print Assumptions C11_translated_memory_commit.

(* ... and that flag says exactly whether the data changed *)
Theorem C11_translated_memory_commit_changed q rows :
  NoDup (map fst q) -> Forall (fun kv => 0 <= fst kv < Z.of_nat (length rows)) q ->
  (GenEqPySim.writes_change rows q = true <-> ms_commit rows q <> rows).
Proof. exact (GenEqPySim.writes_change_spec q rows). Qed.
Print Assumptions C11_translated_memory_commit_changed.

(* ------------------------------------------------------------------ translated source (translator unit "mem") *)
(* coq/Gen/MemGen.v is regenerated on every run from the memory-port code of _FragmentCompiler.__call__
   (/repo/amaranth/sim/_pyrtl.py: the text emitted for write ports and sync / comb read ports, by symbolic execution of
   the generator) and from the port asserts of /repo/amaranth/hdl/_mem.py; Proofs/GenEqMem.v proves the regenerated
   functions equal to wvals / queue_writes / sync_read / comb_update / granularity / wf_wport of the model.
   to_gw / to_gr present the model's ports as the compiler sees them: (current value, len) per field. *)
From V.Proofs Require GenEqMem.
From V.Gen Require MemGen.

Theorem C11_translated_granularity md wi p :
  MemGen.WritePort_granularity (GenEqMem.to_gw md wi p) = granularity (md_width md) (wp_enw p).
Proof. exact (GenEqMem.gen_granularity_eq md wi p). Qed.
Print Assumptions C11_translated_granularity.

(* the write-port loop of the process of domain d: the queue after it is queue_writes of the model (masked address,
   data, replicated enable; ports of other domains skipped), write_vals holds the domain's ports *)
Theorem C11_translated_sync_write_ports md rows wi d q : wf_md md = true ->
  MemGen.sync_write_ports (md_shape md) (md_depth md) rows (Some d) (GenEqMem.gw_list md wi) q =
  (queue_writes md rows q (dom_actions (all_wvals md wi) d), GenEqMem.wdict_of md wi d 0 (md_wports md) []).
Proof. exact (GenEqMem.gen_sync_write_ports_eq md rows wi d q). Qed.
Print Assumptions C11_translated_sync_write_ports.

(* the body of the read-port loop of the same process: enable, masked address, transparency patches in the order of
   transparent_for, normalisation to the shape; no KeyError when transparent_for names ports of the own domain *)
Theorem C11_translated_sync_read_port md rows wi ri d p cur : GenEqMem.transp_ok md d (rp_transp p) ->
  MemGen.sync_read_port (md_depth md) rows (Some d) (GenEqMem.wdict_of md wi d 0 (md_wports md) [])
                        (GenEqMem.to_gr md ri p) cur =
  Some (match rp_dom p with
        | Some d' => if d' =? d then sync_read md rows (all_wvals md wi) p ri cur else cur
        | None => cur
        end).
Proof. exact (GenEqMem.gen_sync_read_port_eq md rows wi ri d p cur). Qed.
Print Assumptions C11_translated_sync_read_port.

Theorem C11_translated_comb_read_port md rows ri p cur :
  MemGen.comb_read_port (md_depth md) rows (GenEqMem.to_gr md ri p) cur =
  match rp_dom p with
  | None => norm (md_shape md) (ms_read (md_depth md) rows (mask (md_abits md) (ri_addr ri)))
  | Some _ => cur
  end.
Proof. exact (GenEqMem.gen_comb_read_port_eq md rows ri p cur). Qed.
Print Assumptions C11_translated_comb_read_port.

(* both loops together are run_domain of the model; the comb loop is comb_update *)
Theorem C11_translated_run_domain md rows wi ri q rdata d rst : wf_md md = true ->
  Forall (fun p => GenEqMem.transp_ok md d (rp_transp p)) (md_rports md) ->
  let '(q', wv) := MemGen.sync_write_ports (md_shape md) (md_depth md) rows (Some d) (GenEqMem.gw_list md wi) q in
  (Some q', mapi (fun j p => MemGen.sync_read_port (md_depth md) rows (Some d) wv (GenEqMem.to_gr md (ri j) p)
                                                   (nth j rdata 0)) (md_rports md)) =
  (Some (fst (run_domain md rows (all_wvals md wi) ri (q, rdata) (d, rst))),
   map Some (snd (run_domain md rows (all_wvals md wi) ri (q, rdata) (d, rst)))).
Proof. exact (GenEqMem.gen_run_domain_eq md rows wi ri q rdata d rst). Qed.
Print Assumptions C11_translated_run_domain.

Theorem C11_translated_comb_update md rows ri rdata :
  mapi (fun j p => MemGen.comb_read_port (md_depth md) rows (GenEqMem.to_gr md (ri j) p) (nth j rdata 0)) (md_rports md) =
  comb_update md rows ri rdata.
Proof. exact (GenEqMem.gen_comb_update_eq md rows ri rdata). Qed.
Print Assumptions C11_translated_comb_update.

(* the asserts of MemoryInstance.write_port / read_port and of the port classes *)
Theorem C11_translated_write_port_check s depth dm a al dv dl e el :
  MemGen.write_port_check s depth (MemGen.GWP dm (a, al) (dv, dl) (e, el)) = true <->
  dl = width s /\ al = ceil_log2 depth.
Proof. exact (GenEqMem.gen_write_port_check_eq s depth dm a al dv dl e el). Qed.
Print Assumptions C11_translated_write_port_check.

Theorem C11_translated_WritePort_init_check md wi p : 1 <= wp_enw p \/ (wp_enw p = 0 /\ md_width md = 0) ->
  MemGen.WritePort_init_check (GenEqMem.to_gw md wi p) = wf_wport (md_shape md) p.
Proof. exact (GenEqMem.gen_WritePort_init_check_eq md wi p). Qed.
Print Assumptions C11_translated_WritePort_init_check.

Theorem C11_translated_read_port_check md wi ri p d : rp_dom p = Some d ->
  MemGen.read_port_check (md_shape md) (md_depth md) (GenEqMem.gw_list md wi) (GenEqMem.to_gr md ri p) = true ->
  GenEqMem.transp_ok md d (rp_transp p).
Proof. exact (GenEqMem.gen_read_port_check_eq md wi ri p d). Qed.
Print Assumptions C11_translated_read_port_check.

Theorem C11_translated_read_port_check_lengths s depth wps dm a al sh e el tr :
  MemGen.read_port_check s depth wps (MemGen.GRP dm (a, al) sh (e, el) tr) = true ->
  width sh = width s /\ al = ceil_log2 depth.
Proof. exact (GenEqMem.gen_read_port_check_lengths s depth wps dm a al sh e el tr). Qed.
Print Assumptions C11_translated_read_port_check_lengths.

Theorem C11_translated_ReadPort_init_check dm a sh e el tr :
  MemGen.ReadPort_init_check (MemGen.GRP dm a sh (e, el) tr) = true <-> el = 1 /\ (dm = None -> e = 1 /\ tr = []).
Proof. exact (GenEqMem.gen_ReadPort_init_check_eq dm a sh e el tr). Qed.
Print Assumptions C11_translated_ReadPort_init_check.

(* C19 — resource requests map pins one-to-one and constraints name the right pin.
   Only statements here; proofs live in Proofs/ResP.v.  Model: Model/Res.v
   (request/merge_options/resolve/map_names/iter_port_constraints_bits as written in
   amaranth/build/{res,dsl,plat}.py).  All theorems quantify over every resource table `t`,
   every connector table `cm`, every manager state / request history, unless a hypothesis says otherwise. *)
From Coq Require Import ZArith List Bool.
From V.Model Require Import Res.
From V.Proofs Require Import ResP.
Import ListNotations.
Open Scope Z_scope.

(* ------------------------------------------------------------------ example platform (non-vacuity)
   a = Pins("P0 J0:1"), b = (s0 = Pins("P2", dir=oe, Clock), s1 = PinsN("J1:1", dir=i)), c = DiffPairsN("P2","P3", Clock);
   connectors J0:1 -> P1, J1:1 -> J0:1 (a chain of length 2); b.s1 collides with a on P1. *)
Definition ex_cm : connmap := [((0, 1), Plat 1); ((1, 1), CPin 0 1)].
Definition ex_a : node := Leaf 0 [] (mkLeaf (PPins [Plat 0; CPin 0 1]) Dio false None).
Definition ex_b : node :=
  Group 1 [(0, 1)] [Leaf 0 [] (mkLeaf (PPins [Plat 2]) Doe false (Some 10000000));
                    Leaf 1 [(1, 2)] (mkLeaf (PPins [CPin 1 1]) Di true None)].
Definition ex_c : node := Leaf 2 [] (mkLeaf (PDiff [Plat 2] [Plat 3]) Di true (Some 8000000)).
Definition ex_tbl : table := [(0, ex_a); (0, ex_b); (0, ex_c)].
Definition ex_req (n : Z) : req := mkReq n 0 DDash XNone.
Definition ex_hist : list req := [ex_req 0; ex_req 1; ex_req 2; ex_req 0].
Definition ex_st1 : state := fst (run ex_tbl ex_cm [ex_req 0]).

(* ------------------------------------------------------------------ a resource can be requested at most once *)
Theorem C19_request_at_most_once t cm st q :
  In (q_key q) (requested st) ->
  request t cm st q =
  (st, Error (EResource (match tbl_lookup t (q_key q) with Some _ => RAgain | None => RNoSuch end))).
Proof. exact (request_again t cm st q). Qed.
Print Assumptions C19_request_at_most_once.

Theorem C19_granted_once t cm hist :
  let (st, outs) := run t cm hist in
  NoDup (gkeys (granted outs)) /\ requested st = gkeys (granted outs).
Proof.
  pose proof (run_inv t cm hist) as H. destruct (run t cm hist) as [st outs].
  destruct H as (R & _ & _ & _ & K & _). split; assumption.
Qed.
Print Assumptions C19_granted_once.

Example C19_at_most_once_example :
  In (q_key (ex_req 0)) (requested ex_st1) /\
  map (fun o => match snd o with Ok _ => 1 | Error _ => 0 end) (snd (run ex_tbl ex_cm ex_hist)) = [1; 0; 1; 0].
Proof. split; [left; reflexivity|vm_compute; reflexivity]. Qed.

(* ------------------------------------------------------------------ no two granted requests share a physical pin *)
(* in the state reached by ANY history the pins of all granted requests (every leaf, p and n,
   after connector resolution) are pairwise distinct, and they are exactly the allocation *)
Theorem C19_pins_injective t cm hist :
  let (st, outs) := run t cm hist in
  NoDup (gpins (granted outs)) /\ map fst (phys_reqd st) = gpins (granted outs).
Proof.
  pose proof (run_inv t cm hist) as H. destruct (run t cm hist) as [st outs].
  destruct H as (_ & P & N & _). split; assumption.
Qed.
Print Assumptions C19_pins_injective.

(* the later request is refused and changes nothing *)
Theorem C19_conflict_refused t cm st q res st' r :
  tbl_lookup t (q_key q) = Some res -> request t cm st q = (st', r) ->
  (exists a, In a (map fst (phys_reqd st)) /\ uses cm res a) ->
  exists e, r = Error e /\ st' = st.
Proof. exact (request_conflict t cm st q res st' r). Qed.
Print Assumptions C19_conflict_refused.

(* ... with ResourceError when nothing else is wrong with the request.  For the recommended dir="-":
   on a resource whose subsignal names are distinct (wf_node) and whose declared names all resolve,
   the only possible refusal is ResourceError *)
Theorem C19_conflict_is_ResourceError t cm st q res st' e :
  tbl_lookup t (q_key q) = Some res -> key_mem (q_key q) (requested st) = false ->
  wf_node res -> q_dir q = DDash -> q_xdr q = XNone ->
  Forall (leaf_resolves (cm_fuel cm) cm) (leaves_of res) ->
  request t cm st q = (st', Error e) -> e = EResource RConflict.
Proof. exact (request_dash_refusal t cm st q res st' e). Qed.
Print Assumptions C19_conflict_is_ResourceError.

(* for arbitrary dir/xdr overrides: if merge_options accepted them and every leaf option is "-" or a
   direction with xdr in 0..2 (opts_ok, a decidable condition on the merged options) *)
Theorem C19_refusal_kind t cm st q res d x st' e :
  tbl_lookup t (q_key q) = Some res -> key_mem (q_key q) (requested st) = false ->
  merge_options res (q_dir q) (q_xdr q) = inr (d, x) ->
  Forall (fun j => opts_ok (j_d j) (j_x j)) (flatten res d x (root_path q) (node_attrs res)) ->
  Forall (leaf_resolves (cm_fuel cm) cm) (leaves_of res) ->
  request t cm st q = (st', Error e) -> e = EResource RConflict.
Proof. exact (request_refusal_kind t cm st q res d x st' e). Qed.
Print Assumptions C19_refusal_kind.

Example C19_conflict_example :
  tbl_lookup ex_tbl (q_key (ex_req 1)) = Some ex_b /\
  (exists a, In a (map fst (phys_reqd ex_st1)) /\ uses ex_cm ex_b a) /\
  key_mem (q_key (ex_req 1)) (requested ex_st1) = false /\ wf_node ex_b /\
  (exists d x, merge_options ex_b DDash XNone = inr (d, x) /\
     Forall (fun j => opts_ok (j_d j) (j_x j)) (flatten ex_b d x (root_path (ex_req 1)) (node_attrs ex_b))) /\
  Forall (leaf_resolves (cm_fuel ex_cm) ex_cm) (leaves_of ex_b) /\
  request ex_tbl ex_cm ex_st1 (ex_req 1) = (ex_st1, Error (EResource RConflict)).
Proof.
  split; [reflexivity|]. split.
  { exists 1. split; [vm_compute; auto|].
    exists (mkLeaf (PPins [CPin 1 1]) Di true None). split; [vm_compute; auto|].
    exists [CPin 1 1], [1]. split; [left; reflexivity|]. split; [reflexivity|left; reflexivity]. }
  split; [reflexivity|]. split.
  { constructor; [cbn; repeat constructor; cbn; intuition discriminate|repeat constructor]. }
  split.
  { eexists. eexists. split; [vm_compute; reflexivity|].
    repeat constructor. }
  split; [|vm_compute; reflexivity].
  repeat constructor; eexists; vm_compute; reflexivity.
Qed.

(* ------------------------------------------------------------------ a refused request leaves the allocation unchanged *)
Theorem C19_refused_leaves_state t cm st q st' e :
  request t cm st q = (st', Error e) -> st' = st.
Proof. exact (request_error t cm st q st' e). Qed.
Print Assumptions C19_refused_leaves_state.

(* non-vacuity: the refused request of b first claims P2 and the clock of b.s0, then fails on P1;
   afterwards c (which needs P2) is granted — the history that exposed F5 *)
Example C19_refused_example :
  exists e, request ex_tbl ex_cm ex_st1 (ex_req 1) = (ex_st1, Error e) /\
  exists v st2, request ex_tbl ex_cm ex_st1 (ex_req 2) = (st2, Ok v) /\ In 2 (map fst (phys_reqd st2)).
Proof. eexists. split; [vm_compute; reflexivity|]. eexists. eexists. split; [vm_compute; reflexivity|]. vm_compute. auto. Qed.

(* ------------------------------------------------------------------ returned ports: one bit per declared pin, in order *)
(* leaf by leaf (depth first, in declaration order): bit k of io/p/n carries the k-th declared name
   resolved through the connectors; inversion as declared; direction as declared with oe -> o;
   the clock constraint recorded for the port is the declared one *)
Theorem C19_port_bits_in_declared_order t cm st q st' v :
  request t cm st q = (st', Ok v) ->
  exists res, tbl_lookup t (q_key q) = Some res /\ Forall2 (decl_matches cm) (leaves_of res) (leaves v).
Proof.
  intros H. destruct (request_ok_decl t cm st q st' v H) as (res & Hl & Hm & _). exists res; split; assumption.
Qed.
Print Assumptions C19_port_bits_in_declared_order.

Theorem C19_port_bit_k cm ns ps :
  names_resolve cm ns ps ->
  length ns = length ps /\
  forall k n, nth_error ns k = Some n ->
    exists p, nth_error ps k = Some p /\ resolve_name (cm_fuel cm) cm n = MOk p /\ chain cm n p.
Proof.
  intros H. destruct (Forall2_nth_error _ _ _ H) as (Hl & Hk). split; [exact Hl|].
  intros k n Hn. destruct (Hk k n Hn) as (p & Hp & Hr). exists p. repeat split; auto.
  eapply resolve_name_chain; eauto.
Qed.
Print Assumptions C19_port_bit_k.

Theorem C19_granted_ports_in_history t cm hist :
  Forall (granted_ok t cm) (granted (snd (run t cm hist))).
Proof. pose proof (run_inv t cm hist) as H. destruct H as (_ & _ & _ & _ & _ & G). exact G. Qed.
Print Assumptions C19_granted_ports_in_history.

Example C19_port_bits_example :
  exists st' v, request ex_tbl ex_cm init_state (ex_req 0) = (st', Ok v) /\
    map (fun l => pt_p (lv_port l)) (leaves v) = [[0; 1]].
Proof. eexists. eexists. split; vm_compute; reflexivity. Qed.

(* ------------------------------------------------------------------ connector chains *)
(* for EVERY connector table (cyclic ones included) the resolution of any name terminates — the fuel
   cm_fuel of the model is never exhausted — and ends at a platform pin reached by following the chain
   of connector references, or with NameError (dangling reference, or a connector pin reached twice) *)
Theorem C19_map_names_terminates cm n :
  resolve_name (cm_fuel cm) cm n <> MLoop /\
  ((exists p, resolve_name (cm_fuel cm) cm n = MOk p /\ chain cm n p) \/
   resolve_name (cm_fuel cm) cm n = MMissing \/ resolve_name (cm_fuel cm) cm n = MCycle).
Proof. split; [exact (resolve_terminates cm n)|exact (map_names_total cm n)]. Qed.
Print Assumptions C19_map_names_terminates.

(* for an acyclic connector table the cycle error is impossible: NameError only for a dangling
   reference; with all references present the resolution ends at a platform pin *)
Theorem C19_map_names_chain cm n : acyclic cm ->
  (resolve_name (cm_fuel cm) cm n = MMissing \/ exists p, resolve_name (cm_fuel cm) cm n = MOk p /\ chain cm n p)
  /\ (closed cm -> present cm n -> exists p, resolve_name (cm_fuel cm) cm n = MOk p /\ chain cm n p).
Proof. exact (map_names_chain cm n). Qed.
Print Assumptions C19_map_names_chain.

(* the fuel is not a bound on behaviour: a terminating resolution is the same for any larger fuel,
   and every chain to a platform pin is found with enough fuel *)
Theorem C19_map_names_fuel_independent cm fuel n r k :
  resolve_name fuel cm n = r -> r <> MLoop -> resolve_name (fuel + k) cm n = r.
Proof. intros H Hr. exact (resolve_name_fuel_mono cm fuel n r H Hr k). Qed.
Print Assumptions C19_map_names_fuel_independent.

Example C19_chain_example :
  acyclic ex_cm /\ closed ex_cm /\ present ex_cm (CPin 1 1) /\ resolve_name (cm_fuel ex_cm) ex_cm (CPin 1 1) = MOk 1.
Proof.
  split; [|split; [|split; [|reflexivity]]].
  - exists (fun k => if fst k =? 1 then 1%nat else 0%nat). intros [c k] c' k' H. cbn in H.
    destruct (ckey_eqb (0, 1) (c, k)); [discriminate|].
    destruct (ckey_eqb (1, 1) (c, k)) eqn:E; [|discriminate].
    inversion H; subst. apply ckey_eqb_eq in E. inversion E; subst. cbn. auto.
  - intros [c k] c' k' H. cbn in H.
    destruct (ckey_eqb (0, 1) (c, k)); [discriminate|].
    destruct (ckey_eqb (1, 1) (c, k)); [|discriminate]. inversion H; subst. intros Hx; vm_compute in Hx; discriminate Hx.
  - intros Hx; vm_compute in Hx; discriminate Hx.
Qed.

(* S4 (fixed in bf3797f): connectors that refer to each other are refused with NameError *)
Example C19_map_names_cyclic_example :
  resolve_name (cm_fuel cyc_cm) cyc_cm (CPin 0 1) = MCycle /\
  map_names (cm_fuel cyc_cm) cyc_cm [CPin 0 1] = LCycle /\
  snd (request [(0, Leaf 0 [] (mkLeaf (PPins [CPin 0 1]) Do false None))] cyc_cm init_state (mkReq 0 0 DDash XNone))
    = Error EName.
Proof. repeat split. Qed.

(* ------------------------------------------------------------------ constraints *)
(* For the state reached by any history, with `ports` = the I/O ports of all granted requests:
   the constraint list names exactly the allocated pins, in order, so no pin is assigned twice — also for
   any subset of used ports; the port clock constraints are exactly the clocks of the granted leaves, each once;
   every port belongs to a granted request. *)
Theorem C19_constraints_exact t cm hist :
  let (st, outs) := run t cm hist in
  let ports := gports (granted outs) in
  map c_pin (port_constraints ports) = map fst (phys_reqd st) /\
  NoDup (map c_pin (port_constraints ports)) /\
  (forall used, NoDup (map c_pin (port_constraints (filter used ports)))) /\
  clock_constraints st = gclocks (granted outs) /\
  (forall p, In p ports -> In (fst (fst (io_name p))) (requested st)).
Proof.
  pose proof (run_inv t cm hist) as H. destruct (run t cm hist) as [st outs].
  unfold Inv in H. cbn [fst snd] in H. destruct H as (R & P & N & C & K & G). cbn zeta.
  pose proof (gports_pins t cm _ G) as GP.
  repeat split.
  - rewrite port_constraints_pins, GP, P. reflexivity.
  - rewrite port_constraints_pins, GP. exact N.
  - intros used. rewrite port_constraints_pins. apply NoDup_concat_filter. rewrite GP. exact N.
  - exact C.
  - intros p Hp. rewrite R. eapply gports_names_head; eauto.
Qed.
Print Assumptions C19_constraints_exact.

(* each port contributes one entry per bit, in order: entry k is `name` (1-bit port) or `name[k]`
   and carries pin k of the port *)
Theorem C19_constraint_entries p :
  length (port_entries p) = length (io_meta p) /\
  forall k m, nth_error (io_meta p) k = Some m ->
    nth_error (port_entries p) k = Some (mkC (io_name p) (bit_name (length (io_meta p)) k) m (io_attrs p)).
Proof. split; [apply port_entries_length|intros k m; apply port_entries_nth]. Qed.
Print Assumptions C19_constraint_entries.

(* each declared clock of a granted resource appears with its period *)
Theorem C19_clock_constraints t cm st q st' v :
  request t cm st q = (st', Ok v) ->
  exists res, tbl_lookup t (q_key q) = Some res /\
    io_clocks st' = io_clocks st ++ value_clocks v /\ map snd (value_clocks v) = decl_clocks res.
Proof.
  intros H. destruct (request_ok_decl t cm st q st' v H) as (res & Hl & Hm & _).
  destruct (request_ok t cm st q st' v H) as (res' & d & x & Hl' & _ & _ & _ & _ & _ & _ & C & _).
  exists res. repeat split; auto. eapply decl_clocks_value; eauto.
Qed.
Print Assumptions C19_clock_constraints.

Example C19_constraints_example :
  let (st, outs) := run ex_tbl ex_cm ex_hist in
  map (fun c => (c_bit c, c_pin c)) (port_constraints (gports (granted outs)))
    = [(Some 0, 0); (Some 1, 1); (None, 2); (None, 3)] /\
  map snd (clock_constraints st) = [8000000].
Proof. vm_compute. split; reflexivity. Qed.

(* ------------------------------------------------------------------ build plan (Platform.prepare + constraint file) *)
(* For every vendor, table, connector table, design history, default_clk/default_rst and set of granted ports
   the design leaves unbuffered: if the build is not refused, the requests of create_missing_domain continue the
   history; the pins named by the constraint lines are a sub-list of the allocation of that final state (hence
   each line names a pin owned by a granted request), no pin is named twice, and the clock constraints are the
   recorded ones (none in the Apicula .cst). *)
Theorem C19_build_plan_exact v t cm hist dclk drst unused raw outs pl :
  build v t cm hist dclk drst unused raw = (outs, inr pl) ->
  outs = snd (run t cm hist) /\
  exists st outs', run t cm (hist ++ sys_reqs dclk drst) = (st, outs') /\
    subl (map c_pin (pl_constraints pl)) (map fst (phys_reqd st)) /\
    NoDup (map c_pin (pl_constraints pl)) /\
    pl_clocks pl = (if vendor_clocks v then io_clocks st else []).
Proof. exact (build_spec v t cm hist dclk drst unused raw outs pl). Qed.
Print Assumptions C19_build_plan_exact.

(* non-vacuity: a (clock) and c are requested by the design, c's port stays unbuffered, default_clk = resource 0
   is already taken -> refused with ResourceError(already requested); without default_clk the iCE40 plan has the
   two bits of a, and the clock of the unbuffered c is still constrained *)
Example C19_build_example :
  snd (build VIce40 ex_tbl ex_cm [ex_req 0; ex_req 2] (Some 0) None [((2, 0), [])] []) = inl (EResource RAgain) /\
  exists pl, snd (build VIce40 ex_tbl ex_cm [ex_req 0; ex_req 2] None None [((2, 0), [])] [(0%nat, 1); (1%nat, 3)]) = inr pl /\
    map (fun c => (c_bit c, c_pin c)) (pl_constraints pl) = [(Some 0, 0); (Some 1, 1)] /\
    map snd (pl_clocks pl) = [8000000].
Proof. split; [vm_compute; reflexivity|]. eexists. split; [vm_compute; reflexivity|]. split; reflexivity. Qed.

(* raw I/O ports of the design (no metadata: created by the design itself, not by request()) of any width, in
   any number, used at any position among the requested ports: they get no line, and every line of the requested
   ports — default clock and reset included — is exactly what it is without them *)
Theorem C19_build_raw_ports_ignored v t cm hist dclk drst unused raw :
  build v t cm hist dclk drst unused raw = build v t cm hist dclk drst unused [].
Proof. exact (build_raw_irrelevant v t cm hist dclk drst unused raw). Qed.
Print Assumptions C19_build_raw_ports_ignored.

(* and the list of design ports they are woven into really contains them at the stated positions *)
Example C19_build_raw_example :
  weave VEcp5 [(0%nat, 1); (1%nat, 2); (5%nat, 1)] 0
        (leaves (VLeaf (mkLval 0 true (mkPort ((0, 0), []) false [7] [] false Di []) (mkPin 1 Dio 0 ((0, 0), [])) None)))
  = [DRaw 1; DRes (mkIO (((0, 0), []), 0) [7] []); DRaw 2; DRaw 1].
Proof. reflexivity. Qed.

(* ------------------------------------------------------------------ translated from the source on every run
   (translator/unit_res.py -> Gen/ResGen.v; equalities proved in Proofs/GenEqRes.v).  Pins.map_names,
   ResourceManager.lookup, the `for phys_name in phys_names` claim loop of request.resolve and the body of
   ResourceManager.request (its nested merge_options/resolve instantiated with the model's) as regenerated from the
   current text of amaranth/build/{dsl,res}.py equal the model, for every fuel, table, connector table, state, request. *)
From V.Gen Require ResGen.
From V.Proofs Require GenEqRes.
Theorem C19_translated_map_names fuel ns cm :
  ResGen.Pins_map_names fuel ns cm = GenEqRes.of_lres (map_names fuel cm ns).
Proof. exact (GenEqRes.gen_map_names_eq fuel ns cm). Qed.
Print Assumptions C19_translated_map_names.
Theorem C19_translated_lookup t name number :
  ResGen.ResourceManager_lookup t name number =
  match tbl_lookup t (name, number) with Some n => ResGen.Ret (number, n) | None => ResGen.Raise GenEqRes.E_nosuch end.
Proof. exact (GenEqRes.gen_lookup_eq t name number). Qed.
Print Assumptions C19_translated_lookup.
Theorem C19_translated_claim st pth names :
  ResGen.resolve_claim st pth names =
  let (ph, ok) := claim (phys_reqd st) names pth in
  (mkSt (requested st) ph (io_clocks st) (pins st), if ok then ResGen.Ret tt else ResGen.Raise GenEqRes.E_conflict).
Proof. exact (GenEqRes.gen_claim_eq st pth names). Qed.
Print Assumptions C19_translated_claim.
(* when the model reports EHang (fuel exhausted; unreachable, resolve_terminates) the generated request does not return *)
Theorem C19_translated_request t cm st q :
  let g := ResGen.ResourceManager_request GenEqRes.model_merge (GenEqRes.model_resolve cm) t st
             (q_name q) (q_num q) (q_dir q) (q_xdr q) in
  match request t cm st q with
  | (st', Ok v) => g = (st', ResGen.Ret v)
  | (st', Error EHang) => snd g = ResGen.Hang
  | (st', Error e) => g = (st', ResGen.Raise (GenEqRes.exc_of e))
  end.
Proof. exact (GenEqRes.gen_request_eq t cm st q). Qed.
Print Assumptions C19_translated_request.
Theorem C19_translated_iter st :
  ResGen.ResourceManager_iter_pins st = pins st /\
  ResGen.ResourceManager_iter_port_clock_constraints st = clock_constraints st.
Proof. exact (conj (GenEqRes.gen_iter_pins_eq st) (GenEqRes.gen_iter_port_clock_constraints_eq st)). Qed.
Print Assumptions C19_translated_iter.

From Coq Require Import ZArith List Bool.
From V.Model Require Import Res.
From V.Proofs Require Import ResP.

(* C03 — clock domains, resets and control inserters (model: Model/Xfrm.v on Stmt.v / Process.v; proofs: Proofs/XfrmP.v).
   `step D e cur` is the engine's reaction to one testbench event (a set of simultaneous writes, e.g. to several clocks
   and resets); `state_after (step D) evs cur` is the state after a whole event sequence.
   Trace-level theorems are refinements: the run of the TRANSFORMED design equals (pointwise, `eqe`; environments are
   functions and no extensionality axiom is used) the spec run `step_ctl en_of rs_of` of the ORIGINAL design, in which
   a sync process of domain d executes `sync_ctl` with the explicit enable en_of d and extra reset rs_of d.
   `_process` theorems are the one-activation facts they are lifted from.  Still partial (named `_partial` or stated
   in the comment of the theorem): `collector_ok` is a hypothesis; controls have shape unsigned(1); the renamer spec
   excludes merging two domains of one fragment; memories have process-level theorems only. *)
From Coq Require Import ZArith List Bool Lia.
From V.Model Require Import Bits Shape Ast Denote PyRTL PyEval Stmt Process Xfrm.
From V.Proofs Require Import XfrmP.
Import ListNotations.
Open Scope Z_scope.

(* ---------- example design: domain 1 = (clk 0, posedge, rst 1, async); a (signal 2) and the reset-less q (signal 3) ---------- *)
Definition s4 := Sh 4 false.
Definition ex_tab : sigtab := fun i =>
  match i with
  | 2%nat => {| sd_shape := s4; sd_init := 3; sd_reset_less := false |}
  | 3%nat => {| sd_shape := s4; sd_init := 0; sd_reset_less := true |}
  | _ => {| sd_shape := Sh 1 false; sd_init := 0; sd_reset_less := false |}
  end.
Definition ex_doms : domtab := fun _ => {| d_clk := 0; d_pos := true; d_rst := Some 1%nat; d_async := true |}.
Definition inc (i : nat) : stmt := SAssign (ESig i s4) (EOp2 OAdd (ESig i s4) (EConst 1 (Sh 1 false))).
Definition ex_ss : list stmt := [inc 2; inc 3].
Definition ex_D : design := {| g_tab := ex_tab; g_doms := ex_doms; g_procs := [(1%nat, ex_ss)]; g_nsig := 5 |}.
Definition zero_env : env := fun _ => 0.

(* ---------- a sync-driven bit changes only at its own domain's active edge ---------- *)
Theorem C03_sync_changes_only_at_own_edge D e cur d i b : 0 <= b -> d <> 0%nat ->
  only_dom D d i b -> ~ In i (map fst e) ->
  clk_edge (g_doms D d) cur (apply_writes e cur) = false ->
  Z.testbit (step D e cur i) b = Z.testbit (cur i) b \/
  (rst_rise (g_doms D d) cur (apply_writes e cur) = true /\ sd_reset_less (g_tab D i) = false /\
   Z.testbit (step D e cur i) b = Z.testbit (sd_init (g_tab D i)) b).
Proof. exact (no_clock_edge_keeps_or_resets D e cur d i b). Qed.
Print Assumptions C03_sync_changes_only_at_own_edge.

Example C03_own_edge_hyps :
  only_dom ex_D 1%nat 2%nat 0 /\ ~ In 2%nat (map fst [(1%nat, 1)]) /\
  clk_edge (g_doms ex_D 1%nat) zero_env (apply_writes [(1%nat, 1)] zero_env) = false /\
  sd_reset_less (g_tab ex_D 2%nat) = false /\
  rst_rise (g_doms ex_D 1%nat) zero_env (apply_writes [(1%nat, 1)] zero_env) = true.
Proof.
  repeat split; try reflexivity.
  - intros p [<-|[]] _. reflexivity.
  - simpl. intros [H|[]]. discriminate.
Qed.

(* reset-less signals keep their value without an active clock edge, whatever the resets do (the former finding F7 —
   a reset rise of an async domain ran the whole process — is repaired in the simulator; the old witness now holds) *)
Theorem C03_reset_less_changes_only_at_clock_edge D e cur d i b : 0 <= b -> d <> 0%nat ->
  only_dom D d i b -> ~ In i (map fst e) -> sd_reset_less (g_tab D i) = true ->
  clk_edge (g_doms D d) cur (apply_writes e cur) = false ->
  Z.testbit (step D e cur i) b = Z.testbit (cur i) b.
Proof. exact (reset_rise_keeps_reset_less D e cur d i b). Qed.
Print Assumptions C03_reset_less_changes_only_at_clock_edge.

Example C03_reset_rise_alone_example :
  only_dom ex_D 1%nat 3%nat 0 /\ sd_reset_less (g_tab ex_D 3%nat) = true /\
  rst_rise (g_doms ex_D 1%nat) zero_env (apply_writes [(1%nat, 1)] zero_env) = true /\
  step ex_D [(1%nat, 1)] zero_env 3%nat = 0 /\ step ex_D [(1%nat, 1)] zero_env 2%nat = 3 /\
  step ex_D [(0%nat, 1)] zero_env 3%nat = 1.
Proof.
  repeat split; try reflexivity.
  intros p [<-|[]] _. reflexivity.
Qed.

(* edges and resets of other domains never affect it: nothing changes unless the domain's own waker fires *)
Theorem C03_other_domains_never_affect D e cur d i b : 0 <= b -> d <> 0%nat ->
  only_dom D d i b -> ~ In i (map fst e) ->
  fired (g_doms D d) cur (apply_writes e cur) = false ->
  Z.testbit (step D e cur i) b = Z.testbit (cur i) b.
Proof. exact (unfired_unchanged D e cur d i b). Qed.
Print Assumptions C03_other_domains_never_affect.

Theorem C03_sync_reset_loads_init D e cur d r p i b : 0 <= b -> d <> 0%nat ->
  only_dom D d i b -> In p (g_procs D) -> fst p = d -> Z.testbit (um (g_tab D) (snd p) i) b = true ->
  d_rst (g_doms D d) = Some r -> sd_reset_less (g_tab D i) = false ->
  fired (g_doms D d) cur (apply_writes e cur) = true ->
  Z.land 1 (apply_writes e cur r) <> 0 ->
  Z.testbit (step D e cur i) b = Z.testbit (sd_init (g_tab D i)) b.
Proof. exact (fired_with_reset_loads_init D e cur d r p i b). Qed.
Print Assumptions C03_sync_reset_loads_init.

Example C03_sync_reset_hyps :
  let e := [(0%nat, 1); (1%nat, 1)] in
  In (1%nat, ex_ss) (g_procs ex_D) /\ Z.testbit (um (g_tab ex_D) ex_ss 2%nat) 1 = true /\
  fired (g_doms ex_D 1%nat) zero_env (apply_writes e zero_env) = true /\ Z.land 1 (apply_writes e zero_env 1%nat) <> 0 /\
  step ex_D e zero_env 2%nat = 3.
Proof. repeat split; try reflexivity; [simpl; auto | vm_compute; discriminate]. Qed.

Theorem C03_async_reset_immediate D e cur d r p i b : 0 <= b -> d <> 0%nat ->
  only_dom D d i b -> In p (g_procs D) -> fst p = d -> Z.testbit (um (g_tab D) (snd p) i) b = true ->
  d_rst (g_doms D d) = Some r -> d_async (g_doms D d) = true -> sd_reset_less (g_tab D i) = false ->
  cur r <> 1 -> apply_writes e cur r = 1 ->
  Z.testbit (step D e cur i) b = Z.testbit (sd_init (g_tab D i)) b.
Proof. exact (async_reset_rise_loads_init D e cur d r p i b). Qed.
Print Assumptions C03_async_reset_immediate.

Theorem C03_reset_less_ignores_reset tab ss r st i : sd_reset_less (tab i) = true ->
  s_next (sync_process tab ss (Some r) st) i = s_next (sync_process tab ss None st) i.
Proof. exact (reset_less_process tab ss r st i). Qed.
Print Assumptions C03_reset_less_ignores_reset.

(* ---------- LHSMaskCollector.chunks ---------- *)
Theorem C03_chunks_partition_mask w m k : 0 <= k < w ->
  existsb (in_chunk w k) (chunks w m) = Z.testbit m k.
Proof. exact (chunks_cover w m k). Qed.
Print Assumptions C03_chunks_partition_mask.

Example C03_chunks_example : chunks 8 108 = [(2, Some 4); (5, Some 7)] /\ chunks 4 15 = [(0, None)].
Proof. split; reflexivity. Qed.

(* ---------- ResetInserter ---------- *)
Theorem C03_reset_inserter_process tab ss c rst st :
  shape_of c = Sh 1 false -> tab_ok tab -> collector_ok tab ss ->
  forall i, s_next (sync_process tab (ss ++ [ctl_switch c (reset_stmts tab ss)]) rst st) i
          = s_next (sync_ctl tab ss rst true (ctl_on (s_curr st) c) st) i.
Proof. exact (reset_process tab ss c rst st). Qed.
Print Assumptions C03_reset_inserter_process.

Example C03_reset_inserter_hyps : tab_ok ex_tab /\ collector_ok ex_tab ex_ss /\
  reset_stmts ex_tab ex_ss = [SAssign (ESig 2 s4) (EConst 3 s4)].
Proof.
  split; [|split; [|reflexivity]].
  - split; intros i; destruct i as [|[|[|[|i]]]]; vm_compute; intuition congruence.
  - split.
    + intros i k Hk. destruct i as [|[|[|[|i]]]]; cbn in Hk |- *; try apply Z.testbit_0_l;
        change 15 with (Z.ones 4); apply Z.ones_spec_high; lia.
    + intros i H. destruct i as [|[|[|[|i]]]]; cbn in H |- *; try congruence; auto.
Qed.

(* ---------- EnableInserter ---------- *)
Theorem C03_enable_inserter_process tab ss c rst st : shape_of c = Sh 1 false ->
  forall i, s_next (sync_process tab [ctl_switch c ss] rst st) i
          = s_next (sync_ctl tab ss rst (ctl_on (s_curr st) c) false st) i.
Proof. exact (enable_process tab ss c rst st). Qed.
Print Assumptions C03_enable_inserter_process.

(* enable low, the domain's own reset low: no state of the process changes — whatever is inside, inserted resets included *)
Theorem C03_enable_inside_reset tab ss e r rst st :
  shape_of e = Sh 1 false -> ctl_on (s_curr st) e = false ->
  match rst with Some x => Z.land 1 (s_curr st x) = 0 | None => True end ->
  forall i, s_next (sync_process tab [ctl_switch e (ss ++ [ctl_switch r (reset_stmts tab ss)])] rst st) i = s_next st i.
Proof.
  intros He Hoff Hr i. rewrite enable_process by auto. rewrite Hoff. apply sync_ctl_frozen; auto.
Qed.
Print Assumptions C03_enable_inside_reset.

(* the domain's own reset is not gated by an inserted enable *)
Theorem C03_own_reset_not_gated tab ss e r st i b : 0 <= b ->
  Z.testbit (um tab ss i) b = true -> sd_reset_less (tab i) = false -> Z.land 1 (s_curr st r) <> 0 ->
  Z.testbit (s_next (sync_process tab [ctl_switch e ss] (Some r) st) i) b = Z.testbit (sd_init (tab i)) b.
Proof.
  intros Hb Hd Hrl Hr. apply sync_reset_bit; auto; try (unfold um in *; rewrite stmts_mask_ctl_switch; auto).
Qed.
Print Assumptions C03_own_reset_not_gated.

(* a ResetInserter applied outside an EnableInserter is not gated by it *)
Theorem C03_reset_outside_enable tab ss e r rst st i b :
  shape_of r = Sh 1 false -> tab_ok tab -> collector_ok tab [ctl_switch e ss] ->
  0 <= b -> Z.testbit (um tab ss i) b = true -> sd_reset_less (tab i) = false ->
  ctl_on (s_curr st) r = true ->
  Z.testbit (s_next (sync_process tab ([ctl_switch e ss] ++ [ctl_switch r (reset_stmts tab [ctl_switch e ss])]) rst st) i) b
  = Z.testbit (sd_init (tab i)) b.
Proof.
  intros Hr Ht Hk Hb Hd Hrl Hon. rewrite reset_process by auto. rewrite Hon.
  apply sync_ctl_reset_bit; auto; try (unfold um in *; rewrite stmts_mask_ctl_switch; auto).
Qed.
Print Assumptions C03_reset_outside_enable.

(* ---------- stacks of inserters of one kind ---------- *)
Theorem C03_inserters_compose_reset_process tab cs ss rst st : tab_ok tab ->
  Forall (fun c => shape_of c = Sh 1 false) cs -> collector_ok_n tab cs ss ->
  forall i, s_next (sync_process tab (reset_n tab cs ss) rst st) i
          = s_next (sync_ctl tab ss rst true (existsb (ctl_on (s_curr st)) cs) st) i.
Proof. exact (reset_n_process tab cs ss rst st). Qed.
Print Assumptions C03_inserters_compose_reset_process.

Theorem C03_inserters_compose_enable_process tab cs ss rst st :
  Forall (fun c => shape_of c = Sh 1 false) cs ->
  forall i, s_next (sync_process tab (enable_n cs ss) rst st) i
          = s_next (sync_ctl tab ss rst (forallb (ctl_on (s_curr st)) cs) false st) i.
Proof. exact (enable_n_process tab cs ss rst st). Qed.
Print Assumptions C03_inserters_compose_enable_process.

(* the control `a | b` (`a & b`) is asserted exactly when one (both) of the one-bit controls is *)
Theorem C03_or_and_controls curr a b : shape_of a = Sh 1 false -> shape_of b = Sh 1 false ->
  (shape_of (EOp2 OOr a b) = Sh 1 false /\ ctl_on curr (EOp2 OOr a b) = ctl_on curr a || ctl_on curr b) /\
  (shape_of (EOp2 OAnd a b) = Sh 1 false /\ ctl_on curr (EOp2 OAnd a b) = ctl_on curr a && ctl_on curr b).
Proof. intros Ha Hb. split; [apply ctl_on_or|apply ctl_on_and]; auto. Qed.
Print Assumptions C03_or_and_controls.

(* ---------- DomainRenamer ---------- *)
(* renaming re-keys the statement dict when it merges no two domains of the fragment ... *)
Theorem C03_domain_renamer_entries rho st :
  NoDup (map (fun e => rename_dom rho (fst e)) st) -> (forall e, In e st -> snd e <> []) ->
  rename_entries rho st = map (ren_entry rho) st.
Proof. exact (rename_entries_spec rho st). Qed.
Print Assumptions C03_domain_renamer_entries.

(* ... and a design whose processes are re-keyed to domains with the same clock / reset configuration has the same trace
   over every event sequence (partial: merging of two domains of one fragment into one process is only validated) *)
Theorem C03_domain_renamer_spec_partial D rho doms' evs cur :
  (forall p, In p (g_procs D) -> (rename_dom rho (fst p) = 0%nat <-> fst p = 0%nat)) ->
  (forall p, In p (g_procs D) -> fst p <> 0%nat -> doms' (rename_dom rho (fst p)) = g_doms D (fst p)) ->
  run {| g_tab := g_tab D; g_doms := doms'; g_procs := map (ren_entry rho) (g_procs D); g_nsig := g_nsig D |} evs cur
  = run D evs cur.
Proof. intros H1 H2. exact (rename_run D rho doms' H1 H2 sync_code evs cur). Qed.
Print Assumptions C03_domain_renamer_spec_partial.

Example C03_domain_renamer_hyps :
  let rho := [(1%nat, 2%nat)] in
  (forall p, In p (g_procs ex_D) -> (rename_dom rho (fst p) = 0%nat <-> fst p = 0%nat)) /\
  rename_entries rho [(1%nat, ex_ss)] = [(2%nat, ex_ss)].
Proof. split; [|reflexivity]. intros p [<-|[]]. simpl. split; discriminate. Qed.

(* ================= whole traces: refinement of the original design with explicit controls ================= *)
(* the inserters on a fragment tree rewrite every process of the flattened design *)
Theorem C03_inserters_map_processes tab doms ctl f n :
  mk_design tab doms (reset_inserter tab ctl f) n = map_procs (reset_entry tab ctl) (mk_design tab doms f n) /\
  mk_design tab doms (enable_inserter ctl f) n = map_procs (enable_entry ctl) (mk_design tab doms f n).
Proof. split; [apply mk_design_reset|apply mk_design_enable]. Qed.
Print Assumptions C03_inserters_map_processes.

(* ResetInserter: over every event sequence the wrapped design is the original one run with the extra reset `ctl d`
   on the sync processes of every named domain d — every signal (other domains, comb) included *)
Theorem C03_reset_inserter_spec D ctl : tab_ok (g_tab D) -> ctl_ok ctl ->
  (forall p, In p (g_procs D) -> fst p <> 0%nat -> lookup (fst p) ctl <> None -> collector_ok (g_tab D) (snd p)) ->
  forall evs cur cur', eqe cur cur' ->
  eqe (state_after (step (map_procs (reset_entry (g_tab D) ctl) D)) evs cur)
      (state_after (step_ctl (fun _ _ => true) (ctl_of ctl false) D) evs cur').
Proof. exact (reset_inserter_refines D ctl). Qed.
Print Assumptions C03_reset_inserter_spec.

Theorem C03_enable_inserter_spec D ctl : ctl_ok ctl ->
  forall evs cur cur', eqe cur cur' ->
  eqe (state_after (step (map_procs (enable_entry ctl) D)) evs cur)
      (state_after (step_ctl (ctl_of ctl true) (fun _ _ => false) D) evs cur').
Proof. exact (enable_inserter_refines D ctl). Qed.
Print Assumptions C03_enable_inserter_spec.

(* the spec run with idle controls is the run of the design itself *)
Theorem C03_spec_run_idle_is_design D evs cur cur' : eqe cur cur' ->
  eqe (state_after (step D) evs cur) (state_after (step_ctl (fun _ _ => true) (fun _ _ => false) D) evs cur').
Proof. exact (step_ctl_plain D evs cur cur'). Qed.
Print Assumptions C03_spec_run_idle_is_design.

Definition ex_ctl : controls := [(1%nat, ESig 4 (Sh 1 false))].
Example C03_refinement_hyps : tab_ok (g_tab ex_D) /\ ctl_ok ex_ctl /\
  (forall p, In p (g_procs ex_D) -> fst p <> 0%nat -> lookup (fst p) ex_ctl <> None -> collector_ok (g_tab ex_D) (snd p)) /\
  state_after (step (map_procs (reset_entry ex_tab ex_ctl) ex_D)) [[(0%nat, 1)]; [(4%nat, 1)]; [(0%nat, 0)]; [(0%nat, 1)]] zero_env 2%nat = 3 /\
  state_after (step ex_D) [[(0%nat, 1)]; [(4%nat, 1)]; [(0%nat, 0)]; [(0%nat, 1)]] zero_env 2%nat = 2.
Proof.
  destruct C03_reset_inserter_hyps as [Ht [Hk _]]. split; [exact Ht|]. split; [|split; [|split; vm_compute; reflexivity]].
  - intros d c. unfold lookup, ex_ctl. cbn [find fst snd]. destruct (Nat.eqb 1 d); intros H; inversion H. reflexivity.
  - intros p [<-|[]] _ _. exact Hk.
Qed.

(* after ANY event prefix: an own-domain edge with the inserted reset high loads the init bit into every
   non-reset-less register bit of a named domain ... *)
Theorem C03_reset_inserter_trace_loads_init D ctl pre e cur0 p c i b : tab_ok (g_tab D) -> ctl_ok ctl ->
  (forall q, In q (g_procs D) -> fst q <> 0%nat -> lookup (fst q) ctl <> None -> collector_ok (g_tab D) (snd q)) ->
  let D' := map_procs (reset_entry (g_tab D) ctl) D in
  let s := state_after (step D') pre cur0 in
  0 <= b -> sole_driver D p i b -> fst p <> 0%nat -> lookup (fst p) ctl = Some c ->
  Z.testbit (um (g_tab D) (snd p) i) b = true -> sd_reset_less (g_tab D i) = false ->
  clk_edge (g_doms D (fst p)) s (apply_writes e s) = true ->
  ctl_on (apply_writes e s) c = true ->
  Z.testbit (state_after (step D') (pre ++ [e]) cur0 i) b = Z.testbit (sd_init (g_tab D i)) b.
Proof. intros Ht Hc. exact (reset_inserter_trace_loads_init D ctl Ht Hc pre e cur0 p c i b). Qed.
Print Assumptions C03_reset_inserter_trace_loads_init.

(* ... with the inserted enable low (own reset low) every register bit of a named domain keeps its value ... *)
Theorem C03_enable_inserter_trace_keeps D ctl pre e cur0 p c i b : ctl_ok ctl ->
  let D' := map_procs (enable_entry ctl) D in
  let s := state_after (step D') pre cur0 in
  0 <= b -> sole_driver D p i b -> fst p <> 0%nat -> lookup (fst p) ctl = Some c -> ~ In i (map fst e) ->
  ctl_on (apply_writes e s) c = false ->
  match d_rst (g_doms D (fst p)) with Some r => Z.land 1 (apply_writes e s r) = 0 | None => True end ->
  Z.testbit (state_after (step D') (pre ++ [e]) cur0 i) b = Z.testbit (s i) b.
Proof. intros Hc. exact (enable_inserter_trace_keeps D ctl Hc pre e cur0 p c i b). Qed.
Print Assumptions C03_enable_inserter_trace_keeps.

(* ... and in the spec run a process whose controls are idle (or a reset-less register under an inserted reset)
   computes exactly what the original process computes from the same committed inputs: reset-less registers and
   the registers of all other domains follow the un-transformed design *)
Theorem C03_idle_controls_follow_original D en_of rs_of e cur p i b : 0 <= b -> sole_driver D p i b -> fst p <> 0%nat ->
  (forall d a a', eqe a a' -> rs_of d a = rs_of d a') -> (forall d a a', eqe a a' -> en_of d a = en_of d a') ->
  en_of (fst p) (apply_writes e cur) = true ->
  rs_of (fst p) (apply_writes e cur) = false \/ sd_reset_less (g_tab D i) = true ->
  exists st, s_curr st = freeze (g_nsig D) (apply_writes e cur) /\
    Z.testbit (s_next st i) b = Z.testbit (apply_writes e cur i) b /\
    Z.testbit (step_ctl en_of rs_of D e cur i) b
    = Z.testbit (s_next (sync_code (g_tab D) (snd p) (g_doms D (fst p)) cur (apply_writes e cur) st) i) b.
Proof. exact (ctl_idle_is_original D en_of rs_of e cur p i b). Qed.
Print Assumptions C03_idle_controls_follow_original.

(* n inserters of one kind and ONE inserter whose control is their OR (AND) refine the same spec run, hence have
   the same trace over every event sequence *)
Theorem C03_inserters_compose D c cs : tab_ok (g_tab D) -> shape_of c = Sh 1 false ->
  Forall (fun c => shape_of c = Sh 1 false) cs ->
  (forall p, In p (g_procs D) -> fst p <> 0%nat -> collector_ok (g_tab D) (snd p) /\ collector_ok_n (g_tab D) cs (snd p)) ->
  forall evs cur,
  ((forall curr, ctl_on curr c = existsb (ctl_on curr) cs) ->
   eqe (state_after (step (map_procs (stack_entry (reset_n (g_tab D) cs)) D)) evs cur)
       (state_after (step (map_procs (stack_entry (reset_n (g_tab D) [c])) D)) evs cur)) /\
  ((forall curr, ctl_on curr c = forallb (ctl_on curr) cs) ->
   eqe (state_after (step (map_procs (stack_entry (enable_n cs)) D)) evs cur)
       (state_after (step (map_procs (stack_entry (enable_n [c])) D)) evs cur)).
Proof.
  intros Ht Hc Hcs Hk evs cur. split; intros Hor.
  - eapply eqe_trans.
    + apply (reset_stack_refines D cs Ht Hcs (fun p Hp Hn => proj2 (Hk p Hp Hn)) evs cur cur (eqe_refl cur)).
    + apply eqe_sym. apply (reset_or_refines D c cs Ht Hc Hor (fun p Hp Hn => proj1 (Hk p Hp Hn)) evs cur cur (eqe_refl cur)).
  - eapply eqe_trans.
    + apply (enable_stack_refines D cs Hcs evs cur cur (eqe_refl cur)).
    + apply eqe_sym. apply (enable_and_refines D c cs Hc Hor evs cur cur (eqe_refl cur)).
Qed.
Print Assumptions C03_inserters_compose.

(* ================= memories under the inserters (one activation of a memory process) ================= *)
(* ResetInserter leaves every memory instance of the hierarchy untouched; EnableInserter rewrites the ports *)
Theorem C03_inserters_on_memories tab ctl f :
  frag_mems (reset_inserter tab ctl f) = frag_mems f /\
  frag_mems (enable_inserter ctl f) = map (enable_mem ctl) (frag_mems f).
Proof. split; [apply frag_mems_reset|apply frag_mems_enable]. Qed.
Print Assumptions C03_inserters_on_memories.

(* enable of domain d low at an edge of d: the rows of the memory and every sync read-data register of d keep
   their values (write enables read as 0, read enables read as 0) *)
Theorem C03_enable_freezes_memory tab ctl m d c rw st :
  lookup d ctl = Some c -> shape_of c = Sh 1 false -> ctl_on (s_curr st) c = false ->
  sgn (mi_shape m) = false ->
  (forall p, In p (mi_wports m) -> 0 <= ewidth (wp_en p)) ->
  (forall p, In p (mi_rports m) -> rp_dom p = d -> shape_of (rp_en p) = Sh 1 false) ->
  let r := mem_sync tab (enable_mem ctl m) d rw (st, []) in
  mem_commit rw (snd r) = rw /\ forall i, s_next (fst r) i = s_next st i.
Proof. exact (enable_mem_sync_frozen tab ctl m d c rw st). Qed.
Print Assumptions C03_enable_freezes_memory.

Example C03_enable_freezes_memory_hyps :
  let m := MI (Sh 4 false) 2 [5] [WP 1 (ESig 5 (Sh 1 false)) (ESig 6 s4) (ESig 7 (Sh 1 false))]
              [RP 1 (ESig 5 (Sh 1 false)) (ESig 2 s4) (ESig 8 (Sh 1 false)) [0%nat]] in
  let st := {| s_curr := fun i => match i with 4%nat => 0 | _ => 1 end; s_next := zero_env |} in
  lookup 1%nat ex_ctl = Some (ESig 4 (Sh 1 false)) /\ ctl_on (s_curr st) (ESig 4 (Sh 1 false)) = false /\
  mem_commit [5; 0] (snd (mem_sync ex_tab m 1%nat [5; 0] (st, []))) = [5; 1] /\
  mem_commit [5; 0] (snd (mem_sync ex_tab (enable_mem ex_ctl m) 1%nat [5; 0] (st, []))) = [5; 0].
Proof. repeat split; vm_compute; reflexivity. Qed.

(* ================= DomainRenamer on fragment TREES with memories, whole traces =================
   A domain is its clock / reset configuration, an event writes clock and reset SIGNALS: when the target domain has the
   configuration of the renamed one, "a's events applied at b" is the same event list.  `mrun` is the engine with
   memories: the states hold every signal (registers, comb signals, read-port data) and every memory row. *)
(* any renaming that merges nothing inside one fragment or one memory and lands on equally configured domains *)
Theorem C03_domain_renamer_tree_spec tab doms doms' rho f n U :
  no_merge rho f ->
  (forall d, In d U -> (rename_dom rho d = 0%nat <-> d = 0%nat)) ->
  (forall d, In d U -> d <> 0%nat -> doms' (rename_dom rho d) = doms d) ->
  (forall p, In p (flatten f) -> In (fst p) U) ->
  (forall m d, In m (frag_mems f) -> In d (mem_port_doms m) -> In d U) ->
  (forall m d1 d2, In m (frag_mems f) -> In d1 (mem_port_doms m) -> In d2 (mem_port_doms m) ->
     rename_dom rho d1 = rename_dom rho d2 -> d1 = d2) ->
  let D := mk_design tab doms f n in
  let D' := mk_design tab doms' (domain_renamer rho f) n in
  minit D' (frag_mems (domain_renamer rho f)) = minit D (frag_mems f) /\
  forall evs s, mrun D' (frag_mems (domain_renamer rho f)) evs s = mrun D (frag_mems f) evs s.
Proof. exact (rename_tree_trace tab doms doms' rho f n U). Qed.
Print Assumptions C03_domain_renamer_tree_spec.

(* renaming a to a FRESH domain b that has a's clock / reset configuration: trees of any depth, memory ports in a *)
Theorem C03_domain_renamer_fresh_domain tab doms doms' a b f n U :
  a <> 0%nat -> b <> 0%nat -> ~ In b U -> frag_dicts_ok f ->
  (forall p, In p (flatten f) -> In (fst p) U) ->
  (forall st e, In st (frag_nodes f) -> In e st -> In (fst e) U) ->
  (forall m d, In m (frag_mems f) -> In d (mem_port_doms m) -> In d U) ->
  doms' b = doms a -> (forall d, In d U -> d <> a -> doms' d = doms d) ->
  let D := mk_design tab doms f n in
  let D' := mk_design tab doms' (domain_renamer [(a, b)] f) n in
  minit D' (frag_mems (domain_renamer [(a, b)] f)) = minit D (frag_mems f) /\
  forall evs s, mrun D' (frag_mems (domain_renamer [(a, b)] f)) evs s = mrun D (frag_mems f) evs s.
Proof. exact (rename_fresh_tree_trace tab doms doms' a b f n U). Qed.
Print Assumptions C03_domain_renamer_fresh_domain.

(* renaming a ONTO an existing domain b of identical configuration — PARTIAL merge case: proved when no single fragment
   and no single memory holds logic of both a and b (their processes then stay separate processes of domain b).
   Not proved: a and b statements of ONE fragment concatenated into one process, ports of one memory merged. *)
Theorem C03_domain_renamer_onto_existing_partial tab doms a b f n U :
  a <> 0%nat -> b <> 0%nat -> doms b = doms a -> frag_dicts_ok f ->
  (forall st, In st (frag_nodes f) -> ~ (In a (map fst st) /\ In b (map fst st))) ->
  (forall m, In m (frag_mems f) -> ~ (In a (mem_port_doms m) /\ In b (mem_port_doms m))) ->
  (forall p, In p (flatten f) -> In (fst p) U) ->
  (forall m d, In m (frag_mems f) -> In d (mem_port_doms m) -> In d U) ->
  let D := mk_design tab doms f n in
  let D' := mk_design tab doms (domain_renamer [(a, b)] f) n in
  minit D' (frag_mems (domain_renamer [(a, b)] f)) = minit D (frag_mems f) /\
  forall evs s, mrun D' (frag_mems (domain_renamer [(a, b)] f)) evs s = mrun D (frag_mems f) evs s.
Proof. exact (rename_onto_existing_tree_trace tab doms a b f n U). Qed.
Print Assumptions C03_domain_renamer_onto_existing_partial.

(* a tree of depth 2 with a memory whose ports are in the renamed domain 1; fresh target 2 *)
Definition ex_mem : meminst :=
  MI (Sh 4 false) 2 [5] [WP 1 (ESig 5 (Sh 1 false)) (ESig 6 s4) (ESig 7 (Sh 1 false))]
     [RP 1 (ESig 5 (Sh 1 false)) (ESig 9 s4) (ESig 8 (Sh 1 false)) [0%nat]].
Definition ex_tree : frag := Frag [(1%nat, [inc 2])] [] [Frag [(1%nat, [inc 3])] [ex_mem] []].
Example C03_domain_renamer_fresh_hyps :
  frag_dicts_ok ex_tree /\ ~ In 2%nat [1%nat] /\
  (forall p, In p (flatten ex_tree) -> In (fst p) [1%nat]) /\
  (forall st e, In st (frag_nodes ex_tree) -> In e st -> In (fst e) [1%nat]) /\
  (forall m d, In m (frag_mems ex_tree) -> In d (mem_port_doms m) -> In d [1%nat]) /\
  ex_doms 2%nat = ex_doms 1%nat /\
  map fst (flatten (domain_renamer [(1%nat, 2%nat)] ex_tree)) = [2%nat; 2%nat] /\
  map mem_port_doms (frag_mems (domain_renamer [(1%nat, 2%nat)] ex_tree)) = [[2%nat; 2%nat]].
Proof.
  repeat split; try reflexivity.
  - destruct H as [<-|[<-|[]]]; repeat constructor; simpl; intuition.
  - destruct H as [<-|[<-|[]]]; intros e [<-|[]]; discriminate.
  - simpl. intros [H|[]]. discriminate.
  - intros p [<-|[<-|[]]]; simpl; auto.
  - intros st e [<-|[<-|[]]] [<-|[]]; simpl; auto.
  - intros m d [<-|[]]. simpl. intuition.
Qed.

(* ================= translator unit "xfrm": the source text of hdl/_xfrm.py, regenerated on every run ================= *)
(* Gen/XfrmGen.v is produced from the CURRENT text of amaranth/hdl/_xfrm.py (and Fragment.add_statements of hdl/_ir.py)
   by translator/unit_xfrm.py; the theorems below say that the regenerated functions are the hand-written model of
   Model/Xfrm.v / Model/Process.v on every input (proofs: Proofs/GenEqXfrm.v).  Guards, where present, are facts the
   constructors of the real objects guarantee: `entries_ok` inside `frag_ok` (a statements dict has unique keys and
   add_statements never leaves an empty list), `stmts_ok` (targets without an operator other than as_signed /
   as_unsigned: LHSMaskCollector raises AssertionError otherwise; implied by wf_lhs), `tab_ok` and `ctl_wf` (widths
   are not negative). *)
From V.Proofs Require GenEqXfrm.
From V.Gen Require XfrmGen.

(* Fragment.add_statements *)
Theorem C03_translated_add_statements d ss l : XfrmGen.frag_add_statements d ss l = add_stmts d ss l.
Proof. exact (GenEqXfrm.gen_add_statements_eq d ss l). Qed.
Print Assumptions C03_translated_add_statements.

(* LHSMaskCollector.visit_stmt on a process body: the SignalDict holds the model's keys (first-visit order) and masks *)
Theorem C03_translated_collector_keys ss : GenEqXfrm.stmts_ok ss = true ->
  map fst (fold_left (fun d s => XfrmGen.lhs_visit_stmt s d) ss []) = lhs_keys ss.
Proof. exact (GenEqXfrm.collector_keys ss). Qed.
Print Assumptions C03_translated_collector_keys.
Theorem C03_translated_collector_mask ss i :
  XfrmGen.dict_get (fold_left (fun d s => XfrmGen.lhs_visit_stmt s d) ss []) i 0 = stmts_mask ss i.
Proof. exact (GenEqXfrm.collector_mask ss i). Qed.
Print Assumptions C03_translated_collector_mask.
Theorem C03_translated_wf_lhs_collected e : wf_lhs e = true -> GenEqXfrm.lhs_ok e = true.
Proof. exact (GenEqXfrm.wf_lhs_ok e). Qed.
Print Assumptions C03_translated_wf_lhs_collected.

(* LHSMaskCollector.chunks: both while loops, for ANY amount of extra fuel (they end by their conditions) *)
Theorem C03_translated_chunks extra tab d :
  XfrmGen.lhs_chunks_fuel extra tab d =
  flat_map (fun p => map (fun ch => (fst p, fst ch, snd ch)) (chunks (width (sd_shape (tab (fst p)))) (snd p))) d.
Proof. exact (GenEqXfrm.gen_chunks_eq extra tab d). Qed.
Print Assumptions C03_translated_chunks.

(* ResetInserter.on_fragment on every fragment tree and every control dict *)
Theorem C03_translated_reset_inserter tab ctl f : tab_ok tab -> GenEqXfrm.ctl_wf ctl ->
  GenEqXfrm.frag_ok (fun e => GenEqXfrm.stmts_ok (snd e) = true) f ->
  XfrmGen.reset_on_fragment tab ctl f = reset_inserter tab ctl f.
Proof. intros Ht Hc. exact (GenEqXfrm.gen_reset_on_fragment_eq tab ctl Ht Hc f). Qed.
Print Assumptions C03_translated_reset_inserter.

(* EnableInserter.on_fragment: statements and memory ports (write enable through Mux, read enable through &) *)
Theorem C03_translated_enable_inserter ctl f : GenEqXfrm.ctl_wf ctl -> GenEqXfrm.frag_ok (fun _ => True) f ->
  XfrmGen.enable_on_fragment ctl f = enable_inserter ctl f.
Proof. intros Hc. exact (GenEqXfrm.gen_enable_on_fragment_eq ctl Hc f). Qed.
Print Assumptions C03_translated_enable_inserter.
Theorem C03_translated_enable_memory ctl m : XfrmGen.enable_on_memory ctl m = enable_mem ctl m.
Proof. exact (GenEqXfrm.gen_enable_on_memory_eq ctl m). Qed.
Print Assumptions C03_translated_enable_memory.
Theorem C03_translated_reset_memory ctl m : XfrmGen.reset_on_memory ctl m = m.
Proof. exact (GenEqXfrm.gen_reset_on_memory_eq ctl m). Qed.
Print Assumptions C03_translated_reset_memory.

(* DomainRenamer: statement domains, memory-port domains, and the late-bound signals ClockSignal / ResetSignal (the
   pseudo signals of cs_decode): the regenerated transformer is the model's domain_renamer_cs on every tree whose
   late-bound signals carry the shape unsigned(1), and the plain domain_renamer when there is none (all indices
   below base) *)
Theorem C03_translated_domain_renamer_cs base rho f : GenEqXfrm.all_sigs_frag (GenEqXfrm.cs_shape_ok base) f = true ->
  XfrmGen.rename_on_fragment base rho f = domain_renamer_cs base rho f.
Proof. exact (GenEqXfrm.gen_rename_cs base rho f). Qed.
Print Assumptions C03_translated_domain_renamer_cs.
Theorem C03_translated_domain_renamer base rho f : GenEqXfrm.all_sigs_frag (fun i _ => Nat.ltb i base) f = true ->
  XfrmGen.rename_on_fragment base rho f = domain_renamer rho f.
Proof. exact (GenEqXfrm.gen_rename_plain base rho f). Qed.
Print Assumptions C03_translated_domain_renamer.
Theorem C03_translated_renamer_values base rho e :
  (GenEqXfrm.all_sigs (GenEqXfrm.cs_shape_ok base) e = true -> XfrmGen.rename_on_value base rho e = map_sig (ren_sig base rho) e) /\
  (GenEqXfrm.all_sigs (fun i _ => Nat.ltb i base) e = true -> XfrmGen.rename_on_value base rho e = e).
Proof. split; [exact (GenEqXfrm.gen_rename_value_cs base rho e)|exact (GenEqXfrm.gen_rename_value_plain base rho e)]. Qed.
Print Assumptions C03_translated_renamer_values.
Example C03_translated_renamer_hyps :
  let e := EOp2 OAnd (ESig (cs_index 100 1 0) (Sh 1 false)) (EOp2 OOr (ESig (cs_index 100 1 2) (Sh 1 false)) (ESig 4 (Sh 1 false))) in
  GenEqXfrm.all_sigs (GenEqXfrm.cs_shape_ok 100) e = true /\
  XfrmGen.rename_on_value 100 [(1%nat, 2%nat)] e =
    EOp2 OAnd (ESig (cs_index 100 2 0) (Sh 1 false)) (EOp2 OOr (ESig (cs_index 100 2 2) (Sh 1 false)) (ESig 4 (Sh 1 false))).
Proof. vm_compute. split; reflexivity. Qed.

(* __init__: a control dict is accepted iff it names no control for "comb" (so the `domain == "comb"` test of
   on_fragment is implied by the lookup); a domain map iff neither side of any pair is "comb" *)
Theorem C03_translated_control_init ctl ctl' :
  XfrmGen.control_init_dict ctl = Some ctl' <-> ctl' = ctl /\ lookup 0%nat ctl = None.
Proof. exact (GenEqXfrm.control_init_dict_spec ctl ctl'). Qed.
Print Assumptions C03_translated_control_init.
Theorem C03_translated_control_init_value sync c :
  XfrmGen.control_init_value sync c = if Nat.eqb sync 0 then None else Some [(sync, c)].
Proof. exact (GenEqXfrm.gen_control_init_value_eq sync c). Qed.
Print Assumptions C03_translated_control_init_value.
Theorem C03_translated_rename_init rho :
  XfrmGen.rename_init_dict rho = if GenEqXfrm.rename_ok rho then Some rho else None.
Proof. exact (GenEqXfrm.gen_rename_init_dict_eq rho). Qed.
Print Assumptions C03_translated_rename_init.

(* the guards hold of a non-trivial instance: a sliced target (partial chunks), a reset-less signal, a subfragment,
   a memory; and the regenerated functions compute the model's answers on it *)
Definition ex_frag : frag :=
  Frag [(0%nat, [SAssign (ESig 0 (Sh 1 false)) (EConst 1 (Sh 1 false))]);
        (1%nat, [SAssign (ESlice (ESig 2 s4) 1 3) (EConst 2 (Sh 2 false)); inc 3])]
       [MI s4 2 [5] [WP 1 (ESig 5 (Sh 1 false)) (ESig 6 s4) (ESig 7 (Sh 1 false))]
           [RP 1 (ESig 5 (Sh 1 false)) (ESig 2 s4) (ESig 8 (Sh 1 false)) [0%nat]]]
       [Frag [(1%nat, [SSwitch (ESig 4 (Sh 1 false)) [(Some [[Some true]], [inc 2]); (None, [inc 3])]])] [] []].
Example C03_translated_hyps :
  tab_ok ex_tab /\ GenEqXfrm.ctl_wf ex_ctl /\ GenEqXfrm.frag_ok (fun e => GenEqXfrm.stmts_ok (snd e) = true) ex_frag /\
  XfrmGen.reset_on_fragment ex_tab ex_ctl ex_frag = reset_inserter ex_tab ex_ctl ex_frag /\
  XfrmGen.enable_on_fragment ex_ctl ex_frag = enable_inserter ex_ctl ex_frag /\
  GenEqXfrm.all_sigs_frag (fun i _ => Nat.ltb i 100) ex_frag = true /\
  lookup 1%nat (match reset_inserter ex_tab ex_ctl ex_frag with Frag st _ _ => st end) =
    Some [SAssign (ESlice (ESig 2 s4) 1 3) (EConst 2 (Sh 2 false)); inc 3;
          ctl_switch (ESig 4 (Sh 1 false)) [SAssign (ESlice (ESig 2 s4) 1 3) (ESlice (EConst 3 s4) 1 3)]].
Proof.
  destruct C03_reset_inserter_hyps as [Ht _]. split; [exact Ht|]. split; [|split; [|split; [|split; [|split]]]].
  - intros d c. unfold lookup, ex_ctl. cbn [find fst snd]. destruct (Nat.eqb 1 d); intros H; inversion H. vm_compute. discriminate.
  - cbn. repeat split; try (repeat constructor; cbn; intuition congruence); try (intros e [<-|[<-|[]]]; cbn; congruence);
      try (intros e [<-|[]]; cbn; congruence).
  - vm_compute. reflexivity.
  - vm_compute. reflexivity.
  - vm_compute. reflexivity.
  - vm_compute. reflexivity.
Qed.

(* ================= audit follow-up ================= *)
(* `collector_ok` (hypothesis of the ResetInserter theorems) holds for every statement list whose assignment targets
   name their signals with the shapes of the signal table *)
Theorem C03_collector_ok_from_shapes tab ss : (forall i, 0 <= width (sd_shape (tab i))) -> stmts_sig_ok tab ss ->
  collector_ok tab ss.
Proof. exact (collector_ok_of_sig_ok tab ss). Qed.
Print Assumptions C03_collector_ok_from_shapes.

Example C03_collector_ok_from_shapes_hyps : (forall i, 0 <= width (sd_shape (ex_tab i))) /\ stmts_sig_ok ex_tab ex_ss.
Proof.
  split.
  - intros i. destruct i as [|[|[|[|i]]]]; cbn; lia.
  - unfold stmts_sig_ok. cbn. repeat constructor.
Qed.

(* ClockSignal / ResetSignal (pseudo signals cs_index base d k): a value rewritten by DomainRenamer and then resolved
   by DomainLowerer in a design where every renamed domain has the configuration of the original one is the value
   resolved directly — late-bound signals follow the logic to the target domain *)
Theorem C03_late_bound_follow_renaming base rho doms doms' e :
  (forall i d k, In i (expr_sigs e) -> cs_decode base i = Some (d, k) -> doms' (rename_dom rho d) = doms d) ->
  map_sig (lower_sig base doms') (map_sig (ren_sig base rho) e) = map_sig (lower_sig base doms) e.
Proof. exact (lower_rename base rho doms doms' e). Qed.
Print Assumptions C03_late_bound_follow_renaming.

Theorem C03_renamer_keeps_plain_values base rho e : (forall i, In i (expr_sigs e) -> (i < base)%nat) ->
  map_sig (ren_sig base rho) e = e.
Proof. exact (rename_no_cs base rho e). Qed.
Print Assumptions C03_renamer_keeps_plain_values.

Example C03_late_bound_example :
  let e := EOp2 OAdd (ESig (cs_index 100 3 0) (Sh 1 false)) (ESig (cs_index 100 3 1) (Sh 1 false)) in
  let doms' : domtab := fun d => match d with 2%nat => {| d_clk := 7; d_pos := true; d_rst := None; d_async := false |}
                                  | _ => ex_doms d end in
  map_sig (ren_sig 100 [(3%nat, 2%nat)]) e
    = EOp2 OAdd (ESig (cs_index 100 2 0) (Sh 1 false)) (ESig (cs_index 100 2 1) (Sh 1 false)) /\
  map_sig (lower_sig 100 doms') (map_sig (ren_sig 100 [(3%nat, 2%nat)]) e)
    = EOp2 OAdd (ESig 7 (Sh 1 false)) (EConst 0 (Sh 1 false)).
Proof. split; reflexivity. Qed.

(* ---------------------------------------------------------------------------------------------------------------
   Scoping of domains over the hierarchy and DomainLowerer's resolution of late-bound signals (Model/DomScope.v,
   proofs Proofs/DomScopeP.v).  `lower` is the visitor as written (mutable table, subfragments visited before the
   fragment's own statements, table restored on exit); `scoped` resolves each use in the table of its own fragment;
   `innermost` is "the innermost enclosing definition" on the tree the user wrote. *)
From V.Model Require DomScope.
From V.Proofs Require DomScopeP.

Theorem C03_lowerer_resolves_in_own_fragment : forall t st,
  DomScope.lower t st = (DomScope.scoped t, st).
Proof. exact DomScopeP.lower_scoped. Qed.
Print Assumptions C03_lowerer_resolves_in_own_fragment.

Theorem C03_prepare_resolves_innermost_definition : forall top,
  DomScope.prepare_resolve top = DomScope.innermost nil top.
Proof. exact DomScopeP.prepare_resolve_innermost. Qed.
Print Assumptions C03_prepare_resolves_innermost_definition.

(* non-vacuity / the defect that was repaired (finding C03-domain-lowerer-leaks-subfragment-domains): without the
   restore the parent's ClockSignal resolves to the domain its subfragment defines under the same name *)
Theorem C03_lowerer_without_restore_refuted :
  DomScope.prepare_resolve_leaky DomScopeP.leak_witness = (Some 11 :: Some 11 :: nil)%nat /\
  DomScope.innermost nil DomScopeP.leak_witness = (Some 10 :: Some 11 :: nil)%nat.
Proof. exact DomScopeP.lower_leaky_refuted. Qed.
Print Assumptions C03_lowerer_without_restore_refuted.

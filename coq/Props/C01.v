(* placeholder, replaced below *)

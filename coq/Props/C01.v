(* C01 — operators compute exact integer results in shapes that never overflow.
   Statements only; proofs in Proofs/ExprP.v, Proofs/GenEqOps.v. *)
From Coq Require Import ZArith List Bool.
From V.Model Require Import Bits Shape Ast Denote PyRTL PyEval Derived.
From V.Proofs Require Import BitsP ShapeP ExprP GenEqOps DerivedP.
From V.Gen Require OpShape.
Import ListNotations.
Open Scope Z_scope.

(* The shape reported for every well-formed expression (any nesting depth, any operand shapes) is a valid
   shape and contains the exact Python-integer result: no operator overflows, wraps or loses a sign. *)
Theorem C01_shape_sound en e : wf_expr e = true -> env_ok en e ->
  wf_shape (shape_of e) = true /\ in_range (shape_of e) (denote en e).
Proof. exact (shape_sound en e). Qed.
Print Assumptions C01_shape_sound.

(* The Python expression the simulator compiles for a circuit (raw, un-normalised intermediates included),
   normalised to the expression's shape, is exactly the denotation — at every nesting depth. *)
Theorem C01_rtl_correct en e : wf_expr e = true -> env_ok en e ->
  norm (shape_of e) (eval_rtl en e) = denote en e.
Proof. exact (rtl_correct en e). Qed.
Print Assumptions C01_rtl_correct.

(* A signal of any shape s driven combinationally by e holds the denotation truncated / extended by
   e's own signedness. *)
Theorem C01_drive_spec s en e : wf_shape s = true -> wf_expr e = true -> env_ok en e ->
  rtl_drive s en e = norm s (denote en e).
Proof. exact (rtl_drive_spec s en e). Qed.
Print Assumptions C01_drive_spec.

(* per-operator soundness of the documented result shapes, for all operand shapes and values *)
Theorem C01_op1_sound o sa a : wf_shape sa = true -> in_range sa a -> (o = OS -> 0 < width sa) ->
  wf_shape (op1_shape o sa) = true /\ in_range (op1_shape o sa) (den_op1 o sa a).
Proof. exact (op1_sound o sa a). Qed.
Print Assumptions C01_op1_sound.

Theorem C01_op2_sound o sa sb a b : wf_shape sa = true -> wf_shape sb = true ->
  in_range sa a -> in_range sb b ->
  (match o with OShl | OShr => sgn sb = false | _ => True end) ->
  wf_shape (op2_shape o sa sb) = true /\ in_range (op2_shape o sa sb) (den_op2 o a b).
Proof. exact (op2_sound o sa sb a b). Qed.
Print Assumptions C01_op2_sound.

(* switch patterns: the int(..., 2) / mask arithmetic of the generated code is per-bit matching *)
Theorem C01_pattern_match p t : 0 <= t < 2 ^ Z.of_nat (length p) -> pat_match t p = pat_sem p t.
Proof. exact (pat_match_sem p t). Qed.
Print Assumptions C01_pattern_match.

(* Operator.shape regenerated from /repo by the translator equals the model's shape rules *)
Theorem C01_gen_op1_shape o sa : OpShape.op1_shape (op1_name o) sa = Some (op1_shape o sa).
Proof. exact (op1_shape_eq o sa). Qed.
Print Assumptions C01_gen_op1_shape.
Theorem C01_gen_op2_shape o sa sb : (match o with OShl | OShr => sgn sb = false | _ => True end) ->
  OpShape.op2_shape (op2_name o) sa sb = Some (op2_shape o sa sb).
Proof. exact (op2_shape_eq o sa sb). Qed.
Print Assumptions C01_gen_op2_shape.

(* --- operators defined by rewriting (hdl/_ast.py), against their documented results --- *)
(* Mux(sel, a, b): a when sel is non-zero, b otherwise; shape = the unification of both *)
Theorem C01_mux_spec en sel a b : wf_expr sel = true -> wf_expr a = true -> wf_expr b = true ->
  env_ok en sel -> env_ok en a -> env_ok en b ->
  wf_expr (mk_mux sel a b) = true /\ env_ok en (mk_mux sel a b) /\
  denote en (mk_mux sel a b) = (if denote en sel =? 0 then denote en b else denote en a) /\
  shape_of (mk_mux sel a b) = unify2 (shape_of b) (shape_of a).
Proof. exact (mk_mux_spec en sel a b). Qed.
Print Assumptions C01_mux_spec.

(* abs(e) = |e| in unsigned(len(e)) — the most negative value included *)
Theorem C01_abs_spec en e : wf_expr e = true -> env_ok en e ->
  wf_expr (mk_abs e) = true /\ env_ok en (mk_abs e) /\
  denote en (mk_abs e) = Z.abs (denote en e) /\ shape_of (mk_abs e) = Sh (ewidth e) false.
Proof. exact (mk_abs_spec en e). Qed.
Print Assumptions C01_abs_spec.

(* e.shift_left(n) = e * 2^n exactly, n more bits, signedness kept *)
Theorem C01_shift_left_spec en e n : wf_expr e = true -> env_ok en e -> 0 <= n ->
  wf_expr (mk_shift_left e n) = true /\ env_ok en (mk_shift_left e n) /\
  denote en (mk_shift_left e n) = denote en e * 2 ^ n /\
  shape_of (mk_shift_left e n) = Sh (ewidth e + n) (sgn (shape_of e)).
Proof. exact (mk_shift_left_spec en e n). Qed.
Print Assumptions C01_shift_left_spec.

(* e.shift_right(n) = floor(e / 2^n) for every n >= 0 (amounts beyond the width included) *)
Theorem C01_shift_right_spec en e n : wf_expr e = true -> env_ok en e -> 0 <= n ->
  wf_expr (mk_shift_right e n) = true /\ env_ok en (mk_shift_right e n) /\
  denote en (mk_shift_right e n) = denote en e / 2 ^ n.
Proof. exact (mk_shift_right_spec en e n). Qed.
Print Assumptions C01_shift_right_spec.

(* e[k] for k in range(-len, len): the bit at the Python-normalised index *)
Theorem C01_index_spec en e k : wf_expr e = true -> env_ok en e -> - ewidth e <= k < ewidth e ->
  wf_expr (mk_index e k) = true /\
  denote en (mk_index e k) = Z.b2z (Z.testbit (denote en e) (if k <? 0 then k + ewidth e else k)).
Proof. exact (mk_index_spec en e k). Qed.
Print Assumptions C01_index_spec.

(* Array(elems)[index] with an in-range unsigned index: the element at that position *)
Theorem C01_array_spec en elems index : wf_expr index = true -> env_ok en index -> sgn (shape_of index) = false ->
  0 <= denote en index < Z.of_nat (length elems) ->
  denote en (mk_array elems index) = denote en (nth (Z.to_nat (denote en index)) elems (EConst 0 (Sh 0 false))).
Proof. exact (mk_array_spec en elems index). Qed.
Print Assumptions C01_array_spec.

(* e.rotate_left(n) / rotate_right(n) for ANY integer n: bit i of the result is bit (i -/+ n) mod len of e *)
Theorem C01_rotate_left_spec en e n i : wf_expr e = true -> env_ok en e -> 0 <= i < ewidth e ->
  wf_expr (mk_rotate_left e n) = true /\
  Z.testbit (denote en (mk_rotate_left e n)) i = Z.testbit (denote en e) ((i - n) mod ewidth e).
Proof. exact (mk_rotate_left_spec en e n i). Qed.
Print Assumptions C01_rotate_left_spec.
Theorem C01_rotate_right_spec en e n i : wf_expr e = true -> env_ok en e -> 0 <= i < ewidth e ->
  wf_expr (mk_rotate_right e n) = true /\
  Z.testbit (denote en (mk_rotate_right e n)) i = Z.testbit (denote en e) ((i + n) mod ewidth e).
Proof. exact (mk_rotate_right_spec en e n i). Qed.
Print Assumptions C01_rotate_right_spec.

(* e.matches(p1, ..., pn) on the normalised patterns: 1 iff some pattern matches e's bit pattern *)
Theorem C01_matches_spec en e ps : wf_expr e = true -> env_ok en e ->
  Forall (fun p => Z.of_nat (length p) = ewidth e) ps ->
  wf_expr (mk_matches e ps) = true /\
  denote en (mk_matches e ps) = b2z (existsb (fun p => pat_sem p (denote en e mod 2 ^ ewidth e)) ps).
Proof. exact (mk_matches_spec en e ps). Qed.
Print Assumptions C01_matches_spec.

(* e.replicate(count): bit i of the result is bit (i mod len) of e *)
Theorem C01_replicate_spec en e count i : wf_expr e = true -> env_ok en e -> 0 < ewidth e ->
  0 <= i < Z.of_nat count * ewidth e ->
  wf_expr (mk_replicate e count) = true /\
  Z.testbit (denote en (mk_replicate e count)) i = Z.testbit (denote en e) (i mod ewidth e).
Proof. exact (mk_replicate_spec en e count i). Qed.
Print Assumptions C01_replicate_spec.

Example C01_derived_example :
  let en : env := fun i => match i with O => -8 | _ => 2 end in
  let s := ESig 0 (Sh 4 true) in
  denote en (mk_abs s) = 8 /\ denote en (mk_shift_right s 9) = -1 /\ denote en (mk_shift_left s 2) = -32 /\
  denote en (mk_array [EConst 5 (Sh 3 false); s; EConst 1 (Sh 1 false)] (ESig 1 (Sh 2 false))) = 1 /\
  denote en (mk_rotate_left s 1) = 1 /\ denote en (mk_replicate (ESlice s 3 4) 3) = 7.
Proof. vm_compute. repeat split. Qed.

(* non-vacuity: (~a).bit_select(off, 4) + (b * -3 >> 1) on concrete signals is well-formed, in range, and
   circuit = spec *)
Definition ex_e : expr :=
  EOp2 OAdd (EPart (EOp1 ONot (ESig 0 (Sh 4 false))) (ESig 1 (Sh 3 false)) 4 1)
            (EOp2 OShr (EOp2 OMul (ESig 2 (Sh 3 true)) (EConst (-3) (Sh 3 true))) (EConst 1 (Sh 1 false))).
Definition ex_env : env := fun i => match i with O => 0 | S O => 4 | _ => -4 end.
Example C01_example :
  wf_expr ex_e = true /\ denote ex_env ex_e = 6 /\ norm (shape_of ex_e) (eval_rtl ex_env ex_e) = 6
  /\ shape_of ex_e = Sh 7 true.
Proof. vm_compute. repeat split. Qed.
Example C01_example_env_ok : env_ok ex_env ex_e.
Proof. cbv [env_ok ex_e ex_env in_range sgn width]. repeat split; vm_compute; congruence. Qed.

(* ---------- the rewriting methods regenerated from hdl/_ast.py on every run (Gen/DerivedGen.v) equal the model ---------- *)
From V.Proofs Require GenEqDerived.
From V.Gen Require DerivedGen.

Theorem C01_translated_mux sel a b : DerivedGen.g_mux sel a b = mk_mux sel a b.
Proof. exact (GenEqDerived.gen_mux_eq sel a b). Qed.
Print Assumptions C01_translated_mux.
Theorem C01_translated_getitem_int e k : DerivedGen.g_getitem_int e k = mk_getitem_int e k.
Proof. exact (GenEqDerived.gen_getitem_int_eq e k). Qed.
Print Assumptions C01_translated_getitem_int.
(* value[start:stop:step] for every Python slice object, including all stepped and negative forms *)
Theorem C01_translated_getitem_slice e k : 0 <= ewidth e -> DerivedGen.g_getitem_slice e k = mk_getitem_key e k.
Proof. exact (GenEqDerived.gen_getitem_slice_eq e k). Qed.
Print Assumptions C01_translated_getitem_slice.
Theorem C01_translated_abs e : wf_shape (shape_of e) = true -> DerivedGen.g_abs e = Some (mk_abs e).
Proof. exact (GenEqDerived.gen_abs_eq e). Qed.
Print Assumptions C01_translated_abs.
(* shift_left / shift_right for ANY integer amount (negative amounts go the other way) *)
Theorem C01_translated_shift_left e n : wf_shape (shape_of e) = true -> DerivedGen.g_shift_left e n = Some (mk_shl e n).
Proof. exact (GenEqDerived.gen_shift_left_eq e n). Qed.
Print Assumptions C01_translated_shift_left.
Theorem C01_translated_shift_right e n : wf_shape (shape_of e) = true -> DerivedGen.g_shift_right e n = Some (mk_shr e n).
Proof. exact (GenEqDerived.gen_shift_right_eq e n). Qed.
Print Assumptions C01_translated_shift_right.
Theorem C01_translated_rotate_left e n : 0 <= ewidth e -> DerivedGen.g_rotate_left e n = Some (mk_rotate_left e n).
Proof. exact (GenEqDerived.gen_rotate_left_eq e n). Qed.
Print Assumptions C01_translated_rotate_left.
Theorem C01_translated_rotate_right e n : 0 <= ewidth e -> DerivedGen.g_rotate_right e n = Some (mk_rotate_right e n).
Proof. exact (GenEqDerived.gen_rotate_right_eq e n). Qed.
Print Assumptions C01_translated_rotate_right.
Theorem C01_translated_replicate e c :
  DerivedGen.g_replicate e c = if c <? 0 then None else Some (mk_replicate e (Z.to_nat c)).
Proof. exact (GenEqDerived.gen_replicate_eq e c). Qed.
Print Assumptions C01_translated_replicate.
Theorem C01_translated_bit_select e off w : 0 <= ewidth e -> DerivedGen.g_bit_select e off w = mk_bit_select e off w.
Proof. exact (GenEqDerived.gen_bit_select_eq e off w). Qed.
Print Assumptions C01_translated_bit_select.
Theorem C01_translated_word_select e off w : 0 <= ewidth e -> DerivedGen.g_word_select e off w = mk_word_select e off w.
Proof. exact (GenEqDerived.gen_word_select_eq e off w). Qed.
Print Assumptions C01_translated_word_select.

(* bit_select / word_select with a constant offset fold into a plain slice exactly when the window fits, and the
   folded value has the shape and the value of the part-select it replaces (the property repaired by fix F6) *)
Theorem C01_bit_select_spec en e off w r : wf_expr e = true -> wf_expr off = true -> sgn (shape_of off) = false ->
  env_ok en e -> 0 <= w -> mk_bit_select e off w = Some r ->
  wf_expr r = true /\ shape_of r = Sh w false /\ denote en r = denote en (EPart e off w 1).
Proof. exact (mk_bit_select_spec en e off w r). Qed.
Print Assumptions C01_bit_select_spec.
Theorem C01_word_select_spec en e off w r : wf_expr e = true -> wf_expr off = true -> sgn (shape_of off) = false ->
  env_ok en e -> 1 <= w -> mk_word_select e off w = Some r ->
  wf_expr r = true /\ shape_of r = Sh w false /\ denote en r = denote en (EPart e off w w).
Proof. exact (mk_word_select_spec en e off w r). Qed.
Print Assumptions C01_word_select_spec.

(* value[start:stop:step]: bit j of the result is bit start + j*step of the operand (normalised indices) *)
Theorem C01_step_slice_bits en e s n a j : (forall k, 0 <= k < Z.of_nat n -> 0 <= a + k * s) -> 0 <= j < Z.of_nat n ->
  Z.testbit (denote en (mk_step_slice e a s n)) j = Z.testbit (denote en e) (a + j * s).
Proof. exact (step_slice_bits en e s n a j). Qed.
Print Assumptions C01_step_slice_bits.

Example C01_getitem_example :
  let s := ESig 0 (Sh 8 false) in let en : env := fun _ => 178 in     (* 0b10110010 *)
  option_map (denote en) (mk_getitem_key s (Key (Some 6) None (Some (-2)))) = Some 2 /\     (* bits 6,4,2,0 *)
  option_map (denote en) (mk_getitem_key s (Key None None (Some (-1)))) = Some 77 /\
  option_map (denote en) (mk_bit_select s (EConst 4 (Sh 3 false)) 4) = Some 11 /\
  mk_bit_select s (EConst 6 (Sh 3 false)) 4 = Some (EPart s (EConst 6 (Sh 3 false)) 4 1) /\
  mk_getitem_int s 8 = None /\ option_map (denote en) (mk_getitem_int s (-1)) = Some 1.
Proof. vm_compute. repeat split. Qed.

(* _normalize_patterns and Value.matches regenerated from the source = the model, for every pattern list *)
Theorem C01_translated_normalize_patterns sh ps : DerivedGen.g_normalize_patterns sh ps = normalize_patterns sh ps.
Proof. exact (GenEqDerived.gen_normalize_patterns_eq sh ps). Qed.
Print Assumptions C01_translated_normalize_patterns.
Theorem C01_translated_matches e raw : DerivedGen.g_matches e raw = mk_matches_raw e raw.
Proof. exact (GenEqDerived.gen_matches_eq e raw). Qed.
Print Assumptions C01_translated_matches.
(* e.matches(...) with patterns as the user writes them (strings with whitespace, integers, enum values): accepted
   exactly when every string is legal and of e's width; 1 iff some string pattern matches e's bits or some
   representable integer pattern equals e's value (unrepresentable integers never match) *)
Theorem C01_matches_raw_spec en e raw r : wf_expr e = true -> env_ok en e -> mk_matches_raw e raw = Some r ->
  exists ps, normalize_patterns (shape_of e) raw = Some ps /\ wf_expr r = true /\
             denote en r = b2z (existsb (npat_sem (ewidth e) (denote en e)) ps).
Proof. exact (mk_matches_raw_spec en e raw r). Qed.
Print Assumptions C01_matches_raw_spec.
Example C01_matches_raw_example :
  let s := ESig 0 (Sh 3 true) in let en : env := fun _ => -2 in
  option_map (denote en) (mk_matches_raw s [RStr [C1; CSpace; C1; CDash]; RInt 7]) = Some 1 /\
  option_map (denote en) (mk_matches_raw s [RInt 6; RInt (-2)]) = Some 1 /\
  option_map (denote en) (mk_matches_raw s [RInt 6]) = Some 0 /\
  mk_matches_raw s [RStr [C1; C1]] = None /\ mk_matches_raw s [RStr [C1; COther; C1]] = None.
Proof. vm_compute. repeat split. Qed.

(* ================= added after the coverage audit (docs/COVERAGE_AUDIT.md) ================= *)

(* operands that are Python ints (`a + 1`, `1 - a`: Value.cast(v) = Const(v)) compute with the integer itself, on either
   side (reflected operators), for every operator but the shifts … *)
Theorem C01_int_operand_spec en o e v : wf_expr e = true ->
  (match o with OShl | OShr => False | _ => True end) ->
  wf_expr (EOp2 o e (mk_const_auto v)) = true /\ wf_expr (EOp2 o (mk_const_auto v) e) = true /\
  denote en (EOp2 o e (mk_const_auto v)) = den_op2 o (denote en e) v /\
  denote en (EOp2 o (mk_const_auto v) e) = den_op2 o v (denote en e).
Proof. exact (int_operand_spec en o e v). Qed.
Print Assumptions C01_int_operand_spec.

(* … and for the shifts: `a << v` is accepted exactly when v >= 0, `v << a` exactly when a is unsigned *)
Theorem C01_int_shift_spec en o e v : wf_expr e = true -> (o = OShl \/ o = OShr) ->
  wf_expr (EOp2 o e (mk_const_auto v)) = (0 <=? v) /\
  wf_expr (EOp2 o (mk_const_auto v) e) = negb (sgn (shape_of e)) /\
  denote en (EOp2 o e (mk_const_auto v)) = den_op2 o (denote en e) v /\
  denote en (EOp2 o (mk_const_auto v) e) = den_op2 o v (denote en e).
Proof. exact (int_shift_spec en o e v). Qed.
Print Assumptions C01_int_shift_spec.

(* a member of an integer enumeration used as an operand is a constant of the class's shape holding its value *)
Theorem C01_enum_const_spec en ms v : In v ms ->
  wf_expr (mk_enum_const ms v) = true /\ denote en (mk_enum_const ms v) = v.
Proof. exact (enum_const_spec en ms v). Qed.
Print Assumptions C01_enum_const_spec.

Example C01_int_operand_example :
  let en : env := fun _ => -3 in let s := ESig 0 (Sh 3 true) in
  denote en (EOp2 OSub (mk_const_auto 1) s) = 4 /\ shape_of (EOp2 OSub (mk_const_auto 1) s) = Sh 4 true /\
  denote en (EOp2 OShl s (mk_const_auto 17)) = -393216 /\ shape_of (EOp2 OShl s (mk_const_auto 17)) = Sh 34 true /\
  wf_expr (EOp2 OShl s (mk_const_auto (-1))) = false /\
  denote en (EOp2 OAdd s (mk_enum_const [2; -5] (-5))) = -8.
Proof. vm_compute. repeat split. Qed.

(* Array(elems)[index] for an index of ANY shape and ANY number of elements (more than the index can address, none):
   the element at the position the index holds, and 0 when the index value is not a position of the list — in
   particular for every negative value of a signed index *)
Theorem C01_array_raw_spec en elems index : wf_expr index = true -> env_ok en index ->
  denote en (mk_array_raw elems index) =
  if (0 <=? denote en index) && (denote en index <? Z.of_nat (length elems))
  then denote en (nth (Z.to_nat (denote en index)) elems (EConst 0 (Sh 0 false))) else 0.
Proof. exact (mk_array_raw_spec en elems index). Qed.
Print Assumptions C01_array_raw_spec.

Theorem C01_array_raw_unsigned elems index : wf_shape (shape_of index) = true -> sgn (shape_of index) = false ->
  mk_array_raw elems index = mk_array elems index.
Proof. exact (mk_array_raw_unsigned elems index). Qed.
Print Assumptions C01_array_raw_unsigned.

(* ArrayProxy.shape() is the shape of the value the proxy converts to whenever every element is addressable … *)
Theorem C01_array_proxy_shape_exact elems index : Z.of_nat (length elems) <= 2 ^ ewidth index ->
  shape_of (mk_array_raw elems index) = array_proxy_shape elems.
Proof. exact (array_proxy_shape_exact elems index). Qed.
Print Assumptions C01_array_proxy_shape_exact.

(* … and NOT otherwise: with three elements and a 1-bit index the proxy reports unsigned(8) while the value it converts
   to (and len(proxy)) is 1 bit wide *)
Theorem C01_array_proxy_shape_refuted : exists elems index, wf_expr index = true /\ forallb wf_expr elems = true /\
  shape_of (mk_array_raw elems index) <> array_proxy_shape elems.
Proof.
  exists [ESig 1 (Sh 1 false); ESig 2 (Sh 1 false); ESig 3 (Sh 8 false)], (ESig 0 (Sh 1 false)).
  vm_compute. repeat split; congruence.
Qed.
Print Assumptions C01_array_proxy_shape_refuted.

Example C01_array_raw_example :
  let s := ESig 0 (Sh 2 true) in
  let elems := [EConst 5 (Sh 3 false); EConst 6 (Sh 3 false); EConst 7 (Sh 3 false)] in
  map (fun v => denote (fun _ => v) (mk_array_raw elems s)) [-2; -1; 0; 1] = [0; 0; 5; 6] /\
  denote (fun _ => 1) (mk_array2 [[EConst 1 (Sh 2 false); EConst 2 (Sh 2 false)]; [EConst 3 (Sh 2 false)]]
                                 (ESig 0 (Sh 1 false)) (ESig 0 (Sh 1 false))) = 0.
Proof. vm_compute. split; reflexivity. Qed.

(* the exception-class function used by the correspondence run answers 0 exactly on the well-formed expressions *)
Theorem C01_build_err_wf e : build_err e = 0 <-> wf_expr e = true.
Proof. exact (build_err_wf e). Qed.
Print Assumptions C01_build_err_wf.

(* Value.replicate regenerated from the source, for any integer count (negative: TypeError) *)
Theorem C01_translated_replicate_z e c : DerivedGen.g_replicate e c = mk_replicate_z e c.
Proof. exact (GenEqDerived.gen_replicate_eq e c). Qed.
Print Assumptions C01_translated_replicate_z.

(* OBSERVATION (not a verdict of C01, which speaks about the expressions that were built): bit_select / word_select document
   `TypeError if offset is signed`, but a CONSTANT signed offset
   is folded through Python's negative indexing before any check: value.bit_select(Const(-2, signed(3)), 1) is accepted
   and reads bit len-2.  The statement "a signed offset is rejected" is false of the source (g_bit_select is regenerated
   from hdl/_ast.py and equals mk_bit_select); C01_bit_select_spec therefore keeps its unsigned-offset hypothesis. *)
Theorem C01_bit_select_signed_offset_refuted : exists e off w r,
  wf_expr e = true /\ wf_expr off = true /\ sgn (shape_of off) = true /\
  DerivedGen.g_bit_select e off w = Some r /\ wf_expr r = true /\ r = ESlice e 2 3.
Proof.
  exists (ESig 0 (Sh 4 false)), (EConst (-2) (Sh 3 true)), 1, (ESlice (ESig 0 (Sh 4 false)) 2 3).
  rewrite GenEqDerived.gen_bit_select_eq by (vm_compute; congruence). vm_compute. repeat split.
Qed.
Print Assumptions C01_bit_select_signed_offset_refuted.

(* ---- amaranth/sim/_pyrtl.py _RHSValueCompiler: the Python source text returned for a value node, regenerated from the
   f-string templates of the current source (translator unit "pyrtl_rhs", Gen/PyRtlRhsGen.v), equals Model/PyRTL.v.
   `self_` / `rrhs_` : the meaning of the code compiled for the sub-values (any function), every operator, shape, raw
   integer; no well-formedness hypothesis. *)
From V.Proofs Require GenEqPyrtlRhs.
From V.Gen Require PyRtlRhsGen.

Theorem C01_translated_rtl_helpers v s l r :
  PyRtlRhsGen.h_sign v s = py_sign v s /\ PyRtlRhsGen.h_zdiv l r = zdiv l r /\ PyRtlRhsGen.h_zmod l r = zmod l r.
Proof. exact (conj (GenEqPyrtlRhs.gen_h_sign_eq v s) (conj (GenEqPyrtlRhs.gen_h_zdiv_eq l r) (GenEqPyrtlRhs.gen_h_zmod_eq l r))). Qed.
Print Assumptions C01_translated_rtl_helpers.

Theorem C01_translated_rtl_sign (self_ : expr -> Z) a : PyRtlRhsGen.g_sign self_ a = rsign (shape_of a) (self_ a).
Proof. exact (GenEqPyrtlRhs.gen_sign_eq self_ a). Qed.
Print Assumptions C01_translated_rtl_sign.

Theorem C01_translated_rtl_op1 (self_ : expr -> Z) o a : PyRtlRhsGen.g_op1 self_ o a = rtl_op1 o (shape_of a) (self_ a).
Proof. exact (GenEqPyrtlRhs.gen_op1_eq self_ o a). Qed.
Print Assumptions C01_translated_rtl_op1.

Theorem C01_translated_rtl_op2 (self_ : expr -> Z) o a b :
  PyRtlRhsGen.g_op2 self_ o a b = rtl_op2 o (rsign (shape_of a) (self_ a)) (rsign (shape_of b) (self_ b)).
Proof. exact (GenEqPyrtlRhs.gen_op2_eq self_ o a b). Qed.
Print Assumptions C01_translated_rtl_op2.

Theorem C01_translated_rtl_slice (self_ : expr -> Z) a lo hi :
  PyRtlRhsGen.g_slice self_ a lo hi = rmask (hi - lo) (Z.shiftr (self_ a) lo).
Proof. exact (GenEqPyrtlRhs.gen_slice_eq self_ a lo hi). Qed.
Print Assumptions C01_translated_rtl_slice.

Theorem C01_translated_rtl_part (self_ rrhs_ : expr -> Z) a off w st :
  PyRtlRhsGen.g_part self_ rrhs_ a off w st =
  rmask w (Z.shiftr (rsign (shape_of a) (self_ a)) (st * rmask (ewidth off) (rrhs_ off))).
Proof. exact (GenEqPyrtlRhs.gen_part_eq self_ rrhs_ a off w st). Qed.
Print Assumptions C01_translated_rtl_part.

Theorem C01_translated_rtl_concat (self_ : expr -> Z) parts :
  PyRtlRhsGen.g_concat self_ parts = rtl_cat (map (fun p => (self_ p, ewidth p)) parts) 0.
Proof. exact (GenEqPyrtlRhs.gen_concat_eq self_ parts). Qed.
Print Assumptions C01_translated_rtl_concat.

(* the evaluator of C01_rtl_correct is a fixed point of the regenerated one-node compilers (every node kind except
   SwitchValue, whose statement emission is not translated), in either mode of the compiler *)
Theorem C01_translated_rtl_nodes mode en :
  (forall v s, eval_rtl en (EConst v s) = PyRtlRhsGen.g_const v s) /\
  (forall i s, eval_rtl en (ESig i s) = PyRtlRhsGen.g_signal mode en i s) /\
  (forall o a, eval_rtl en (EOp1 o a) = PyRtlRhsGen.g_op1 (eval_rtl en) o a) /\
  (forall o a b, eval_rtl en (EOp2 o a b) = PyRtlRhsGen.g_op2 (eval_rtl en) o a b) /\
  (forall a lo hi, eval_rtl en (ESlice a lo hi) = PyRtlRhsGen.g_slice (eval_rtl en) a lo hi) /\
  (forall a off w st, eval_rtl en (EPart a off w st) = PyRtlRhsGen.g_part (eval_rtl en) (eval_rtl en) a off w st) /\
  (forall parts, eval_rtl en (ECat parts) = PyRtlRhsGen.g_concat (eval_rtl en) parts).
Proof. exact (GenEqPyrtlRhs.gen_rhs_nodes_eq mode en). Qed.
Print Assumptions C01_translated_rtl_nodes.

(* ---- translator unit "pyrtl_switch": the statements _Compiler._emit_switch emits (match block / if-elif chain),
   regenerated from the f-strings of /repo on every run, read as "which case's handler runs at run time" ---- *)
From V.Proofs Require GenEqPyrtlSwitch.
From V.Gen Require PyRtlSwitchGen.

(* the use_match loop; upm_ = _USE_PATTERN_MATCHING, true on Python >= 3.10 (the translator refuses otherwise) *)
Theorem C01_translated_switch_use_match (A : Type) (cs : list (option (list pattern) * A)) :
  PyRtlSwitchGen.g_use_match true cs = use_match (map fst cs).
Proof. exact (GenEqPyrtlSwitch.gen_use_match_eq cs). Qed.
Print Assumptions C01_translated_switch_use_match.

(* `match test: case _ / case _ if False / case 0b0<p> | ...` selects the case rtl_switch true selects, all inputs *)
Theorem C01_translated_switch_match_form (A : Type) (f : option (list pattern) * A -> Z) t cs :
  match PyRtlSwitchGen.g_match_form t cs with None => 0 | Some c => f c end
  = rtl_switch true t (map (fun c => (fst c, f c)) cs).
Proof. exact (GenEqPyrtlSwitch.gen_match_form_eq f t cs). Qed.
Print Assumptions C01_translated_switch_match_form.

(* `if v == (m & test) or v == test ...: / elif ...:` selects the case rtl_switch false selects, all inputs *)
Theorem C01_translated_switch_if_form (A : Type) (f : option (list pattern) * A -> Z) t cs i :
  match PyRtlSwitchGen.g_if_form t cs i with None => 0 | Some c => f c end
  = rtl_switch false t (map (fun c => (fst c, f c)) cs).
Proof. exact (GenEqPyrtlSwitch.gen_if_form_eq f t cs i). Qed.
Print Assumptions C01_translated_switch_if_form.

Theorem C01_translated_switch_emit (A : Type) (f : option (list pattern) * A -> Z) t cs :
  match PyRtlSwitchGen.g_emit_switch true t cs with None => 0 | Some c => f c end
  = rtl_switch (use_match (map fst cs)) t (map (fun c => (fst c, f c)) cs).
Proof. exact (GenEqPyrtlSwitch.gen_emit_switch_eq f t cs). Qed.
Print Assumptions C01_translated_switch_emit.

(* _RHSValueCompiler.on_SwitchValue: the result variable, for every meaning self_/rrhs_ of the sub-values' code *)
Theorem C01_translated_switch_value (self_ rrhs_ : expr -> Z) test cases :
  PyRtlSwitchGen.g_switch_value self_ rrhs_ test cases
  = rtl_switch (use_match (map fst cases)) (rmask (ewidth test) (rrhs_ test))
               (map (fun c => (fst c, rsign (shape_of (snd c)) (self_ (snd c)))) cases).
Proof. exact (GenEqPyrtlSwitch.gen_switch_value_eq self_ rrhs_ test cases). Qed.
Print Assumptions C01_translated_switch_value.

(* the SwitchValue node missing from C01_translated_rtl_nodes: eval_rtl is a fixed point of the regenerated compiler *)
Theorem C01_translated_switch_node en test cases :
  eval_rtl en (ESwitch test cases) = PyRtlSwitchGen.g_switch_value (eval_rtl en) (eval_rtl en) test cases.
Proof. exact (GenEqPyrtlSwitch.gen_switch_node_eq en test cases). Qed.
Print Assumptions C01_translated_switch_node.

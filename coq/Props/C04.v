(* C04 — emitted RTLIL is behaviourally equivalent to the simulated design.  LAYER A (proof): every construct the
   backend lowers, for all widths and values.  Statements only; proofs in Proofs/RtlilSemP.v.
   RTLIL cell semantics: Model/RtlilSem.v §1 (written from the Yosys manual as known — trusted assumption).
   LAYER B (whole designs, hierarchy, ports, drivers, naming) is translation validation: harness/props/c04.py. *)
From Coq Require Import ZArith List Bool.
From V.Model Require Import Bits Shape Ast Denote PyRTL PyEval Stmt Process RtlilSem.
From V.Proofs Require Import BitsP ShapeP ExprP StmtP RtlilSemP.
Import ListNotations.
Open Scope Z_scope.

(* ---------------- extension / truncation of cell operands ---------------- *)
(* an operand (A_SIGNED, A_WIDTH, A) extended to a wider port denotes the same integer … *)
Theorem C04_extension_preserves_value sg w v to : 0 <= w <= to -> ival sg to (ext sg w v to) = ival sg w v.
Proof. exact (ext_preserves_value sg w v to). Qed.
Print Assumptions C04_extension_preserves_value.
Example C04_extension_example : ival true 7 (ext true 3 5 7) = -3 /\ ival false 7 (ext false 3 5 7) = 5.
Proof. vm_compute. split; reflexivity. Qed.

(* … and cut to a narrower one it is reduced modulo 2^to *)
Theorem C04_truncation_is_mod sg w v to : 0 <= to <= w -> ext sg w v to = v mod 2 ^ to.
Proof. exact (ext_truncates sg w v to). Qed.
Print Assumptions C04_truncation_is_mod.

(* _ir.NetlistEmitter.extend on nets (copies of the last net / constant zeros) keeps the value, for every valuation *)
Theorem C04_extend_preserves rho l sg w : (sg = true -> l <> []) -> sval rho sg (extend l sg w) = sval rho sg l.
Proof. exact (extend_preserves rho l sg w). Qed.
Print Assumptions C04_extend_preserves.
Example C04_extend_example : let rho : valuation := fun _ => true in
  sval rho true (extend [NV 0%nat; NV 1%nat] true 6) = -1 /\ sval rho false (extend [NV 0%nat; NV 1%nat] false 6) = 3.
Proof. vm_compute. split; reflexivity. Qed.

(* rtlil.ModuleEmitter.shorten_operand (drop duplicated sign nets / constant-zero top nets) keeps the value *)
Theorem C04_shorten_preserves rho l sg : sval rho sg (shorten l sg) = sval rho sg l.
Proof. exact (shorten_preserves rho l sg). Qed.
Print Assumptions C04_shorten_preserves.

(* ---------------- rtlil.emit_operator: cell, signedness flags, shortened operands, zero-divisor guard ---------------- *)
(* every unary / binary NIR operator on any input nets: the emitted cell(s) compute the NIR operator (nir1/nir2) *)
Theorem C04_emit_operator_unary rho o a : emit_unary rho o a = Some (nir1 o (nlen a) (nval rho a)).
Proof. exact (emit_unary_sem rho o a). Qed.
Print Assumptions C04_emit_operator_unary.

Theorem C04_emit_operator_binary rho o a b : (is_shift o = false -> nlen a = nlen b) ->
  emit_binary rho o a b = Some (nir2 o (nlen a) (nval rho a) (nval rho b)).
Proof. exact (emit_binary_sem rho o a b). Qed.
Print Assumptions C04_emit_operator_binary.
(* non-vacuity: s// with a zero divisor goes through the $mux guard (0), and -8 // -1 wraps in 4 bits *)
Example C04_emit_operator_example : let rho : valuation := fun i => Nat.eqb i 3 in
  emit_binary rho N2DivS [NV 0%nat; NV 1%nat; NV 2%nat; NV 3%nat] [NC false; NC false; NC false; NC false] = Some 0 /\
  emit_binary rho N2DivS [NV 0%nat; NV 1%nat; NV 2%nat; NV 3%nat] [NC true; NC true; NC true; NC true] = Some 8.
Proof. vm_compute. split; reflexivity. Qed.

(* ---------------- lower_operator_correct: _ir.emit_rhs + rtlil.emit_operator = Python-integer specification ---------------- *)
(* for every operator of Ast.op2, every operand shape (width, signedness) and value (any nets, any valuation):
   the cells produce the bit pattern of den_op2 in the operator's result shape, width and signedness as Operator.shape *)
Theorem C04_lower_operator_correct_op2 rho o la sa lb sb : opd_ok la sa -> opd_ok lb sb ->
  (match o with OShl | OShr => sb = false | _ => True end) ->
  exists y, lower_op2 rho o la sa lb sb =
              Some (y, width (op2_shape o (Sh (nlen la) sa) (Sh (nlen lb) sb)),
                       sgn (op2_shape o (Sh (nlen la) sa) (Sh (nlen lb) sb))) /\
            norm (op2_shape o (Sh (nlen la) sa) (Sh (nlen lb) sb)) y
            = den_op2 o (sval rho sa la) (sval rho sb lb).
Proof. exact (lower_op2_norm rho o la sa lb sb). Qed.
Print Assumptions C04_lower_operator_correct_op2.

Theorem C04_lower_operator_correct_op1 rho o la sa : opd_ok la sa -> (o = OS -> 0 < nlen la) ->
  exists y, lower_op1 rho o la sa =
              Some (y, width (op1_shape o (Sh (nlen la) sa)), sgn (op1_shape o (Sh (nlen la) sa))) /\
            norm (op1_shape o (Sh (nlen la) sa)) y = den_op1 o (Sh (nlen la) sa) (sval rho sa la).
Proof. exact (lower_op1_norm rho o la sa). Qed.
Print Assumptions C04_lower_operator_correct_op1.
(* non-vacuity: signed(3) -4 // signed(2) -1 = 4 in signed(4); unsigned(2) 3 - signed(2) -2 = 5 in signed(4) *)
Example C04_lower_operator_example : let rho : valuation := fun i => Nat.leb 2 i in
  opd_ok [NV 0%nat; NV 1%nat; NV 2%nat] true /\
  lower_op2 rho ODiv [NV 0%nat; NV 1%nat; NV 2%nat] true [NV 3%nat; NV 4%nat] true = Some (4, 4, true) /\
  lower_op2 rho OSub [NV 2%nat; NV 3%nat] false [NV 0%nat; NV 4%nat] true = Some (5, 4, true).
Proof. vm_compute. repeat split; discriminate. Qed.

(* … which is what the simulator computes for the same operator (C01 rtl_correct): RTLIL = simulator *)
Theorem C04_operator_rtlil_equals_simulator rho o la sa lb sb (en : env) : opd_ok la sa -> opd_ok lb sb ->
  (match o with OShl | OShr => sb = false | _ => True end) ->
  en 0%nat = sval rho sa la -> en 1%nat = sval rho sb lb ->
  let e := EOp2 o (ESig 0 (Sh (nlen la) sa)) (ESig 1 (Sh (nlen lb) sb)) in
  exists y, lower_op2 rho o la sa lb sb = Some (y, width (shape_of e), sgn (shape_of e)) /\
            norm (shape_of e) y = norm (shape_of e) (eval_rtl en e).
Proof.
  intros Hoa Hob Hsh Ha Hb e.
  destruct (lower_op2_norm rho o la sa lb sb Hoa Hob Hsh) as [y [Hy Hn]]. exists y. split; [exact Hy|].
  rewrite rtl_correct.
  - cbn [e denote]. rewrite Ha, Hb. exact Hn.
  - cbn [e wf_expr]. rewrite (opd_wf _ _ Hoa), (opd_wf _ _ Hob). destruct o; try reflexivity; cbn [shape_of sgn]; subst sb; reflexivity.
  - cbn [e env_ok]. rewrite Ha, Hb. split; apply opd_in_range; auto.
Qed.
Print Assumptions C04_operator_rtlil_equals_simulator.

(* ---------------- rtlil.emit_part: $shift (after $mul by the stride) ---------------- *)
(* reading $shift as the manual does (logical shift; A_SIGNED only extends A to max(A_WIDTH, Y_WIDTH)):
   right whenever the operand is unsigned, or non-negative, or the selected window stays below that width *)
Theorem C04_lower_part_correct rho v vsg off w stride : 0 <= w -> 1 <= stride ->
  (vsg = false \/ 0 <= sval rho vsg v \/ nval rho off * stride + w <= Z.max w (nlen v)) ->
  emit_part rho v vsg off w stride = bits_at (sval rho vsg v) (nval rho off * stride) w.
Proof. exact (lower_part_correct rho v vsg off w stride). Qed.
Print Assumptions C04_lower_part_correct.
Example C04_lower_part_example : let rho : valuation := fun _ => true in
  sval rho true [NV 0%nat; NC false; NV 1%nat; NV 1%nat] = -3 /\
  emit_part rho [NV 0%nat; NC false; NV 1%nat; NV 1%nat] true [NV 2%nat] 2 2 = 3 /\
  nval rho [NV 2%nat] * 2 + 2 <= Z.max 2 (nlen [NV 0%nat; NC false; NV 1%nat; NV 1%nat]).
Proof. vm_compute. repeat split; discriminate. Qed.

(* … and WRONG beyond it for a negative operand: signed(1) -1, bit_select(1, 1): Python 1, $shift 0
   (finding C04-part-select-signed-shift-zero-fill) *)
Theorem C04_lower_part_refuted : exists rho v vsg off w stride,
  0 <= w /\ 1 <= stride /\ emit_part rho v vsg off w stride <> bits_at (sval rho vsg v) (nval rho off * stride) w.
Proof. exact lower_part_refuted. Qed.
Print Assumptions C04_lower_part_refuted.

(* under the other reading (every position above A's MSB filled with the sign bit) the lowering is right everywhere *)
Theorem C04_lower_part_signfill rho v vsg off w stride : 1 <= stride ->
  emit_part_signfill rho v vsg off w stride = bits_at (sval rho vsg v) (nval rho off * stride) w.
Proof. exact (lower_part_signfill rho v vsg off w stride). Qed.
Print Assumptions C04_lower_part_signfill.

(* ---------------- processes ---------------- *)
(* the RTLIL process (nested switch/case, first matching case, later statements override) = the NIR assignment list:
   default, then every assignment in program order, each executed iff all its Match conditions hold *)
Theorem C04_process_equiv w ts acc : exec_atrees w ts acc = exec_flat w (flat_atrees true ts) acc.
Proof. exact (process_equiv w ts acc). Qed.
Print Assumptions C04_process_equiv.

(* last active assignment wins, per bit: bit i comes from the last assignment in program order whose condition holds
   and whose window covers i, else from the default *)
Theorem C04_last_assignment_wins w l acc i : 0 <= w -> 0 <= i -> flat_ok l ->
  Z.testbit (exec_flat w l acc) i = bit_of w i (rev l) acc.
Proof. exact (last_assignment_wins w l acc i). Qed.
Print Assumptions C04_last_assignment_wins.
Example C04_process_example :
  let t := [TSwitch 2 2 [([[Some true; None]], [TAssign 0 2 3; TSwitch 1 0 [([], [TAssign 1 1 0])]]); ([], [TAssign 0 4 15])]] in
  exec_atrees 4 t 8 = 9 /\ flat_ok (flat_atrees true t) /\ flat_atrees true t <> [].
Proof. vm_compute. repeat split; try discriminate; repeat constructor; discriminate. Qed.

(* ---------------- flip-flops ---------------- *)
(* sync-reset domain, signal not reset-less: $dff whose D is the assignment list with the reset assignment appended
   last: on the active edge init under reset, else the value of the user statements; without an edge it holds *)
Theorem C04_dff_sync_reset w q d_user init rst clk_edge : 0 <= w -> 0 <= d_user < 2 ^ w ->
  dff_next q (d_with_sync_reset w d_user init rst) clk_edge =
  if clk_edge then (if rst then mask w init else d_user) else q.
Proof. exact (dff_sync_reset w q d_user init rst clk_edge). Qed.
Print Assumptions C04_dff_sync_reset.

(* the simulator's sync process (Model/Process.v) is the same function of (reset, statement result) *)
Theorem C04_dff_matches_sync_process tab ss r st i :
  stmts_mask ss i <> 0 -> sd_reset_less (tab i) = false ->
  let nx1 := exec_rtl_list (s_curr st) ss (s_next st) in
  let rst := negb (Z.land 1 (s_curr st r) =? 0) in
  s_next (sync_process tab ss (Some r) st) i =
  slot_update (s_next st i) (if rst then sd_init (tab i) else nx1 i) (update_mask (sd_shape (tab i)) (stmts_mask ss i)).
Proof. exact (dff_matches_sync_process tab ss r st i). Qed.
Print Assumptions C04_dff_matches_sync_process.

(* $adff (async-reset domain, signal not reset-less): reset level high => the reset value; low => a plain $dff *)
Theorem C04_adff_reset w q d init clk_edge : adff_next w q d init clk_edge true = mask w init.
Proof. exact (adff_reset w q d init clk_edge). Qed.
Print Assumptions C04_adff_reset.
Theorem C04_adff_no_reset w q d init clk_edge : adff_next w q d init clk_edge false = dff_next q d clk_edge.
Proof. exact (adff_no_reset w q d init clk_edge). Qed.
Print Assumptions C04_adff_no_reset.

(* WHY the simulator must not run the sync process on a reset rise alone (finding F7, repaired in /repo by 574e1db:
   the simulator now only loads the reset values, = C04_adff_reset): running Model/Process.v sync_process on a reset
   rise with no clock edge changes a reset-less register, while its $dff holds.  Since the repair, reset-less
   registers, memories and every coincidence of reset and clock edges in async-reset domains are compared by layer B
   like everything else (streams arst / rnd), with no exclusion. *)
Theorem C04_async_reset_rise_refuted : exists tab ss r st i,
  sd_reset_less (tab i) = true /\
  s_next (sync_process tab ss (Some r) st) i <> dff_next (s_curr st i) (s_next (sync_process tab ss (Some r) st) i) false.
Proof. exact async_reset_rise_refuted. Qed.
Print Assumptions C04_async_reset_rise_refuted.

(* ---------------- assignment windows (start, width) ---------------- *)
(* ONLY THE ADDRESSED BITS CHANGE: an executed assignment replaces exactly the bits start <= i < start + width that
   exist in the w-bit target, with bit i - start of the value; every other bit keeps its value *)
Theorem C04_assignment_window w old s vw v i : 0 <= w -> 0 <= s -> 0 <= vw -> 0 <= i ->
  Z.testbit (put w old s vw v) i =
  if (s <=? i) && (i <? s + vw) && (i <? w) then Z.testbit v (i - s) else Z.testbit old i.
Proof. exact (assignment_window w old s vw v i). Qed.
Print Assumptions C04_assignment_window.

Theorem C04_assignment_frame w old s vw v i : 0 <= w -> 0 <= s -> 0 <= vw -> 0 <= i ->
  (i < s \/ s + vw <= i \/ w <= i) -> Z.testbit (put w old s vw v) i = Z.testbit old i.
Proof. exact (assignment_frame w old s vw v i). Qed.
Print Assumptions C04_assignment_frame.
Example C04_assignment_window_example : put 8 170 2 3 5 = 182 /\ put 4 0 2 4 15 = 12.
Proof. vm_compute. split; reflexivity. Qed.

(* ---------------- _ir.NetlistDriver.emit_value ---------------- *)
(* for ALL assignment lists of a driver, every chunk [cs, ce) of the signal and every valuation of nets and
   conditions: the AssignmentList built for the chunk (windows overhanging the chunk clipped on both sides, windows
   outside dropped, an unconditional full-chunk assignment folded into the default ONLY while nothing was kept)
   computes bits [cs, ce) of "every assignment applied in order to the whole signal" *)
Theorem C04_emit_value_correct cv rho cs ce sig l : 0 <= cs <= ce -> ce <= nlen sig -> cv CTrue = true -> starts_ok l ->
  let '(d, kept) := emit_value cs ce sig l in
  nir_run cv rho (ce - cs) kept (nval rho d) = bits_at (nir_run cv rho (nlen sig) l (nval rho sig)) cs (ce - cs)
  /\ nlen d = ce - cs.
Proof. exact (emit_value_correct cv rho cs ce sig l). Qed.
Print Assumptions C04_emit_value_correct.
(* non-vacuity — the shape of seeded change b04: x assigned under a condition, LATER unconditionally over its full
   width: the later assignment is kept after the conditional one (not folded), an overhanging window is clipped *)
Example C04_emit_value_example :
  let sig := [NC false; NC false; NC false; NC false] in
  let a := [NV 0%nat; NV 1%nat; NV 2%nat; NV 3%nat] in let b := [NV 4%nat; NV 5%nat; NV 6%nat; NV 7%nat] in
  emit_value 0 4 sig [NA (CM 0 0) 0 a; NA CTrue 0 b] = (sig, [NA (CM 0 0) 0 a; NA CTrue 0 b]) /\
  emit_value 0 4 sig [NA CTrue 0 b; NA (CM 0 0) 0 a] = (b, [NA (CM 0 0) 0 a]) /\
  emit_value 1 3 sig [NA (CM 0 0) 0 a] = ([NC false; NC false], [NA (CM 0 0) 0 [NV 1%nat; NV 2%nat]]) /\
  starts_ok [NA (CM 0 0) 0 a; NA CTrue 0 b].
Proof. vm_compute. repeat split; repeat constructor; discriminate. Qed.

(* ---------------- rtlil.emit_assignment_list ---------------- *)
(* for ALL Match tables (created in netlist order) and ALL assignment lists: whenever the emitter's final assertion
   `pos == len(cell.assignments)` holds (= Some), the process it builds — default first, nested `switch` on the Match
   values in output-bit order, first matching case, default case for the all-dash pattern set, empty pattern sets
   left out, later statements overriding earlier ones — computes the AssignmentList: default, then every assignment
   in order, executed iff its condition net (Match output = enabled, first matching pattern set) is 1 *)
Theorem C04_emit_assignment_list_correct rho tab w default l proc : wf_tab tab ->
  emit_assignment_list tab default l = Some proc ->
  forall acc, exec_ptrees rho w proc acc =
              nir_run (cval rho tab) rho w l (put w acc 0 (nlen default) (nval rho default)).
Proof.
  intros Hwf H. exact (emit_assignment_list_sound rho tab w (cval rho tab) eq_refl
                         (fun k mc b E => cval_unfold rho tab k mc b Hwf E) default l proc H).
Qed.
Print Assumptions C04_emit_assignment_list_correct.
(* non-vacuity: If(s)/Elif(t) with a nested Switch, then an unconditional partial assignment *)
Example C04_emit_assignment_list_example :
  let tab := [MC CTrue [NV 0%nat; NV 1%nat] [[[None; Some true]]; [[Some true; None]]];
              MC (CM 0 1) [NV 2%nat] [[[Some false]]; [[None]]]] in
  let l := [NA (CM 0 0) 0 [NC true; NC true]; NA (CM 1 0) 1 [NC true]; NA (CM 1 1) 0 [NC true]; NA CTrue 3 [NV 3%nat]] in
  wf_tab tab /\
  emit_assignment_list tab [NC false; NC false; NC false; NC false] l =
  Some [PA 0 [NC false; NC false; NC false; NC false];
        PS [NV 0%nat; NV 1%nat]
           [([[None; Some true]], [PA 0 [NC true; NC true]]);
            ([[Some true; None]], [PS [NV 2%nat] [([[Some false]], [PA 1 [NC true]]); ([], [PA 0 [NC true]])]])];
        PA 3 [NV 3%nat]].
Proof.
  split; [|vm_compute; reflexivity].
  intros k mc H. destruct k as [|[|k]]; simpl in H; [injection H as <-; exact I|injection H as <-; simpl; auto|].
  destruct k; discriminate.
Qed.

(* one driver chunk end to end: emit_value, then emit_assignment_list: the RTLIL process computes the chunk's bits of
   "last active assignment wins" on the whole signal *)
Theorem C04_chunk_process_correct rho tab cs ce sig l d kept proc : wf_tab tab ->
  0 <= cs <= ce -> ce <= nlen sig -> starts_ok l ->
  emit_value cs ce sig l = (d, kept) -> emit_assignment_list tab d kept = Some proc ->
  exec_ptrees rho (ce - cs) proc 0 =
  bits_at (nir_run (cval rho tab) rho (nlen sig) l (nval rho sig)) cs (ce - cs).
Proof. exact (chunk_process_correct rho tab cs ce sig l d kept proc). Qed.
Print Assumptions C04_chunk_process_correct.

(* ---------------- Slice / Concat on the right-hand side (_ir.emit_rhs: pure net selection) ---------------- *)
Theorem C04_slice_rhs_correct rho sg v lo hi : 0 <= lo <= hi -> hi <= nlen v ->
  nlen (nslice v lo hi) = hi - lo /\ nval rho (nslice v lo hi) = bits_at (sval rho sg v) lo (hi - lo).
Proof. exact (slice_rhs_correct rho sg v lo hi). Qed.
Print Assumptions C04_slice_rhs_correct.

Theorem C04_cat_rhs_correct rho (parts : list (list net * bool)) :
  nval rho (flat_map fst parts) = cat_of (map (fun p => (sval rho (snd p) (fst p), nlen (fst p))) parts) /\
  nlen (flat_map fst parts) = fold_right (fun p acc => nlen (fst p) + acc) 0 parts.
Proof. exact (cat_rhs_correct rho parts). Qed.
Print Assumptions C04_cat_rhs_correct.
Example C04_slice_cat_example : let rho : valuation := fun i => Nat.eqb i 2 in
  nval rho (nslice [NV 0%nat; NV 1%nat; NV 2%nat] 1 3) = 2 /\ bits_at (sval rho true [NV 0%nat; NV 1%nat; NV 2%nat]) 1 2 = 2 /\
  nval rho (flat_map fst [([NV 2%nat], true); ([NV 0%nat; NV 2%nat], false)]) = 5.
Proof. vm_compute. repeat split; reflexivity. Qed.

(* ---------------- the structural tie compares exactly what the theorems are about ---------------- *)
(* lower_op2 (of C04_lower_operator_correct_op2) is emit_binary on the NIR operator and operands `ir_op2` names, and
   emit_binary evaluates the cell `cell_desc2` describes: the harness compares ir_op2 + cell_desc2 (and cell_desc1,
   part_desc) with the cells in the text the real backend writes, for operand widths up to 12 *)
Theorem C04_lower_op2_via_ir rho o a sa b sb : exists fin : Z -> Z * Z * bool,
  lower_op2 rho o a sa b sb =
  let '(n, a', b') := ir_op2 o a sa b sb in option_map fin (emit_binary rho n a' b').
Proof. exact (lower_op2_via_ir rho o a sa b sb). Qed.
Print Assumptions C04_lower_op2_via_ir.

(* ---------------- the document evaluator: a module instantiated twice, negative-edge flip-flop ---------------- *)
(* (the backend writes one RTLIL module per fragment, so no generated design instantiates a module twice; the
   flattening handles it) module 1: q <= d on the falling edge of clk; top: two instances chained *)
Example C04_run_two_instances_example :
  let sub := Mod [Wire 1 WIn None; Wire 2 WIn None; Wire 2 WOut (Some 1)] []
                 [IDff 2 false [KW 1 0 2] [KW 0 0 1] [KW 2 0 2]] in
  let top := Mod [Wire 1 WIn None; Wire 2 WIn None; Wire 2 WNone None; Wire 2 WOut None] []
                 [ISub 1 [(0%nat, [KW 0 0 1]); (1%nat, [KW 1 0 2]); (2%nat, [KW 2 0 2])];
                  ISub 1 [(0%nat, [KW 0 0 1]); (1%nat, [KW 2 0 2]); (2%nat, [KW 3 0 2])]] in
  run [top; sub] [Some ([], 3%nat, 2); Some ([0%nat], 2%nat, 2); Some ([1%nat], 2%nat, 2)] [(0%nat, 1); (1%nat, 3)]
      [[(0%nat, 0)]; [(0%nat, 1)]; [(0%nat, 0)]] =
  [0; 1; 1; 1;   0; 1; 3; 1;   0; 1; 3; 1;   0; 3; 3; 3].
Proof. vm_compute. reflexivity. Qed.

(* ---------------- rtlil.emit_assignment_list always passes its final assertion ---------------- *)
(* for ALL Match tables created in netlist order and ALL assignment lists whose conditions are chains of existing
   Match outputs ending in const 1 (what _ir builds): the model returns a process (with the fuel bound al_fuel), i.e.
   `assert pos == len(cell.assignments)` holds; together with C04_emit_assignment_list_correct the process is right *)
Theorem C04_emit_assignment_list_complete tab default l : wf_tab tab -> conds_ok tab l ->
  exists proc, emit_assignment_list tab default l = Some proc.
Proof. exact (emit_assignment_list_complete tab default l). Qed.
Print Assumptions C04_emit_assignment_list_complete.

Theorem C04_emit_assignment_list_total_correct rho tab w default l : wf_tab tab -> conds_ok tab l ->
  exists proc, emit_assignment_list tab default l = Some proc /\
  forall acc, exec_ptrees rho w proc acc =
              nir_run (cval rho tab) rho w l (put w acc 0 (nlen default) (nval rho default)).
Proof.
  intros Hwf Hok. destruct (emit_assignment_list_complete tab default l Hwf Hok) as [proc H].
  exists proc. split; [exact H|]. exact (C04_emit_assignment_list_correct rho tab w default l proc Hwf H).
Qed.
Print Assumptions C04_emit_assignment_list_total_correct.
(* non-vacuity: the table and list of C04_emit_assignment_list_example, assignments out of Match-bit order included *)
Example C04_conds_ok_example :
  let tab := [MC CTrue [NV 0%nat; NV 1%nat] [[[None; Some true]]; [[Some true; None]]];
              MC (CM 0 1) [NV 2%nat] [[[Some false]]; [[None]]]] in
  conds_ok tab [NA (CM 1 1) 0 [NC true]; NA (CM 0 0) 0 [NC true; NC true]; NA (CM 1 0) 1 [NC true]; NA CTrue 3 [NV 3%nat]].
Proof.
  cbv zeta. unfold conds_ok.
  assert (H00 : under [MC CTrue [NV 0%nat; NV 1%nat] [[[None; Some true]]; [[Some true; None]]];
                       MC (CM 0 1) [NV 2%nat] [[[Some false]]; [[None]]]] CTrue (CM 0 0))
    by (eapply under_step; [reflexivity|simpl; auto|apply under_refl]).
  assert (H01 : under [MC CTrue [NV 0%nat; NV 1%nat] [[[None; Some true]]; [[Some true; None]]];
                       MC (CM 0 1) [NV 2%nat] [[[Some false]]; [[None]]]] CTrue (CM 0 1))
    by (eapply under_step; [reflexivity|simpl; auto|apply under_refl]).
  repeat constructor; auto; try (eapply under_step; [reflexivity|simpl; auto|exact H01]).
Qed.

(* ---------------- _ir.NetlistEmitter.emit_assign: targets lowered to windowed conditional Assignments ---------------- *)
(* every Assignment emit_assign produces under a condition is gated by that condition (all targets) *)
Theorem C04_emit_assign_gated rho selnets i w lhs start rhs cond old : aval rho cond = false ->
  wa_run rho i w (emit_assign selnets lhs start rhs cond) old = old.
Proof. exact (emit_assign_false rho selnets i w lhs start rhs cond old). Qed.
Print Assumptions C04_emit_assign_gated.

(* for ALL targets built from signals, u/s reinterpretation, slices and choices (array elements of any widths: an
   assignment starting lhs_start bits into a choice is shortened to what remains of each element — /repo 961f42e; the
   earlier code rhs[:len(val)] wrote past a narrower element), nested in any way, all windows
   [start, start + len(rhs)) inside the target, all valuations:
   executing the produced Assignments changes exactly the bits the target addresses (Stmt.wr), bit k - start of rhs
   going to the bit addressed by position k, selected by the choice's index value; everything else keeps its value *)
Theorem C04_emit_assign_correct ss curr rho selnets lhs :
  wf_lhs lhs = true -> sig_ok ss lhs -> sel_ok curr lhs -> seln_ok selnets rho curr lhs -> tclass lhs = true ->
  forall start rhs cond i b old, aval rho cond = true -> 0 <= start -> start + nlen rhs <= ewidth lhs ->
  0 <= b < width (ss i) ->
  Z.testbit (wa_run rho i (width (ss i)) (emit_assign selnets lhs start rhs cond) old) b =
  match wr curr lhs i b with
  | Some k => if in_window start (nlen rhs) k then Z.testbit (nval rho rhs) (k - start) else Z.testbit old b
  | None => Z.testbit old b
  end.
Proof. exact (emit_assign_bits ss curr rho selnets lhs). Qed.
Print Assumptions C04_emit_assign_correct.

(* ... = the statement-level target semantics of Model/Stmt.v (assign_rtl, the simulator's compiled assignment) *)
Theorem C04_emit_assign_equals_assign_rtl ss curr rho selnets lhs :
  wf_lhs lhs = true -> lin lhs = true -> sig_ok ss lhs -> sel_ok curr lhs -> seln_ok selnets rho curr lhs ->
  tclass lhs = true ->
  forall rhs arg nx i b, nlen rhs = ewidth lhs -> nval rho rhs = mask (ewidth lhs) arg -> 0 <= b < width (ss i) ->
  Z.testbit (wa_run rho i (width (ss i)) (emit_assign selnets lhs 0 rhs ATrue) (nx i)) b =
  Z.testbit (assign_rtl curr lhs arg nx i) b.
Proof. exact (emit_assign_equals_assign_rtl ss curr rho selnets lhs). Qed.
Print Assumptions C04_emit_assign_equals_assign_rtl.
(* non-vacuity: Array([x[1:3], y.as_unsigned()])[sel] with sel = 1 selecting x[1:3]; and the former failing input
   Array([a (4 bits), s[0:2]])[sel][1:3] <= 0b11 with the narrow element selected: only bit 1 of s is written *)
Example C04_emit_assign_example :
  let lhs := ESwitch (ESig 2 (Sh 1 false))
               [(Some [[Some true]], ESlice (ESig 0 (Sh 4 false)) 1 3); (None, EOp1 OU (ESig 1 (Sh 2 false)))] in
  let selnets := fun e => match e with ESig 2%nat _ => [NV 0%nat] | _ => [] end in
  wf_lhs lhs = true /\ lin lhs = true /\ tclass lhs = true /\
  wa_run (fun _ => true) 0 4 (emit_assign selnets lhs 0 [NC true; NC false] ATrue) 0 = 2 /\
  wa_run (fun _ => true) 1 2 (emit_assign selnets lhs 0 [NC true; NC false] ATrue) 3 = 3 /\
  let narrow := ESlice (ESwitch (ESig 2 (Sh 1 false))
                          [(Some [[Some false]], ESig 0 (Sh 4 false)); (None, ESlice (ESig 1 (Sh 8 false)) 0 2)]) 1 3 in
  tclass narrow = true /\ wa_run (fun _ => true) 1 8 (emit_assign selnets narrow 0 [NC true; NC true] ATrue) 0 = 2.
Proof. vm_compute. repeat split; reflexivity. Qed.

(* ================================================================== translated source
   Gen/IrGen.v is regenerated on every run from the text of amaranth/hdl/_ir.py (translator/unit_ir.py):
   NetlistEmitter.extend, emit_match and emit_assign, statement by statement (loops as folds over the variables the
   body rebinds, `continue` as the unchanged loop state, the appended Assignments collected in order).  The theorems
   below (proofs in Proofs/GenEqIr.v) say that the regenerated functions are the hand-written model the theorems above
   are about, on all inputs; a change of the source is Unsupported or breaks one of them. *)
From V.Proofs Require Import GenEqIr.
From V.Gen Require IrGen.

(* NetlistEmitter.extend: the while loop appends width - len(value) nets *)
Theorem C04_translated_extend value signed width : IrGen.extend value signed width = extend value signed width.
Proof. exact (gen_extend_eq value signed width). Qed.
Print Assumptions C04_translated_extend.

(* NetlistEmitter.emit_match: the condition nets are the outputs 0 .. len(patterns)-1 of one Match cell *)
Theorem C04_translated_emit_match en value patterns :
  IrGen.emit_match en value patterns = map (AMatch en value patterns) (seq 0 (length patterns)).
Proof. exact (gen_emit_match_eq en value patterns). Qed.
Print Assumptions C04_translated_emit_match.

(* NetlistEmitter.emit_assign, all target kinds.  The generated function recurses on fuel (Python's recursion is
   unbounded): any fuel above the nesting depth of the target gives the model's list of Assignments *)
Theorem C04_translated_emit_assign selnets lhs fuel start rhs cond : (edepth lhs < fuel)%nat ->
  IrGen.emit_assign fuel selnets lhs start rhs cond = emit_assign selnets lhs start rhs cond.
Proof. exact (fun H => gen_emit_assign_eq_fuel selnets lhs fuel H start rhs cond). Qed.
Print Assumptions C04_translated_emit_assign.
Example C04_translated_emit_assign_example :
  let lhs := ECat [ESwitch (ESig 2 (Sh 1 false))
                     [(Some [[Some true]], ESlice (ESig 0 (Sh 4 false)) 1 3); (None, EOp1 OU (ESig 1 (Sh 2 false)))];
                   EPart (ESig 3 (Sh 8 false)) (ESig 4 (Sh 2 false)) 2 3] in
  let selnets := fun e => match e with ESig 2%nat _ => [NV 0%nat] | ESig 4%nat _ => [NV 1%nat; NV 2%nat] | _ => [] end in
  (edepth lhs < 4)%nat /\
  length (IrGen.emit_assign 4 selnets lhs 1 [NC true; NC false; NC true] ATrue) = 5%nat.
Proof. vm_compute. split; [repeat constructor|reflexivity]. Qed.

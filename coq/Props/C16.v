(* C16 — CRC software and hardware agree with the Williams model for all parameters.
   Only statements here; proofs live in Proofs/CrcP.v.

   Reading guide (Model/Crc.v): `compute a d ws` mirrors Parameters.compute (None = ValueError for an
   out-of-range word), `hw_run a d cs` is crc_reg of Processor after the cycles cs = (start, valid, data),
   `hw_crc` / `hw_match` its combinational outputs, `williams a bits` the Rocksoft bit-serial register,
   `message_bits a d ws` the message bits in processing order, `since_start cs` the words accepted since
   the last effective start, `params_ok a d` the constructor checks of Algorithm and Parameters. *)
From Coq Require Import ZArith List Bool.
From V.Model Require Import Bits Crc.
From V.Proofs Require Import BitsP CrcP.
Import ListNotations.
Open Scope Z_scope.

(* --- software: compute is the Williams model, for every valid parameter set, data width, word list --- *)
Theorem C16_compute_is_williams a d ws :
  params_ok a d = true -> forallb (word_ok d) ws = true ->
  compute a d ws = Some (williams a (message_bits a d ws)).
Proof. exact (compute_is_williams a d ws). Qed.
Print Assumptions C16_compute_is_williams.

(* non-vacuity: CRC-16/ARC over three 5-bit words *)
Example C16_compute_example :
  params_ok (Algo 16 32773 0 true true 0) 5 = true /\ forallb (word_ok 5) [19; 0; 31] = true /\
  compute (Algo 16 32773 0 true true 0) 5 [19; 0; 31] = Some 57883.
Proof. vm_compute. repeat split; reflexivity. Qed.

(* compute raises exactly when some word is out of range *)
Theorem C16_compute_rejects a d ws : compute a d ws = None <-> forallb (word_ok d) ws = false.
Proof. exact (compute_none_iff a d ws). Qed.
Print Assumptions C16_compute_rejects.

(* --- hardware: for ANY sequence of (start, valid, data) cycles (idle cycles, restarts, start together with
   valid), the crc output after the last edge is compute of the words accepted since the last effective start.
   As cs ranges over all sequences, this covers the output after every edge of every schedule. --- *)
Theorem C16_hw_step_matches_compute a d cs :
  params_ok a d = true -> cycles_ok d cs = true ->
  compute a d (since_start cs) = Some (hw_crc a (hw_run a d cs)).
Proof. exact (hw_step_matches_compute a d cs). Qed.
Print Assumptions C16_hw_step_matches_compute.

(* the per-edge trace used by the correspondence run is the sequence of outputs of the prefixes *)
Theorem C16_hw_trace_prefixes a d cs c :
  hw_trace a d (cs ++ [c]) =
  hw_trace a d cs ++ [(hw_crc a (hw_run a d (cs ++ [c])), hw_match a (hw_run a d (cs ++ [c])))].
Proof. exact (hw_trace_snoc a d cs c). Qed.
Print Assumptions C16_hw_trace_prefixes.

(* non-vacuity: CRC-8/AUTOSAR, 3-bit words, idle cycle, restart with valid, restart alone *)
Example C16_hw_example :
  let a := Algo 8 47 255 false false 255 in
  let cs := [Cy false true 5; Cy false false 7; Cy true true 2; Cy false true 6; Cy true false 1; Cy false true 3] in
  params_ok a 3 = true /\ cycles_ok 3 cs = true /\ since_start cs = [3] /\
  since_start (firstn 4 cs) = [2; 6] /\ hw_crc a (hw_run a 3 (firstn 4 cs)) = 52.
Proof. vm_compute. repeat split; reflexivity. Qed.

(* the XOR network generated from _matrices() is the word update of the Williams register (linearity) *)
Theorem C16_matrices_spec a d src din :
  params_ok a d = true -> 0 <= src < 2 ^ cw a -> 0 <= din < 2 ^ d ->
  xor_network (fst (matrices a d)) (snd (matrices a d)) (cw a) d src din =
  fold_left (wstep (cw a) (poly a)) (word_bits false d din) src.
Proof. exact (matrices_spec a d src din). Qed.
Print Assumptions C16_matrices_spec.

(* non-vacuity and a spot value: CRC-5/USB, 3-bit words, register 0b10110, input word 0b101 *)
Example C16_matrices_example :
  let a := Algo 5 5 31 true true 31 in
  params_ok a 3 = true /\
  xor_network (fst (matrices a 3)) (snd (matrices a 3)) 5 3 22 5 = 16 /\
  fold_left (wstep 5 5) (word_bits false 3 5) 22 = 16.
Proof. vm_compute. repeat split; reflexivity. Qed.

(* the word update is GF(2)-linear in (register, word): the fact the F/G construction rests on *)
Theorem C16_step_linear w p d s s' u u' : 0 < w -> 0 < d ->
  fold_left (wstep w p) (word_bits false d (Z.lxor u u')) (Z.lxor s s') =
  Z.lxor (fold_left (wstep w p) (word_bits false d u) s) (fold_left (wstep w p) (word_bits false d u') s').
Proof. exact (step_linear w p d s s' u u'). Qed.
Print Assumptions C16_step_linear.

(* --- the published table: finite domain = the committed reveng table (157 names), by computation --- *)
Theorem C16_catalog_check_values : forallb table_ok reveng_table = true.
Proof. exact catalog_check_values. Qed.
Print Assumptions C16_catalog_check_values.

(* --- residue / match_detected, crc_width = k * data_width.  `trailer a d k c` is the CRC value c cut into
   k words in transmission order (register order, highest-order coefficient first; for reflect_input =
   reflect_output: little-endian words of c when reflected, big-endian otherwise — see the Example). --- *)
Theorem C16_residue_match a d k cs ws c :
  params_ok a d = true -> cw a = d * Z.of_nat k -> cycles_ok d cs = true ->
  compute a d ws = Some c -> since_start cs = ws ++ trailer a d k c ->
  hw_match a (hw_run a d cs) = true.
Proof. exact (residue_match a d k cs ws c). Qed.
Print Assumptions C16_residue_match.

(* any other trailer of k in-range words: no match — for polynomials with a constant term (odd), which
   is every catalogue entry; Algorithm() also accepts even polynomials, for which the clause is false
   (C16_no_false_match_even_refuted) *)
Theorem C16_no_false_match a d k cs ws t c :
  params_ok a d = true -> Z.odd (poly a) = true -> cw a = d * Z.of_nat k -> cycles_ok d cs = true ->
  compute a d ws = Some c -> since_start cs = ws ++ t -> length t = k ->
  hw_match a (hw_run a d cs) = true -> t = trailer a d k c.
Proof. exact (no_false_match a d k cs ws t c). Qed.
Print Assumptions C16_no_false_match.

Theorem C16_no_false_match_even_refuted :
  exists a d k cs ws t c,
    params_ok a d = true /\ Z.odd (poly a) = false /\ cw a = d * Z.of_nat k /\ cycles_ok d cs = true /\
    compute a d ws = Some c /\ since_start cs = ws ++ t /\ length t = k /\
    hw_match a (hw_run a d cs) = true /\ t <> trailer a d k c.
Proof.
  exists (Algo 8 6 255 false false 0), 8, 1%nat, [Cy true true 49; Cy false true 43], [49], [43], 168.
  vm_compute. repeat split; try reflexivity. discriminate.
Qed.
Print Assumptions C16_no_false_match_even_refuted.

(* ... and the hypothesis is exactly necessary: for EVERY valid parameter set with an even polynomial and every
   message there is a second k-word trailer that raises match_detected under every schedule *)
Theorem C16_false_match_even a d k ws c :
  params_ok a d = true -> Z.odd (poly a) = false -> cw a = d * Z.of_nat k -> compute a d ws = Some c ->
  exists t, length t = k /\ forallb (word_ok d) t = true /\ t <> trailer a d k c /\
    forall cs, cycles_ok d cs = true -> since_start cs = ws ++ t -> hw_match a (hw_run a d cs) = true.
Proof. exact (false_match_even a d k ws c). Qed.
Print Assumptions C16_false_match_even.

(* every table entry has an odd polynomial, so C16_no_false_match applies to the whole catalogue *)
Theorem C16_catalog_polynomials_odd : forallb (fun e => Z.odd (poly (fst e))) reveng_table = true.
Proof. vm_compute. reflexivity. Qed.
Print Assumptions C16_catalog_polynomials_odd.

(* non-vacuity: CRC-32/ISO-HDLC, bytes, start alone, an idle cycle inside the message, then the check value
   0xCBF43926 as little-endian bytes; CRC-16/IBM-3740 (not reflected) sends 0x29B1 big-endian *)
Example C16_residue_example :
  let a := Algo 32 79764919 4294967295 true true 4294967295 in
  let cs := [Cy true false 0; Cy false true 49; Cy false false 0] ++
            map (Cy false true) [50; 51; 52; 53; 54; 55; 56; 57; 38; 57; 244; 203] in
  params_ok a 8 = true /\ cw a = 8 * Z.of_nat 4 /\ Z.odd (poly a) = true /\ cycles_ok 8 cs = true /\
  compute a 8 check_msg = Some 3421780262 /\ trailer a 8 4 3421780262 = [38; 57; 244; 203] /\
  since_start cs = check_msg ++ trailer a 8 4 3421780262 /\ hw_match a (hw_run a 8 cs) = true /\
  trailer (Algo 16 4129 65535 false false 0) 8 2 10673 = [41; 177].
Proof. vm_compute. repeat split; reflexivity. Qed.

(* ================================================================== translated source
   coq/Gen/CrcGen.v is regenerated from the text of /repo/amaranth/lib/crc/__init__.py on every run
   (translator/unit_crc.py: classes Algorithm and Parameters become records, their methods functions into
   `option`, None = ValueError).  The theorems below (proofs in Proofs/GenEqCrc.v) say that every regenerated
   function is the function of Model/Crc.v the theorems above are about, for all parameters, data widths and
   word lists; `of_algo` / `of_params a d` are the generated records holding the fields of `a` (and d). *)
From V.Proofs Require Import GenEqCrc.
From V.Gen Require CrcGen.

(* Algorithm.__init__: the four range checks are algo_ok *)
Theorem C16_translated_Algorithm_init w p i ri ro x :
  CrcGen.Algorithm_init w p i ri ro x =
  if algo_ok (Algo w p i ri ro x) then Some (of_algo (Algo w p i ri ro x)) else None.
Proof. exact (gen_Algorithm_init_eq w p i ri ro x). Qed.
Print Assumptions C16_translated_Algorithm_init.

(* Parameters.__init__ / Algorithm.__call__: copy the six fields, check data_width > 0 *)
Theorem C16_translated_Parameters_init a d :
  CrcGen.Parameters_init (of_algo a) d = if 0 <? d then Some (of_params a d) else None.
Proof. exact (gen_Parameters_init_eq a d). Qed.
Print Assumptions C16_translated_Parameters_init.

Theorem C16_translated_Algorithm_call a d :
  CrcGen.Algorithm_call (of_algo a) d = if 0 <? d then Some (of_params a d) else None.
Proof. exact (gen_Algorithm_call_eq a d). Qed.
Print Assumptions C16_translated_Algorithm_call.

(* Algorithm(...)(data_width) succeeds exactly when params_ok *)
Theorem C16_translated_constructors a d :
  match CrcGen.Algorithm_init (cw a) (poly a) (init a) (refin a) (refout a) (xorout a) with
  | Some g => CrcGen.Algorithm_call g d
  | None => None
  end = if params_ok a d then Some (of_params a d) else None.
Proof. exact (gen_constructors_eq a d). Qed.
Print Assumptions C16_translated_constructors.

(* the `algorithm` property re-runs Algorithm.__init__ *)
Theorem C16_translated_Parameters_algorithm a d :
  CrcGen.Parameters_algorithm (of_params a d) = if algo_ok a then Some (of_algo a) else None.
Proof. exact (gen_Parameters_algorithm_eq a d). Qed.
Print Assumptions C16_translated_Parameters_algorithm.

(* Parameters._reflect = int(f"{word:0{n}b}"[::-1], 2); for word < 0 or n < 0 Python raises ValueError *)
Theorem C16_translated_reflect word n :
  0 <= word -> 0 <= n -> CrcGen.Parameters__reflect word n = Some (reflect word n).
Proof. exact (gen_reflect_eq word n). Qed.
Print Assumptions C16_translated_reflect.

Theorem C16_translated_reflect_raises word n :
  word < 0 \/ n < 0 -> CrcGen.Parameters__reflect word n = None.
Proof. exact (gen_reflect_raises word n). Qed.
Print Assumptions C16_translated_reflect_raises.

(* Parameters.compute, including the ValueError for an out-of-range word; the guard is implied by the
   constructor checks (C16_translated_compute_ok) *)
Theorem C16_translated_compute a d data :
  0 <= cw a -> 0 <= d -> 0 <= init a ->
  CrcGen.Parameters_compute (of_params a d) data = compute a d data.
Proof. exact (gen_compute_eq a d data). Qed.
Print Assumptions C16_translated_compute.

Theorem C16_translated_compute_ok a d data :
  params_ok a d = true -> CrcGen.Parameters_compute (of_params a d) data = compute a d data.
Proof. exact (gen_compute_ok a d data). Qed.
Print Assumptions C16_translated_compute_ok.

(* Parameters.residue *)
Theorem C16_translated_residue a d :
  algo_ok a = true -> CrcGen.Parameters_residue (of_params a d) = Some (residue a).
Proof. exact (gen_residue_eq a d). Qed.
Print Assumptions C16_translated_residue.

(* Parameters._matrices: Python builds rows of the integers 0 / 1 (zrows = map (map Z.b2z)) *)
Theorem C16_translated_matrices a d :
  params_ok a d = true ->
  CrcGen.Parameters__matrices (of_params a d) = Some (zrows (fst (matrices a d)), zrows (snd (matrices a d))).
Proof. exact (gen_matrices_eq a d). Qed.
Print Assumptions C16_translated_matrices.

(* non-vacuity: the regenerated functions run; CRC-16/ARC over three 5-bit words as in C16_compute_example,
   CRC-3/GSM matrices for 2-bit words, CRC-32/ISO-HDLC residue, an out-of-range word *)
Example C16_translated_example :
  params_ok (Algo 16 32773 0 true true 0) 5 = true /\
  CrcGen.Parameters_compute (of_params (Algo 16 32773 0 true true 0) 5) [19; 0; 31] = Some 57883 /\
  CrcGen.Parameters_compute (of_params (Algo 16 32773 0 true true 0) 5) [19; 32] = None /\
  CrcGen.Parameters__reflect 6 5 = Some 12 /\
  CrcGen.Parameters__matrices (of_params (Algo 3 3 0 false false 7) 2) =
    Some ([[0; 0; 1]; [1; 1; 0]; [0; 1; 1]], [[1; 1; 0]; [0; 1; 1]]) /\
  CrcGen.Parameters_residue (of_params (Algo 32 79764919 4294967295 true true 4294967295) 8) = Some 3736805603.
Proof. vm_compute. repeat split; reflexivity. Qed.

(* default data width of algo() and Parameters(algo) *)
Theorem C16_translated_default_data_width :
  CrcGen.Algorithm_call_default_data_width = 8 /\ CrcGen.Parameters_init_default_data_width = 8.
Proof. exact gen_default_data_width. Qed.
Print Assumptions C16_translated_default_data_width.

(* C20 — Print, Assert and Format match Python formatting at the right instants.
   Only statements here; proofs live in Proofs/FormatP.v.  Text = list of code points.
   `py_format` is the model of CPython's format(); it is tied to the real CPython by the differential run
   (whole accepted grammar), not by proof. *)
From Coq Require Import ZArith List Bool Lia.
From V.Model Require Import Bits Format.
From V.Proofs Require Import BitsP FormatP.
Import ListNotations.
Open Scope Z_scope.

(* --- every accepted spec formats every value of the shape (Python's own run-time errors excluded) --- *)
Theorem C20_accepted_specs_total s sh sp v :
  parse_spec s sh = Some sp -> in_range sh v ->
  (f_type sp = Some Tc -> v <= 1114111) ->
  (f_type sp = Some Ts -> utf8_decode (value_bytes v) <> None) ->
  exists t, py_format sp v = Some t.
Proof. exact (accepted_total s sh sp v). Qed.
Print Assumptions C20_accepted_specs_total.

(* non-vacuity: "*>+#12_x" on signed(16), value -255 *)
Example C20_accepted_example :
  exists sp, parse_spec [42; 62; 43; 35; 49; 50; 95; 120] (Sh 16 true) = Some sp /\
  py_format sp (-255) = Some [42;42;42;42;42;42;42;45;48;120;102;102].
Proof. exists (Spec (Some 42) (Some ARight) (Some SPlus) true false 12 true (Some Tx)). split; vm_compute; reflexivity. Qed.

(* the shape-dependent rejections: c/s only on unsigned values and without '=', '#', '0', sign, '_'; s on bytes *)
Theorem C20_cs_restrictions s sh sp :
  parse_spec s sh = Some sp -> is_cs (f_type sp) = true ->
  sgn sh = false /\ f_align sp <> Some AEq /\ f_alt sp = false /\ f_zero sp = false /\
  f_sign sp = None /\ f_group sp = false /\ (f_type sp = Some Ts -> width sh mod 8 = 0).
Proof.
  intros Hp Hc. destruct (parse_spec_check _ _ _ Hp) as [_ Hk].
  destruct (check_shape_cs sp sh Hk Hc) as (H1 & H2 & H3 & H4 & H5 & H6).
  repeat split; auto. apply check_shape_s; auto.
Qed.
Print Assumptions C20_cs_restrictions.

(* invalid specifications are rejected: '^' alignment, ',' grouping, 'n', precision, '=' with c, s on 12 bits,
   c on a signed value, '\n' fill, "00", trailing junk *)
Example C20_rejected_examples :
  forallb (fun s => match parse_spec s (Sh 8 false) with None => true | Some _ => false end)
    [[94; 53]; [120; 94; 53]; [44]; [53; 44; 100]; [110]; [46; 51]; [53; 46; 51; 100]; [61; 53; 99];
     [43; 99]; [35; 115]; [48; 53; 115]; [95; 99]; [10; 60; 53]; [48; 48]; [100; 100]; [53; 32]] = true
  /\ parse_spec [115] (Sh 12 false) = None /\ parse_spec [99] (Sh 8 true) = None
  /\ parse_spec [115] (Sh 16 false) <> None /\ parse_spec [94; 60; 53] (Sh 8 false) <> None.
Proof. vm_compute. repeat split; discriminate. Qed.

(* the recogniser accepts exactly strings of the grammar [[fill]align][sign]['#']['0'][width]['_'][type]
   (align in < > =, type in b o d x X c s, width a decimal numeral without leading zero, fill never '\n') *)
Theorem C20_accepted_specs_in_grammar s sh sp : parse_spec s sh = Some sp ->
  exists wd, s = render_spec sp wd /\ width_digits (f_width sp) wd /\
             (f_fill sp <> None -> f_align sp <> None /\ f_fill sp <> Some 10).
Proof. intros H. destruct (parse_spec_check _ _ _ H) as [Hr _]. exact (parse_raw_sound s sp Hr). Qed.
Print Assumptions C20_accepted_specs_in_grammar.

(* --- width --- *)
Theorem C20_width_respected sp v t : py_format sp v = Some t -> f_width sp <= zlen t.
Proof. exact (py_format_length_ge sp v t). Qed.
Print Assumptions C20_width_respected.

(* outside CPython's zero-padding mode (fill '0' with '=' alignment, where separators are inserted in the padding)
   the length is exactly max(width, natural length) *)
Theorem C20_width_exact sp v t : zero_mode sp (dflt_of sp) = false -> py_format sp v = Some t ->
  exists t0, py_format (with_width sp 0) v = Some t0 /\ zlen t = Z.max (f_width sp) (zlen t0).
Proof. exact (py_format_length_max sp v t). Qed.
Print Assumptions C20_width_exact.

Example C20_width_example :
  py_format (Spec (Some 42) (Some ALeft) None true false 9 true (Some Tx)) 65535 = Some [48;120;102;102;102;102;42;42;42]
  /\ py_format (Spec None None None false true 4 true (Some Td)) 5 = Some [48;95;48;48;53].   (* '04_d' -> '0_005' *)
Proof. vm_compute. split; reflexivity. Qed.

(* --- the digits are the value: b/o/d/x/X/none renderings read back to the integer, for every integer --- *)
Theorem C20_digits_roundtrip t v txt : numeric t ->
  py_format (plain t) v = Some txt -> read_int (base_of t) txt = v.
Proof. exact (read_int_roundtrip t v txt). Qed.
Print Assumptions C20_digits_roundtrip.

Theorem C20_plain_rendering t v : numeric t ->
  py_format (plain t) v = Some ((if v <? 0 then [45] else []) ++ digit_text t v)
  /\ undigits (base_of t) (map digit_val (digit_text t v)) = Z.abs v.
Proof. intros H. split; [apply py_format_plain; auto|apply digit_text_read]. Qed.
Print Assumptions C20_plain_rendering.

Example C20_roundtrip_example : py_format (plain (Some TX)) (-48879) = Some [45; 66; 69; 69; 70].
Proof. vm_compute. reflexivity. Qed.

(* --- zero flag: sign, then prefix, then zeros, then digits --- *)
Theorem C20_zero_fill_sign_placement sg alt w t v : numeric t -> 0 <= w ->
  let sp := Spec None None sg alt true w false t in
  let s := sign_text sp (v <? 0) in
  let p := if alt then prefix_of t else [] in
  let d := digit_text t v in
  py_format sp v = Some (s ++ p ++ pad (w - zlen s - zlen p - zlen d) 48 ++ d).
Proof. exact (py_format_zero_fill sg alt w t v). Qed.
Print Assumptions C20_zero_fill_sign_placement.

Example C20_zero_fill_example :
  py_format (Spec None None (Some SPlus) true true 10 false (Some Tx)) (-255) = Some [45;48;120;48;48;48;48;48;102;102].
Proof. vm_compute. reflexivity. Qed.

(* with '_' the separators are also inserted in the zero padding (CPython); without the separators the body is
   zeros followed by the digits, after the sign and the prefix *)
Theorem C20_zero_fill_grouped sg alt w grp t v : numeric t -> 0 <= w ->
  let sp := Spec None None sg alt true w grp t in
  let s := sign_text sp (v <? 0) in
  let p := if alt then prefix_of t else [] in
  exists body k, 0 <= k /\ py_format sp v = Some (s ++ p ++ body) /\ strip body = pad k 48 ++ digit_text t v.
Proof. exact (py_format_zero_fill_grouped sg alt w grp t v). Qed.
Print Assumptions C20_zero_fill_grouped.

Example C20_zero_fill_grouped_example :
  py_format (Spec None None None true true 12 true (Some Tx)) (-255) = Some [45;48;120;48;48;48;48;95;48;48;102;102].
Proof. vm_compute. reflexivity. Qed.

(* --- '_' grouping: positions of the separators, including the interaction with the zero-fill width --- *)
(* CPython's grouping loop (group_digits, the function py_format uses and the differential run ties to format() and to
   the simulator) = "pad with zeros, then insert a separator after every g characters counted from the right".
   All digit strings, all group sizes g >= 1, all minimum widths mw. *)
Theorem C20_group_positions g digs mw : 1 <= g -> digs <> [] ->
  group_digits (Some g) digs mw = sep_right g (pad (zero_count g (zlen digs) mw) 48 ++ digs).
Proof. exact (group_digits_spec g digs mw). Qed.
Print Assumptions C20_group_positions.

(* sep_right is grouping from the right: the last g characters are split off behind a separator, recursively *)
Theorem C20_sep_right_is_grouping_from_the_right g :  1 <= g ->
  (forall b, zlen b <= g -> sep_right g b = b) /\
  (forall a b, a <> [] -> zlen b = g -> sep_right g (a ++ b) = sep_right g a ++ 95 :: b) /\
  (forall l, Forall (fun c => c <> 95) l -> strip (sep_right g l) = l) /\
  (forall l, l <> [] -> zlen (sep_right g l) = grouped_len g (zlen l)).
Proof.
  intros Hg. repeat split.
  - intros; apply sep_right_small; auto.
  - intros; apply sep_right_peel; auto.
  - intros; apply sep_right_strip; auto.
  - intros; apply sep_right_length; auto.
Qed.
Print Assumptions C20_sep_right_is_grouping_from_the_right.

(* how many zeros: none below the natural length; otherwise just enough to reach mw — mw + 1 when mw is a multiple of
   g + 1, because a grouped text cannot start with a separator *)
Theorem C20_group_width g digs mw : 1 <= g -> digs <> [] ->
  let L := zlen (group_digits (Some g) digs mw) in
  mw <= L /\ grouped_len g (zlen digs) <= L /\
  (grouped_len g (zlen digs) < L -> L = if mw mod (g + 1) =? 0 then mw + 1 else mw).
Proof. intros Hg Hd. rewrite (group_digits_spec g digs mw Hg Hd). exact (pad_then_group_length g digs mw Hg Hd). Qed.
Print Assumptions C20_group_width.

(* every numeric spec with '_' : sign, prefix and the padded-then-grouped digits (groups of 3 for d/none, 4 for b o x X),
   laid out by alignment/fill/width; the padding-then-grouping width is non-trivial only in CPython's zero mode *)
Theorem C20_grouped_format sp v : numeric (f_type sp) -> f_group sp = true ->
  let t := f_type sp in
  let s := sign_text sp (v <? 0) in
  let p := if f_alt sp then prefix_of t else [] in
  py_format sp v =
  Some (layout (eff_align sp ARight) (eff_fill sp) (f_width sp) s p
          (pad_then_group (group_size t) (digit_text t v)
             (if zero_mode sp ARight then f_width sp - zlen s - zlen p else 0)) [])
  /\ (zero_mode sp ARight = false ->
      pad_then_group (group_size t) (digit_text t v) 0 = sep_right (group_size t) (digit_text t v)).
Proof.
  intros Hn Hg. split; [exact (py_format_grouped sp v Hn Hg)|]. intros _.
  apply pad_then_group_nowidth; [destruct (f_type sp) as [[]|]; cbn; lia|apply digit_text_nonempty|lia].
Qed.
Print Assumptions C20_grouped_format.

Example C20_group_examples :
  sep_right 3 [49;50;51;52;53;54;55] = [49;95;50;51;52;95;53;54;55]            (* 1_234_567 *)
  /\ group_digits (Some 3) [53] 4 = [48;95;48;48;53] /\ zero_count 3 1 4 = 3   (* '04_d' of 5 -> 0_005 (5 chars) *)
  /\ group_digits (Some 4) [102;102] 7 = [48;48;95;48;48;102;102]              (* width 7 met exactly: 00_00ff *)
  /\ group_digits (Some 4) [102;102] 5 = [48;95;48;48;102;102].                (* 5 is a multiple of 4+1: 6 chars *)
Proof. vm_compute. repeat split. Qed.

(* --- c is a code point, s the byte string (little-endian bytes, zero bytes dropped, UTF-8) --- *)
Theorem C20_c_is_code_point v : 0 <= v <= 1114111 -> py_format (plain (Some Tc)) v = Some [v].
Proof. exact (py_format_c v). Qed.
Print Assumptions C20_c_is_code_point.

Theorem C20_s_is_byte_string v : 0 <= v ->
  py_format (plain (Some Ts)) v = utf8_decode (filter (fun b => negb (b =? 0)) (all_bytes v))
  /\ undigits 256 (rev (all_bytes v)) = v /\ Forall (fun b => 0 <= b < 256) (all_bytes v).
Proof. intros H. split; [apply py_format_s|apply all_bytes_value; auto]. Qed.
Print Assumptions C20_s_is_byte_string.

Example C20_s_example : py_format (plain (Some Ts)) 2848129096 = Some [72; 233].   (* b"H\x00\xc3\xa9"[::] -> "Hé" *)
Proof. vm_compute. reflexivity. Qed.

(* --- the formatted integer is the value in its own shape --- *)
Theorem C20_emit_uses_shape_value sp sigs env e : vexpr_ok sigs env e ->
  norm (vshape sigs e) (vraw sigs env e) = vdenote sigs env e /\
  emit_field sp (vshape sigs e) (vraw sigs env e) =
  match py_format sp (vdenote sigs env e) with
  | Some t => Ok t
  | None => Err (match f_type sp with Some Ts => 3 | _ => 2 end)
  end.
Proof. intros Hok. split; [apply norm_raw_denote; auto|apply emit_field_shape_value; auto]. Qed.
Print Assumptions C20_emit_uses_shape_value.

(* signed values print as signed: an unsigned(8) signal holding 200, read as_signed(), prints -56 *)
Example C20_emit_example :
  vexpr_ok [Sh 8 false] [200] (VAsS 0) /\ vdenote [Sh 8 false] [200] (VAsS 0) = -56 /\
  emit_field (plain (Some Td)) (vshape [Sh 8 false] (VAsS 0)) (vraw [Sh 8 false] [200] (VAsS 0)) = Ok [45; 53; 54].
Proof. repeat split; vm_compute; try reflexivity; intros; discriminate. Qed.

(* a whole Print / Assert message: the emitted text is str.format applied to the values in their own shapes
   (spec_text: literal text as is, each field = py_format of the Python-integer value of its expression) *)
Theorem C20_print_text_is_str_format sigs env f txt out :
  format_wf sigs env f -> spec_text sigs env f = Some txt ->
  emit_format sigs env f = Ok txt /\ fire_print sigs env f out = Cont (out ++ txt ++ [10]).
Proof. intros Hwf Hs. split; [apply emit_format_spec; auto|apply fire_print_spec; auto]. Qed.
Print Assumptions C20_print_text_is_str_format.

Theorem C20_assert_text_is_str_format sigs env k t f txt out :
  k <> KCover -> format_wf sigs env f -> spec_text sigs env f = Some txt -> vexpr_ok sigs env t ->
  fire_prop sigs env k t (Some f) out =
  if vdenote sigs env t =? 0 then Stop out 1 (assert_text k ++ [58; 32] ++ txt) else Cont out.
Proof. exact (fire_assert_spec sigs env k t f txt out). Qed.
Print Assumptions C20_assert_text_is_str_format.

Example C20_print_text_example :
  let sigs := [Sh 8 false; Sh 4 true] in
  let env := [200; -3] in
  let f := [CLit [97; 61]; CField (VAsS 0) [43; 48; 53]; CLit [32]; CField (VNeg 1) [35; 120]] in
  spec_text sigs env f = Some [97;61;45;48;48;53;54;32;48;120;51] /\ format_wf sigs env f.
Proof.
  split; [vm_compute; reflexivity|].
  cbn [format_wf]. repeat split; try (vm_compute; congruence); cbn; lia.
Qed.

(* FINDING C20-brace-fill (the real code disagrees with this model = specification): Format accepts a '{' or '}'
   fill, Python formats it (below), but the simulator re-assembles the format string "{:{<5}", which is malformed,
   and str.format raises ValueError when the Print runs.  harness/props/c20.py known_finding recognises it. *)
Example C20_brace_fill_is_accepted_and_formats :
  exists sp, parse_spec [123; 60; 53] (Sh 8 false) = Some sp /\ emit_field sp (Sh 8 false) 5 = Ok [53;123;123;123;123].
Proof. exists (Spec (Some 123) (Some ALeft) None false false 5 false None). split; vm_compute; reflexivity. Qed.

(* --- construction-time validation --- *)
Theorem C20_invalid_specs_rejected_at_build sigs p : prog_ok sigs p = true ->
  forall path pl f e s, In pl (leaves p path) -> In f (leaf_formats (snd pl)) -> In (e, s) (format_fields f) ->
  exists sp, parse_spec s (vshape sigs e) = Some sp.
Proof. intros H path pl f e s H1 H2 H3. eapply format_ok_fields; eauto. eapply prog_ok_leaves; eauto. Qed.
Print Assumptions C20_invalid_specs_rejected_at_build.

(* --- a statement acts at an edge iff all its enclosing conditions hold (program order, up to the first stop) --- *)
Theorem C20_print_emits_at_active_edges sigs env p out :
  exec sigs env p out = scan sigs env (leaves p []) out.
Proof. exact (exec_scan sigs env p out). Qed.
Print Assumptions C20_print_emits_at_active_edges.

Theorem C20_print_active_iff sigs env cs f out :
  exec sigs env (nest cs (PPrint f)) out =
  if forallb (eval_cond sigs env) cs then fire_print sigs env f out else Cont out.
Proof. exact (exec_nest sigs env cs (PPrint f) out). Qed.
Print Assumptions C20_print_active_iff.

(* the process runs exactly at the active edges: a run over testbench steps is the run over the environments
   sampled at the clock transitions towards the domain's polarity (nothing happens on other steps) *)
Theorem C20_only_active_edges sigs pos p steps env clk idx out :
  fst (run_steps sigs pos p steps env clk idx out) =
  fst (run_edges sigs p (edge_envs sigs pos steps env clk) 0 out).
Proof. exact (run_steps_edges sigs pos p steps env clk idx 0 out). Qed.
Print Assumptions C20_only_active_edges.

Example C20_activity_example :
  let sigs := [Sh 1 false; Sh 8 true] in
  let p := PIf (CNz 0) (PPrint [CLit [118; 61]; CField (VSig 1) [43; 48; 52; 100]]) PSkip in
  run_steps sigs true p [StSet 1 (-3); StClk true; StClk false; StSet 0 1; StClk true; StSet 1 7; StClk false; StClk true]
            (init_env sigs) false 0 [] =
  (Cont [118;61;45;48;48;51;10; 118;61;43;48;48;55;10], 8).
Proof. vm_compute. reflexivity. Qed.

(* --- Assert / Assume stop exactly at the first edge at which one is active with a zero test; Cover never --- *)
Theorem C20_assert_stops_at_first_failure sigs p envs out :
  Forall (fun env => edge_renders sigs env p = true) envs ->
  match first_fail sigs p envs 0 with
  | Some k =>
      (exists o m, run_edges sigs p envs 0 out = (Stop o 1 m, k)) /\
      edge_fails sigs (nth k envs []) p = true /\
      (forall j, (j < k)%nat -> edge_fails sigs (nth j envs []) p = false)
  | None =>
      (exists o, run_edges sigs p envs 0 out = (Cont o, length envs)) /\
      (forall env, In env envs -> edge_fails sigs env p = false)
  end.
Proof.
  intros Hall. pose proof (run_edges_first_fail sigs p envs 0%nat out Hall) as Hrun.
  destruct (first_fail sigs p envs 0) as [k|] eqn:E.
  - split; [exact Hrun|]. destruct (first_fail_spec sigs p envs 0%nat k E) as (_ & Hk & Hb).
    rewrite Nat.sub_0_r in *. split; auto.
  - split; [exact Hrun|]. eapply first_fail_none; eauto.
Qed.
Print Assumptions C20_assert_stops_at_first_failure.

(* at one edge: (no formatting error) the process stops with an AssertionError iff some Assert/Assume whose
   enclosing conditions all hold has a zero test *)
Theorem C20_edge_stops_iff_active_failure sigs env p out : edge_renders sigs env p = true ->
  if edge_fails sigs env p
  then exists o m, exec sigs env p out = Stop o 1 m
  else exists o, exec sigs env p out = Cont o.
Proof. exact (exec_outcome sigs env p out). Qed.
Print Assumptions C20_edge_stops_iff_active_failure.

Theorem C20_cover_never_stops sigs env p out : only_cover p = true -> edge_renders sigs env p = true ->
  exists o, exec sigs env p out = Cont o.
Proof.
  intros Hc Hr. pose proof (exec_outcome sigs env p out Hr) as H.
  unfold edge_fails in H. rewrite (only_cover_never_fails sigs env p Hc []) in H. exact H.
Qed.
Print Assumptions C20_cover_never_stops.

Example C20_assert_example :
  let sigs := [Sh 4 false] in
  let p := PSeq (PPrint [CField (VSig 0) []]) (PIf (CPat 0 [(12, 4)]) (PProp KAssert (VInv 0) (Some [CLit [120]])) PSkip) in
  let envs := [[3]; [15]; [6]; [5]] in
  Forall (fun env => edge_renders sigs env p = true) envs /\ first_fail sigs p envs 0 = None /\
  first_fail sigs (PSeq p (PIf (CNz 0) (PProp KAssume (VAsU 0) None) (PProp KAssume (VSig 0) None))) ([3] :: [0] :: envs) 0 = Some 1%nat.
Proof. vm_compute. repeat split; repeat constructor. Qed.

(* --- the FORMAT parameter of the RTLIL $print cell (back/rtlil.py emit_print) ---
   rtl_emit_field is the model of the string building (validated against rtlil.convert by the differential run);
   rchunks_render is the reading of the emitted items (justify, padding character, width, base, sign, '#', '_',
   s/u as the Yosys manual describes them; NOT validated against Yosys, none is available here). *)
Theorem C20_rtlil_format_denotes_simulation s sh sp v cs :
  parse_spec s sh = Some sp -> rtl_agrees sp = true ->
  (f_type sp = Some Ts -> Forall (fun b => 0 <= b < 128) (value_bytes v)) ->
  rtl_emit_field sp (width sh) (sgn sh) = Some cs ->
  rchunks_render cs v = py_format sp v.
Proof. exact (rtl_accepted_agrees s sh sp v cs). Qed.
Print Assumptions C20_rtlil_format_denotes_simulation.

Theorem C20_rtlil_emission_defined sp size sg :
  rtl_emit_field sp size sg = None <-> 128 <= match dict_fill sp with Some c => c | None => 32 end.
Proof. exact (rtl_emit_defined sp size sg). Qed.
Print Assumptions C20_rtlil_emission_defined.

(* non-vacuity: "*>+#12_x" on signed(16): {16:>*12h+#_s} *)
Example C20_rtlil_example :
  exists sp cs, parse_spec [42; 62; 43; 35; 49; 50; 95; 120] (Sh 16 true) = Some sp /\ rtl_agrees sp = true /\
    rtl_emit_field sp 16 true = Some cs /\
    flat_map rchunk_text cs = [123;49;54;58;62;42;49;50;104;43;35;95;115;125] /\
    rchunks_render cs (-255) = Some [42;42;42;42;42;42;42;45;48;120;102;102].
Proof.
  exists (Spec (Some 42) (Some ARight) (Some SPlus) true false 12 true (Some Tx)).
  eexists. repeat split; vm_compute; reflexivity.
Qed.

(* FINDING (RTLIL, not a simulation defect): the three excluded classes are real differences.
   1. '0' flag written with an explicit alignment and no fill: Python/simulator pad with '0', the dict of
      _parse_format_spec keeps fill=None and the emitted item pads with ' '.
      Format("{:<05}", a), a = 5 :  simulator "50000",  FORMAT "{8:< 5du}" -> "5    ". *)
Theorem C20_rtlil_zero_flag_with_alignment_refuted :
  exists s sh sp v cs, parse_spec s sh = Some sp /\ rtl_emit_field sp (width sh) (sgn sh) = Some cs /\
    flat_map rchunk_text cs = [123;56;58;60;32;53;100;117;125] /\
    py_format sp v = Some [53;48;48;48;48] /\ rchunks_render cs v = Some [53;32;32;32;32].
Proof.
  exists [60; 48; 53], (Sh 8 false), (Spec None (Some ALeft) None false true 5 false None), 5.
  eexists. repeat split; vm_compute; reflexivity.
Qed.
Print Assumptions C20_rtlil_zero_flag_with_alignment_refuted.

(*  2. type c with a width and no alignment: Python right-aligns integers (also with 'c'), emit_print defaults to '<'.
      Format("{:5c}", a), a = 65 :  simulator "    A",  FORMAT "{8:U}    " -> "A    ". *)
Theorem C20_rtlil_char_default_alignment_refuted :
  exists s sh sp v cs, parse_spec s sh = Some sp /\ rtl_emit_field sp (width sh) (sgn sh) = Some cs /\
    flat_map rchunk_text cs = [123;56;58;85;125;32;32;32;32] /\
    py_format sp v = Some [32;32;32;32;65] /\ rchunks_render cs v = Some [65;32;32;32;32].
Proof.
  exists [53; 99], (Sh 8 false), (Spec None None None false false 5 false (Some Tc)), 65.
  eexists. repeat split; vm_compute; reflexivity.
Qed.
Print Assumptions C20_rtlil_char_default_alignment_refuted.

(*  3. type c padded with a brace: the fill is copied into FORMAT without doubling.
      Format("{:{}}", a, "{<5c"), a = 65 :  Python "A{{{{",  FORMAT "{8:U}{{{{" -> "A{{". *)
Theorem C20_rtlil_char_brace_fill_refuted :
  exists s sh sp v cs, parse_spec s sh = Some sp /\ rtl_emit_field sp (width sh) (sgn sh) = Some cs /\
    flat_map rchunk_text cs = [123;56;58;85;125;123;123;123;123] /\
    py_format sp v = Some [65;123;123;123;123] /\ rchunks_render cs v = Some [65;123;123].
Proof.
  exists [123; 60; 53; 99], (Sh 8 false), (Spec (Some 123) (Some ALeft) None false false 5 false (Some Tc)), 65.
  eexists. repeat split; vm_compute; reflexivity.
Qed.
Print Assumptions C20_rtlil_char_brace_fill_refuted.

(* --- designs with state: registers, several clock domains, a comb process, asynchronous reset ---
   (Model/Format.v part 6; this is the runner the differential run executes) *)

(* on the fragment of the earlier theorems (one domain, inputs only) the design runner is run_steps *)
Theorem C20_design_single_domain f7 sigs pos rst p steps :
  run_design f7 false (single sigs pos rst p) (map conv_step steps) =
  run_steps sigs pos p steps (init_env sigs) false 0 [].
Proof. exact (run_design_single f7 sigs pos rst p steps). Qed.
Print Assumptions C20_design_single_domain.

(* nothing is emitted (and nothing stops) at a step that is neither an active edge of its domain nor a change of a
   signal the comb process reads: inactive clock transitions, sets of other signals or to the same value, any change
   of a synchronous reset, the fall of an asynchronous one *)
Theorem C20_quiet_steps_emit_nothing bf D t st out : quiet_step D t st = true ->
  fst (dstep_run false bf D t st out) = Cont out.
Proof. exact (quiet_step_silent bf D t st out). Qed.
Print Assumptions C20_quiet_steps_emit_nothing.

(* an active edge of domain d: its statements run on the values BEFORE the edge (a register printed at the edge shows
   its old value); the registers then step from those same values, the reset level deciding; comb statements follow *)
Theorem C20_edge_reads_pre_edge_values f7 bf D d b st out :
  is_edge (d_pos (dom_of D d)) (nth d (s_clk st) false) b = true ->
  dstep_run f7 bf D (TClk d b) st out =
  match exec_b bf (ds_sigs D) (s_env st) (d_prog (dom_of D d)) out with
  | Cont out' =>
      let env' := update_regs (ds_sigs D) (s_env st) (nth d (s_rst st) false) d (ds_regs D) (s_env st) in
      (after_change bf D (s_env st) env' out', DS env' (set_nthb d b (s_clk st)) (s_rst st))
  | s => (s, DS (s_env st) (set_nthb d b (s_clk st)) (s_rst st))
  end.
Proof. exact (edge_step_spec f7 bf D d b st out). Qed.
Print Assumptions C20_edge_reads_pre_edge_values.

(* clock and reset changed by one testbench command: an active edge runs the process with the new reset level *)
Theorem C20_clock_and_reset_together f7 bf D d cb rb st out :
  is_edge (d_pos (dom_of D d)) (nth d (s_clk st) false) cb = true ->
  fst (dstep_run f7 bf D (TBoth d cb rb) st out) = fst (proc_run bf D d rb (s_env st) out).
Proof. exact (both_step_edge f7 bf D d cb rb st out). Qed.
Print Assumptions C20_clock_and_reset_together.

Theorem C20_reset_change_never_emits bf D d b st out : ds_comb D = PSkip ->
  fst (dstep_run false bf D (TRst d b) st out) = Cont out.
Proof. exact (reset_step_silent bf D d b st out). Qed.
Print Assumptions C20_reset_change_never_emits.

(* F7 (repaired in /repo 574e1db; the harness runs the model with f7 = false): before the repair, in an async-reset
   domain the rise of rst ran the sync process, so a sync Print fired with no active edge.  f7 = true is that old
   semantics, kept so that a regression is recognised exactly; it differs observably: *)
Theorem C20_async_reset_F7_refuted :
  exists D st, d_async (dom_of D 0) = true /\ ds_comb D = PSkip /\
    fst (dstep_run false false D (TRst 0 true) st []) = Cont [] /\
    fst (dstep_run true false D (TRst 0 true) st []) = Cont [120; 10].
Proof.
  exists (Design [Sh 4 false] [Dom true true true (PPrint [CLit [120]])] PSkip []).
  exists (design_init (Design [Sh 4 false] [Dom true true true (PPrint [CLit [120]])] PSkip [])).
  vm_compute. repeat split.
Qed.
Print Assumptions C20_async_reset_F7_refuted.

(* the finding-semantics switch for C20-brace-fill changes nothing when it is off *)
Theorem C20_finding_switch_off sigs env p out : exec_b false sigs env p out = exec sigs env p out.
Proof. exact (exec_b_false sigs env p out). Qed.
Print Assumptions C20_finding_switch_off.

(* a counter printed in its own domain, read by a comb Print, with a synchronous reset *)
Example C20_design_example :
  let D := Design [Sh 1 false; Sh 2 false]
             [Dom true true false (PPrint [CLit [83]; CField (VSig 1) []])]
             (PPrint [CLit [67]; CField (VSig 1) []])
             [Reg 1 0 (Some 0%nat) 1 0 false] in
  run_design false false D [TSet 0 1; TClk 0 true; TClk 0 false; TClk 0 true; TRst 0 true; TClk 0 false; TClk 0 true] =
  (Cont [67;48;10; 83;48;10;67;49;10; 83;49;10;67;50;10; 83;50;10;67;48;10], 7).
Proof. vm_compute. reflexivity. Qed.

(* --- the recogniser is complete: every string of the grammar is accepted, with the record it was rendered from --- *)
Theorem C20_recogniser_complete sp wd sh :
  (f_fill sp <> None -> f_align sp <> None /\ f_fill sp <> Some 10) ->
  width_digits (f_width sp) wd -> check_shape sp sh = true ->
  parse_spec (render_spec sp wd) sh = Some sp.
Proof.
  intros Hf Hw Hk. unfold parse_spec. rewrite parse_raw_complete; auto.
  - rewrite Hk. reflexivity.
  - destruct (f_fill sp); [right; apply Hf; discriminate|left; reflexivity].
Qed.
Print Assumptions C20_recogniser_complete.

Example C20_recogniser_complete_example :
  let sp := Spec (Some 42) (Some AEq) (Some SPlus) true false 12 true (Some TX) in
  width_digits 12 [49; 50] /\ check_shape sp (Sh 8 true) = true /\
  render_spec sp [49; 50] = [42; 61; 43; 35; 49; 50; 95; 88].
Proof.
  split; [|split; reflexivity]. cbn [width_digits]. split; [lia|]. split; [repeat constructor; lia|reflexivity].
Qed.

(* --- If/Elif/Else and Switch/Case: the priority chain the simulator runs means what the DSL says --- *)
(* the (mask, value) pair computed from a Case pattern string matches exactly the values the pattern describes *)
Theorem C20_pattern_mask_value p test :
  (snd (pat_mv p) =? Z.land (fst (pat_mv p)) test) = pat_matches p test.
Proof. exact (pat_mv_spec p test). Qed.
Print Assumptions C20_pattern_mask_value.

(* first arm with a non-zero condition / first case with a matching pattern (Default always) runs, nothing else *)
Theorem C20_dsl_lowering_correct sigs env p out :
  exec sigs env (lower_prog p) out = dexec_prog sigs env p out.
Proof. exact (proj1 (proj2 (lower_correct sigs env)) p out). Qed.
Print Assumptions C20_dsl_lowering_correct.

Example C20_dsl_example :
  pat_mv [49; 45; 48] = (5, 4) /\ pat_matches [49; 45; 48] 6 = true /\ pat_matches [49; 45; 48] 7 = false.
Proof. vm_compute. repeat split. Qed.

(* ------------------------------------------------------------------------------------------------------------
   Definitions regenerated from the source text on every run (translator/unit_format.py -> Gen/FormatGen.v),
   proved equal to the model in Proofs/GenEqFormat.v. *)
From V.Proofs Require Import GenEqFormat.
From V.Gen Require FormatGen.

(* sim/_pyeval.py value_to_string = bytes least significant first, NULs dropped, strict UTF-8 — for every value >= 0
   (for a negative value Python's loop does not terminate; 's' is only accepted on unsigned shapes) *)
Theorem C20_translated_value_to_string v :
  0 <= v -> FormatGen.value_to_string v = utf8_decode (value_bytes v).
Proof. exact (gen_value_to_string_eq v). Qed.
Print Assumptions C20_translated_value_to_string.

(* hdl/_ast.py Format._parse_format_spec, the statements after the regex: for every combination of group values the
   character classes of the pattern admit (any fill, any width text, any shape) they are the model's rejections
   ('^', ',', 'n', check_shape) and produce the model's dict *)
Theorem C20_translated_parse_format_spec_checks fill al sg alt zero wd grp ty sh :
  in_opt al [60; 62; 61; 94] -> in_opt sg [45; 43; 32] -> in_opt grp [95; 44] ->
  in_opt ty [98; 111; 100; 120; 88; 99; 115; 110] ->
  FormatGen.parse_format_spec_checks (groups_of fill al sg alt zero wd grp ty) sh =
  option_map dict_of
    (match raw_of fill al sg alt zero wd grp ty with
     | Some sp => if check_shape sp sh then Some sp else None
     | None => None end).
Proof. exact (gen_checks_eq fill al sg alt zero wd grp ty sh). Qed.
Print Assumptions C20_translated_parse_format_spec_checks.

(* the dict record is the list of integers of spec_dict that the correspondence run compares *)
Theorem C20_translated_dict_ints sp : dict_ints (dict_of sp) = spec_dict sp.
Proof. exact (dict_ints_of sp). Qed.
Print Assumptions C20_translated_dict_ints.

(* regex (Format._FORMAT_SPEC_PATTERN, regenerated from its parse tree) + checks = parse_spec + dict, on the finite
   domain: every string of length <= 3 over `alphabet` (30 characters: all those the pattern names, newline, others)
   and 14 longer specifications, for the shapes unsigned/signed x width 8/7.  The equality for all strings of all
   lengths is NOT proved. *)
Theorem C20_translated_parse_format_spec_bounded_partial :
  forallb (fun sh => forallb (fun s =>
      odict_beq (FormatGen.parse_format_spec s sh) (option_map dict_of (parse_spec s sh)))
    (words_upto3 ++ long_specs)) shapes4 = true.
Proof. exact gen_parse_format_spec_bounded. Qed.
Print Assumptions C20_translated_parse_format_spec_bounded_partial.

Example C20_translated_example :
  option_map dict_ints (FormatGen.parse_format_spec [42;62;43;35;48;49;50;95;120] (Sh 16 true)) =
    Some [42; 62; 43; 1; 12; 95; 120] /\
  option_map dict_ints (FormatGen.parse_format_spec [48;53;100] (Sh 8 false)) = Some [48; 61; -1; 0; 5; -1; 100] /\
  FormatGen.parse_format_spec [60;94] (Sh 8 false) = None /\
  FormatGen.value_to_string 6513249 = Some [97; 98; 99] /\ FormatGen.value_to_string 255 = None.
Proof. exact gen_parse_format_spec_example. Qed.

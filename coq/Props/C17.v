(* C17 — clock-domain-crossing primitives meet their latency and pulse contracts.
   Only statements here; the model is Model/Cdc.v, proofs live in Proofs/CdcP.v.
   Time is a list of events (Ein v: input driven to v; Eo / Ei: active edge of the output- / input-domain
   clock; Eb: both at the same instant; Enop: anything else), quantified universally: every interleaving
   of the two clocks and of the input changes.  All theorems hold for every stage count >= 1
   (the constructors only accept >= 2). *)
From Coq Require Import ZArith List Bool.
From V.Model Require Import Bits Cdc.
From V.Proofs Require Import CdcP.
Import ListNotations.
Open Scope Z_scope.

(* --- FFSynchronizer: latency is exactly `stages` output edges ---
   sampled sh i0 evs = the input values present at output edges 1, 2, ... n.  At any moment, with n
   output edges so far, the output is the input as it was just before output edge n - stages + 1
   (0-based index n - stages), and the initial value while n < stages. *)
Theorem C17_ff_sync_latency sh stages init i0 evs : (1 <= stages)%nat ->
  let n := count_oedges evs in
  ff_out (ff_run sh stages init i0 evs) =
  if (n <? stages)%nat then norm sh (ff_ctor_init init)
  else nth (n - stages) (sampled sh (norm sh i0) evs) 0.
Proof. exact (ff_sync_latency sh stages init i0 evs). Qed.
Print Assumptions C17_ff_sync_latency.

(* init : option Z is the constructor argument (None = not given -> 0); i0, the input's own initial
   value, is an independent quantity.  Without init= the output is 0 -- not i0 -- until the stages-th
   output edge, and only then the input's value (i0 itself if the input was never driven). *)
Theorem C17_ff_default_init sh stages i0 evs : (1 <= stages)%nat -> wf_shape sh = true ->
  let n := count_oedges evs in
  ff_out (ff_run sh stages None i0 evs) =
  if (n <? stages)%nat then 0 else nth (n - stages) (sampled sh (norm sh i0) evs) 0.
Proof. exact (ff_default_init sh stages i0 evs). Qed.
Print Assumptions C17_ff_default_init.

Example C17_ff_default_init_example :
  let sh := Sh 8 false in
  wf_shape sh = true /\
  map (fun k => ff_out (ff_run sh 2 None 165 (repeat Eo k))) [0; 1; 2; 3]%nat = [0; 0; 165; 165] /\
  map (fun k => ff_out (ff_run sh 2 (Some 0) 255 (repeat Eo k))) [0; 1; 2; 3]%nat = [0; 0; 255; 255] /\
  map (fun k => ff_out (ff_run sh 3 (Some 90) 165 (repeat Eo k))) [0; 2; 3]%nat = [90; 90; 165].
Proof. vm_compute. repeat split. Qed.

(* a change of the input (Ein b, then the input is held) is invisible during the next stages - 1 output
   edges -- the output is what it would have been without the change -- and visible from the stages-th on *)
Theorem C17_ff_change_visible sh stages init i0 evs b tail : (1 <= stages)%nat ->
  input_held tail = true ->
  ff_out (ff_run sh stages init i0 (evs ++ Ein b :: tail)) =
  if (count_oedges tail <? stages)%nat then ff_out (ff_run sh stages init i0 (evs ++ tail))
  else norm sh b.
Proof. exact (ff_change_visible sh stages init i0 evs b tail). Qed.
Print Assumptions C17_ff_change_visible.

Example C17_ff_example :
  let sh := Sh 3 false in
  let tail := [Eo; Enop; Eb; Ei; Eo] in
  input_held tail = true /\
  map (fun k => ff_out (ff_run sh 3 (Some 5) 0 ([Ein 2; Eo] ++ Ein 7 :: firstn k tail))) [0; 1; 2; 3; 4; 5]%nat
    = [5; 5; 5; 2; 2; 7] /\
  ff_out (ff_run (Sh 3 true) 2 (Some 0) 0 [Ein 13; Eo; Eo]) = -3.
Proof. vm_compute. repeat split. Qed.

(* o of another shape than i: the comb assignment o.eq(flops[-1]) converts the value *)
Theorem C17_ff_sync_latency_o_shape osh sh stages init i0 evs : (1 <= stages)%nat ->
  let n := count_oedges evs in
  ff_out_as osh (ff_run sh stages init i0 evs) =
  norm osh (if (n <? stages)%nat then norm sh (ff_ctor_init init)
            else nth (n - stages) (sampled sh (norm sh i0) evs) 0).
Proof. intros Hs n. unfold ff_out_as. f_equal. exact (ff_sync_latency sh stages init i0 evs Hs). Qed.
Print Assumptions C17_ff_sync_latency_o_shape.

(* --- FFSynchronizer and the reset of the output domain (Rrst b = the domain's rst is driven to b) ---
   a default FFSynchronizer (reset_less=True) in ANY output domain -- sync or async reset -- ignores the
   domain's reset: the run equals the reset-free run on the events with the reset events erased, so
   the latency theorems above hold whatever the reset does *)
Theorem C17_ff_reset_less_ignores_reset sh stages init async i0 evs :
  fr_ff (ffr_run sh stages init async true i0 evs) = ff_run sh stages init i0 (erase_rst evs).
Proof. exact (ffr_reset_less_ignores_reset sh stages init async i0 evs). Qed.
Print Assumptions C17_ff_reset_less_ignores_reset.

Example C17_ff_reset_less_example :
  let evs := [Rrst true; Rrst false; Rrst true; Rev Eo; Rrst false; Rrst true; Rev Eo] in
  map (fun k => ff_out (fr_ff (ffr_run (Sh 4 false) 2 (Some 3) true true 9 (firstn k evs)))) [0; 3; 4; 6; 7]%nat
    = [3; 3; 3; 3; 9].
Proof. vm_compute. reflexivity. Qed.

(* rst never asserted: sync or async reset domain, reset_less or not -- the reset-free model *)
Theorem C17_ff_no_reset sh stages init async rl i0 evs : rst_never evs = true ->
  fr_ff (ffr_run sh stages init async rl i0 evs) = ff_run sh stages init i0 (erase_rst evs).
Proof. exact (ffr_no_reset sh stages init async rl i0 evs). Qed.
Print Assumptions C17_ff_no_reset.

(* reset_less=False: an output edge with rst high is a power-up: init for the following stages - 1
   edges, then the input as sampled since the reset (the input's value at the reset first) *)
Theorem C17_ff_reset_is_power_up sh stages init async i0 evs tail : (1 <= stages)%nat ->
  let s := ffr_run sh stages init async false i0 evs in
  fr_rst s = true ->
  ff_out (fr_ff (ffr_run sh stages init async false i0 (evs ++ Rev Eo :: Rrst false :: map Rev tail))) =
  if (count_oedges tail <? stages)%nat then norm sh (ff_ctor_init init)
  else nth (count_oedges tail - stages) (sampled sh (ff_in (fr_ff s)) tail) 0.
Proof. exact (ffr_reset_is_power_up sh stages init async i0 evs tail). Qed.
Print Assumptions C17_ff_reset_is_power_up.

Example C17_ff_reset_example :
  let evs := [Rev (Ein 6); Rev Eo; Rev Eo; Rrst true] in
  fr_rst (ffr_run (Sh 4 false) 2 (Some 3) false false 9 evs) = true /\
  ff_out (fr_ff (ffr_run (Sh 4 false) 2 (Some 3) false false 9 evs)) = 6 /\
  map (fun k => ff_out (fr_ff (ffr_run (Sh 4 false) 2 (Some 3) false false 9
                                (evs ++ Rev Eo :: Rrst false :: map Rev (repeat Eo k))))) [0; 1; 2]%nat = [3; 3; 6].
Proof. vm_compute. repeat split. Qed.

(* reset_less=False in an async-reset domain: a rise of rst loads init at once, without a clock edge *)
Theorem C17_ff_async_reset_immediate sh stages init i0 evs : (1 <= stages)%nat ->
  fr_rst (ffr_run sh stages init true false i0 evs) = false ->
  ff_out (fr_ff (ffr_run sh stages init true false i0 (evs ++ [Rrst true]))) = norm sh (ff_ctor_init init).
Proof. exact (ffr_async_reset_immediate sh stages init i0 evs). Qed.
Print Assumptions C17_ff_async_reset_immediate.

(* --- AsyncFFSynchronizer / ResetSynchronizer ---
   af_rst pos i = the input is asserted (i for async_edge="pos", ~i for "neg"). *)
(* asserted input => output 1 at once: no clock edge is needed, and it stays 1 while asserted *)
Theorem C17_async_ff_assert_immediate pos stages i0 evs : (1 <= stages)%nat ->
  af_rst pos (af_input_after (Z.odd i0) evs) = true ->
  af_out (af_run pos stages i0 evs) = true.
Proof. exact (af_assert_immediate pos stages i0 evs). Qed.
Print Assumptions C17_async_ff_assert_immediate.

(* released input (Ein v after an asserted phase, not asserted again during tail) => the output is 1
   until exactly `stages` output edges have passed, 0 from then on *)
Theorem C17_async_ff_release_after_stages pos stages i0 evs v tail : (1 <= stages)%nat ->
  af_rst pos (af_input_after (Z.odd i0) evs) = true ->
  af_rst pos (Z.odd v) = false ->
  af_stays_released pos tail = true ->
  af_out (af_run pos stages i0 (evs ++ Ein v :: tail)) = (count_oedges tail <? stages)%nat.
Proof. exact (af_release_after_stages pos stages i0 evs v tail). Qed.
Print Assumptions C17_async_ff_release_after_stages.

(* power-on with the input released behaves like a release at time 0 *)
Theorem C17_async_ff_power_on pos stages i0 evs : (1 <= stages)%nat ->
  af_rst pos (Z.odd i0) = false -> af_stays_released pos evs = true ->
  af_out (af_run pos stages i0 evs) = (count_oedges evs <? stages)%nat.
Proof. exact (af_power_on pos stages i0 evs). Qed.
Print Assumptions C17_async_ff_power_on.

(* complete characterisation: rel_edges = output edges since the input was last asserted *)
Theorem C17_async_ff_out_spec pos stages i0 evs : (1 <= stages)%nat ->
  af_out (af_run pos stages i0 evs) = (rel_edges pos (Z.odd i0) 0 evs <? stages)%nat.
Proof. exact (af_out_spec pos stages i0 evs). Qed.
Print Assumptions C17_async_ff_out_spec.

(* ResetSynchronizer = AsyncFFSynchronizer with async_edge = "pos" driving the reset of the domain *)
Theorem C17_reset_sync_contract stages i0 evs v tail : (1 <= stages)%nat ->
  (af_input_after (Z.odd i0) evs = true -> af_out (rs_run stages i0 evs) = true) /\
  (af_input_after (Z.odd i0) evs = true -> Z.odd v = false -> af_stays_released true tail = true ->
   af_out (rs_run stages i0 (evs ++ Ein v :: tail)) = (count_oedges tail <? stages)%nat).
Proof.
  intros Hs. split.
  - exact (af_assert_immediate true stages i0 evs Hs).
  - exact (af_release_after_stages true stages i0 evs v tail Hs).
Qed.
Print Assumptions C17_reset_sync_contract.

Example C17_async_ff_example :
  let evs := [Eo; Eo; Eo; Ein 1] in
  let tail := [Eo; Enop; Eo; Ein 0; Eo; Eo] in
  af_rst true (af_input_after (Z.odd 0) evs) = true /\ af_rst true (Z.odd 0) = false /\
  af_stays_released true tail = true /\
  af_out (af_run true 3 0 [Eo; Eo; Eo]) = false /\ af_out (af_run true 3 0 evs) = true /\
  map (fun k => af_out (af_run true 3 0 (evs ++ Ein 0 :: firstn k tail))) [0; 1; 2; 3; 4; 5; 6]%nat
    = [true; true; true; true; true; false; false] /\
  af_rst false (af_input_after (Z.odd 1) [Ein 0]) = true /\
  af_out (af_run false 2 1 [Eo; Eo; Ein 0]) = true.
Proof. vm_compute. repeat split. Qed.

(* --- PulseSynchronizer ---
   input pulse = input-domain edge with i = 1 (in_pulses); out_cycles = output-domain cycles during
   which o = 1; separated = between two consecutive input pulses there is an output-domain edge
   (at Eb the output registers sample the values from before the edge, so Eb separates its own pulse
   from earlier pulses only); inflight = pulses inside the synchroniser that have not reached o yet. *)
Theorem C17_pulse_conservation stages i0 evs : (1 <= stages)%nat ->
  separated (Z.odd i0) false evs = true ->
  (out_cycles (ps_start stages i0) evs + inflight (ps_run stages i0 evs))%nat = in_pulses (Z.odd i0) evs.
Proof. exact (pulse_conservation stages i0 evs). Qed.
Print Assumptions C17_pulse_conservation.

(* nothing stays inside: `stages` output edges after the last input pulse nothing is in flight ... *)
Theorem C17_pulse_flushed stages i0 evs tail : (1 <= stages)%nat ->
  in_pulses (af_input_after (Z.odd i0) evs) tail = O ->
  (stages <= count_oedges tail)%nat ->
  inflight (ps_run stages i0 (evs ++ tail)) = O.
Proof. exact (pulse_flushed stages i0 evs tail). Qed.
Print Assumptions C17_pulse_flushed.

(* ... hence the number of output cycles with o = 1 EQUALS the number of input pulses: one output cycle
   per pulse, none lost, none doubled, none longer than one cycle, for every interleaving *)
Theorem C17_pulse_conservation_flushed stages i0 evs tail : (1 <= stages)%nat ->
  separated (Z.odd i0) false (evs ++ tail) = true ->
  in_pulses (af_input_after (Z.odd i0) evs) tail = O ->
  (stages <= count_oedges tail)%nat ->
  out_cycles (ps_start stages i0) (evs ++ tail) = in_pulses (Z.odd i0) evs.
Proof. exact (pulse_conservation_flushed stages i0 evs tail). Qed.
Print Assumptions C17_pulse_conservation_flushed.

(* per-cycle form.  pulse_slots = number of input pulses in each interval between output edges
   (slot_at sl j = pulses in the interval that ends at output edge j, 1-based; 0 for j = 0).
   After m output edges, o is the parity of the pulses that fell into the interval ending at output
   edge m + 1 - stages: a pulse shows at o exactly from the stages-th output edge after it, for
   exactly one output cycle -- for every interleaving, separated or not. *)
Theorem C17_pulse_latency stages i0 evs : (1 <= stages)%nat ->
  ps_out (ps_run stages i0 evs) =
  Nat.odd (slot_at (pulse_slots (Z.odd i0) 0 evs) (count_oedges evs + 1 - stages)).
Proof. exact (pulse_latency stages i0 evs). Qed.
Print Assumptions C17_pulse_latency.

(* with separated pulses every interval holds at most one pulse: o = 1 iff exactly one pulse *)
Theorem C17_pulse_single_cycle stages i0 evs : (1 <= stages)%nat ->
  separated (Z.odd i0) false evs = true ->
  ps_out (ps_run stages i0 evs) =
  (slot_at (pulse_slots (Z.odd i0) 0 evs) (count_oedges evs + 1 - stages) =? 1)%nat.
Proof. exact (pulse_single_cycle stages i0 evs). Qed.
Print Assumptions C17_pulse_single_cycle.

Example C17_pulse_latency_example :
  let evs := [Ein 1; Ei; Ein 0; Eo; Ei; Eo; Eb; Eo; Eo] in
  separated false false evs = true /\ pulse_slots false 0 evs = [1; 0; 0; 0; 0]%nat /\
  map (fun k => ps_out (ps_run 2 0 (firstn k evs))) [4; 6; 7; 8; 9]%nat = [false; true; false; false; false].
Proof. vm_compute. repeat split. Qed.

(* the separation hypothesis is necessary: two pulses without an output edge in between cancel *)
Theorem C17_pulse_unseparated_lost :
  exists evs, separated false false evs = false /\ in_pulses false evs = 2%nat /\
              out_cycles (ps_start 2 0) evs = O /\ inflight (ps_run 2 0 evs) = O.
Proof. exists [Ein 1; Ei; Ei; Eo; Eo; Eo; Eo]. vm_compute. repeat split. Qed.
Print Assumptions C17_pulse_unseparated_lost.

Example C17_pulse_example :
  let evs := [Ein 1; Ei; Ein 0; Ei; Eo; Ein 1; Eb; Eb; Ein 0; Eo; Ei] in
  let tail := [Eo; Ei; Eo; Eb] in
  separated false false (evs ++ tail) = true /\
  in_pulses (af_input_after false evs) tail = O /\ (3 <= count_oedges tail)%nat /\
  in_pulses false evs = 3%nat /\ out_cycles (ps_start 3 0) evs = 1%nat /\ inflight (ps_run 3 0 evs) = 2%nat /\
  out_cycles (ps_start 3 0) (evs ++ tail) = 3%nat.
Proof. vm_compute. repeat split; auto. Qed.

(* --- translated: amaranth/lib/cdc.py regenerated on every run by translator/unit_cdc.py (Gen/CdcGen.v) ---
   The step / start / output functions obtained by symbolic execution of the current text of
   _check_stages, FFSynchronizer.__init__/elaborate, AsyncFFSynchronizer.elaborate,
   ResetSynchronizer.elaborate and PulseSynchronizer.__init__/elaborate equal the model the theorems
   above are about, for all shapes, stage counts, states and events. *)
From V.Gen Require CdcGen.
From V.Proofs Require GenEqCdc.

Theorem C17_translated_check_stages stages : CdcGen.g_check_stages stages = check_stages stages.
Proof. exact (GenEqCdc.gen_check_stages_eq stages). Qed.
Print Assumptions C17_translated_check_stages.

(* every constructor applies _check_stages to its `stages` argument first *)
Theorem C17_translated_ctor_checks stages :
  CdcGen.g_ff_ctor_check stages = check_stages stages /\ CdcGen.g_af_ctor_check stages = check_stages stages /\
  CdcGen.g_rs_ctor_check stages = check_stages stages /\ CdcGen.g_ps_ctor_check stages = check_stages stages.
Proof.
  exact (conj (GenEqCdc.gen_ff_ctor_check_eq stages) (conj (GenEqCdc.gen_af_ctor_check_eq stages)
        (conj (GenEqCdc.gen_rs_ctor_check_eq stages) (GenEqCdc.gen_ps_ctor_check_eq stages)))).
Qed.
Print Assumptions C17_translated_ctor_checks.

(* FFSynchronizer.__init__ (reset init : option Z, None = exception): without the deprecated reset= *)
Theorem C17_translated_ff_ctor_init init : CdcGen.g_ff_ctor_init None init = Some (ff_ctor_init init).
Proof. exact (GenEqCdc.gen_ff_ctor_init_eq init). Qed.
Print Assumptions C17_translated_ff_ctor_init.

Theorem C17_translated_ff_start sh stages init i0 :
  CdcGen.g_ff_start sh stages (ff_ctor_init init) i0 = ff_start sh stages init i0.
Proof. exact (GenEqCdc.gen_ff_start_eq sh stages init i0). Qed.
Print Assumptions C17_translated_ff_start.

Theorem C17_translated_ff_step sh s e : CdcGen.g_ff_step sh s e = ff_step sh s e.
Proof. exact (GenEqCdc.gen_ff_step_eq sh s e). Qed.
Print Assumptions C17_translated_ff_step.

Theorem C17_translated_ff_out_as osh sh s : CdcGen.g_ff_out_as osh sh s = ff_out_as osh s.
Proof. exact (GenEqCdc.gen_ff_out_as_eq osh sh s). Qed.
Print Assumptions C17_translated_ff_out_as.

Theorem C17_translated_ff_run sh stages init i0 evs :
  fold_left (CdcGen.g_ff_step sh) evs (CdcGen.g_ff_start sh stages (ff_ctor_init init) i0) = ff_run sh stages init i0 evs.
Proof. exact (GenEqCdc.gen_ff_run_eq sh stages init i0 evs). Qed.
Print Assumptions C17_translated_ff_run.

Theorem C17_translated_ffr_step sh init async rl s e :
  CdcGen.g_ffr_step sh (ff_ctor_init init) async rl s e = ffr_step sh init async rl s e.
Proof. exact (GenEqCdc.gen_ffr_step_eq sh init async rl s e). Qed.
Print Assumptions C17_translated_ffr_step.

Theorem C17_translated_af_start stages i0 : CdcGen.g_af_start stages i0 = af_start stages i0.
Proof. exact (GenEqCdc.gen_af_start_eq stages i0). Qed.
Print Assumptions C17_translated_af_start.

Theorem C17_translated_af_step pos s e : CdcGen.g_af_step pos s e = af_step pos s e.
Proof. exact (GenEqCdc.gen_af_step_eq pos s e). Qed.
Print Assumptions C17_translated_af_step.

Theorem C17_translated_af_out s : CdcGen.g_af_out s = af_out s.
Proof. exact (GenEqCdc.gen_af_out_eq s). Qed.
Print Assumptions C17_translated_af_out.

Theorem C17_translated_af_run pos stages i0 evs :
  fold_left (CdcGen.g_af_step pos) evs (CdcGen.g_af_start stages i0) = af_run pos stages i0 evs.
Proof. exact (GenEqCdc.gen_af_run_eq pos stages i0 evs). Qed.
Print Assumptions C17_translated_af_run.

(* ResetSynchronizer.elaborate = AsyncFFSynchronizer with the default async_edge ("pos"), output = ResetSignal(domain) *)
Theorem C17_translated_rs_step s e : CdcGen.g_rs_step s e = af_step true s e.
Proof. exact (GenEqCdc.gen_rs_step_eq s e). Qed.
Print Assumptions C17_translated_rs_step.

Theorem C17_translated_rs_run stages i0 evs :
  fold_left CdcGen.g_rs_step evs (CdcGen.g_rs_start stages i0) = rs_run stages i0 evs /\
  forall s, CdcGen.g_rs_out s = af_out s.
Proof. exact (conj (GenEqCdc.gen_rs_run_eq stages i0 evs) GenEqCdc.gen_rs_out_eq). Qed.
Print Assumptions C17_translated_rs_run.

Theorem C17_translated_ps_start stages i0 : CdcGen.g_ps_start stages i0 = ps_start stages i0.
Proof. exact (GenEqCdc.gen_ps_start_eq stages i0). Qed.
Print Assumptions C17_translated_ps_start.

Theorem C17_translated_ps_step s e : CdcGen.g_ps_step s e = ps_step s e.
Proof. exact (GenEqCdc.gen_ps_step_eq s e). Qed.
Print Assumptions C17_translated_ps_step.

Theorem C17_translated_ps_out s : CdcGen.g_ps_out s = ps_out s.
Proof. exact (GenEqCdc.gen_ps_out_eq s). Qed.
Print Assumptions C17_translated_ps_out.

Theorem C17_translated_ps_run stages i0 evs :
  fold_left CdcGen.g_ps_step evs (CdcGen.g_ps_start stages i0) = ps_run stages i0 evs.
Proof. exact (GenEqCdc.gen_ps_run_eq stages i0 evs). Qed.
Print Assumptions C17_translated_ps_run.

Theorem C17_translated_requires_posedge comp : CdcGen.g_requires_posedge comp = requires_posedge comp.
Proof. exact (GenEqCdc.gen_requires_posedge_eq comp). Qed.
Print Assumptions C17_translated_requires_posedge.

From Coq Require Import ZArith List Bool.
From V.Model Require Import Bits Cdc.

(* C05 — testbench reads and writes agree with what a circuit would compute.  Statements only;
   proofs in Proofs/ExprP.v (reads) and Proofs/StmtP.v (writes). *)
From Coq Require Import ZArith List Bool.
From V.Model Require Import Bits Shape Ast Denote PyRTL PyEval Stmt.
From V.Proofs Require Import BitsP ShapeP ExprP StmtP.
Import ListNotations.
Open Scope Z_scope.

(* ctx.get(e): the tree-walking evaluator returns the Python-integer denotation of e … *)
Theorem C05_eval_tb_denote en e : wf_expr e = true -> env_ok en e -> eval_tb en e = denote en e.
Proof. exact (eval_tb_denote en e). Qed.
Print Assumptions C05_eval_tb_denote.

(* … which is the value a combinational signal of e's shape assigned e holds (C01), for every expression,
   zero-width operands and selectors and out-of-range part-select offsets included. *)
Theorem C05_read_agrees_with_circuit en e : wf_expr e = true -> env_ok en e ->
  eval_tb en e = norm (shape_of e) (eval_rtl en e).
Proof. exact (tb_read_agrees_with_circuit en e). Qed.
Print Assumptions C05_read_agrees_with_circuit.

Theorem C05_read_normalised en e : wf_expr e = true -> env_ok en e -> in_range (shape_of e) (eval_tb en e).
Proof. intros Hw He. rewrite eval_tb_denote by auto. apply (shape_sound en e Hw He). Qed.
Print Assumptions C05_read_normalised.

(* non-vacuity: a zero-width selector and an offset beyond the operand *)
Example C05_example :
  let e := ESwitch (ESig 1 (Sh 0 false))
             [(Some [[]], EPart (ESig 0 (Sh 4 true)) (EConst 6 (Sh 3 false)) 3 1); (None, EConst 1 (Sh 1 false))] in
  let en : env := fun i => match i with O => -3 | _ => 0 end in
  wf_expr e = true /\ eval_tb en e = 7 /\ norm (shape_of e) (eval_rtl en e) = 7.
Proof. vm_compute. repeat split. Qed.

(* ---------------- writes ---------------- *)
(* ctx.set(target, v) — the window algorithm of _eval_assign_inner — changes, for any nesting of slices,
   part-selects (offsets beyond the target included), concatenations, choices/array elements and sign
   reinterpretations, exactly the bits the target addresses (wr = Some k), bit k of v going to the bit
   addressed by position k; everything else keeps its value.  v is any integer (negative, wider than the target). *)
Theorem C05_tb_set_bits ss curr lhs : wf_lhs lhs = true -> lin lhs = true -> sig_ok ss lhs -> sel_ok curr lhs ->
  forall v nx i b, 0 <= b < width (ss i) ->
  Z.testbit (tb_set curr lhs v nx i) b =
  match wr curr lhs i b with Some k => Z.testbit v k | None => Z.testbit (nx i) b end.
Proof. exact (tb_set_bits ss curr lhs). Qed.
Print Assumptions C05_tb_set_bits.

(* general window form (every recursive call of _eval_assign_inner) *)
Theorem C05_assign_tb_bits ss curr lhs : wf_lhs lhs = true -> lin lhs = true -> sig_ok ss lhs -> sel_ok curr lhs ->
  forall start rhs len nx i b, 0 <= start -> 0 <= len -> 0 <= b < width (ss i) ->
  Z.testbit (assign_tb curr lhs start rhs len nx i) b =
  match wr curr lhs i b with
  | Some k => if in_window start len k then Z.testbit rhs (k - start) else Z.testbit (nx i) b
  | None => Z.testbit (nx i) b
  end.
Proof. exact (assign_tb_bits ss curr lhs). Qed.
Print Assumptions C05_assign_tb_bits.

(* the same write performed by a circuit assignment statement (read-modify-write code of _pyrtl) gives the
   same value of every signal: "changes exactly the bits that the equivalent assignment statement changes,
   to the same values, leaving all other bits untouched" *)
Theorem C05_tb_write_equals_circuit ss curr lhs : (forall i, wf_shape (ss i) = true) ->
  wf_lhs lhs = true -> lin lhs = true -> sig_ok ss lhs -> sel_ok curr lhs ->
  forall v nx, normalised ss nx -> forall i, tb_set curr lhs v nx i = assign_rtl curr lhs v nx i.
Proof. exact (tb_write_equals_circuit ss curr lhs). Qed.
Print Assumptions C05_tb_write_equals_circuit.

(* a memory row written from a testbench (MemoryData._Row branch + _PyMemoryState.write with a mask) gets exactly the
   value a signal of the row's shape would get: rows are addressed like signals by the theorems above *)
Theorem C05_row_write_like_signal s old start stop rhs : wf_shape s = true -> in_range s old ->
  0 <= start <= stop -> stop <= width s ->
  tb_row_write s old start stop rhs = tb_sig_write s old start stop rhs.
Proof. exact (tb_row_write_eq_sig s old start stop rhs). Qed.
Print Assumptions C05_row_write_like_signal.

Theorem C05_write_keeps_normalised ss curr lhs : (forall i, wf_shape (ss i) = true) -> sig_ok ss lhs ->
  forall v nx, normalised ss nx -> normalised ss (tb_set curr lhs v nx).
Proof. intros Hss Hsig v nx Hn. apply assign_tb_normalised; auto. Qed.
Print Assumptions C05_write_keeps_normalised.

(* non-vacuity: s[0:4].bit_select(off, 4) <- 0xF with off = 2 on an 8-bit signed signal holding -128:
   only bits 2..3 change (the F2 defect wrote bits 2..5) *)
Example C05_write_example :
  let ss := fun _ : nat => Sh 8 true in
  let lhs := EPart (ESlice (ESig 0 (Sh 8 true)) 0 4) (ESig 1 (Sh 3 false)) 4 1 in
  let curr : env := fun i => match i with O => -128 | _ => 2 end in
  wf_lhs lhs = true /\ lin lhs = true /\ tb_set curr lhs 15 curr 0%nat = -116 /\ assign_rtl curr lhs 15 curr 0%nat = -116.
Proof. vm_compute. repeat split. Qed.

(* ---------------- the translated source ---------------- *)
(* amaranth/sim/_pyeval.py as regenerated from the current source text on every run (translator/unit_pyeval.py ->
   coq/Gen/PyEvalGen.v; proofs in Proofs/GenEqPyEval.v) is the model the theorems above are about: for EVERY
   environment and EVERY expression / target (no well-formedness hypothesis). *)
From V.Proofs Require Import GenEqPyEval.
From V.Gen Require PyEvalGen.

(* _eval_matches *)
Theorem C05_translated_eval_matches t ps : PyEvalGen.eval_matches t ps = tb_case_match t ps.
Proof. exact (gen_eval_matches_eq t ps). Qed.
Print Assumptions C05_translated_eval_matches.

(* eval_value *)
Theorem C05_translated_eval_value en e : PyEvalGen.eval_value en e = eval_tb en e.
Proof. exact (gen_eval_value_eq en e). Qed.
Print Assumptions C05_translated_eval_value.

(* _eval_assign_inner *)
Theorem C05_translated_eval_assign_inner curr lhs start rhs len nx :
  PyEvalGen.eval_assign_inner curr lhs start rhs len nx = assign_tb curr lhs start rhs len nx.
Proof. exact (gen_eval_assign_inner_eq curr lhs start rhs len nx). Qed.
Print Assumptions C05_translated_eval_assign_inner.

(* eval_assign *)
Theorem C05_translated_eval_assign curr lhs v nx : PyEvalGen.eval_assign curr lhs v nx = tb_set curr lhs v nx.
Proof. exact (gen_eval_assign_eq curr lhs v nx). Qed.
Print Assumptions C05_translated_eval_assign.

(* hence the read theorem holds of the translated evaluator itself *)
Theorem C05_translated_eval_value_denote en e : wf_expr e = true -> env_ok en e ->
  PyEvalGen.eval_value en e = denote en e.
Proof. intros Hw He. exact (eq_trans (gen_eval_value_eq en e) (eval_tb_denote en e Hw He)). Qed.
Print Assumptions C05_translated_eval_value_denote.

(* non-vacuity: the translated functions compute (same instances as C05_example / C05_write_example) *)
Example C05_translated_example :
  let e := ESwitch (ESig 1 (Sh 0 false))
             [(Some [[]], EPart (ESig 0 (Sh 4 true)) (EConst 6 (Sh 3 false)) 3 1); (None, EConst 1 (Sh 1 false))] in
  let en : env := fun i => match i with O => -3 | _ => 0 end in
  let lhs := EPart (ESlice (ESig 0 (Sh 8 true)) 0 4) (ESig 1 (Sh 3 false)) 4 1 in
  let curr : env := fun i => match i with O => -128 | _ => 2 end in
  PyEvalGen.eval_value en e = 7 /\ PyEvalGen.eval_assign curr lhs 15 curr 0%nat = -116.
Proof. vm_compute. split; reflexivity. Qed.

(* ================= added after the coverage audit (docs/COVERAGE_AUDIT.md) ================= *)
From V.Model Require Data TbCast.
From V.Proofs Require TbCastP.

(* "leaving all other bits untouched", for whole signals: ctx.set(target, v) changes no signal the target does not name —
   in particular none of the signals its offsets and selectors read *)
Theorem C05_tb_write_frame ss curr lhs : (forall i, wf_shape (ss i) = true) ->
  wf_lhs lhs = true -> lin lhs = true -> sig_ok ss lhs -> sel_ok curr lhs ->
  forall v nx i, normalised ss nx -> ~ In i (sigs_of lhs) -> tb_set curr lhs v nx i = nx i.
Proof. exact (TbCastP.tb_write_frame ss curr lhs). Qed.
Print Assumptions C05_tb_write_frame.

(* --- values of shape-castable objects round-trip through their const / from_bits conversion --- *)
(* lib.data layouts: ctx.set(sig, init) stores the bits of layout.const(init) and ctx.get(sig) returns the constant with
   exactly those bits (= layout.const(init)), for every well-formed layout and every accepted initialiser *)
Theorem C05_layout_roundtrip l i st : Data.wf_layout l = true -> TbCast.tb_set_layout l i = Data.Okz st ->
  Data.layout_const l i = Data.Okz st /\ TbCast.tb_get_layout l st = Data.Ok l st /\
  Data.as_bits (TbCast.tb_get_layout l st) = Data.Okz st.
Proof. exact (TbCastP.layout_roundtrip l i st). Qed.
Print Assumptions C05_layout_roundtrip.
Theorem C05_layout_set_rejects l i c : TbCast.tb_set_layout l i = Data.Errz c <-> Data.layout_const l i = Data.Errz c.
Proof. exact (TbCastP.layout_set_rejects l i c). Qed.
Print Assumptions C05_layout_set_rejects.
Theorem C05_layout_get_any l raw : Data.wf_layout l = true ->
  TbCast.tb_get_layout l (TbCast.sig_store (TbCast.layout_sig_shape l) raw) = Data.Ok l (raw mod 2 ^ Data.layout_size l).
Proof. exact (TbCastP.layout_get_any l raw). Qed.
Print Assumptions C05_layout_get_any.

(* shaped enumerations: a member whose value fits the shape round-trips; ctx.get always returns a member holding exactly the
   signal's value; a member that does not fit (the class definition only warns) does not round-trip *)
Theorem C05_enum_roundtrip s ms m : wf_shape s = true -> In m ms -> in_range s m ->
  TbCast.tb_set_enum s ms m = Data.Okz m /\ TbCast.tb_get_enum ms m = Data.Okz m.
Proof. exact (TbCastP.enum_roundtrip s ms m). Qed.
Print Assumptions C05_enum_roundtrip.
Theorem C05_enum_get_member ms stored m : TbCast.tb_get_enum ms stored = Data.Okz m -> m = stored /\ In m ms.
Proof. exact (TbCastP.enum_get_member ms stored m). Qed.
Print Assumptions C05_enum_get_member.
Theorem C05_enum_roundtrip_refuted : exists s ms m st, wf_shape s = true /\ In m ms /\
  TbCast.tb_set_enum s ms m = Data.Okz st /\ TbCast.tb_get_enum ms st <> Data.Okz m.
Proof. exact TbCastP.enum_roundtrip_refuted. Qed.
Print Assumptions C05_enum_roundtrip_refuted.

(* a user-defined shape-castable (const(obj) = Const(obj + k, w), from_bits(raw) = raw - k) *)
Theorem C05_offset_roundtrip w k obj : 0 <= w -> 0 <= obj + k < 2 ^ w ->
  TbCast.tb_get_offset k (TbCast.tb_set_offset w k obj) = obj.
Proof. exact (TbCastP.offset_roundtrip w k obj). Qed.
Print Assumptions C05_offset_roundtrip.

(* non-vacuity: a struct {f0: unsigned(3), f1: signed(2)} initialised with {f1: -1, f0: 5} holds 0b11_101 *)
Example C05_roundtrip_example :
  let l := Data.Struct [(0, Data.Leaf (Sh 3 false)); (1, Data.Leaf (Sh 2 true))] in
  Data.wf_layout l = true /\
  TbCast.tb_set_layout l (Data.IMap [(1, Data.IVal (-1)); (0, Data.IVal 5)]) = Data.Okz 29 /\
  TbCast.tb_get_layout l 29 = Data.Ok l 29 /\
  TbCast.tb_set_enum (Sh 2 true) [-2; 1] (-2) = Data.Okz (-2) /\ TbCast.tb_get_enum [-2; 1] (-2) = Data.Okz (-2) /\
  TbCast.tb_get_offset 3 (TbCast.tb_set_offset 4 3 9) = 9.
Proof. vm_compute. repeat split. Qed.

(* ctx.set on an assignable target never raises "cannot be assigned" (the lazily raised ValueError of _eval_assign_inner),
   whatever the selectors hold and whichever window is written *)
Theorem C05_assignable_never_rejected lhs : wf_lhs lhs = true ->
  forall curr start len, TbCast.tb_assign_err curr lhs start len = false.
Proof. exact (TbCastP.tb_assign_no_error lhs). Qed.
Print Assumptions C05_assignable_never_rejected.
(* … while a target with a constant part is rejected only when the write reaches that part *)
Example C05_lazy_reject_example :
  let t := ESwitch (ESig 1 (Sh 1 false)) [(Some [[Some false]], ESig 0 (Sh 2 false)); (None, EConst 0 (Sh 2 false))] in
  TbCast.tb_set_err (fun _ => 0) t = false /\ TbCast.tb_set_err (fun _ => 1) t = true /\
  TbCast.tb_set_err (fun _ => 0) (ECat [ESig 0 (Sh 2 false); EConst 0 (Sh 0 false)]) = false.
Proof. vm_compute. repeat split. Qed.

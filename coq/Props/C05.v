(* C05 — testbench reads and writes agree with what a circuit would compute (read half here;
   the write half is added with the assignment model).  Statements only. *)
From Coq Require Import ZArith List Bool.
From V.Model Require Import Bits Shape Ast Denote PyRTL PyEval.
From V.Proofs Require Import BitsP ShapeP ExprP.
Import ListNotations.
Open Scope Z_scope.

(* ctx.get(e): the tree-walking evaluator returns the Python-integer denotation of e … *)
Theorem C05_eval_tb_denote en e : wf_expr e = true -> env_ok en e -> eval_tb en e = denote en e.
Proof. exact (eval_tb_denote en e). Qed.
Print Assumptions C05_eval_tb_denote.

(* … which is the value a combinational signal of e's shape assigned e holds (C01), for every expression,
   zero-width operands and selectors and out-of-range part-select offsets included. *)
Theorem C05_read_agrees_with_circuit en e : wf_expr e = true -> env_ok en e ->
  eval_tb en e = norm (shape_of e) (eval_rtl en e).
Proof. exact (tb_read_agrees_with_circuit en e). Qed.
Print Assumptions C05_read_agrees_with_circuit.

Theorem C05_read_normalised en e : wf_expr e = true -> env_ok en e -> in_range (shape_of e) (eval_tb en e).
Proof. intros Hw He. rewrite eval_tb_denote by auto. apply (shape_sound en e Hw He). Qed.
Print Assumptions C05_read_normalised.

(* non-vacuity: a zero-width selector and an offset beyond the operand *)
Example C05_example :
  let e := ESwitch (ESig 1 (Sh 0 false))
             [(Some [[]], EPart (ESig 0 (Sh 4 true)) (EConst 6 (Sh 3 false)) 3 1); (None, EConst 1 (Sh 1 false))] in
  let en : env := fun i => match i with O => -3 | _ => 0 end in
  wf_expr e = true /\ eval_tb en e = 7 /\ norm (shape_of e) (eval_rtl en e) = 7.
Proof. vm_compute. repeat split. Qed.

(* C02 — assignments and control flow: last active assignment wins, per bit.  Statements only;
   proofs in Proofs/StmtP.v, Proofs/ProcessP.v, Proofs/DslP.v. *)
From Coq Require Import ZArith List Bool.
From V.Model Require Import Bits Shape Ast Denote PyRTL PyEval Stmt Process Dsl.
From V.Proofs Require Import BitsP ShapeP ExprP StmtP ProcessP DslP.
Import ListNotations.
Open Scope Z_scope.

(* One assignment, as compiled for a circuit (read-modify-write code of _LHSValueCompiler): through any nesting of
   slices, part-selects (offsets beyond the target included), concatenations, choices / array elements and sign
   reinterpretations it changes exactly the addressed bits (wr = Some k: position k of the target addresses bit b
   of signal i under the current selector values); bits that fall outside the target are dropped. *)
Theorem C02_assign_touches_addressed_bits ss curr lhs :
  wf_lhs lhs = true -> lin lhs = true -> sig_ok ss lhs -> sel_ok curr lhs ->
  forall arg nx i b, 0 <= b < width (ss i) ->
  Z.testbit (assign_rtl curr lhs arg nx i) b =
  match wr curr lhs i b with Some k => Z.testbit arg k | None => Z.testbit (nx i) b end.
Proof. exact (assign_rtl_bits ss curr lhs). Qed.
Print Assumptions C02_assign_touches_addressed_bits.

(* Statements (arbitrary nesting of switches) execute as their active assignments in program order … *)
Theorem C02_exec_is_active_assignments curr l : forallb wf_stmt l = true -> (exists ss, Forall (stmt_ok ss curr) l) ->
  forall nx, exec_rtl_list curr l nx = fold_left (do_assign curr) (active_list curr l) nx.
Proof. exact (exec_rtl_list_active curr l). Qed.
Print Assumptions C02_exec_is_active_assignments.

(* … and the last active assignment addressing a bit wins; the bit it gets is bit k of the right-hand side's own
   integer value, i.e. the RHS truncated, or zero-/sign-extended according to ITS signedness. *)
Theorem C02_last_active_assignment_wins ss curr al : Forall (assign_ok ss curr) al ->
  forall nx i b, 0 <= b < width (ss i) ->
  Z.testbit (fold_left (do_assign curr) al nx i) b =
  match last_writer curr al i b with
  | Some (k, r) => Z.testbit (denote curr r) k
  | None => Z.testbit (nx i) b
  end.
Proof. exact (last_wins ss curr al). Qed.
Print Assumptions C02_last_active_assignment_wins.

(* Combinational domain: every driven bit equals its INITIAL value overridden by the active assignments. *)
Theorem C02_comb_process_spec ss tab l st : design_ok ss tab ->
  forallb wf_stmt l = true -> Forall (stmt_ok ss (s_curr st)) l ->
  forall i b, 0 <= b < width (ss i) ->
  Z.testbit (s_next (comb_process tab l st) i) b =
  if Z.testbit (stmts_mask l i) b then
    match last_writer (s_curr st) (active_list (s_curr st) l) i b with
    | Some (k, r) => Z.testbit (denote (s_curr st) r) k
    | None => Z.testbit (sd_init (tab i)) b
    end
  else Z.testbit (s_next st i) b.
Proof. exact (comb_process_spec ss tab l st). Qed.
Print Assumptions C02_comb_process_spec.

(* Synchronous domain, at the active edge: every driven bit takes its PREVIOUS value overridden the same way
   (reset: non-reset-less signals take their initial value instead). *)
Theorem C02_sync_process_spec ss tab l rst st : design_ok ss tab ->
  forallb wf_stmt l = true -> Forall (stmt_ok ss (s_curr st)) l ->
  forall i b, 0 <= b < width (ss i) ->
  let rst_on := match rst with Some r => negb (Z.land 1 (s_curr st r) =? 0) | None => false end in
  Z.testbit (s_next (sync_process tab l rst st) i) b =
  if Z.testbit (stmts_mask l i) b then
    if rst_on && negb (sd_reset_less (tab i)) then Z.testbit (sd_init (tab i)) b
    else match last_writer (s_curr st) (active_list (s_curr st) l) i b with
         | Some (k, r) => Z.testbit (denote (s_curr st) r) k
         | None => Z.testbit (s_next st i) b
         end
  else Z.testbit (s_next st i) b.
Proof. exact (sync_process_spec ss tab l rst st). Qed.
Print Assumptions C02_sync_process_spec.

(* the commit mask of a process covers every bit an active assignment addresses: nothing assigned is lost *)
Theorem C02_mask_covers_writers ss tab l st : design_ok ss tab ->
  forallb wf_stmt l = true -> Forall (stmt_ok ss (s_curr st)) l ->
  forall i b k r, 0 <= b -> last_writer (s_curr st) (active_list (s_curr st) l) i b = Some (k, r) ->
  Z.testbit (stmts_mask l i) b = true.
Proof. exact (mask_covers_writers ss tab l st). Qed.
Print Assumptions C02_mask_covers_writers.

(* Control flow: the Switch statements the DSL builds for If/Elif/Else (one Switch over Cat(tests) with patterns
   ("1" + "-"*k).rjust(n, "-")) and for Switch/Case/Default make active exactly the body of the first condition
   with a non-zero value (Else if none, nothing without Else) / the first case whose pattern set matches (Default
   if none; cases after Default never) — at any nesting depth; in each construct at most one block is selected. *)
Theorem C02_lowering_selects_first curr d : wf_dstmt d = true -> dcond_ok curr d ->
  active curr (lower d) = dactive curr d.
Proof. exact (lower_active curr d). Qed.
Print Assumptions C02_lowering_selects_first.

(* the If pattern tests exactly its own condition bit *)
Theorem C02_if_pattern_bit n k t : pat_sem (if_pattern n k) t = Z.testbit t (Z.of_nat k).
Proof. exact (if_pattern_sem n k t). Qed.
Print Assumptions C02_if_pattern_bit.

(* non-vacuity: If(c): a[1:3] = -1  Elif(d): Cat(a, b) = 0x2A  Else: b.word_select(o, 2) = 3 *)
Definition ex_prog : dstmt :=
  DIf [ (ESig 2 (Sh 3 true), [DAssign (ESlice (ESig 0 (Sh 4 false)) 1 3) (EConst (-1) (Sh 1 true))]);
        (ESig 3 (Sh 1 false), [DAssign (ECat [ESig 0 (Sh 4 false); ESig 1 (Sh 4 true)]) (EConst 42 (Sh 6 false))]) ]
      true
      [DAssign (EPart (ESig 1 (Sh 4 true)) (ESig 4 (Sh 2 false)) 2 2) (EConst 3 (Sh 2 false))].
Example C02_example :
  let curr : env := fun i => match i with 2%nat => 0 | 3%nat => 1 | 4%nat => 3 | _ => 0 end in
  wf_dstmt ex_prog = true /\
  length (dactive curr ex_prog) = 1%nat /\ active curr (lower ex_prog) = dactive curr ex_prog /\
  exec_rtl curr (lower ex_prog) (fun _ => 0) 0%nat = 10 /\ exec_rtl curr (lower ex_prog) (fun _ => 0) 1%nat = 2.
Proof. vm_compute. repeat split. Qed.

(* ---------- FSM (model: the FSM part of Model/Dsl.v; proofs in Proofs/DslP.v) ---------- *)
From V.Model Require Import Derived.
(* State encodings are allocated on first reference (State(name), `m.next = name`, fsm.ongoing(name)), whatever the
   order: the names are distinct, the codes are 0, 1, 2, .. in order of first reference, and exactly the referenced
   names have a code. *)
Theorem C02_fsm_encoding refs :
  (NoDup (map fst (fsm_encoding refs)) /\
   map snd (fsm_encoding refs) = map Z.of_nat (seq 0 (length (fsm_encoding refs)))) /\
  (forall s, In s (map fst (fsm_encoding refs)) <-> In s refs).
Proof. exact (fsm_encoding_ok refs). Qed.
Print Assumptions C02_fsm_encoding.

(* distinct states have distinct codes *)
Theorem C02_fsm_encoding_injective refs s1 s2 k :
  assoc_get (fsm_encoding refs) s1 = Some k -> assoc_get (fsm_encoding refs) s2 = Some k -> s1 = s2.
Proof. exact (enc_ok_injective (fsm_encoding refs) s1 s2 k (proj1 (fsm_encoding_ok refs))). Qed.
Print Assumptions C02_fsm_encoding_injective.

(* The "FSM" branch of _pop_ctrl with that encoding: the state register is an unsigned signal whose shape represents
   every code, and when it holds the code of state s the Switch makes active exactly the body of s. *)
Theorem C02_fsm_selects_active_state curr reg_id init refs states og reg iv ogs sw s body :
  pop_fsm reg_id init (fsm_encoding refs) [] states og = Some (reg, iv, ogs, [sw]) ->
  NoDup (map fst states) -> (forall s', In s' (map fst states) -> In s' refs) ->
  env_ok curr reg ->
  In (s, body) states -> assoc_get (fsm_encoding refs) s = Some (denote curr reg) ->
  reg = ESig reg_id (shape_of reg) /\ sgn (shape_of reg) = false /\
  (forall s' k, assoc_get (fsm_encoding refs) s' = Some k -> in_rangeb (shape_of reg) k = true) /\
  active curr sw = active_list curr body.
Proof. exact (pop_fsm_active curr reg_id init refs states og reg iv ogs sw s body). Qed.
Print Assumptions C02_fsm_selects_active_state.

(* a register value that is the code of no defined state selects nothing *)
Theorem C02_fsm_unknown_code_selects_nothing enc states v :
  (forall s k, In s (map fst states) -> assoc_get enc s = Some k -> k <> v) -> fsm_active_body v enc states = [].
Proof. exact (fsm_active_body_none enc states v). Qed.
Print Assumptions C02_fsm_unknown_code_selects_nothing.

(* ongoing(s) is driven with (state register == code of s): 1 exactly while the FSM is in state s *)
Theorem C02_fsm_ongoing curr reg k :
  denote curr (EOp2 OEq reg (mk_const_auto k)) = if denote curr reg =? k then 1 else 0.
Proof. exact (fsm_ongoing_value curr reg k). Qed.
Print Assumptions C02_fsm_ongoing.
Theorem C02_fsm_ongoing_stmts reg enc og l : fsm_ongoing_stmts reg enc og = Some l ->
  length l = length og /\
  forall i s o, nth_error og i = Some (s, o) ->
    exists k, assoc_get enc s = Some k /\ nth_error l i = Some (SAssign o (EOp2 OEq reg (mk_const_auto k))).
Proof. exact (fsm_ongoing_stmts_spec reg enc og l). Qed.
Print Assumptions C02_fsm_ongoing_stmts.

(* non-vacuity: states B(=7), A(=3), C(=5) defined in that order, `m.next = C` inside B, ongoing(A) asked first:
   codes A=0, B=1, C=2; init=C; the register (signal 9) is unsigned(2) with init 2; in state B (register = 1) the body
   of B is active *)
Example C02_fsm_example :
  let refs := [3; 7; 5; 3; 5]%nat in
  let bodyA := [SAssign (ESig 0 (Sh 4 false)) (EConst 1 (Sh 1 false))] in
  let bodyB := [SAssign (ESig 0 (Sh 4 false)) (EConst 2 (Sh 2 false))] in
  let states := [(7%nat, bodyB); (3%nat, bodyA); (5%nat, [])] in
  let curr : env := fun i => match i with 9%nat => 1 | _ => 0 end in
  fsm_encoding refs = [(3%nat, 0); (7%nat, 1); (5%nat, 2)] /\
  match pop_fsm 9 (Some 5%nat) (fsm_encoding refs) [] states [(3%nat, ESig 8 (Sh 1 false))] with
  | Some (reg, iv, ogs, [sw]) =>
      reg = ESig 9 (Sh 2 false) /\ iv = 2 /\ active curr sw = active_list curr bodyB /\
      map (fun a => denote curr (snd a)) (active_list curr ogs) = [0]
  | _ => False
  end.
Proof. vm_compute. repeat split. Qed.

(* ---------- the control-flow lowering regenerated from hdl/_dsl.py on every run (Gen/DslGen.v) equals the model ---------- *)
From V.Proofs Require GenEqDsl.
From V.Gen Require DslGen.

(* Module._pop_ctrl, "If": for every list of tests and recorded bodies, what is appended to the statements of a
   domain is the model's lowering of the If/Elif/Else whose bodies are the domain's parts of the recorded bodies *)
Theorem C02_translated_pop_if domain brs (he : bool) els bodies :
  map (fun b : DslGen.ddict => DslGen.py_get b domain []) bodies =
    map (fun br : expr * list dstmt => map lower (snd br)) brs ++ (if he then [map lower els] else []) ->
  DslGen.g_pop_if domain (map fst brs) bodies = [lower (DIf brs he els)].
Proof. exact (GenEqDsl.gen_pop_if_eq domain brs he els bodies). Qed.
Print Assumptions C02_translated_pop_if.

(* Module._pop_ctrl, "Switch" *)
Theorem C02_translated_pop_switch domain t cases cs :
  map (fun c : option (list pattern) * DslGen.ddict => (fst c, DslGen.py_get (snd c) domain [])) cases =
    map (fun c => (fst c, map lower (snd c))) cs ->
  DslGen.g_pop_switch domain t cases = [lower (DSwitch t cs)].
Proof. exact (GenEqDsl.gen_pop_switch_eq domain t cases cs). Qed.
Print Assumptions C02_translated_pop_switch.

(* Module._pop_ctrl, "FSM": state register, its init value, ongoing() assignments, Switch over the register.
   Guard: the recorded states are a dict, so their names are distinct. *)
Theorem C02_translated_pop_fsm domain fresh init enc dec0 (states : list (nat * DslGen.ddict)) og :
  NoDup (map fst states) ->
  DslGen.g_pop_fsm domain fresh init enc dec0 states og =
  pop_fsm fresh init enc dec0 (map (fun sb : nat * DslGen.ddict => (fst sb, DslGen.py_get (snd sb) domain [])) states) og.
Proof. exact (GenEqDsl.gen_pop_fsm_eq domain fresh init enc dec0 states og). Qed.
Print Assumptions C02_translated_pop_fsm.

(* first reference of a state name in Module.State, in the `m.next = ` setter and in FSM.ongoing *)
Theorem C02_translated_state_alloc enc og s fresh : DslGen.g_state_alloc enc og s fresh = fsm_ref (enc, og) s fresh.
Proof. exact (GenEqDsl.gen_state_alloc_eq enc og s fresh). Qed.
Print Assumptions C02_translated_state_alloc.
Theorem C02_translated_next_alloc enc og s fresh : DslGen.g_next_alloc enc og s fresh = fsm_ref (enc, og) s fresh.
Proof. exact (GenEqDsl.gen_next_alloc_eq enc og s fresh). Qed.
Print Assumptions C02_translated_next_alloc.
Theorem C02_translated_ongoing_alloc enc og s fresh : DslGen.g_ongoing_alloc enc og s fresh = fsm_ref (enc, og) s fresh.
Proof. exact (GenEqDsl.gen_ongoing_alloc_eq enc og s fresh). Qed.
Print Assumptions C02_translated_ongoing_alloc.

(* ================= designs as written in the DSL (Model/DslRaw.v; proofs in Proofs/DslRawP.v) =================
   The differential run hands the model the program AS WRITTEN (raw Case patterns, FSM states in order with their
   m.next statements, early ongoing() references, init=, several clock domains and modules); the model lowers it
   (lower_module: normalize_patterns, fsm_ref, pop_fsm, lower) and runs the simulator's delta-cycle loop (run_design). *)
From V.Model Require Import DslRaw.
From V.Proofs Require Import DslRawP.

(* the encoding the lowering uses (fsm_ref with the ongoing() signals of the design) is fsm_encoding of the references *)
Theorem C02_fsm_tables_encoding f : fst (fsm_tables f) = fsm_encoding (fsm_refs f).
Proof. exact (fsm_tables_encoding f). Qed.
Print Assumptions C02_fsm_tables_encoding.

(* m.next = s inside a state of an FSM in domain d: in domain d the assignment of the code of s to the state
   register, nothing in other domains; the assigned value is the code; outside an FSM: SyntaxError *)
Theorem C02_next_assigns_code reg d enc s k dom : assoc_get enc s = Some k ->
  rproj (Some (reg, d, enc)) dom (RNext s) = inl (if Nat.eqb d dom then [DAssign reg (mk_const_auto k)] else []) /\
  forall curr, denote curr (mk_const_auto k) = k.
Proof. intros H. split; [exact (rproj_next reg d enc s k dom H)|intros curr; exact (next_value curr k)]. Qed.
Print Assumptions C02_next_assigns_code.
Theorem C02_next_outside_fsm dom s : rproj None dom (RNext s) = inr E_SYNTAX.
Proof. exact (rproj_next_outside dom s). Qed.
Print Assumptions C02_next_outside_fsm.

(* START: the init value of the state register is the code of the initial state (init= if given, else the first
   state defined); whenever the register holds it — at time 0 the signal table gives every signal its init, and after
   a reset by the next theorem — exactly the body of the initial state is active *)
Theorem C02_fsm_init_code reg_id init enc dec0 (states : list (nat * list stmt)) og reg iv ogs sw sb0 rest :
  states = sb0 :: rest ->
  pop_fsm reg_id init enc dec0 states og = Some (reg, iv, ogs, sw) ->
  assoc_get enc (match init with Some s => s | None => fst sb0 end) = Some iv.
Proof. exact (pop_fsm_init_code reg_id init enc dec0 states og reg iv ogs sw sb0 rest). Qed.
Print Assumptions C02_fsm_init_code.
Theorem C02_fsm_starts_in_initial_state curr reg_id init refs states og reg iv ogs sw sb0 rest body :
  states = sb0 :: rest ->
  pop_fsm reg_id init (fsm_encoding refs) [] states og = Some (reg, iv, ogs, [sw]) ->
  NoDup (map fst states) -> (forall s', In s' (map fst states) -> In s' refs) ->
  env_ok curr reg -> denote curr reg = iv ->
  In (match init with Some s => s | None => fst sb0 end, body) states ->
  active curr sw = active_list curr body.
Proof. exact (fsm_starts_in_initial_state curr reg_id init refs states og reg iv ogs sw sb0 rest body). Qed.
Print Assumptions C02_fsm_starts_in_initial_state.

(* RESTART (composed with the synchronous clause): a clock-domain process that runs while the domain's reset is
   asserted leaves every signal that is not reset-less — the state register is not — with its init value; bits that
   no statement of the process can drive are never changed by it, so they still hold it *)
Theorem C02_reset_restores_init ss tab l r st i : design_ok ss tab ->
  forallb wf_stmt l = true -> Forall (stmt_ok ss (s_curr st)) l ->
  negb (Z.land 1 (s_curr st r) =? 0) = true -> sd_reset_less (tab i) = false ->
  (forall b, 0 <= b < width (ss i) -> Z.testbit (stmts_mask l i) b = false ->
             Z.testbit (s_next st i) b = Z.testbit (sd_init (tab i)) b) ->
  forall b, 0 <= b < width (ss i) ->
  Z.testbit (s_next (sync_process tab l (Some r) st) i) b = Z.testbit (sd_init (tab i)) b.
Proof. exact (sync_reset_restores_init ss tab l r st i). Qed.
Print Assumptions C02_reset_restores_init.
Theorem C02_undriven_bits_unchanged ss tab l rst st i b : design_ok ss tab ->
  forallb wf_stmt l = true -> Forall (stmt_ok ss (s_curr st)) l ->
  0 <= b < width (ss i) -> Z.testbit (stmts_mask l i) b = false ->
  Z.testbit (s_next (sync_process tab l rst st) i) b = Z.testbit (s_next st i) b.
Proof. exact (sync_undriven_unchanged ss tab l rst st i b). Qed.
Print Assumptions C02_undriven_bits_unchanged.

(* the same for the rising edge of an asynchronous reset without a clock edge: driven bits of signals that are not
   reset-less take their init value at once, nothing else changes *)
Theorem C02_async_reset_loads_init ss tab l st i b : design_ok ss tab -> 0 <= b < width (ss i) ->
  Z.testbit (s_next (async_reset_process tab l st) i) b =
  if Z.testbit (stmts_mask l i) b && negb (sd_reset_less (tab i)) then Z.testbit (sd_init (tab i)) b
  else Z.testbit (s_next st i) b.
Proof. exact (async_reset_spec ss tab l st i b). Qed.
Print Assumptions C02_async_reset_loads_init.

(* The delta-cycle loop.  What is ASSUMED about it is only that it converges within the fuel, and that is checked in
   every run (a loop that does not is answered [2], never truncated silently).  What is PROVED: when it converges, the
   state returned is one delta (the comb processes of all modules, then commit) after a state with the same values on
   all n signals — the simulator's stopping rule — and therefore every comb-driven bit is its init overridden by the
   active assignments of its module, evaluated on signal values that are the settled ones (several modules: each
   module's process touches only the bits its own statements can drive). *)
Theorem C02_settle_converged fuel n tab mods st st' : settle fuel n tab mods st = (st', true) ->
  exists st0, st' = commit (run_comb tab mods st0) /\ env_eqb n (s_curr st') (s_curr st0) = true.
Proof. exact (settle_converged fuel n tab mods st st'). Qed.
Print Assumptions C02_settle_converged.
Theorem C02_settled_comb_spec ss tab fuel n mods st st' : design_ok ss tab ->
  settle fuel n tab mods st = (st', true) ->
  exists st0, (forall i, (i < n)%nat -> s_curr st' i = s_curr st0 i) /\
    (mods_ok ss (s_curr st0) mods ->
     forall i b, 0 <= b < width (ss i) ->
     Z.testbit (s_curr st' i) b = comb_bit tab (s_curr st0) mods i b (Z.testbit (s_next st0 i) b)).
Proof. exact (settled_comb_spec ss tab fuel n mods st st'). Qed.
Print Assumptions C02_settled_comb_spec.

(* Case patterns as written: a representable int / Enum value matches exactly when the test has that value, an
   unrepresentable one is dropped; strings lose their whitespace and must then have the width of the test *)
Theorem C02_int_pattern_matches curr t v : wf_expr t = true -> env_ok curr t ->
  match normalize_pattern (shape_of t) (RInt v) with
  | Some (Some p) => pat_sem (pat_of_npat (ewidth t) p) (denote curr t mod 2 ^ ewidth t) = (denote curr t =? v)
  | Some None => in_range (shape_of t) v -> False
  | None => False
  end.
Proof. exact (int_pattern_matches curr t v). Qed.
Print Assumptions C02_int_pattern_matches.
Theorem C02_str_pattern_normalised sh s :
  normalize_pattern sh (RStr s) =
  if existsb (fun c => negb (pchar_legal c)) s then None
  else if Z.of_nat (length (pchar_strip s)) =? width sh then Some (Some (NStr (pat_of_chars (pchar_strip s)))) else None.
Proof. exact (str_pattern_normalised sh s). Qed.
Print Assumptions C02_str_pattern_normalised.

(* non-vacuity, end to end: signals 0 (input go, 1 bit), 1 (counter-like register y, 2 bits, domain 1), 2 = clk,
   3 = rst (synchronous); the FSM (register 4, ongoing(B) = 5, ongoing(A) = 6) has states B(=1) and A(=0) defined in that
   order, init=A, ongoing(B) asked first:  A: if go: m.next = B;   B: y = y + 1 (sync); m.next = A.
   Codes: B=0, A=1; the register is unsigned(1) with init 1.  Trace rows are (go, y, clk, rst, state, ongoing B, ongoing A):
   time 0 in A; go=1; rising edge -> B; falling edge; rising edge -> A and y=1; rst=1; go stays 1: rising edge with
   reset -> A (init) and y back to its init 0 *)
Example C02_design_example :
  let y := ESig 1 (Sh 2 false) in
  let fsm := RFsm 4 1 (Some 0%nat) [1%nat]
               [(1%nat, [RAssign 1 y (EOp2 OAdd y (EConst 1 (Sh 1 false))); RNext 0]);
                (0%nat, [RIf [(ESig 0 (Sh 1 false), [RNext 1])] false []])]
               [(1%nat, 5%nat); (0%nat, 6%nat)] in
  dsl_design 16 [mk_sd (Sh 1 false) 0 false; mk_sd (Sh 2 false) 0 false; mk_sd (Sh 1 false) 0 false; mk_sd (Sh 1 false) 0 false]
    [DomDesc 2 true (Some 3%nat) false] [[IFsm fsm]]
    [[(0%nat, 1)]; [(2%nat, 1)]; [(2%nat, 0)]; [(2%nat, 1)]; [(3%nat, 1)]; [(2%nat, 0)]; [(2%nat, 1)]]
  = 1 :: [1; 0; 1] ++
    [0; 0; 0; 0; 1; 0; 1] ++ [1; 0; 0; 0; 1; 0; 1] ++ [1; 0; 1; 0; 0; 1; 0] ++ [1; 0; 0; 0; 0; 1; 0] ++
    [1; 1; 1; 0; 1; 0; 1] ++ [1; 1; 1; 1; 1; 0; 1] ++ [1; 1; 0; 1; 1; 0; 1] ++ [1; 0; 1; 1; 1; 0; 1].
Proof. vm_compute. reflexivity. Qed.
(* malformed designs are answered with the class of the exception: an undefined state -> NameError, a Case string of
   the wrong width -> SyntaxError *)
Example C02_design_errors :
  dsl_design 16 [mk_sd (Sh 1 false) 0 false; mk_sd (Sh 1 false) 0 false] [DomDesc 1 true None false]
    [[IFsm (RFsm 2 1 None [] [(0%nat, [RNext 7])] [(0%nat, 3%nat)])]] [] = [0; 2] /\
  dsl_design 16 [mk_sd (Sh 2 false) 0 false] []
    [[IStmt (RSwitch (ESig 0 (Sh 2 false)) [(Some [RStr [C0; CSpace; C1; C1]], [])])]] [] = [0; 1].
Proof. vm_compute. split; reflexivity. Qed.

(* ... and the loop DOES converge for designs without combinational loops.  "No combinational loop", semantically: the
   n signals can be ranked so that a delta does not change a signal of rank 0 and the value it gives a signal of rank
   > 0 depends only on the signals of lower rank (for states satisfying an invariant of the loop).  Then settle reports
   convergence whenever its fuel exceeds the largest rank R (the run uses fuel 16; a design that needs more is answered
   [2], see above).  That a statement list whose every assignment reads only lower-ranked comb signals satisfies the
   hypothesis is not proved in general (it needs that an expression's value depends only on the signals occurring in
   it); it is proved for the example. *)
Theorem C02_settle_terminates n tab mods (Inv : slots -> Prop) (rank : nat -> nat) R :
  (forall st, Inv st -> Inv (commit (run_comb tab mods st))) ->
  (forall i, (i < n)%nat -> (rank i <= R)%nat) ->
  (forall st i, Inv st -> (i < n)%nat -> rank i = 0%nat -> s_curr (commit (run_comb tab mods st)) i = s_curr st i) ->
  (forall st1 st2 i, Inv st1 -> Inv st2 -> (i < n)%nat -> (0 < rank i)%nat ->
     (forall j, (j < n)%nat -> (rank j < rank i)%nat -> s_curr st1 j = s_curr st2 j) ->
     s_curr (commit (run_comb tab mods st1)) i = s_curr (commit (run_comb tab mods st2)) i) ->
  forall st fuel, Inv st -> (R < fuel)%nat -> snd (settle fuel n tab mods st) = true.
Proof. intros H1 H2 H3 H4 st fuel. exact (settle_terminates n tab mods Inv rank R H1 H2 H3 H4 st fuel). Qed.
Print Assumptions C02_settle_terminates.
(* the hypotheses hold for y = ~x *)
Example C02_settle_terminates_example st fuel :
  ex_inv st -> (1 < fuel)%nat -> snd (settle fuel 2 ex_tab ex_mods st) = true.
Proof. exact (settle_terminates_example st fuel). Qed.

(* ---------- syntactic acyclicity implies that the delta-cycle loop terminates (Model/DslAcyc.v, Proofs/DslAcycP.v) ---------- *)
From V.Model Require Import DslAcyc.
From V.Proofs Require Import DslAcycP.

(* an expression's value depends only on the signals occurring in it *)
Theorem C02_eval_rtl_ext c1 c2 e : (forall k, In k (reads e) -> c1 k = c2 k) -> eval_rtl c1 e = eval_rtl c2 e.
Proof. exact (eval_rtl_ext c1 c2 e). Qed.
Print Assumptions C02_eval_rtl_ext.
Theorem C02_denote_ext c1 c2 e : (forall k, In k (reads e) -> c1 k = c2 k) -> denote c1 e = denote c2 e.
Proof. exact (denote_ext c1 c2 e). Qed.
Print Assumptions C02_denote_ext.

(* statement execution: signals a statement does not assign are left alone; and if an assignment that assigns a signal
   of Pn assigns only signals of Pn and reads (right-hand side, target selectors, tests of the Switches around it) only
   signals of Pc, then two runs from `curr`s that agree on Pc and `next`s that agree on Pn agree on Pn afterwards *)
Theorem C02_exec_frame c s n k : ~ In k (stmt_tsigs s) -> exec_rtl c s n k = n k.
Proof. exact (exec_frame c s n k). Qed.
Print Assumptions C02_exec_frame.
Theorem C02_exec_reads_only_what_occurs Pc Pn c1 c2 s :
  (forall k, Pc k = true -> c1 k = c2 k) -> targets_wf s = true -> resp Pc Pn s = true ->
  forall n1 n2, (forall k, Pn k = true -> n1 k = n2 k) ->
  forall k, Pn k = true -> exec_rtl c1 s n1 k = exec_rtl c2 s n2 k.
Proof. exact (exec_agree Pc Pn c1 c2 s). Qed.
Print Assumptions C02_exec_reads_only_what_occurs.

(* the semantic termination theorem with a weaker hypothesis: a signal may depend on its own previous value as long as
   a second delta does not change it once the lower ranks are unchanged *)
Theorem C02_settle_terminates_weak n tab mods (Inv : slots -> Prop) (rank : nat -> nat) R :
  (forall st, Inv st -> Inv (commit (run_comb tab mods st))) ->
  (forall i, (i < n)%nat -> (rank i <= R)%nat) ->
  (forall st i, Inv st -> (i < n)%nat -> rank i = 0%nat -> s_curr (commit (run_comb tab mods st)) i = s_curr st i) ->
  (forall st i, Inv st -> (i < n)%nat -> (0 < rank i)%nat ->
     (forall j, (j < n)%nat -> (rank j < rank i)%nat -> s_curr (commit (run_comb tab mods st)) j = s_curr st j) ->
     s_curr (commit (run_comb tab mods (commit (run_comb tab mods st)))) i = s_curr (commit (run_comb tab mods st)) i) ->
  forall st fuel, Inv st -> (R < fuel)%nat -> snd (settle fuel n tab mods st) = true.
Proof. intros H1 H2 H3 H4 st fuel. exact (settle_terminates2 n tab mods Inv rank R H1 H2 H3 H4 st fuel). Qed.
Print Assumptions C02_settle_terminates_weak.

(* THE LINK: the decidable check acyclic_ok — signals < n; rank 0 exactly for the signals no comb statement can drive;
   at most one module drives a signal; every comb assignment assigns signals of one rank r and reads (right-hand side,
   target selectors, tests of the Switches around it) only signals of rank < r — implies that from any state without
   pending changes (every state the run applies settle to) the loop converges whenever its fuel exceeds the largest rank *)
Theorem C02_settle_terminates_acyclic n tab rank R mods : acyclic_ok n rank R mods = true ->
  forall st fuel, (forall k, s_next st k = s_curr st k) -> (R < fuel)%nat -> snd (settle fuel n tab mods st) = true.
Proof. exact (settle_terminates_acyclic n tab rank R mods). Qed.
Print Assumptions C02_settle_terminates_acyclic.
Theorem C02_settle_terminates_auto n tab mods R : acyclic_auto n mods = (true, R) ->
  forall st fuel, (forall k, s_next st k = s_curr st k) -> (R < fuel)%nat -> snd (settle fuel n tab mods st) = true.
Proof. exact (settle_terminates_auto n tab mods R). Qed.
Print Assumptions C02_settle_terminates_auto.

(* a 3-level design over two modules passes the check with ranks 1, 2, 3 (so 4 deltas settle it); a loop does not *)
Example C02_acyclic_example :
  acyclic_auto 4 ex3_mods = (true, 3%nat) /\ compute_rank 4 ex3_mods = [0; 1; 2; 3]%nat /\
  (forall tab st, (forall k, s_next st k = s_curr st k) -> snd (settle 4 4 tab ex3_mods st) = true) /\
  fst (acyclic_auto 3 [[[SAssign ex3_a (EOp1 ONot ex3_b); SAssign ex3_b ex3_a]]]) = false.
Proof.
  split; [exact (proj1 acyclic_example)|]. split; [exact (proj2 acyclic_example)|]. split; [|exact cyclic_example].
  intros tab st H. apply (settle_terminates_auto 4 tab ex3_mods 3 (proj1 acyclic_example) st 4 H). repeat constructor.
Qed.

(* ---------- translator unit "pyrtl_lhs": sim/_pyrtl.py _LHSValueCompiler / _StatementCompiler regenerated from the
   source text (Gen/PyRTLLhsGen.v: the denotation of the emitted Python text; texts are thunks over the `next_*`
   state) equal the model's assign_rtl / exec_rtl / exec_rtl_list for every environment, target, statement ---------- *)
From V.Proofs Require GenEqPyrtlLhs.
From V.Gen Require PyRTLLhsGen.
Theorem C02_translated_helper_sign v s : PyRTLLhsGen.helper_sign v s = py_sign v s.
Proof. exact (GenEqPyrtlLhs.gen_helper_sign_eq v s). Qed.
Print Assumptions C02_translated_helper_sign.
Theorem C02_translated_lhs_gen curr lhs (arg : env -> Z) nx :
  PyRTLLhsGen.lhs_gen curr lhs arg nx = assign_rtl curr lhs (arg nx) nx.
Proof. exact (GenEqPyrtlLhs.gen_lhs_gen_eq curr lhs arg nx). Qed.
Print Assumptions C02_translated_lhs_gen.
Theorem C02_translated_stmt_gen curr s nx : PyRTLLhsGen.stmt_gen curr s nx = exec_rtl curr s nx.
Proof. exact (GenEqPyrtlLhs.gen_stmt_gen_eq curr s nx). Qed.
Print Assumptions C02_translated_stmt_gen.
Theorem C02_translated_stmts_gen curr ss nx : PyRTLLhsGen.stmts_gen curr ss nx = exec_rtl_list curr ss nx.
Proof. exact (GenEqPyrtlLhs.gen_stmts_gen_eq curr ss nx). Qed.
Print Assumptions C02_translated_stmts_gen.
(* process skeleton (_FragmentCompiler.__call__, fragments without memories): the statements emitted per driven signal *)
Theorem C02_translated_comb_init i s init rl curr nx sl :
  PyRTLLhsGen.comb_init_gen i s init rl curr nx sl = (upd nx i init, sl).
Proof. exact (GenEqPyrtlLhs.gen_comb_init_eq i s init rl curr nx sl). Qed.
Print Assumptions C02_translated_comb_init.
Theorem C02_translated_sync_load i s init rl curr nx sl :
  PyRTLLhsGen.sync_load_gen i s init rl curr nx sl = (upd nx i (sl i), sl).
Proof. exact (GenEqPyrtlLhs.gen_sync_load_eq i s init rl curr nx sl). Qed.
Print Assumptions C02_translated_sync_load.
Theorem C02_translated_sync_reset i s init rl rstv curr nx sl :
  PyRTLLhsGen.sync_reset_gen i s init rl rstv curr nx sl
  = (if negb (Z.land 1 rstv =? 0) && negb rl then upd nx i init else nx, sl).
Proof. exact (GenEqPyrtlLhs.gen_sync_reset_eq i s init rl rstv curr nx sl). Qed.
Print Assumptions C02_translated_sync_reset.
Theorem C02_translated_final_update i s init rl mask curr nx sl :
  PyRTLLhsGen.final_update_gen i s init rl mask curr nx sl
  = (nx, upd sl i (slot_update (sl i) (nx i) (update_mask s mask))).
Proof. exact (GenEqPyrtlLhs.gen_final_update_eq i s init rl mask curr nx sl). Qed.
Print Assumptions C02_translated_final_update.

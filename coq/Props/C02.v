(* C02 — assignments and control flow: last active assignment wins, per bit.  Statements only;
   proofs in Proofs/StmtP.v, Proofs/ProcessP.v, Proofs/DslP.v. *)
From Coq Require Import ZArith List Bool.
From V.Model Require Import Bits Shape Ast Denote PyRTL PyEval Stmt Process Dsl.
From V.Proofs Require Import BitsP ShapeP ExprP StmtP ProcessP DslP.
Import ListNotations.
Open Scope Z_scope.

(* One assignment, as compiled for a circuit (read-modify-write code of _LHSValueCompiler): through any nesting of
   slices, part-selects (offsets beyond the target included), concatenations, choices / array elements and sign
   reinterpretations it changes exactly the addressed bits (wr = Some k: position k of the target addresses bit b
   of signal i under the current selector values); bits that fall outside the target are dropped. *)
Theorem C02_assign_touches_addressed_bits ss curr lhs :
  wf_lhs lhs = true -> lin lhs = true -> sig_ok ss lhs -> sel_ok curr lhs ->
  forall arg nx i b, 0 <= b < width (ss i) ->
  Z.testbit (assign_rtl curr lhs arg nx i) b =
  match wr curr lhs i b with Some k => Z.testbit arg k | None => Z.testbit (nx i) b end.
Proof. exact (assign_rtl_bits ss curr lhs). Qed.
Print Assumptions C02_assign_touches_addressed_bits.

(* Statements (arbitrary nesting of switches) execute as their active assignments in program order … *)
Theorem C02_exec_is_active_assignments curr l : forallb wf_stmt l = true -> (exists ss, Forall (stmt_ok ss curr) l) ->
  forall nx, exec_rtl_list curr l nx = fold_left (do_assign curr) (active_list curr l) nx.
Proof. exact (exec_rtl_list_active curr l). Qed.
Print Assumptions C02_exec_is_active_assignments.

(* … and the last active assignment addressing a bit wins; the bit it gets is bit k of the right-hand side's own
   integer value, i.e. the RHS truncated, or zero-/sign-extended according to ITS signedness. *)
Theorem C02_last_active_assignment_wins ss curr al : Forall (assign_ok ss curr) al ->
  forall nx i b, 0 <= b < width (ss i) ->
  Z.testbit (fold_left (do_assign curr) al nx i) b =
  match last_writer curr al i b with
  | Some (k, r) => Z.testbit (denote curr r) k
  | None => Z.testbit (nx i) b
  end.
Proof. exact (last_wins ss curr al). Qed.
Print Assumptions C02_last_active_assignment_wins.

(* Combinational domain: every driven bit equals its INITIAL value overridden by the active assignments. *)
Theorem C02_comb_process_spec ss tab l st : design_ok ss tab ->
  forallb wf_stmt l = true -> Forall (stmt_ok ss (s_curr st)) l ->
  forall i b, 0 <= b < width (ss i) ->
  Z.testbit (s_next (comb_process tab l st) i) b =
  if Z.testbit (stmts_mask l i) b then
    match last_writer (s_curr st) (active_list (s_curr st) l) i b with
    | Some (k, r) => Z.testbit (denote (s_curr st) r) k
    | None => Z.testbit (sd_init (tab i)) b
    end
  else Z.testbit (s_next st i) b.
Proof. exact (comb_process_spec ss tab l st). Qed.
Print Assumptions C02_comb_process_spec.

(* Synchronous domain, at the active edge: every driven bit takes its PREVIOUS value overridden the same way
   (reset: non-reset-less signals take their initial value instead). *)
Theorem C02_sync_process_spec ss tab l rst st : design_ok ss tab ->
  forallb wf_stmt l = true -> Forall (stmt_ok ss (s_curr st)) l ->
  forall i b, 0 <= b < width (ss i) ->
  let rst_on := match rst with Some r => negb (Z.land 1 (s_curr st r) =? 0) | None => false end in
  Z.testbit (s_next (sync_process tab l rst st) i) b =
  if Z.testbit (stmts_mask l i) b then
    if rst_on && negb (sd_reset_less (tab i)) then Z.testbit (sd_init (tab i)) b
    else match last_writer (s_curr st) (active_list (s_curr st) l) i b with
         | Some (k, r) => Z.testbit (denote (s_curr st) r) k
         | None => Z.testbit (s_next st i) b
         end
  else Z.testbit (s_next st i) b.
Proof. exact (sync_process_spec ss tab l rst st). Qed.
Print Assumptions C02_sync_process_spec.

(* the commit mask of a process covers every bit an active assignment addresses: nothing assigned is lost *)
Theorem C02_mask_covers_writers ss tab l st : design_ok ss tab ->
  forallb wf_stmt l = true -> Forall (stmt_ok ss (s_curr st)) l ->
  forall i b k r, 0 <= b -> last_writer (s_curr st) (active_list (s_curr st) l) i b = Some (k, r) ->
  Z.testbit (stmts_mask l i) b = true.
Proof. exact (mask_covers_writers ss tab l st). Qed.
Print Assumptions C02_mask_covers_writers.

(* Control flow: the Switch statements the DSL builds for If/Elif/Else (one Switch over Cat(tests) with patterns
   ("1" + "-"*k).rjust(n, "-")) and for Switch/Case/Default make active exactly the body of the first condition
   with a non-zero value (Else if none, nothing without Else) / the first case whose pattern set matches (Default
   if none; cases after Default never) — at any nesting depth; in each construct at most one block is selected. *)
Theorem C02_lowering_selects_first curr d : wf_dstmt d = true -> dcond_ok curr d ->
  active curr (lower d) = dactive curr d.
Proof. exact (lower_active curr d). Qed.
Print Assumptions C02_lowering_selects_first.

(* the If pattern tests exactly its own condition bit *)
Theorem C02_if_pattern_bit n k t : pat_sem (if_pattern n k) t = Z.testbit t (Z.of_nat k).
Proof. exact (if_pattern_sem n k t). Qed.
Print Assumptions C02_if_pattern_bit.

(* non-vacuity: If(c): a[1:3] = -1  Elif(d): Cat(a, b) = 0x2A  Else: b.word_select(o, 2) = 3 *)
Definition ex_prog : dstmt :=
  DIf [ (ESig 2 (Sh 3 true), [DAssign (ESlice (ESig 0 (Sh 4 false)) 1 3) (EConst (-1) (Sh 1 true))]);
        (ESig 3 (Sh 1 false), [DAssign (ECat [ESig 0 (Sh 4 false); ESig 1 (Sh 4 true)]) (EConst 42 (Sh 6 false))]) ]
      true
      [DAssign (EPart (ESig 1 (Sh 4 true)) (ESig 4 (Sh 2 false)) 2 2) (EConst 3 (Sh 2 false))].
Example C02_example :
  let curr : env := fun i => match i with 2%nat => 0 | 3%nat => 1 | 4%nat => 3 | _ => 0 end in
  wf_dstmt ex_prog = true /\
  length (dactive curr ex_prog) = 1%nat /\ active curr (lower ex_prog) = dactive curr ex_prog /\
  exec_rtl curr (lower ex_prog) (fun _ => 0) 0%nat = 10 /\ exec_rtl curr (lower ex_prog) (fun _ => 0) 1%nat = 2.
Proof. vm_compute. repeat split. Qed.

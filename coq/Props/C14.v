(* C14 — interface signatures, flipping and connect() preserve direction and data flow.
   Only statements here; proofs live in Proofs/WiringP.v.  Model: Model/Wiring.v.

   Proved for all signature trees (any nesting, wrappers, dimensions, shapes, inits) and all argument tuples:
     flip_involutive, flip_reverses_leaves, effective_direction, flatten_each_leaf_once,
     create_compliant (any initial values, representable in the port's shape or not; one hypothesis that excludes
     exactly the recorded defect C14-flipped-array-of-interfaces, with a _refuted witness),
     connect_ok_spec (every assignment / every input leaf / exactly once / no output, no constant driven),
     connect_error_iff (success criterion: no member missing, kinds, widths, inits, at most one output, dimensions,
     constants, not only inputs), no_missing_member_iff (sorted lock step = same member sets),
     connect_perm (any permutation of the arguments), metadata_lists_leaves.
   Hypotheses: dict keys distinct (names_ok); for the criterion in terms of constants also nodims_sig (no array of
   interfaces: excludes exactly finding C14-connect-array-of-interfaces, refuted witness below).
   connect_error_sound: every diagnostic kind is raised only when its defect is present, and on compliant arguments
   without arrays of interfaces only the nine listed kinds can occur.
   NOT proved (validated by the differential run only): WHICH of several coexisting defects is reported first
   (the model follows the code's order; the run compares the kind), jschon schema validation. *)
From Coq Require Import ZArith List Bool Permutation.
From V.Model Require Import Bits Wiring.
From V.Proofs Require Import WiringP.
Import ListNotations.
Open Scope Z_scope.

(* --- flipping twice gives back the original (signature value, observable members, every flattened entry) --- *)
Theorem C14_flip_involutive (x : sigt) (m : member) :
  sig_flip (sig_flip x) = x /\
  sig_members (sig_flip (sig_flip x)) = sig_members x /\
  flat_members (sig_flip (sig_flip x)) = flat_members x /\
  flip_member (flip_member m) = m.
Proof.
  repeat split; [apply sig_flip_inv | rewrite sig_flip_inv; reflexivity | apply flat_members_flip_flip | apply flip_member_inv].
Qed.
Print Assumptions C14_flip_involutive.

(* --- flipping once reverses the direction of every entry that SignatureMembers.flatten yields (ports at any depth,
       under any nesting of In(sig)/Out(sig)/sig.flip() and with any dimensions); nothing else changes --- *)
Theorem C14_flip_reverses_leaves (x : sigt) :
  flat_members (sig_flip x) = map flip_entry (flat_members x) /\
  map entry_flow (flat_members (sig_flip x)) =
    map (fun pf => (fst pf, flip_flow (snd pf))) (map entry_flow (flat_members x)).
Proof. split; [apply flat_members_flip | apply flat_members_flip_flows]. Qed.
Print Assumptions C14_flip_reverses_leaves.

(* --- the direction connect() sees for every member = stored flow reversed once per FlippedSignature wrapper and
       once per In-flow interface member above it (specification by counting, Wiring.spec_flat_m) --- *)
Theorem C14_effective_direction (x : sigt) : map entry_flow (flat_members x) = spec_flat x.
Proof. exact (flat_members_effective x). Qed.
Print Assumptions C14_effective_direction.

Example C14_effective_direction_example :
  (* Out port under In(Out(sig).flip())-like nesting: three reversals *)
  let x := (true, [(0, Iface FIn true [(1, Port FOut (Sh 3 false) 0 [2%nat])] [])]) in
  map entry_flow (flat_members x) = [([0], FOut); ([0; 1], FIn)] /\
  map entry_flow (flat_members (sig_flip x)) = [([0], FIn); ([0; 1], FOut)].
Proof. vm_compute. split; reflexivity. Qed.

(* --- an interface created from a signature complies with it, whatever the initial values (the member's constant
       is brought into the port's shape exactly like the init of the created Signal) ---
   hypotheses: names_ok = distinct member names per level (dict keys);
               safe_sig = no FlippedInterface proxy has to hand out a list of interfaces. *)
Theorem C14_create_compliant (x : sigt) (p : path) :
  names_ok (top x) = true -> safe_sig x = true -> is_compliant x (create x p) = Ok true.
Proof. exact (create_compliant x p). Qed.
Print Assumptions C14_create_compliant.

Example C14_create_compliant_example :
  (* init 13 does not fit unsigned(3), init 2 does not fit signed(2): the created signals start at 5 and -2 *)
  let inner := [(0, Port FOut (Sh 3 false) 13 [2%nat; 3%nat]); (1, Port FIn (Sh 2 true) 2 [])] in
  let x := (true, [(4, Iface FIn true inner []); (2, Iface FOut false inner [2%nat]); (7, Port FIn (Sh 0 false) 0 [0%nat])]) in
  names_ok (top x) = true /\ safe_sig (sig_flip x) = true /\
  is_compliant (sig_flip x) (create (sig_flip x) [PN 0]) = Ok true /\
  connect [create (sig_flip x) [PN 0]; create x [PN 1]] <> Err ENotCompliant.
Proof. vm_compute. repeat split. discriminate. Qed.

(* safe_sig is needed: the faithful model (and the code) violate the unrestricted statement *)
Theorem C14_create_compliant_refuted_flipped_array :
  exists x p, names_ok (top x) = true /\ is_compliant x (create x p) = Err ETypeErr /\ flat_obj x (create x p) = Err ETypeErr.
Proof.
  exists (true, [(0, Iface FOut false [(1, Port FOut (Sh 1 false) 0 [])] [2%nat])]), [PN 0].
  vm_compute. repeat split.
Qed.
Print Assumptions C14_create_compliant_refuted_flipped_array.

(* --- connect(): every assignment it makes goes to a Signal (never a constant) and comes from the same path of
       another argument; it is only made after every argument passed is_compliant against its own signature --- *)
Theorem C14_connect_assignments_sound (objs : list obj) (cs : list asg) :
  connect objs = Ok cs ->
  Forall (good_asg objs) cs /\
  Forall (fun o => exists x, obj_sig o = Some x /\ is_compliant x o = Ok true) objs.
Proof. intros H. split; [exact (connect_assignments_good objs cs H) | exact (connect_ok_compliant objs cs H)]. Qed.
Print Assumptions C14_connect_assignments_sound.

(* one lock step of connect at a path with exactly one output port member: exactly the input port members are
   assigned (per index), from that output; no output member and no other member is assigned *)
Theorem C14_connect_step_single_output objs p ms st st' o :
  step objs p ms st = Ok st' ->
  filter is_sig_kind (tag_from 0 ms) = [] ->
  filter is_out_port (tag_from 0 ms) = [o] ->
  exists new, concat_res (map (connect_in objs p o) (filter is_in_port (tag_from 0 ms))) = Ok new /\
              fst (fst st') = fst (fst st) ++ new.
Proof. exact (step_single_out objs p ms st st' o). Qed.
Print Assumptions C14_connect_step_single_output.

Example C14_connect_example :
  let inner := [(0, Port FOut (Sh 3 false) 5 []); (1, Port FIn (Sh 2 true) (-1) [2%nat])] in
  let x := (false, [(4, Iface FIn true inner []); (2, Port FOut (Sh 1 false) 0 [])]) in
  let objs := [create x [PN 0]; create (sig_flip x) [PN 1]; create (sig_flip x) [PN 2]] in
  connect [create x [PN 0]; create (sig_flip x) [PN 1]] =
    Ok [((1%nat, [PN 2]), (0%nat, [PN 2]));
        ((1%nat, [PN 4; PN 0]), (0%nat, [PN 4; PN 0]));
        ((0%nat, [PN 4; PN 1; PI 0]), (1%nat, [PN 4; PN 1; PI 0]));
        ((0%nat, [PN 4; PN 1; PI 1]), (1%nat, [PN 4; PN 1; PI 1]))] /\
  connect objs = Err ESeveral.
Proof. vm_compute. split; reflexivity. Qed.

(* connect on two compliant interfaces with an array of interfaces: the specification demands the assignment
   arg1.a[i].b <- arg0.a[i].b; the code (and the faithful model) fail in _traverse_path *)
Theorem C14_connect_refuted_array_of_interfaces :
  exists x y, let objs := [create x [PN 0]; create y [PN 1]] in
    is_compliant x (create x [PN 0]) = Ok true /\ is_compliant y (create y [PN 1]) = Ok true /\
    map entry_flow (flat_members y) = map entry_flow (flat_members (sig_flip x)) /\
    connect objs = Err EAttr.
Proof.
  exists (false, [(0, Iface FOut false [(1, Port FOut (Sh 1 false) 0 [])] [2%nat])]),
         (false, [(0, Iface FIn false [(1, Port FOut (Sh 1 false) 0 [])] [2%nat])]).
  vm_compute. repeat split.
Qed.
Print Assumptions C14_connect_refuted_array_of_interfaces.

(* ===================================================================== whole-tree theorems (follow-up) *)

(* --- flattening visits every member path once; the specification leaves (path with indices) are pairwise
       distinct, and (without arrays of interfaces) they are exactly the port members expanded by their indices,
       carrying the effective direction of C14_effective_direction --- *)
Theorem C14_flatten_each_leaf_once (x : sigt) :
  names_ok (top x) = true ->
  NoDup (map fst (flat_members x)) /\ NoDup (map s_path (spec_leaves x)) /\
  (nodims_sig x = true -> spec_leaves x = flat_map entry_leaves (flat_members x)).
Proof.
  intros H. split; [exact (flat_members_nodup x H)|]. split; [exact (spec_leaves_once x H)|exact (spec_leaves_are_port_entries x)].
Qed.
Print Assumptions C14_flatten_each_leaf_once.

(* --- Signature.flatten(obj) on an interface created from the signature (same hypotheses as create_compliant):
       exactly the specification leaves, in order: every leaf once, with its effective direction, shape and the
       initial value of its Signal --- *)
Theorem C14_flatten_created (x : sigt) (p : path) :
  names_ok (top x) = true -> safe_sig x = true ->
  exists ls, flat_obj x (create x p) = Ok ls /\ map strip ls = spec_leaves x.
Proof. exact (flatten_created x p). Qed.
Print Assumptions C14_flatten_created.

Example C14_flatten_created_example :
  let x := (true, [(4, Iface FIn true [(0, Port FOut (Sh 3 false) 5 [2%nat])] []); (7, Port FIn (Sh 1 false) 0 [])]) in
  names_ok (top x) = true /\ safe_sig x = true /\
  match flat_obj x (create x [PN 9]) with
  | Ok ls => map (fun l => (l_path l, l_flow l, l_val l)) ls
  | Err _ => []
  end = [([PN 4; PN 0; PI 0], FIn, OSig [PN 9; PN 4; PN 0; PI 0] (Sh 3 false) 5);
         ([PN 4; PN 0; PI 1], FIn, OSig [PN 9; PN 4; PN 0; PI 1] (Sh 3 false) 5);
         ([PN 7], FOut, OSig [PN 9; PN 7] (Sh 1 false) 0)].
Proof. vm_compute. repeat split. Qed.

(* --- connect on k >= 2 arguments that passed is_compliant (check_args), any signature trees:
       (1) an assignment is made exactly for: an input port member mi of argument i and an output port member mj of
           argument j at the same member path p, an index idx of its dimensions, the input leaf being a Signal;
           it is  arg_i.p[idx] <- arg_j.p[idx];
       (2) no input leaf is assigned twice (so: exactly once when an output exists);
       (3) no output leaf is ever assigned (and by (1) no constant). --- *)
Theorem C14_connect_ok_spec (objs : list obj) (sigs : list sigt) (cs : list asg) :
  check_args objs = Ok sigs -> (2 <= length sigs)%nat ->
  (forall x, In x sigs -> names_ok (top x) = true) ->
  connect objs = Ok cs ->
  (forall a, In a cs <->
     exists i j p mi mj idx,
       port_at sigs i p mi /\ is_in (m_flow mi) = true /\
       port_at sigs j p mj /\ is_in (m_flow mj) = false /\
       In idx (idx_paths (m_dims mi)) /\
       is_sigr (traverse objs (i, PNs p ++ idx)) = true /\
       a = asg_at objs i j p idx) /\
  NoDup (map fst cs) /\
  (forall a, In a cs -> forall p mo idx, port_at sigs (fst (fst a)) p mo -> is_in (m_flow mo) = false ->
        In idx (idx_paths (m_dims mo)) -> snd (fst a) <> PNs p ++ idx).
Proof. exact (connect_ok_spec objs sigs cs). Qed.
Print Assumptions C14_connect_ok_spec.

(* --- the error side: on compliant arguments without arrays of interfaces connect succeeds iff
       no member is missing (k_paths), every path is a port everywhere or an interface everywhere (k_kind),
       widths and initial values agree (k_wi), at most one output per port member (k_one), the output and each
       input have the same dimensions and a constant input meets an equal constant output (k_conn), and it is not
       the case that inputs but no output exist; otherwise it fails --- *)
Theorem C14_connect_error_iff (objs : list obj) (sigs : list sigt) :
  check_args objs = Ok sigs -> (2 <= length sigs)%nat ->
  (forall x, In x sigs -> names_ok (top x) = true) -> (forall x, In x sigs -> nodims_sig x = true) ->
  ((exists cs, connect objs = Ok cs) <-> connectable_with (const_ok objs) sigs /\ (has_in sigs -> has_out sigs)) /\
  ((exists e, connect objs = Err e) <-> ~ (connectable_with (const_ok objs) sigs /\ (has_in sigs -> has_out sigs))).
Proof.
  intros H1 H2 H3 H4. pose proof (connect_ok_iff objs sigs H1 H2 H3 H4) as K. split; [exact K|].
  split.
  - intros [e He] Hc. apply K in Hc. destruct Hc as [cs Hc]. congruence.
  - intros Hn. destruct (connect objs) as [cs|e] eqn:E; [|eauto]. exfalso. apply Hn. apply K. eauto.
Qed.
Print Assumptions C14_connect_error_iff.

(* the same criterion without assuming compliance or the absence of arrays of interfaces: the per-leaf condition is
   then "both leaves can be reached and connect_value accepts them" (cv_ok) *)
Theorem C14_connect_sigs_criterion (objs : list obj) (sigs : list sigt) :
  (2 <= length sigs)%nat -> (forall x, In x sigs -> names_ok (top x) = true) ->
  ((exists cs, connect_sigs objs sigs = Ok cs) <-> connectable objs sigs /\ (has_in sigs -> has_out sigs)).
Proof. exact (connect_sigs_ok_iff objs sigs). Qed.
Print Assumptions C14_connect_sigs_criterion.

(* "no member missing": the lock step over the SORTED flattened members compares the member sets *)
Theorem C14_no_missing_member_iff (x x' : sigt) :
  names_ok (top x) = true -> names_ok (top x') = true ->
  (map fst (sort (flat_members x)) = map fst (sort (flat_members x')) <->
   forall p, In p (map fst (flat_members x)) <-> In p (map fst (flat_members x'))).
Proof. exact (sorted_paths_eq_iff x x'). Qed.
Print Assumptions C14_no_missing_member_iff.

(* compliant arguments can always be traversed to a Signal or a Const at every leaf (used by the criterion) *)
Theorem C14_compliant_traversable x o q mm idx :
  nodims_sig x = true -> is_compliant x o = Ok true ->
  In (q, mm) (flat_members x) -> m_is_port mm = true -> In idx (idx_paths (m_dims mm)) ->
  exists leaf, trav o (PNs q ++ idx) = Ok leaf /\ is_leaf leaf = true.
Proof. exact (compliant_traversable x o q mm idx). Qed.
Print Assumptions C14_compliant_traversable.

(* --- connect does not depend on the order of its arguments: for every permutation, success is preserved and the
       assignments (as pairs of connected objects: resolve = the two traversed values) are the same multiset --- *)
Theorem C14_connect_perm (l l' : list obj) :
  Permutation l l' -> names_good l ->
  (forall cs, connect l = Ok cs ->
     exists cs', connect l' = Ok cs' /\ Permutation (map (resolve l) cs) (map (resolve l') cs')) /\
  (forall e, connect l = Err e -> exists e', connect l' = Err e').
Proof.
  intros HP Hg. split; [exact (proj1 (connect_perm l l' HP Hg))|]. intros e. exact (connect_perm_error l l' e HP Hg).
Qed.
Print Assumptions C14_connect_perm.

Example C14_connect_hypotheses_example :
  let inner := [(0, Port FOut (Sh 3 false) 5 []); (1, Port FIn (Sh 2 true) (-1) [2%nat])] in
  let x := (false, [(4, Iface FIn true inner []); (2, Port FOut (Sh 1 false) 0 [])]) in
  let objs := [create x [PN 0]; create (sig_flip x) [PN 1]; create (sig_flip x) [PN 2]] in
  check_args objs = Ok [x; sig_flip x; sig_flip x] /\
  forallb (fun y => names_ok (top y) && nodims_sig y) [x; sig_flip x] = true /\
  connect [create (sig_flip x) [PN 1]; create x [PN 0]] =
    Ok [((0%nat, [PN 2]), (1%nat, [PN 2]));
        ((0%nat, [PN 4; PN 0]), (1%nat, [PN 4; PN 0]));
        ((1%nat, [PN 4; PN 1; PI 0]), (0%nat, [PN 4; PN 1; PI 0]));
        ((1%nat, [PN 4; PN 1; PI 1]), (0%nat, [PN 4; PN 1; PI 1]))].
Proof. vm_compute. repeat split. Qed.

(* --- component metadata lists exactly the specification leaves (name path with indices, effective direction,
       width, signedness, initial value), each once --- *)
Theorem C14_metadata_lists_leaves (x : sigt) :
  json_ports (metadata x) = spec_leaves x /\
  (names_ok (top x) = true -> NoDup (map s_path (json_ports (metadata x)))).
Proof.
  split; [exact (metadata_lists_leaves x)|]. intros H. rewrite metadata_lists_leaves. exact (spec_leaves_once x H).
Qed.
Print Assumptions C14_metadata_lists_leaves.

Example C14_metadata_example :
  let x := (true, [(0, Iface FIn true [(1, Port FOut (Sh 3 true) (-2) [2%nat])] [])]) in
  json_ports (metadata x) = [SLeaf [PN 0; PN 1; PI 0] FIn (Sh 3 true) (-2); SLeaf [PN 0; PN 1; PI 1] FIn (Sh 3 true) (-2)].
Proof. vm_compute. reflexivity. Qed.

(* --- each diagnostic is raised only for its defect (connect_defect: one constructor per kind, stated on the members
       of the arguments at a common path), and for compliant arguments without arrays of interfaces no other kind
       than the nine below can come out of connect (EAssertDims is the bare `assert` on dimensions) --- *)
Theorem C14_connect_error_sound (objs : list obj) (sigs : list sigt) (e : cerr) :
  check_args objs = Ok sigs -> (forall x, In x sigs -> nodims_sig x = true) ->
  connect objs = Err e ->
  connect_defect objs sigs e /\
  (e = EMissing \/ e = ESigPort \/ e = EWidth \/ e = EInit \/ e = ESeveral \/ e = EAssertDims \/
   e = EConstVar \/ e = EConstDiff \/ e = EOnlyIn).
Proof. exact (connect_error_sound objs sigs e). Qed.
Print Assumptions C14_connect_error_sound.

Example C14_connect_error_examples :
  let x := (false, [(2, Port FOut (Sh 1 false) 0 []); (6, Port FIn (Sh 3 false) 2 [])]) in
  let y w i := (false, [(2, Port FIn (Sh 1 false) 0 []); (6, Port FIn (Sh w false) i [])]) in
  (* the input-only leaf 6 must agree in width and init although nothing drives it *)
  connect [create x [PN 0]; create (y 3 2) [PN 1]] = Ok [((1%nat, [PN 2]), (0%nat, [PN 2]))] /\
  connect [create x [PN 0]; create (y 4 2) [PN 1]] = Err EWidth /\
  connect [create (y 3 3) [PN 1]; create x [PN 0]] = Err EInit /\
  connect [create x [PN 0]; create x [PN 1]] = Err ESeveral /\
  connect [create (y 3 2) [PN 0]; create (y 3 2) [PN 1]] = Err EOnlyIn /\
  check_args [create x [PN 0]; create (y 4 2) [PN 1]] = Ok [x; y 4 2] /\
  forallb nodims_sig [x; y 4 2] = true.
Proof. vm_compute. repeat split. Qed.

(* ================================================================== translated source
   coq/Gen/WiringGen.v is regenerated from the text of /repo/amaranth/lib/wiring.py on every run
   (translator/unit_wiring.py; every function is in the exception monad WiringGen.R, Ret | Raise exn).  The theorems
   below (proofs in Proofs/GenEqWiring.v) say that each regenerated function is the function of Model/Wiring.v the
   theorems above are about, on all inputs.  Recursion through other objects is generated open (parameter rec_):
   the model function solves the generated equation and is its only solution. *)
From V.Proofs Require Import GenEqWiring.
From V.Gen Require WiringGen.

(* Flow.flip, Member.flip, Member.array *)
Theorem C14_translated_Flow_flip f : WiringGen.Flow_flip f = WiringGen.Ret (flip_flow f).
Proof. exact (gen_Flow_flip_eq f). Qed.
Print Assumptions C14_translated_Flow_flip.

Theorem C14_translated_Member_flip m : WiringGen.Member_flip m = WiringGen.Ret (flip_member m).
Proof. exact (gen_Member_flip_eq m). Qed.
Print Assumptions C14_translated_Member_flip.

Theorem C14_translated_Member_array m ds :
  WiringGen.Member_array m ds = WiringGen.Ret (member_array m ds) /\ m_dims (member_array m ds) = ds ++ m_dims m.
Proof. exact (conj (gen_Member_array_eq m ds) (gen_Member_array_dims m ds)). Qed.
Print Assumptions C14_translated_Member_array.

(* Member.signature: the description, flipped when the flow is In (AttributeError on a port member) *)
Theorem C14_translated_Member_signature m :
  WiringGen.Member_signature m =
  if m_is_port m then WiringGen.Raise WiringGen.XAttribute else WiringGen.Ret (member_signature m).
Proof. exact (gen_Member_signature_eq m). Qed.
Print Assumptions C14_translated_Member_signature.

(* Signature.flip / FlippedSignature.flip (dispatch on the class of the value) and `.members` *)
Theorem C14_translated_Signature_flip x :
  WiringGen.d_flip x = WiringGen.Ret (sig_flip x) /\ WiringGen.d_members x = WiringGen.Ret x.
Proof. exact (conj (gen_Signature_flip_eq x) (gen_members_eq x)). Qed.
Print Assumptions C14_translated_Signature_flip.

(* SignatureMembers / FlippedSignatureMembers: __getitem__ (flipped on the proxy), __iter__, items() *)
Theorem C14_translated_members_getitem v n :
  WiringGen.d_getitem v n = match assoc n (snd v) with
                            | Some m => WiringGen.Ret (flipm (fst v) m)
                            | None => WiringGen.Raise WiringGen.XSignature
                            end.
Proof. exact (gen_getitem_eq v n). Qed.
Print Assumptions C14_translated_members_getitem.

Theorem C14_translated_members_items v :
  nodupb (map fst (snd v)) = true ->
  WiringGen.d_iter v = WiringGen.Ret (map fst (snd v)) /\ WiringGen.d_items v = WiringGen.Ret (sig_members v).
Proof. intros H. exact (conj (gen_iter_eq v) (gen_items_eq v H)). Qed.
Print Assumptions C14_translated_members_items.

(* SignatureMembers.flatten: the model's flat_ms satisfies the regenerated recursion equation ... *)
Theorem C14_translated_flatten v p :
  nodupb (map fst (snd v)) = true ->
  WiringGen.Members_flatten_F flat_rec v p = WiringGen.Ret (flat_ms (fst v) p (snd v)).
Proof. exact (gen_flatten_eq v p). Qed.
Print Assumptions C14_translated_flatten.

(* ... and every function that satisfies it is flat_ms on signatures whose dictionaries have distinct keys *)
Theorem C14_translated_flatten_unique (rec : sigt -> list Z -> WiringGen.R (list entry)) :
  (forall v p, rec v p = WiringGen.Members_flatten_F rec v p) ->
  forall x, names_ok (top x) = true -> forall p, rec x p = WiringGen.Ret (flat_ms (fst x) p (snd x)).
Proof. exact (gen_flatten_unique rec). Qed.
Print Assumptions C14_translated_flatten_unique.

Example C14_translated_flatten_example :
  let x := (true, [(0, Iface FIn false [(1, Port FOut (Sh 3 true) (-2) [2%nat])] []); (2, Port FIn (Sh 1 false) 0 [])]) in
  nodupb (map fst (snd x)) = true /\ names_ok (top x) = true /\
  WiringGen.Members_flatten_F flat_rec x [] =
  WiringGen.Ret [([0], Iface FOut false [(1, Port FOut (Sh 3 true) (-2) [2%nat])] []);
                 ([0; 1], Port FOut (Sh 3 true) (-2) [2%nat]); ([2], Port FOut (Sh 1 false) 0 [])].
Proof. vm_compute. repeat split. Qed.

(* C14 — interface signatures, flipping and connect() preserve direction and data flow.
   Only statements here; proofs live in Proofs/WiringP.v.  Model: Model/Wiring.v.

   Proved for all signatures (any nesting, wrappers, dimensions, shapes, inits):
     flip_involutive, flip_reverses_leaves, effective_direction, create_compliant (under the two hypotheses that
     exclude exactly the recorded defects, each with a _refuted witness), and for connect the _partial theorems below.
   NOT proved (validated by the differential run only): NoDup of flattened paths, connect_perm, the
   "corruption => this error kind" direction of connect_error_iff, metadata, and the full connect_ok_spec
   (what is missing: lifting `step_single_out` through `conn_loop` to "every input leaf exactly once"). *)
From Coq Require Import ZArith List Bool.
From V.Model Require Import Bits Wiring.
From V.Proofs Require Import WiringP.
Import ListNotations.
Open Scope Z_scope.

(* --- flipping twice gives back the original (signature value, observable members, every flattened entry) --- *)
Theorem C14_flip_involutive (x : sigt) (m : member) :
  sig_flip (sig_flip x) = x /\
  sig_members (sig_flip (sig_flip x)) = sig_members x /\
  flat_members (sig_flip (sig_flip x)) = flat_members x /\
  flip_member (flip_member m) = m.
Proof.
  repeat split; [apply sig_flip_inv | rewrite sig_flip_inv; reflexivity | apply flat_members_flip_flip | apply flip_member_inv].
Qed.
Print Assumptions C14_flip_involutive.

(* --- flipping once reverses the direction of every entry that SignatureMembers.flatten yields (ports at any depth,
       under any nesting of In(sig)/Out(sig)/sig.flip() and with any dimensions); nothing else changes --- *)
Theorem C14_flip_reverses_leaves (x : sigt) :
  flat_members (sig_flip x) = map flip_entry (flat_members x) /\
  map entry_flow (flat_members (sig_flip x)) =
    map (fun pf => (fst pf, flip_flow (snd pf))) (map entry_flow (flat_members x)).
Proof. split; [apply flat_members_flip | apply flat_members_flip_flows]. Qed.
Print Assumptions C14_flip_reverses_leaves.

(* --- the direction connect() sees for every member = stored flow reversed once per FlippedSignature wrapper and
       once per In-flow interface member above it (specification by counting, Wiring.spec_flat_m) --- *)
Theorem C14_effective_direction (x : sigt) : map entry_flow (flat_members x) = spec_flat x.
Proof. exact (flat_members_effective x). Qed.
Print Assumptions C14_effective_direction.

Example C14_effective_direction_example :
  (* Out port under In(Out(sig).flip())-like nesting: three reversals *)
  let x := (true, [(0, Iface FIn true [(1, Port FOut (Sh 3 false) 0 [2%nat])] [])]) in
  map entry_flow (flat_members x) = [([0], FOut); ([0; 1], FIn)] /\
  map entry_flow (flat_members (sig_flip x)) = [([0], FIn); ([0; 1], FOut)].
Proof. vm_compute. split; reflexivity. Qed.

(* --- an interface created from a signature complies with it ---
   hypotheses: wf_sig = distinct member names per level (dict keys) and every init representable in its shape;
               safe_sig = no FlippedInterface proxy has to hand out a list of interfaces. *)
Theorem C14_create_compliant (x : sigt) (p : path) :
  wf_sig x = true -> safe_sig x = true -> is_compliant x (create x p) = Ok true.
Proof. exact (create_compliant x p). Qed.
Print Assumptions C14_create_compliant.

Example C14_create_compliant_example :
  let inner := [(0, Port FOut (Sh 3 false) 5 [2%nat; 3%nat]); (1, Port FIn (Sh 2 true) (-1) [])] in
  let x := (true, [(4, Iface FIn true inner []); (2, Iface FOut false inner [2%nat]); (7, Port FIn (Sh 0 false) 0 [0%nat])]) in
  wf_sig x = true /\ safe_sig (sig_flip x) = true /\ is_compliant (sig_flip x) (create (sig_flip x) [PN 0]) = Ok true.
Proof. vm_compute. repeat split. Qed.

(* both hypotheses are needed: the faithful model (and the code) violate the unrestricted statement *)
Theorem C14_create_compliant_refuted_init :
  exists x p, names_ok (top x) = true /\ safe_sig x = true /\ is_compliant x (create x p) = Ok false.
Proof. exists (false, [(0, Port FOut (Sh 2 false) 5 [])]), [PN 0]. vm_compute. repeat split. Qed.
Print Assumptions C14_create_compliant_refuted_init.

Theorem C14_create_compliant_refuted_flipped_array :
  exists x p, wf_sig x = true /\ is_compliant x (create x p) = Err ETypeErr /\ flat_obj x (create x p) = Err ETypeErr.
Proof.
  exists (true, [(0, Iface FOut false [(1, Port FOut (Sh 1 false) 0 [])] [2%nat])]), [PN 0].
  vm_compute. repeat split.
Qed.
Print Assumptions C14_create_compliant_refuted_flipped_array.

(* --- connect(): every assignment it makes goes to a Signal (never a constant) and comes from the same path of
       another argument; it is only made after every argument passed is_compliant against its own signature --- *)
Theorem C14_connect_ok_spec_partial (objs : list obj) (cs : list asg) :
  connect objs = Ok cs ->
  Forall (good_asg objs) cs /\
  Forall (fun o => exists x, obj_sig o = Some x /\ is_compliant x o = Ok true) objs.
Proof. intros H. split; [exact (connect_assignments_good objs cs H) | exact (connect_ok_compliant objs cs H)]. Qed.
Print Assumptions C14_connect_ok_spec_partial.

(* one lock step of connect at a path with exactly one output port member: exactly the input port members are
   assigned (per index), from that output; no output member and no other member is assigned *)
Theorem C14_connect_step_single_output_partial objs p ms st st' o :
  step objs p ms st = Ok st' ->
  filter is_sig_kind (tag_from 0 ms) = [] ->
  filter is_out_port (tag_from 0 ms) = [o] ->
  exists new, concat_res (map (connect_in objs p o) (filter is_in_port (tag_from 0 ms))) = Ok new /\
              fst (fst st') = fst (fst st) ++ new.
Proof. exact (step_single_out objs p ms st st' o). Qed.
Print Assumptions C14_connect_step_single_output_partial.

Example C14_connect_example :
  let inner := [(0, Port FOut (Sh 3 false) 5 []); (1, Port FIn (Sh 2 true) (-1) [2%nat])] in
  let x := (false, [(4, Iface FIn true inner []); (2, Port FOut (Sh 1 false) 0 [])]) in
  let objs := [create x [PN 0]; create (sig_flip x) [PN 1]; create (sig_flip x) [PN 2]] in
  connect [create x [PN 0]; create (sig_flip x) [PN 1]] =
    Ok [((1%nat, [PN 2]), (0%nat, [PN 2]));
        ((1%nat, [PN 4; PN 0]), (0%nat, [PN 4; PN 0]));
        ((0%nat, [PN 4; PN 1; PI 0]), (1%nat, [PN 4; PN 1; PI 0]));
        ((0%nat, [PN 4; PN 1; PI 1]), (1%nat, [PN 4; PN 1; PI 1]))] /\
  connect objs = Err ESeveral.
Proof. vm_compute. split; reflexivity. Qed.

(* connect on two compliant interfaces with an array of interfaces: the specification demands the assignment
   arg1.a[i].b <- arg0.a[i].b; the code (and the faithful model) fail in _traverse_path *)
Theorem C14_connect_refuted_array_of_interfaces :
  exists x y, let objs := [create x [PN 0]; create y [PN 1]] in
    is_compliant x (create x [PN 0]) = Ok true /\ is_compliant y (create y [PN 1]) = Ok true /\
    map entry_flow (flat_members y) = map entry_flow (flat_members (sig_flip x)) /\
    connect objs = Err EAttr.
Proof.
  exists (false, [(0, Iface FOut false [(1, Port FOut (Sh 1 false) 0 [])] [2%nat])]),
         (false, [(0, Iface FIn false [(1, Port FOut (Sh 1 false) 0 [])] [2%nat])]).
  vm_compute. repeat split.
Qed.
Print Assumptions C14_connect_refuted_array_of_interfaces.

(* C10 — shape casting and constant normalisation are exact and minimal.
   Only statements here; proofs live in Proofs/ShapeP.v and Proofs/GenEq.v. *)
From Coq Require Import ZArith List Bool.
From V.Model Require Import Bits Shape.
From V.Proofs Require Import BitsP ShapeP GenEq.
From V.Gen Require Utils ShapeGen.
Import ListNotations.
Open Scope Z_scope.

(* --- bit-count helpers --- *)
Theorem C10_ceil_log2_spec n r : Shape.ceil_log2 n = Some r ->
  0 <= r /\ n <= 2 ^ r /\ (forall w, 0 <= w -> n <= 2 ^ w -> r <= w).
Proof. intros H. destruct (ceil_log2_upper n r H). repeat split; auto. intros; eapply ceil_log2_least; eauto. Qed.
Print Assumptions C10_ceil_log2_spec.

Theorem C10_exact_log2_spec n r : Shape.exact_log2 n = Some r <-> (0 <= r /\ n = 2 ^ r).
Proof. split; [apply exact_log2_sound|]. intros [Hr ->]. apply exact_log2_pow2; auto. Qed.
Print Assumptions C10_exact_log2_spec.

Theorem C10_bits_for_unsigned n : 0 < n ->
  in_range (Sh (Shape.bits_for n false) false) n /\
  (forall w, 0 <= w -> n < 2 ^ w -> Shape.bits_for n false <= w).
Proof. intros; split; [apply bits_for_unsigned_fits; auto|intros; apply bits_for_unsigned_least; auto]. Qed.
Print Assumptions C10_bits_for_unsigned.

Theorem C10_bits_for_signed n b : (b = true \/ n <= 0) ->
  in_range (Sh (Shape.bits_for n b) true) n /\ 1 <= Shape.bits_for n b /\
  (forall w, 1 <= w -> - 2 ^ (w - 1) <= n < 2 ^ (w - 1) -> Shape.bits_for n b <= w).
Proof.
  intros H. destruct (bits_for_signed_fits n b H) as [Hf H1]. split; [exact Hf|]. split; [exact H1|].
  intros; apply bits_for_signed_least; auto.
Qed.
Print Assumptions C10_bits_for_signed.

(* --- ranges --- *)
Theorem C10_cast_range_represents a b st v : st <> 0 ->
  range_elem a b st v -> in_range (Shape.cast_range a b st) v.
Proof. exact (cast_range_represents a b st v). Qed.
Print Assumptions C10_cast_range_represents.

Theorem C10_cast_range_minimal a b st s : st <> 0 -> wf_shape s = true ->
  (forall v, range_elem a b st v -> in_range s v) -> width (Shape.cast_range a b st) <= width s.
Proof. exact (cast_range_minimal a b st s). Qed.
Print Assumptions C10_cast_range_minimal.

Theorem C10_cast_range_signed_iff a b st : st <> 0 ->
  sgn (Shape.cast_range a b st) = true <-> exists v, range_elem a b st v /\ v < 0.
Proof. exact (cast_range_signed_iff a b st). Qed.
Print Assumptions C10_cast_range_signed_iff.

Theorem C10_cast_range_empty a b st : range_len a b st = 0 -> Shape.cast_range a b st = Sh 0 false.
Proof. exact (cast_range_empty a b st). Qed.
Print Assumptions C10_cast_range_empty.

Theorem C10_cast_range_wf a b st : wf_shape (Shape.cast_range a b st) = true.
Proof. exact (cast_range_wf a b st). Qed.
Print Assumptions C10_cast_range_wf.

(* non-vacuity: range(-3, 9, 4) = [-3, 1, 5] -> signed(4) *)
Example C10_range_example :
  range_len (-3) 9 4 = 3 /\ Shape.cast_range (-3) 9 4 = Sh 4 true /\ Shape.cast_range 0 1 1 = Sh 0 false.
Proof. vm_compute. repeat split. Qed.

(* --- enumerations: the narrowest shape containing every member's constant shape --- *)
Theorem C10_cast_enum_is_lub ms :
  let l := map const_shape ms in
  cast_enum ms = Shape.unify l /\
  (forall s, In s l -> shape_le s (cast_enum ms)) /\
  (forall t, wf_shape t = true -> (forall s, In s l -> shape_le s t) -> width (cast_enum ms) <= width t) /\
  (sgn (cast_enum ms) = true <-> exists v, In v ms /\ v < 0) /\
  (forall v, In v ms -> in_range (cast_enum ms) v).
Proof.
  intros l. assert (Hwf : Forall (fun s => wf_shape s = true) l).
  { apply Forall_forall. intros s Hs. apply in_map_iff in Hs. destruct Hs as (x & <- & _). apply const_shape_wf. }
  repeat split.
  - apply cast_enum_is_unify.
  - intros s Hs. rewrite cast_enum_is_unify. apply unify_upper; auto.
  - intros t Ht Hall. rewrite cast_enum_is_unify. apply unify_least; auto.
  - apply cast_enum_signed_iff.
  - apply cast_enum_signed_iff.
  - apply cast_enum_represents.
Qed.
Print Assumptions C10_cast_enum_is_lub.

Theorem C10_const_shape_zero : const_shape 0 = Sh 1 false.
Proof. reflexivity. Qed.

(* --- constants --- *)
Theorem C10_const_norm_spec s v : wf_shape s = true ->
  in_range s (const_norm s v) /\ (exists k, const_norm s v = v + k * 2 ^ width s) /\
  (forall r k, in_range s r -> r = v + k * 2 ^ width s -> r = const_norm s v).
Proof.
  intros Hwf. rewrite const_norm_spec by auto. repeat split.
  - apply norm_in_range; auto.
  - apply norm_congr; auto.
  - intros r k Hr He. eapply norm_unique; eauto.
Qed.
Print Assumptions C10_const_norm_spec.

Theorem C10_const_cast_eval e : cwf e = true ->
  const_cast e = (norm (cshape e) (cdenote e), cshape e).
Proof. intros H; apply (const_cast_eval e H). Qed.
Print Assumptions C10_const_cast_eval.

Example C10_const_cast_example :
  const_cast (CSlice (CCat [CConst (-3) (Sh 4 true); CConst 5 (Sh 3 false)]) 2 6) = (7, Sh 4 false).
Proof. vm_compute. reflexivity. Qed.

(* --- the regenerated source equals the hand model (translator units) --- *)
Theorem C10_gen_bits_for n r : Utils.bits_for n r = Some (Shape.bits_for n r).
Proof. exact (bits_for_eq n r). Qed.
Print Assumptions C10_gen_bits_for.
Theorem C10_gen_ceil_log2 n : Utils.ceil_log2 n = Shape.ceil_log2 n.
Proof. exact (ceil_log2_eq n). Qed.
Theorem C10_gen_exact_log2 n : Utils.exact_log2 n = Shape.exact_log2 n.
Proof. exact (exact_log2_eq n). Qed.
Theorem C10_gen_unify l : ShapeGen.unify l = Some (Shape.unify l).
Proof. exact (unify_eq l). Qed.
Theorem C10_gen_cast_range a b st : ShapeGen.cast_range a b st = Some (Shape.cast_range a b st).
Proof. exact (cast_range_eq a b st). Qed.
Theorem C10_gen_enum_step acc m :
  ShapeGen.enum_step (width acc) (sgn acc) m = Some (Shape.enum_step acc m).
Proof. exact (enum_step_eq acc m). Qed.
Theorem C10_gen_const_wrap v s : ShapeGen.const_wrap v s = Some (Shape.const_norm s v).
Proof. exact (const_wrap_eq v s). Qed.
Print Assumptions C10_gen_unify.
Print Assumptions C10_gen_cast_range.
Print Assumptions C10_gen_enum_step.
Print Assumptions C10_gen_const_wrap.

(* C10 — shape casting and constant normalisation are exact and minimal.
   Only statements here; proofs live in Proofs/ShapeP.v and Proofs/GenEq.v. *)
From Coq Require Import ZArith List Bool.
From V.Model Require Import Bits Shape.
From V.Proofs Require Import BitsP ShapeP GenEq.
From V.Gen Require Utils ShapeGen.
Import ListNotations.
Open Scope Z_scope.

(* --- bit-count helpers --- *)
Theorem C10_ceil_log2_spec n r : Shape.ceil_log2 n = Some r ->
  0 <= r /\ n <= 2 ^ r /\ (forall w, 0 <= w -> n <= 2 ^ w -> r <= w).
Proof. intros H. destruct (ceil_log2_upper n r H). repeat split; auto. intros; eapply ceil_log2_least; eauto. Qed.
Print Assumptions C10_ceil_log2_spec.

Theorem C10_exact_log2_spec n r : Shape.exact_log2 n = Some r <-> (0 <= r /\ n = 2 ^ r).
Proof. split; [apply exact_log2_sound|]. intros [Hr ->]. apply exact_log2_pow2; auto. Qed.
Print Assumptions C10_exact_log2_spec.

Theorem C10_bits_for_unsigned n : 0 < n ->
  in_range (Sh (Shape.bits_for n false) false) n /\
  (forall w, 0 <= w -> n < 2 ^ w -> Shape.bits_for n false <= w).
Proof. intros; split; [apply bits_for_unsigned_fits; auto|intros; apply bits_for_unsigned_least; auto]. Qed.
Print Assumptions C10_bits_for_unsigned.

Theorem C10_bits_for_signed n b : (b = true \/ n <= 0) ->
  in_range (Sh (Shape.bits_for n b) true) n /\ 1 <= Shape.bits_for n b /\
  (forall w, 1 <= w -> - 2 ^ (w - 1) <= n < 2 ^ (w - 1) -> Shape.bits_for n b <= w).
Proof.
  intros H. destruct (bits_for_signed_fits n b H) as [Hf H1]. split; [exact Hf|]. split; [exact H1|].
  intros; apply bits_for_signed_least; auto.
Qed.
Print Assumptions C10_bits_for_signed.

(* --- ranges --- *)
Theorem C10_cast_range_represents a b st v : st <> 0 ->
  range_elem a b st v -> in_range (Shape.cast_range a b st) v.
Proof. exact (cast_range_represents a b st v). Qed.
Print Assumptions C10_cast_range_represents.

Theorem C10_cast_range_minimal a b st s : st <> 0 -> wf_shape s = true ->
  (forall v, range_elem a b st v -> in_range s v) -> width (Shape.cast_range a b st) <= width s.
Proof. exact (cast_range_minimal a b st s). Qed.
Print Assumptions C10_cast_range_minimal.

Theorem C10_cast_range_signed_iff a b st : st <> 0 ->
  sgn (Shape.cast_range a b st) = true <-> exists v, range_elem a b st v /\ v < 0.
Proof. exact (cast_range_signed_iff a b st). Qed.
Print Assumptions C10_cast_range_signed_iff.

Theorem C10_cast_range_empty a b st : range_len a b st = 0 -> Shape.cast_range a b st = Sh 0 false.
Proof. exact (cast_range_empty a b st). Qed.
Print Assumptions C10_cast_range_empty.

Theorem C10_cast_range_wf a b st : wf_shape (Shape.cast_range a b st) = true.
Proof. exact (cast_range_wf a b st). Qed.
Print Assumptions C10_cast_range_wf.

(* non-vacuity: range(-3, 9, 4) = [-3, 1, 5] -> signed(4) *)
Example C10_range_example :
  range_len (-3) 9 4 = 3 /\ Shape.cast_range (-3) 9 4 = Sh 4 true /\ Shape.cast_range 0 1 1 = Sh 0 false.
Proof. vm_compute. repeat split. Qed.

(* --- enumerations: the narrowest shape containing every member's constant shape --- *)
Theorem C10_cast_enum_is_lub ms :
  let l := map const_shape ms in
  cast_enum ms = Shape.unify l /\
  (forall s, In s l -> shape_le s (cast_enum ms)) /\
  (forall t, wf_shape t = true -> (forall s, In s l -> shape_le s t) -> width (cast_enum ms) <= width t) /\
  (sgn (cast_enum ms) = true <-> exists v, In v ms /\ v < 0) /\
  (forall v, In v ms -> in_range (cast_enum ms) v).
Proof.
  intros l. assert (Hwf : Forall (fun s => wf_shape s = true) l).
  { apply Forall_forall. intros s Hs. apply in_map_iff in Hs. destruct Hs as (x & <- & _). apply const_shape_wf. }
  repeat split.
  - apply cast_enum_is_unify.
  - intros s Hs. rewrite cast_enum_is_unify. apply unify_upper; auto.
  - intros t Ht Hall. rewrite cast_enum_is_unify. apply unify_least; auto.
  - apply cast_enum_signed_iff.
  - apply cast_enum_signed_iff.
  - apply cast_enum_represents.
Qed.
Print Assumptions C10_cast_enum_is_lub.

Theorem C10_const_shape_zero : const_shape 0 = Sh 1 false.
Proof. reflexivity. Qed.

(* --- constants --- *)
Theorem C10_const_norm_spec s v : wf_shape s = true ->
  in_range s (const_norm s v) /\ (exists k, const_norm s v = v + k * 2 ^ width s) /\
  (forall r k, in_range s r -> r = v + k * 2 ^ width s -> r = const_norm s v).
Proof.
  intros Hwf. rewrite const_norm_spec by auto. repeat split.
  - apply norm_in_range; auto.
  - apply norm_congr; auto.
  - intros r k Hr He. eapply norm_unique; eauto.
Qed.
Print Assumptions C10_const_norm_spec.

Theorem C10_const_cast_eval e : cwf e = true ->
  const_cast e = (norm (cshape e) (cdenote e), cshape e).
Proof. intros H; apply (const_cast_eval e H). Qed.
Print Assumptions C10_const_cast_eval.

Example C10_const_cast_example :
  const_cast (CSlice (CCat [CConst (-3) (Sh 4 true); CConst 5 (Sh 3 false)]) 2 6) = (7, Sh 4 false).
Proof. vm_compute. reflexivity. Qed.

(* --- the regenerated source equals the hand model (translator units) --- *)
Theorem C10_gen_bits_for n r : Utils.bits_for n r = Some (Shape.bits_for n r).
Proof. exact (bits_for_eq n r). Qed.
Print Assumptions C10_gen_bits_for.
Theorem C10_gen_ceil_log2 n : Utils.ceil_log2 n = Shape.ceil_log2 n.
Proof. exact (ceil_log2_eq n). Qed.
Theorem C10_gen_exact_log2 n : Utils.exact_log2 n = Shape.exact_log2 n.
Proof. exact (exact_log2_eq n). Qed.
Theorem C10_gen_unify l : ShapeGen.unify l = Some (Shape.unify l).
Proof. exact (unify_eq l). Qed.
Theorem C10_gen_cast_range a b st : ShapeGen.cast_range a b st = Some (Shape.cast_range a b st).
Proof. exact (cast_range_eq a b st). Qed.
Theorem C10_gen_enum_step acc m :
  ShapeGen.enum_step (width acc) (sgn acc) m = Some (Shape.enum_step acc m).
Proof. exact (enum_step_eq acc m). Qed.
Theorem C10_gen_const_wrap v s : ShapeGen.const_wrap v s = Some (Shape.const_norm s v).
Proof. exact (const_wrap_eq v s). Qed.
Print Assumptions C10_gen_unify.
Print Assumptions C10_gen_cast_range.
Print Assumptions C10_gen_enum_step.
Print Assumptions C10_gen_const_wrap.

(* ================= added after the coverage audit (docs/COVERAGE_AUDIT.md) ================= *)
From V.Model Require Import Cast.
From V.Proofs Require Import CastP.
From Coq Require Import Lia.

(* --- Signal initial values and memory initial rows are wrapped the same way as constants --- *)
(* an int on a Shape: the unique value of the shape's range congruent to it (C10_const_norm_spec) *)
Theorem C10_init_wrapped s v : wf_shape s = true ->
  get_init_value (SShape s) (IInt v) = Ok (norm s v) /\ in_range s (norm s v) /\ exists k, norm s v = v + k * 2 ^ width s.
Proof. intros H. split; [apply init_int_wrapped; auto|split; [apply norm_in_range; auto|apply norm_congr; auto]]. Qed.
Print Assumptions C10_init_wrapped.

(* a Const / Cat / Slice expression as the initial value: its evaluation, wrapped into the signal's shape *)
Theorem C10_init_expr s e : wf_shape s = true -> cwf e = true ->
  get_init_value (SShape s) (IExpr e) = Ok (norm s (norm (cshape e) (cdenote e))).
Proof. exact (init_expr_spec s e). Qed.
Print Assumptions C10_init_expr.

(* a member of an integer enumeration as the initial value *)
Theorem C10_init_enum s ms v : wf_shape s = true -> In v ms ->
  get_init_value (SShape s) (IEnum ms v) = Ok (norm s v).
Proof. exact (init_enum_spec s ms v). Qed.
Print Assumptions C10_init_enum.

(* --- a range-shaped signal (or memory row) accepts exactly the constant-castable initial values (ints, enumeration
   members, Const / Cat / Slice expressions) whose VALUE is an element of the range, and keeps that value unchanged --- *)
Theorem C10_init_range_spec a b st i r : st <> 0 -> i <> INone ->
  get_init_value (SRange a b st) i = Ok r <-> (range_elem a b st (init_const_value i) /\ r = init_const_value i).
Proof. exact (init_range_spec a b st i r). Qed.
Print Assumptions C10_init_range_spec.
Theorem C10_init_range_rejects a b st i : st <> 0 -> i <> INone -> ~ range_elem a b st (init_const_value i) ->
  get_init_value (SRange a b st) i = Err 4.
Proof. exact (init_range_rejects a b st i). Qed.
Print Assumptions C10_init_range_rejects.
(* the value an initialiser stands for: the evaluation of a constant expression, the value of an enumeration member *)
Theorem C10_init_value_expr e : cwf e = true -> init_const_value (IExpr e) = norm (cshape e) (cdenote e).
Proof. exact (init_value_expr e). Qed.
Print Assumptions C10_init_value_expr.
Theorem C10_init_value_enum ms v : In v ms -> init_const_value (IEnum ms v) = v.
Proof. exact (init_value_enum ms v). Qed.
Print Assumptions C10_init_value_enum.
Theorem C10_range_mem_iff a b st v : st <> 0 -> range_mem a b st v = true <-> range_elem a b st v.
Proof. exact (range_mem_iff a b st v). Qed.
Print Assumptions C10_range_mem_iff.

(* non-vacuity (the inputs of the repaired finding C10-range-init-nonint-membership): on range(8), Const(3, 3) and the member
   5 of an Enum are accepted with their values, Const(8, 4) — the non-inclusive end — and Const(9, 4) are rejected *)
Example C10_init_range_example :
  get_init_value (SRange 0 8 1) (IExpr (CConst 3 (Sh 3 false))) = Ok 3 /\
  get_init_value (SRange 0 8 1) (IEnum [1; 5] 5) = Ok 5 /\
  get_init_value (SRange 0 8 1) (IExpr (CCat [CConst 1 (Sh 1 false); CConst 1 (Sh 1 false)])) = Ok 3 /\
  get_init_value (SRange 0 8 1) (IExpr (CConst 8 (Sh 4 false))) = Err 4 /\
  get_init_value (SRange 0 8 1) (IExpr (CConst 9 (Sh 4 false))) = Err 4 /\
  get_init_value (SRange 2 8 1) INone = Ok 0.
Proof. vm_compute. repeat split. Qed.

(* --- memory initial rows: every given row is converted like a signal's initial value, missing rows are 0 --- *)
Theorem C10_mem_init_rows sp depth elems rows : mem_init sp depth elems = Ok rows ->
  Z.of_nat (length rows) = depth /\
  (forall i, (i < length elems)%nat -> get_init_value sp (nth i elems INone) = Ok (nth i rows 0)) /\
  (forall i, (length elems <= i)%nat -> nth i rows 0 = 0).
Proof. exact (mem_init_rows sp depth elems rows). Qed.
Print Assumptions C10_mem_init_rows.
Theorem C10_mem_init_rejects sp depth elems c : mem_init sp depth elems = Err c ->
  depth < 0 \/ depth < Z.of_nat (length elems) \/
  exists i, (i < length elems)%nat /\ get_init_value sp (nth i elems INone) = Err c.
Proof. exact (mem_init_rejects sp depth elems c). Qed.
Print Assumptions C10_mem_init_rejects.

Example C10_mem_init_example :
  mem_init (SShape (Sh 3 true)) 3 [IInt 7; IInt (-9)] = Ok [-1; -1; 0] /\
  mem_init (SRange 0 8 1) 2 [IInt 7; IInt 8] = Err 4 /\
  mem_init (SShape (Sh 4 false)) 1 [IInt 1; IInt 2] = Err 2 /\
  mem_init (SShape (Sh 4 false)) 3 [IExpr (CCat [CConst 1 (Sh 1 false); CConst 1 (Sh 2 false)]); IEnum [1; 5] 5] = Ok [3; 5; 0].
Proof. vm_compute. repeat split. Qed.

(* --- enumeration classes whose members carry their own constant shapes (Const-valued members) --- *)
Theorem C10_cast_enum_shapes_is_unify l : cast_enum_shapes l = Shape.unify l.
Proof. exact (cast_enum_shapes_is_unify l). Qed.
Print Assumptions C10_cast_enum_shapes_is_unify.

(* --- Flag / IntFlag classes: EVERY declared member counts (multi-bit masks and aliases included), so the shape is the
   least upper bound of all member constant shapes exactly as for Enum classes (C10_cast_enum_is_lub) --- *)
Theorem C10_cast_flag_is_lub ms :
  let l := map const_shape ms in
  cast_flag ms = Shape.unify l /\
  (forall s, In s l -> shape_le s (cast_flag ms)) /\
  (forall t, wf_shape t = true -> (forall s, In s l -> shape_le s t) -> width (cast_flag ms) <= width t) /\
  (sgn (cast_flag ms) = true <-> exists v, In v ms /\ v < 0) /\
  (forall v, In v ms -> in_range (cast_flag ms) v /\ const_norm (cast_flag ms) v = v).
Proof.
  intros l. destruct (C10_cast_enum_is_lub ms) as (H1 & H2 & H3 & H4 & H5). fold l in H1, H2, H3.
  unfold cast_flag. repeat split; auto; try (apply H4); try (apply H5; auto).
  rewrite const_norm_spec.
  - apply norm_id; [|apply H5; auto]. rewrite H1. apply unify_wf. apply Forall_forall. intros s Hs. apply in_map_iff in Hs.
    destruct Hs as (x & <- & _). apply const_shape_wf.
  - rewrite H1. apply unify_wf. apply Forall_forall. intros s Hs. apply in_map_iff in Hs.
    destruct Hs as (x & <- & _). apply const_shape_wf.
Qed.
Print Assumptions C10_cast_flag_is_lub.
(* non-vacuity (the input of the repaired finding C10-flag-multibit-member-shape): class F(Flag): A = 1; C = 6 *)
Example C10_cast_flag_example : cast_flag [1; 6] = Sh 3 false /\ const_norm (cast_flag [1; 6]) 6 = 6.
Proof. vm_compute. split; reflexivity. Qed.

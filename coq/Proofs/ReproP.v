(* ReproP.v — proofs about Model/Repro.v (property C09). *)
From Coq Require Import ZArith List Bool Lia Permutation Sorted FinFun.
From V.Model Require Import Repro.
Import ListNotations.
Open Scope Z_scope.

(* ================================================================== strings and the order *)
Lemma name_eqb_eq a b : name_eqb a b = true <-> a = b.
Proof.
  revert b; induction a as [|x a IH]; intros [|y b]; simpl; split; intro H; try congruence; try discriminate.
  - apply andb_true_iff in H as [H1 H2]. apply Z.eqb_eq in H1. apply IH in H2. congruence.
  - inversion H; subst. rewrite Z.eqb_refl. simpl. apply IH. reflexivity.
Qed.
Lemma name_eqb_refl a : name_eqb a a = true.
Proof. apply name_eqb_eq; reflexivity. Qed.
Lemma name_eqb_neq a b : name_eqb a b = false <-> a <> b.
Proof.
  split; intro H.
  - intro E. apply name_eqb_eq in E. congruence.
  - destruct (name_eqb a b) eqn:E; [apply name_eqb_eq in E; contradiction|reflexivity].
Qed.

Lemma mem_In x s : mem x s = true <-> In x s.
Proof.
  induction s as [|y s IH]; simpl; [split; [discriminate|tauto]|].
  rewrite orb_true_iff, IH, name_eqb_eq. split; intros [H|H]; auto.
Qed.
Lemma mem_nIn x s : mem x s = false <-> ~ In x s.
Proof.
  rewrite <- mem_In. destruct (mem x s); split; intro H; congruence.
Qed.

Definition le (a b : name) : Prop := lex_leb a b = true.

Lemma lex_refl a : le a a.
Proof. unfold le; induction a as [|x a IH]; simpl; [reflexivity|]. rewrite Z.ltb_irrefl. exact IH. Qed.

Lemma lex_total a b : le a b \/ le b a.
Proof.
  unfold le; revert b; induction a as [|x a IH]; intros [|y b]; simpl; auto.
  destruct (x <? y) eqn:E1; auto. destruct (y <? x) eqn:E2; auto.
Qed.

Lemma lex_antisym a b : le a b -> le b a -> a = b.
Proof.
  unfold le; revert b; induction a as [|x a IH]; intros [|y b]; simpl; intros H1 H2; try discriminate; auto.
  destruct (x <? y) eqn:E1; destruct (y <? x) eqn:E2; try discriminate.
  - apply Z.ltb_lt in E1. apply Z.ltb_lt in E2. lia.
  - apply Z.ltb_ge in E1. apply Z.ltb_ge in E2. assert (x = y) by lia. subst. f_equal. auto.
Qed.

Lemma lex_trans a b c : le a b -> le b c -> le a c.
Proof.
  unfold le; revert b c; induction a as [|x a IH]; intros [|y b] [|z c]; simpl; intros H1 H2; try discriminate; auto.
  destruct (x <? y) eqn:E1.
  - apply Z.ltb_lt in E1. destruct (y <? z) eqn:E2.
    + apply Z.ltb_lt in E2. assert (E : x <? z = true) by (apply Z.ltb_lt; lia). rewrite E. reflexivity.
    + destruct (z <? y) eqn:E3; [discriminate|]. apply Z.ltb_ge in E2. apply Z.ltb_ge in E3.
      assert (E : x <? z = true) by (apply Z.ltb_lt; lia). rewrite E. reflexivity.
  - destruct (y <? x) eqn:E1'; [discriminate|]. apply Z.ltb_ge in E1. apply Z.ltb_ge in E1'.
    assert (x = y) by lia. subst y.
    destruct (x <? z) eqn:E2; [reflexivity|]. destruct (z <? x) eqn:E3; [discriminate|].
    eapply IH; eauto.
Qed.

(* ================================================================== sorting *)
Lemma insert_perm x l : Permutation (insert x l) (x :: l).
Proof.
  induction l as [|y l IH]; simpl; [reflexivity|].
  destruct (lex_leb x y); [reflexivity|].
  rewrite IH. apply perm_swap.
Qed.

Lemma sort_perm l : Permutation (sort l) l.
Proof.
  induction l as [|x l IH]; simpl; [reflexivity|].
  unfold sort in *. simpl. rewrite insert_perm. constructor. exact IH.
Qed.

Lemma insert_sorted x l : StronglySorted le l -> StronglySorted le (insert x l).
Proof.
  induction 1 as [|y l Hs IH Hall]; simpl.
  - constructor; constructor.
  - destruct (lex_leb x y) eqn:E.
    + constructor; [constructor; assumption|]. constructor; [exact E|].
      eapply Forall_impl; [|exact Hall]. intros z Hz. eapply lex_trans; eauto.
    + constructor; [exact IH|].
      assert (Hyx : le y x) by (destruct (lex_total x y) as [H|H]; [unfold le in H; congruence|exact H]).
      eapply Permutation_Forall; [symmetry; apply insert_perm|]. constructor; assumption.
Qed.

Lemma sort_sorted l : StronglySorted le (sort l).
Proof.
  induction l as [|x l IH]; [constructor|]. unfold sort in *. simpl. apply insert_sorted. exact IH.
Qed.

(* two sorted lists with the same elements are the same list *)
Lemma sorted_perm_eq l : forall l', StronglySorted le l -> StronglySorted le l' -> Permutation l l' -> l = l'.
Proof.
  induction l as [|x l IH]; intros l' Hs Hs' Hp.
  - apply Permutation_nil in Hp. congruence.
  - destruct l' as [|y l']; [apply Permutation_sym, Permutation_nil in Hp; discriminate|].
    inversion Hs as [|? ? Hsl Hall]; subst. inversion Hs' as [|? ? Hsl' Hall']; subst.
    assert (x = y).
    { assert (Hx : In x (y :: l')) by (apply (Permutation_in x Hp); left; reflexivity).
      assert (Hy : In y (x :: l)) by (apply (Permutation_in y (Permutation_sym Hp)); left; reflexivity).
      destruct Hx as [Hx|Hx]; [congruence|]. destruct Hy as [Hy|Hy]; [congruence|].
      rewrite Forall_forall in Hall, Hall'. apply lex_antisym; auto. }
    subst y. f_equal. apply IH; auto. eapply Permutation_cons_inv; exact Hp.
Qed.

(* `sorted` of a set does not depend on the order in which the set is enumerated *)
Lemma sort_perm_eq l l' : Permutation l l' -> sort l = sort l'.
Proof.
  intro Hp. apply sorted_perm_eq; try apply sort_sorted.
  rewrite sort_perm, Hp. symmetry. apply sort_perm.
Qed.

Lemma sort_idem l : sort (sort l) = sort l.
Proof. apply sort_perm_eq, sort_perm. Qed.

(* ================================================================== (1) missing domains *)
Lemma missing_domains_order_independent o o' :
  Permutation o o' ->
  create_missing_sorted o = create_missing_sorted o' /\
  new_ports (create_missing_sorted o) = new_ports (create_missing_sorted o').
Proof.
  intro Hp. unfold create_missing_sorted, created. rewrite (sort_perm_eq o o' Hp). split; reflexivity.
Qed.

(* what is created is exactly the set (minus "comb"), whatever the enumeration *)
Lemma created_sorted_perm o : Permutation (create_missing_sorted o) (filter (fun d => negb (name_eqb d s_comb)) o).
Proof.
  unfold create_missing_sorted, created.
  assert (H : forall (f : name -> bool) a b, Permutation a b -> Permutation (filter f a) (filter f b)).
  { intros f a b Hab. induction Hab; simpl.
    - constructor.
    - destruct (f x); [constructor|]; assumption.
    - destruct (f x); destruct (f y); try reflexivity; apply perm_swap.
    - etransitivity; eassumption. }
  apply H, sort_perm.
Qed.

Definition d_alpha : name := [97; 108; 112; 104; 97].
Definition d_beta : name := [98; 101; 116; 97].

(* F3 (fixed by 7c54fac): without `sorted`, two enumerations of the same set give different port lists *)
Lemma missing_domains_unsorted_refuted :
  exists o o', Permutation o o' /\ new_ports (create_missing_hashed o) <> new_ports (create_missing_hashed o').
Proof.
  exists [d_alpha; d_beta], [d_beta; d_alpha]. split; [apply perm_swap|]. vm_compute. discriminate.
Qed.

(* new_ports is injective enough: the port list determines the order of creation (so the order matters) *)
Lemma new_ports_length ds : length (new_ports ds) = (2 * length ds)%nat.
Proof. induction ds as [|d ds IH]; simpl; [reflexivity|]. rewrite IH. lia. Qed.

(* ================================================================== (2) names *)
Lemma zlen_app {A} (l r : list A) : zlen (l ++ r) = zlen l + zlen r.
Proof. unfold zlen. rewrite app_length. lia. Qed.
Lemma zlen_nonneg {A} (l : list A) : 0 <= zlen l.
Proof. unfold zlen. lia. Qed.

Lemma set_add_In x y s : In y (set_add x s) <-> y = x \/ In y s.
Proof.
  unfold set_add. destruct (mem x s) eqn:E.
  - apply mem_In in E. split; [auto|]. intros [->|H]; assumption.
  - rewrite in_app_iff. simpl. split; intros [H|H]; auto. destruct H as [H|[]]; auto.
Qed.
Lemma set_add_NoDup x s : NoDup s -> NoDup (set_add x s).
Proof.
  intro H. unfold set_add. destruct (mem x s) eqn:E; [exact H|].
  apply mem_nIn in E. apply NoDup_rev in H. rewrite <- (rev_involutive (s ++ [x])).
  apply NoDup_rev. rewrite rev_app_distr. simpl. constructor; [rewrite <- in_rev; exact E|exact H].
Qed.
Lemma set_add_new x s : ~ In x s -> set_add x s = s ++ [x].
Proof. intro H. unfold set_add. apply mem_nIn in H. rewrite H. reflexivity. Qed.

Lemma mem_perm x a b : Permutation a b -> mem x a = mem x b.
Proof.
  intro H. destruct (mem x b) eqn:E.
  - apply mem_In. apply mem_In in E. eapply Permutation_in; [symmetry; exact H|exact E].
  - apply mem_nIn. apply mem_nIn in E. intro H1. apply E. eapply Permutation_in; eauto.
Qed.
Lemma zlen_perm {A} (a b : list A) : Permutation a b -> zlen a = zlen b.
Proof. intro H. unfold zlen. rewrite (Permutation_length H). reflexivity. Qed.
Lemma set_add_perm x a b : Permutation a b -> Permutation (set_add x a) (set_add x b).
Proof.
  intro H. unfold set_add. rewrite (mem_perm x a b H). destruct (mem x b); [exact H|].
  apply Permutation_app_tail. exact H.
Qed.

(* ---- str(n) *)
Definition undec_rev (l : list Z) : Z := fold_right (fun d acc => (d - 48) + 10 * acc) 0 l.

Lemma dec_rev_val fuel : forall n, 0 <= n -> n < Z.of_nat fuel -> undec_rev (dec_rev fuel n) = n.
Proof.
  induction fuel as [|f IH]; intros n H0 Hf; [simpl in Hf; lia|].
  cbn [dec_rev]. destruct (n <? 10) eqn:E.
  - unfold undec_rev. cbn [fold_right]. lia.
  - apply Z.ltb_ge in E. cbn [undec_rev fold_right]. fold (undec_rev (dec_rev f (n / 10))).
    rewrite IH.
    + pose proof (Z.div_mod n 10 ltac:(lia)). lia.
    + apply Z.div_pos; lia.
    + rewrite Nat2Z.inj_succ in Hf. assert (n / 10 < n) by (apply Z.div_lt; lia). lia.
Qed.

Lemma dec_rev_digits fuel : forall n, 0 <= n -> Forall (fun c => 48 <= c <= 57) (dec_rev fuel n).
Proof.
  induction fuel as [|f IH]; intros n H0; [constructor|].
  cbn [dec_rev]. destruct (n <? 10) eqn:E.
  - apply Z.ltb_lt in E. constructor; [lia|constructor].
  - constructor; [pose proof (Z.mod_pos_bound n 10 ltac:(lia)); lia|]. apply IH. apply Z.div_pos; lia.
Qed.

Lemma dec_inj a b : 0 <= a -> 0 <= b -> dec a = dec b -> a = b.
Proof.
  intros Ha Hb H. unfold dec in H.
  assert (H' : dec_rev (S (Z.to_nat a)) a = dec_rev (S (Z.to_nat b)) b).
  { rewrite <- (rev_involutive (dec_rev (S (Z.to_nat a)) a)), H, rev_involutive. reflexivity. }
  rewrite <- (dec_rev_val (S (Z.to_nat a)) a Ha), H', dec_rev_val; auto.
  all: rewrite Nat2Z.inj_succ, Z2Nat.id; lia.
Qed.

Lemma dec_no_dollar k : 0 <= k -> ~ In dollar (dec k).
Proof.
  intros Hk H. unfold dec in H. apply in_rev in H.
  pose proof (dec_rev_digits (S (Z.to_nat k)) k Hk) as F. rewrite Forall_forall in F.
  apply F in H. unfold dollar in H. lia.
Qed.

Lemma app_sep_unique (c : Z) l1 : forall l2 r1 r2,
  ~ In c l1 -> ~ In c l2 -> l1 ++ c :: r1 = l2 ++ c :: r2 -> l1 = l2 /\ r1 = r2.
Proof.
  induction l1 as [|x l1 IH]; intros [|y l2] r1 r2 H1 H2 E; simpl in *.
  - inversion E. auto.
  - inversion E; subst. exfalso. apply H2. left. reflexivity.
  - inversion E; subst. exfalso. apply H1. left. reflexivity.
  - inversion E; subst. destruct (IH l2 r1 r2) as [-> ->]; auto.
Qed.

(* a generated name determines both the base name and the number *)
Lemma dollar_split s s' k k' : 0 <= k -> 0 <= k' ->
  s ++ [dollar] ++ dec k = s' ++ [dollar] ++ dec k' -> s = s' /\ k = k'.
Proof.
  intros Hk Hk' E. apply (f_equal (@rev Z)) in E. rewrite !rev_app_distr in E. simpl in E.
  rewrite <- !app_assoc in E. simpl in E.
  apply app_sep_unique in E.
  - destruct E as [E1 E2]. split.
    + rewrite <- (rev_involutive s), E2, rev_involutive. reflexivity.
    + apply dec_inj; auto. rewrite <- (rev_involutive (dec k)), E1, rev_involutive. reflexivity.
  - rewrite <- in_rev. apply dec_no_dollar; assumption.
  - rewrite <- in_rev. apply dec_no_dollar; assumption.
Qed.

(* ---- _add_name *)
Lemma find_index_sound fuel A n : forall i k, find_index fuel A n i = Some k ->
  i <= k /\ ~ In (n ++ [dollar] ++ dec k) A.
Proof.
  induction fuel as [|f IH]; intros i k H; cbn [find_index] in H; [discriminate|].
  destruct (mem (n ++ [dollar] ++ dec i) A) eqn:E.
  - apply IH in H as [H1 H2]. split; [lia|exact H2].
  - inversion H; subst. split; [lia|apply mem_nIn; exact E].
Qed.

Lemma add_name_spec A n n' A' : add_name A n = Some (n', A') ->
  ~ In n' A /\ A' = A ++ [n'] /\
  (n' = n \/ (In n A /\ exists i, zlen A <= i /\ n' = n ++ [dollar] ++ dec i)).
Proof.
  unfold add_name. destruct (mem n A) eqn:E.
  - destruct (find_index (S (length A)) A n (zlen A)) as [i|] eqn:E2; [|discriminate].
    intro H. inversion H; subst. apply find_index_sound in E2 as [Hi Hn]. apply mem_In in E.
    split; [exact Hn|]. split; [apply set_add_new; exact Hn|]. right. split; [exact E|]. exists i. auto.
  - intro H. inversion H; subst. apply mem_nIn in E. split; [exact E|]. split; [apply set_add_new; exact E|]. left; reflexivity.
Qed.

Lemma add_names_spec ns : forall A out A', add_names A ns = Some (out, A') ->
  A' = A ++ out /\ length out = length ns /\ (NoDup A -> NoDup (A ++ out)).
Proof.
  induction ns as [|n ns IH]; intros A out A' H; simpl in H.
  - inversion H; subst. rewrite app_nil_r. auto.
  - destruct (add_name A n) as [[n' a']|] eqn:E1; [|discriminate].
    destruct (add_names a' ns) as [[o a'']|] eqn:E2; [|discriminate].
    inversion H; subst. apply add_name_spec in E1 as (Hn & -> & _).
    apply IH in E2 as (-> & Hl & Hd). rewrite <- app_assoc. simpl. split; [reflexivity|]. split; [simpl; lia|].
    intro HA. replace (A ++ n' :: o) with ((A ++ [n']) ++ o) by (rewrite <- app_assoc; reflexivity).
    apply Hd. rewrite <- (set_add_new n' A Hn). apply set_add_NoDup. exact HA.
Qed.

Lemma NoDup_app_r {A} (l r : list A) : NoDup (l ++ r) -> NoDup r.
Proof. induction l as [|x l IH]; simpl; [auto|]. intro H. inversion H; auto. Qed.
Lemma NoDup_app_disj {A} (l r : list A) x : NoDup (l ++ r) -> In x r -> ~ In x l.
Proof.
  induction l as [|y l IH]; simpl; [tauto|]. intros H Hr [->|Hl].
  - inversion H as [|? ? Hn]; subst. apply Hn. apply in_or_app. auto.
  - inversion H; subst. apply IH; auto.
Qed.

(* every name handed out by a run of _add_name calls is new and different from all the others *)
Lemma add_names_unique A ns out A' : NoDup A -> add_names A ns = Some (out, A') ->
  NoDup out /\ (forall x, In x out -> ~ In x A) /\ length out = length ns.
Proof.
  intros HA H. apply add_names_spec in H as (-> & Hl & Hd). specialize (Hd HA).
  split; [eapply NoDup_app_r; exact Hd|]. split; [|exact Hl].
  intros x Hx. eapply NoDup_app_disj; eauto.
Qed.

(* assigned_names is a Python set: the result does not depend on how the set is laid out *)
Lemma find_index_perm fuel A B n : Permutation A B -> forall i, find_index fuel A n i = find_index fuel B n i.
Proof.
  intro H. induction fuel as [|f IH]; intro i; cbn [find_index]; [reflexivity|].
  rewrite (mem_perm _ A B H). destruct (mem (n ++ [dollar] ++ dec i) B); [apply IH|reflexivity].
Qed.

Lemma add_name_set_independent A B n : Permutation A B ->
  match add_name A n, add_name B n with
  | Some (x, A'), Some (y, B') => x = y /\ Permutation A' B'
  | None, None => True
  | _, _ => False
  end.
Proof.
  intro H. unfold add_name. rewrite (mem_perm n A B H), (zlen_perm A B H), (Permutation_length H).
  destruct (mem n B).
  - rewrite (find_index_perm _ A B n H). destruct (find_index (S (length B)) B n (zlen B)); [|exact I].
    split; [reflexivity|apply set_add_perm; exact H].
  - split; [reflexivity|apply set_add_perm; exact H].
Qed.

Lemma add_names_set_independent ns : forall A B, Permutation A B ->
  option_map fst (add_names A ns) = option_map fst (add_names B ns).
Proof.
  induction ns as [|n ns IH]; intros A B H; simpl; [reflexivity|].
  pose proof (add_name_set_independent A B n H) as Hn.
  destruct (add_name A n) as [[x A']|]; destruct (add_name B n) as [[y B']|]; try contradiction; [|reflexivity].
  destruct Hn as [-> HP]. specialize (IH A' B' HP).
  destruct (add_names A' ns) as [[o1 a1]|]; destruct (add_names B' ns) as [[o2 a2]|]; simpl in *; congruence.
Qed.

(* ---- the retry loop of _add_name always finds a free index within |assigned| + 1 tries *)
Definition cand (n : name) (i : Z) (k : nat) : name := n ++ [dollar] ++ dec (i + Z.of_nat k).

Lemma cand_injective n i : 0 <= i -> Injective (cand n i).
Proof.
  intros Hi x y E. unfold cand in E. apply dollar_split in E as [_ E]; lia.
Qed.

Lemma free_or_all A n i m :
  (exists k, (k < m)%nat /\ ~ In (cand n i k) A) \/ (forall k, (k < m)%nat -> In (cand n i k) A).
Proof.
  induction m as [|m IH]; [right; intros k Hk; lia|].
  destruct IH as [(k & Hk & Hn)|Hall]; [left; exists k; split; [lia|exact Hn]|].
  destruct (mem (cand n i m) A) eqn:E.
  - right. intros k Hk. destruct (Nat.eq_dec k m) as [->|Hne]; [apply mem_In; exact E|apply Hall; lia].
  - left. exists m. split; [lia|apply mem_nIn; exact E].
Qed.

(* pigeonhole: |A| + 1 distinct candidates cannot all be members of A *)
Lemma exists_free A n i : 0 <= i -> exists k, (k < S (length A))%nat /\ ~ In (cand n i k) A.
Proof.
  intro Hi. destruct (free_or_all A n i (S (length A))) as [H|Hall]; [exact H|exfalso].
  assert (Hd : NoDup (map (cand n i) (seq 0 (S (length A))))).
  { apply Injective_map_NoDup; [apply cand_injective; exact Hi|apply seq_NoDup]. }
  assert (Hincl : incl (map (cand n i) (seq 0 (S (length A)))) A).
  { intros x Hx. apply in_map_iff in Hx as (k & <- & Hk). apply in_seq in Hk. apply Hall. lia. }
  pose proof (NoDup_incl_length Hd Hincl) as HL. rewrite map_length, seq_length in HL. lia.
Qed.

Lemma find_index_total fuel A n : forall i, 0 <= i ->
  (exists k, (k < fuel)%nat /\ ~ In (cand n i k) A) -> exists j, find_index fuel A n i = Some j.
Proof.
  induction fuel as [|f IH]; intros i Hi (k & Hk & Hn); [lia|]. cbn [find_index].
  destruct (mem (n ++ [dollar] ++ dec i) A) eqn:E; [|eexists; reflexivity].
  apply IH; [lia|]. destruct k as [|k].
  - exfalso. apply Hn. unfold cand. rewrite Z.add_0_r. apply mem_In. exact E.
  - exists k. split; [lia|]. unfold cand in *. replace (i + 1 + Z.of_nat k) with (i + Z.of_nat (S k)) by lia. exact Hn.
Qed.

(* _add_name always returns (the fuel |assigned|+1 of the model's loop is never exhausted) *)
Lemma add_name_total A n : exists n' A', add_name A n = Some (n', A').
Proof.
  unfold add_name. destruct (mem n A); [|do 2 eexists; reflexivity].
  destruct (find_index_total (S (length A)) A n (zlen A) (zlen_nonneg A) (exists_free A n (zlen A) (zlen_nonneg A))) as [j E].
  rewrite E. do 2 eexists. reflexivity.
Qed.

Lemma add_names_total ns : forall A, exists out A', add_names A ns = Some (out, A').
Proof.
  induction ns as [|n ns IH]; intro A; simpl; [do 2 eexists; reflexivity|].
  destruct (add_name_total A n) as (n' & A1 & E1). rewrite E1.
  destruct (IH A1) as (out & A2 & E2). rewrite E2. do 2 eexists. reflexivity.
Qed.

(* ---- Design._assign_names for one fragment *)
Definition vals (m : amap) : list name := map snd m.
Definition pname (p : tport) : name := fst (fst (fst p)).

Lemma NoDup_app_iff {A} (l r : list A) :
  NoDup (l ++ r) <-> NoDup l /\ NoDup r /\ (forall x, In x l -> ~ In x r).
Proof.
  induction l as [|y l IH]; simpl.
  - split; [intro H; repeat split; [constructor|exact H|tauto]|tauto].
  - split.
    + intro H. inversion H as [|? ? Hn Hd]; subst. apply IH in Hd as (H1 & H2 & H3).
      split; [constructor; [intro Hy; apply Hn; apply in_or_app; auto|exact H1]|].
      split; [exact H2|]. intros x [->|Hx]; [intro Hr; apply Hn; apply in_or_app; auto|apply H3; exact Hx].
    + intros (H1 & H2 & H3). inversion H1 as [|? ? Hn Hd]; subst. constructor.
      * intro Hy. apply in_app_or in Hy as [Hy|Hy]; [contradiction|]. apply (H3 y); auto.
      * apply IH. repeat split; auto.
Qed.

Lemma vals_aset_In k v m x : In x (vals (aset k v m)) -> x = v \/ In x (vals m).
Proof.
  induction m as [|[k' v'] m IH]; simpl; [intros [H|[]]; auto|].
  destruct (k =? k'); simpl; intros [H|H]; auto. apply IH in H as [H|H]; auto.
Qed.
Lemma vals_aset_NoDup k v m : NoDup (vals m) -> ~ In v (vals m) -> NoDup (vals (aset k v m)).
Proof.
  induction m as [|[k' v'] m IH]; simpl; intros Hd Hn; [constructor; [tauto|constructor]|].
  inversion Hd as [|? ? Hv' Hd']; subst. destruct (k =? k'); simpl.
  - constructor; [tauto|exact Hd'].
  - constructor; [|apply IH; tauto]. intro H. apply vals_aset_In in H as [H|H]; [subst; tauto|contradiction].
Qed.

(* putting a fresh name into the map keeps all names distinct *)
Lemma aset_fresh k v m o : NoDup (vals m ++ o) -> ~ In v (vals m ++ o) -> NoDup (vals (aset k v m) ++ o).
Proof.
  intros Hd Hn. apply NoDup_app_iff in Hd as (H1 & H2 & H3). apply NoDup_app_iff.
  split; [apply vals_aset_NoDup; [exact H1|intro H; apply Hn; apply in_or_app; auto]|].
  split; [exact H2|]. intros x Hx. apply vals_aset_In in Hx as [->|Hx]; [intro H; apply Hn; apply in_or_app; auto|auto].
Qed.

Lemma name_conns_inv private cs : forall a m a' m' o,
  name_conns private a m cs = Some (a', m') ->
  NoDup a -> NoDup (vals m ++ o) -> incl (vals m ++ o) a ->
  NoDup a' /\ NoDup (vals m' ++ o) /\ incl (vals m' ++ o) a' /\ incl a a'.
Proof.
  induction cs as [|[id n] cs IH]; intros a m a' m' o H Ha Hd Hi; simpl in H.
  - inversion H; subst. repeat split; auto. apply incl_refl.
  - destruct (alookup id m); [eapply IH; eauto|].
    destruct (private && name_eqb n []); [eapply IH; eauto|].
    destruct (add_name a n) as [[n' a1]|] eqn:E; [|discriminate].
    apply add_name_spec in E as (Hn & -> & _).
    assert (Hn' : ~ In n' (vals m ++ o)) by (intro Hx; apply Hn, Hi, Hx).
    apply IH with (o := o) in H.
    + destruct H as (H1 & H2 & H3 & H4). repeat split; auto.
      intros x Hx. apply H4. apply in_or_app. auto.
    + rewrite <- (set_add_new n' a Hn). apply set_add_NoDup. exact Ha.
    + apply aset_fresh; assumption.
    + intros x Hx. apply in_app_or in Hx as [Hx|Hx].
      * apply vals_aset_In in Hx as [->|Hx]; [apply in_or_app; right; left; reflexivity|].
        apply in_or_app. left. apply Hi. apply in_or_app. auto.
      * apply in_or_app. left. apply Hi. apply in_or_app. auto.
Qed.

Definition reserve_step (st : list name * amap * amap) (p : tport) : list name * amap * amap :=
  match st, p with
  | (a, sn, ion), (n, id, cn, isio) =>
    let a' := set_add n a in
    if name_eqb cn n then (if isio : bool then (a', sn, aset id n ion) else (a', aset id n sn, ion))
    else (a', sn, ion)
  end.

Lemma reserve_inv tports : forall a sn ion,
  NoDup a -> NoDup (vals sn ++ vals ion) -> incl (vals sn ++ vals ion) a ->
  NoDup (map pname tports) -> (forall x, In x a -> ~ In x (map pname tports)) ->
  match fold_left reserve_step tports (a, sn, ion) with
  | (a', sn', ion') => NoDup a' /\ NoDup (vals sn' ++ vals ion') /\ incl (vals sn' ++ vals ion') a'
  end.
Proof.
  induction tports as [|[[[n id] cn] isio] tports IH]; intros a sn ion Ha Hd Hi Hp Hx; simpl.
  - auto.
  - simpl in Hp. inversion Hp as [|? ? Hn Hp']; subst.
    assert (Hna : ~ In n a) by (intro H; apply (Hx n H); left; reflexivity).
    assert (Hnv : ~ In n (vals sn ++ vals ion)) by (intro H; apply Hna, Hi, H).
    assert (Ha' : NoDup (set_add n a)) by (apply set_add_NoDup; exact Ha).
    assert (Hx' : forall x, In x (set_add n a) -> ~ In x (map pname tports)).
    { intros x H. apply set_add_In in H as [->|H]; [exact Hn|]. intro H1. apply (Hx x H). right. exact H1. }
    assert (Hi' : incl (vals sn ++ vals ion) (set_add n a)).
    { intros x H. apply set_add_In. right. apply Hi, H. }
    unfold pname in *. simpl in *.
    destruct (name_eqb cn n); [destruct isio|]; apply IH; auto.
    + apply NoDup_app_iff. apply NoDup_app_iff in Hd as (H1 & H2 & H3).
      assert (Hd2 : NoDup (vals (aset id n ion) ++ vals sn)).
      { apply aset_fresh.
        - apply NoDup_app_iff. repeat split; auto. intros x H4 H5. exact (H3 x H5 H4).
        - intro H. apply Hnv. apply in_app_or in H. apply in_or_app. tauto. }
      apply NoDup_app_iff in Hd2 as (G1 & G2 & G3). repeat split; auto. intros x H4 H5. exact (G3 x H5 H4).
    + intros x H. apply in_app_or in H as [H|H].
      * apply Hi'. apply in_or_app. auto.
      * apply vals_aset_In in H as [->|H]; [apply set_add_In; auto|apply Hi'; apply in_or_app; auto].
    + apply aset_fresh; assumption.
    + intros x H. apply in_app_or in H as [H|H].
      * apply vals_aset_In in H as [->|H]; [apply set_add_In; auto|apply Hi'; apply in_or_app; auto].
      * apply Hi'. apply in_or_app. auto.
Qed.

Lemma reserve_ports_eq tports : reserve_ports tports = fold_left reserve_step tports ([], [], []).
Proof. reflexivity. Qed.

(* all names given to signals, IO ports and subfragments of one fragment are pairwise distinct *)
Lemma assign_names_unique tports sigs ios subs r :
  NoDup (map pname tports) -> assign_names tports sigs ios subs = Some r ->
  NoDup (vals (nm_signals r) ++ vals (nm_ios r) ++ nm_subs r).
Proof.
  intros Hp H. unfold assign_names in H. rewrite reserve_ports_eq in H.
  assert (R := reserve_inv tports [] [] []).
  specialize (R (NoDup_nil _)). change (vals [] ++ vals []) with (@nil name) in R. specialize (R (NoDup_nil _)).
  assert (R0 : incl (@nil name) []) by (intros x Hx; exact Hx). specialize (R R0 Hp). clear R0.
  assert (R0 : forall x : name, In x [] -> ~ In x (map pname tports)) by (intros x Hx; contradiction).
  specialize (R R0). clear R0.
  destruct (fold_left reserve_step tports _) as [[a0 sn0] ion0]. destruct R as (Ha0 & Hd0 & Hi0).
  destruct (name_conns true a0 sn0 sigs) as [[a1 sn1]|] eqn:E1; [|discriminate].
  apply name_conns_inv with (o := vals ion0) in E1 as (Ha1 & Hd1 & Hi1 & _); auto.
  destruct (name_conns false a1 ion0 ios) as [[a2 ion1]|] eqn:E2; [|discriminate].
  apply name_conns_inv with (o := vals sn1) in E2 as (Ha2 & Hd2 & Hi2 & _); auto.
  2:{ eapply Permutation_NoDup; [apply Permutation_app_comm|exact Hd1]. }
  2:{ intros x Hx. apply Hi1. apply in_app_or in Hx. apply in_or_app. tauto. }
  destruct (add_names a2 (sub_requests 0 subs)) as [[so a3]|] eqn:E3; [|discriminate].
  inversion H; subst; simpl. apply add_names_unique in E3 as (Hs1 & Hs2 & _); auto.
  rewrite app_assoc. apply NoDup_app_iff. split.
  - eapply Permutation_NoDup; [apply Permutation_app_comm|exact Hd2].
  - split; [exact Hs1|]. intros x Hx Hy. apply (Hs2 x Hy). apply Hi2.
    apply in_app_or in Hx. apply in_or_app. tauto.
Qed.

Lemma name_conns_total private cs : forall a m, exists a' m', name_conns private a m cs = Some (a', m').
Proof.
  induction cs as [|[id n] cs IH]; intros a m; simpl; [do 2 eexists; reflexivity|].
  destruct (alookup id m); [apply IH|].
  destruct (private && name_eqb n []); [apply IH|].
  destruct (add_name_total a n) as (n' & a1 & E). rewrite E. apply IH.
Qed.

(* _assign_names always returns, whatever the names (since fix cb9d97a) *)
Lemma assign_names_total tports sigs ios subs : exists r, assign_names tports sigs ios subs = Some r.
Proof.
  unfold assign_names. destruct (reserve_ports tports) as [[a0 sn0] ion0].
  destruct (name_conns_total true sigs a0 sn0) as (a1 & sn1 & E1). rewrite E1.
  destruct (name_conns_total false ios a1 ion0) as (a2 & ion1 & E2). rewrite E2.
  destruct (add_names_total (sub_requests 0 subs) a2) as (out & a3 & E3). rewrite E3. eexists. reflexivity.
Qed.

(* S3: signals named a, a$2, a in one fragment (no ports, no subfragments): the third gets a$3 *)
Definition s3_sigs : list (Z * name) := [(0, [97]); (1, [97; 36; 50]); (2, [97])].
Lemma assign_names_s3 :
  option_map (fun r => vals (nm_signals r)) (assign_names [] s3_sigs [] []) = Some [[97]; [97; 36; 50]; [97; 36; 51]].
Proof. vm_compute. reflexivity. Qed.

(* ---- Design._assign_port_names *)
Lemma port_names_go_unique ports : forall A l,
  NoDup A -> port_names_go A ports = Ok l ->
  let gen := map snd (filter (fun p => match fst (fst p) with None => true | Some _ => false end) (combine ports l)) in
  NoDup gen /\ (forall x, In x gen -> ~ In x A) /\ length l = length ports.
Proof.
  induction ports as [|[[n|] cn] ports IH]; intros A l HA H; simpl in H.
  - inversion H; subst. simpl. repeat split; [constructor|tauto].
  - destruct (port_names_go A ports) as [l'| |] eqn:E; try discriminate. inversion H; subst.
    destruct (IH A l' HA E) as (H1 & H2 & H3). simpl. repeat split; auto.
  - destruct (name_eqb cn []); [discriminate|].
    destruct (add_name A cn) as [[n' a']|] eqn:E1; [|discriminate].
    destruct (port_names_go (set_add n' a') ports) as [l'| |] eqn:E; try discriminate. inversion H; subst.
    apply add_name_spec in E1 as (Hn & -> & _).
    assert (Hs : set_add n' (A ++ [n']) = A ++ [n']).
    { unfold set_add. assert (M : mem n' (A ++ [n']) = true) by (apply mem_In, in_or_app; right; left; reflexivity).
      rewrite M. reflexivity. }
    rewrite Hs in E. assert (HA' : NoDup (A ++ [n'])) by (rewrite <- (set_add_new n' A Hn); apply set_add_NoDup; exact HA).
    destruct (IH _ l' HA' E) as (H1 & H2 & H3). simpl. repeat split; auto.
    + constructor; [|exact H1]. intro Hx. apply (H2 _ Hx). apply in_or_app. right. left. reflexivity.
    + intros x [<-|Hx]; [exact Hn|]. intro Hxa. apply (H2 _ Hx). apply in_or_app. auto.
Qed.

(* ================================================================== (3) build plans *)
Lemma flookup_In k fs c : flookup k fs = Some c -> In (k, c) fs.
Proof.
  induction fs as [|[k' c'] fs IH]; simpl; [discriminate|].
  destruct (name_eqb k k') eqn:E.
  - apply name_eqb_eq in E. intro H. inversion H; subst. left; reflexivity.
  - intro H. right. apply IH, H.
Qed.
Lemma flookup_None k fs : flookup k fs = None -> ~ In k (map fst fs).
Proof.
  induction fs as [|[k' c'] fs IH]; simpl; [tauto|].
  destruct (name_eqb k k') eqn:E; [discriminate|]. apply name_eqb_neq in E.
  intros H [H1|H1]; [congruence|]. exact (IH H H1).
Qed.
Lemma flookup_NoDup k c fs : NoDup (map fst fs) -> In (k, c) fs -> flookup k fs = Some c.
Proof.
  induction fs as [|[k' c'] fs IH]; simpl; [tauto|].
  intros Hd [H|H]; inversion Hd as [|? ? Hn Hd']; subst.
  - inversion H; subst. rewrite name_eqb_refl. reflexivity.
  - destruct (name_eqb k k') eqn:E; [|apply IH; assumption].
    apply name_eqb_eq in E. subst. exfalso. apply Hn. apply (in_map fst) in H. exact H.
Qed.

(* dict lookup does not depend on insertion order *)
Lemma flookup_perm k fs fs' : NoDup (map fst fs) -> Permutation fs fs' -> flookup k fs = flookup k fs'.
Proof.
  intros Hd Hp.
  assert (Hd' : NoDup (map fst fs')) by (eapply Permutation_NoDup; [apply Permutation_map; exact Hp|exact Hd]).
  destruct (flookup k fs) as [c|] eqn:E.
  - symmetry. apply flookup_NoDup; [exact Hd'|]. eapply Permutation_in; [exact Hp|]. apply flookup_In, E.
  - destruct (flookup k fs') as [c'|] eqn:E'; [|reflexivity].
    exfalso. apply flookup_None in E. apply E. apply flookup_In in E'.
    apply (in_map fst) in E'. eapply Permutation_in; [apply Permutation_map; symmetry; exact Hp|exact E'].
Qed.

Lemma members_order_independent fs fs' :
  NoDup (map fst fs) -> Permutation fs fs' -> members fs = members fs'.
Proof.
  intros Hd Hp. unfold members.
  rewrite (sort_perm_eq (map fst fs) (map fst fs')) by (apply Permutation_map; exact Hp).
  apply map_ext. intro k. unfold fcontent. rewrite (flookup_perm k fs fs' Hd Hp). reflexivity.
Qed.

Lemma digest_order_independent fs fs' script :
  NoDup (map fst fs) -> Permutation fs fs' -> digest_input fs script = digest_input fs' script.
Proof. intros Hd Hp. unfold digest_input. rewrite (members_order_independent fs fs' Hd Hp). reflexivity. Qed.

(* the members are exactly the planned files: every file once, with its content, in sorted order *)
Lemma members_keys fs : map fst (members fs) = sort (map fst fs).
Proof. unfold members. rewrite map_map. simpl. apply map_id. Qed.
Lemma members_content fs k b : NoDup (map fst fs) -> In (k, b) (members fs) ->
  exists c, In (k, c) fs /\ b = content_bytes c.
Proof.
  intros Hd H. unfold members in H. apply in_map_iff in H as (k' & E & Hk). inversion E; subst.
  eapply Permutation_in in Hk; [|apply sort_perm]. apply in_map_iff in Hk as ([k2 c] & E2 & Hin). simpl in E2. subst.
  exists c. split; [exact Hin|]. unfold fcontent. rewrite (flookup_NoDup k c fs Hd Hin). reflexivity.
Qed.

(* add_file keeps file names unique, so every plan built by add_file has unique names *)
Lemma add_file_NoDup fs k c fs' : NoDup (map fst fs) -> add_file fs k c = Some fs' -> NoDup (map fst fs').
Proof.
  unfold add_file. intros Hd H. destruct (mem k (map fst fs)) eqn:E; [discriminate|]. inversion H; subst.
  rewrite map_app. simpl. rewrite <- (set_add_new k (map fst fs)) by (apply mem_nIn; exact E).
  apply set_add_NoDup. exact Hd.
Qed.

(* extract() *)
Lemma dwrite_new k b d : ~ In k (map fst d) -> dwrite k b d = d ++ [(k, b)].
Proof.
  induction d as [|[k' b'] d IH]; simpl; [reflexivity|]. intro H.
  destruct (name_eqb k k') eqn:E; [apply name_eqb_eq in E; subst; tauto|]. rewrite IH; tauto.
Qed.
Lemma extract_app fs : forall d, NoDup (map fst d ++ map fst fs) -> extract d fs = d ++ plan_dir fs.
Proof.
  induction fs as [|[k c] fs IH]; intros d Hd; simpl; [rewrite app_nil_r; reflexivity|].
  unfold extract in *. simpl. simpl in Hd.
  assert (Hk : ~ In k (map fst d)).
  { apply NoDup_app_iff in Hd as (_ & _ & H3). intro H. apply (H3 k H). left; reflexivity. }
  rewrite (dwrite_new k _ d Hk). rewrite IH.
  - rewrite <- app_assoc. reflexivity.
  - rewrite map_app. simpl. rewrite <- app_assoc. exact Hd.
Qed.
(* into an empty directory, extract writes exactly the planned files with the planned contents *)
Lemma extract_writes_exactly_plan fs : NoDup (map fst fs) -> extract [] fs = plan_dir fs.
Proof. intro Hd. apply (extract_app fs []). exact Hd. Qed.

(* ================================================================== (4) reset *)
Lemma obs_reset_slot s : obs_slot (reset_slot s) = obs_slot (fresh_slot s).
Proof. destruct s; reflexivity. Qed.
Lemma reset_proc_idem p : reset_proc (reset_proc p) = reset_proc p.
Proof. destruct p; reflexivity. Qed.
Lemma reset_slot_idem s : reset_slot (reset_slot s) = reset_slot s.
Proof. destruct s; reflexivity. Qed.

Lemma reset_restores_init e : observe (reset e) = observe (fresh e).
Proof.
  unfold observe, reset, fresh. simpl. f_equal. rewrite !map_map. apply map_ext. exact obs_reset_slot.
Qed.

Lemma reset_idempotent e : reset (reset e) = reset e.
Proof.
  unfold reset. simpl. rewrite !map_map. f_equal; apply map_ext; auto using reset_slot_idem, reset_proc_idem.
Qed.

(* every signal is back at its initial value and every memory at its initial contents, nothing queued *)
Lemma reset_slots_init e s : In s (e_slots (reset e)) ->
  match s with
  | SSig g => sg_curr g = sg_init g /\ sg_next g = sg_init g
  | SMem m => mm_data m = mm_init m /\ mm_wq m = []
  end.
Proof.
  unfold reset. simpl. intro H. apply in_map_iff in H as (s0 & <- & _). destruct s0; simpl; auto.
Qed.

(* the fields reset() does not touch *)
Definition slot_wakers (s : slot) : Z := match s with SSig g => sg_wakers g | SMem m => mm_wakers m end.
Lemma reset_frame e :
  e_delta (reset e) = e_delta e /\
  map slot_wakers (e_slots (reset e)) = map slot_wakers (e_slots e).
Proof.
  unfold reset. simpl. repeat split. rewrite map_map. apply map_ext. intros []; reflexivity.
Qed.
Lemma reset_clears_active e : e_active (reset e) = [].
Proof. reflexivity. Qed.

(* reset followed by a rerun: for ANY engine step function and output function that read only the
   observed fields, the rerun produces the trace of a fresh simulator *)
Fixpoint trace (step : engine -> engine) (out : engine -> list Z) (n : nat) (e : engine) : list (list Z) :=
  match n with O => [] | S k => out e :: trace step out k (step e) end.

Lemma rerun_same_trace (step : engine -> engine) (out : engine -> list Z) :
  (forall e1 e2, observe e1 = observe e2 -> observe (step e1) = observe (step e2) /\ out e1 = out e2) ->
  forall n e1 e2, observe e1 = observe e2 -> trace step out n e1 = trace step out n e2.
Proof.
  intros Hs. induction n as [|n IH]; intros e1 e2 Ho; simpl; [reflexivity|].
  destruct (Hs e1 e2 Ho) as [H1 H2]. rewrite H2. f_equal. apply IH. exact H1.
Qed.

Lemma reset_rerun_same_trace step out :
  (forall e1 e2, observe e1 = observe e2 -> observe (step e1) = observe (step e2) /\ out e1 = out e2) ->
  forall n e, trace step out n (reset e) = trace step out n (fresh e).
Proof. intros Hs n e. apply rerun_same_trace; [exact Hs|apply reset_restores_init]. Qed.

(* S5 (fixed by 3953703): with no stale trigger the rerun's timeline has exactly the fresh deadlines ... *)
Lemma reset_rerun_same_stops e ws n : stops n (rearm 0 (e_active (reset e)) ws) = stops n ws.
Proof. unfold rearm. simpl. rewrite app_nil_r. reflexivity. Qed.

(* ... whereas the reset() that kept _active_triggers was not a return to the constructor state, and one
   stale delay trigger gives advance() one more stop (delays of 2 and 5 awaited one after the other,
   run stopped at 7, rerun) *)
Definition s5_engine : engine :=
  mkEng [SSig (mkSig 0 1 1 0)] [] 7 [] [] [PAsync false false true false 3 1] 9 [5] true.
Lemma reset_keeping_triggers_refuted :
  exists e ws n, observe (reset_keeping_triggers e) <> observe (fresh e) /\
                 stops n (rearm 0 (e_active (reset_keeping_triggers e)) ws) <> stops n ws.
Proof. exists s5_engine, [2; 4; 7], 4%nat. split; vm_compute; discriminate. Qed.

(* _assign_port_names never runs out of fuel: it returns the names or raises TypeError (private name) *)
Lemma port_names_go_total ports : forall A, port_names_go A ports <> AssertErr.
Proof.
  induction ports as [|[[n|] cn] ports IH]; intro A; simpl; [discriminate| |].
  - specialize (IH A). destruct (port_names_go A ports); congruence.
  - destruct (name_eqb cn []); [discriminate|].
    destruct (add_name_total A cn) as (n' & a' & E). rewrite E.
    specialize (IH (set_add n' a')). destruct (port_names_go (set_add n' a') ports); congruence.
Qed.

(* ================================================================== follow-up: renaming, checked plan operations *)
Lemma rn_nil d : rn [] d = d.
Proof. reflexivity. Qed.
Lemma rename_frag_nil f : rename_frag [] f = f.
Proof.
  revert f. fix IH 1. intros [pre doms used subs]. simpl. rewrite !map_id. f_equal.
  induction subs as [|s subs IHs]; simpl; [reflexivity|]. rewrite IH, IHs. reflexivity.
Qed.

Lemma add_file_checked_ok fs k c fs' : add_file_checked fs k c = FOk fs' ->
  add_file fs k c = Some fs' /\ is_abs k = false.
Proof.
  unfold add_file_checked, add_file. destruct (mem k (map fst fs)); [discriminate|].
  destruct (is_abs k); [discriminate|]. intro H. inversion H. auto.
Qed.

Lemma extract_checked_ok fs : forall d,
  forallb (fun f => negb (is_abs (fst f) || has_dotdot (fst f))) fs = true ->
  extract_checked d fs = Some (extract d fs).
Proof.
  induction fs as [|[k c] fs IH]; intros d H; simpl in *; [reflexivity|].
  apply andb_true_iff in H as [H1 H2]. apply negb_true_iff in H1. rewrite H1. unfold extract in *. simpl. apply IH, H2.
Qed.
Lemma extract_checked_sound fs : forall d d', extract_checked d fs = Some d' -> d' = extract d fs.
Proof.
  induction fs as [|[k c] fs IH]; intros d d' H; simpl in *; [inversion H; reflexivity|].
  destruct (is_abs k || has_dotdot k); [discriminate|]. unfold extract in *. simpl. apply IH, H.
Qed.

(* ================================================================== follow-up: a concrete step for the rerun theorem *)
Lemma obs_slot_eq s1 s2 : obs_slot s1 = obs_slot s2 ->
  match s1, s2 with
  | SSig g1, SSig g2 => sg_init g1 = sg_init g2 /\ sg_curr g1 = sg_curr g2 /\ sg_next g1 = sg_next g2
  | SMem m1, SMem m2 => mm_init m1 = mm_init m2 /\ mm_data m1 = mm_data m2 /\ mm_wq m1 = mm_wq m2
  | _, _ => False
  end.
Proof.
  destruct s1 as [g1|m1], s2 as [g2|m2]; simpl; intro H; inversion H; auto.
Qed.

Lemma commit_slot_obs s1 s2 : obs_slot s1 = obs_slot s2 -> obs_slot (commit_slot s1) = obs_slot (commit_slot s2).
Proof.
  intro H. apply obs_slot_eq in H. destruct s1 as [g1|m1], s2 as [g2|m2]; try contradiction; simpl.
  - destruct H as (-> & _ & ->). reflexivity.
  - destruct H as (-> & -> & ->). reflexivity.
Qed.

Lemma commit_from_obs pend l1 : forall l2 i, map obs_slot l1 = map obs_slot l2 ->
  map obs_slot (commit_from i pend l1) = map obs_slot (commit_from i pend l2).
Proof.
  induction l1 as [|s1 l1 IH]; intros [|s2 l2] i H; simpl in *; try discriminate; [reflexivity|].
  inversion H as [[H1 H2]]. f_equal; [|apply IH; exact H2].
  destruct (existsb (Z.eqb i) pend); [apply commit_slot_obs; exact H1|exact H1].
Qed.

Lemma out_values_obs e1 e2 : observe e1 = observe e2 -> out_values e1 = out_values e2.
Proof.
  unfold observe, out_values. intro H. inversion H as [[Hs Hp Hn Hw Hpr Ht Ha Hr]]. f_equal.
  clear - Hs. revert Hs. generalize (e_slots e2). induction (e_slots e1) as [|s1 l1 IH]; intros [|s2 l2] H;
    simpl in *; try discriminate; [reflexivity|].
  inversion H as [[H1 H2]]. rewrite (IH l2 H2). f_equal.
  apply obs_slot_eq in H1. destruct s1, s2; try contradiction; destruct H1 as (_ & H1 & _); congruence.
Qed.

(* commit + timeline.advance reads only observed fields *)
Lemma step_commit_advance_respects e1 e2 : observe e1 = observe e2 ->
  observe (step_commit_advance e1) = observe (step_commit_advance e2) /\ out_values e1 = out_values e2.
Proof.
  intro H. split; [|apply out_values_obs; exact H].
  unfold observe in H. inversion H as [[Hs Hp Hn Hw Hpr Ht Ha Hr]].
  unfold step_commit_advance. rewrite Hp, Hw.
  pose proof (commit_from_obs (e_pending e2) (e_slots e1) (e_slots e2) 0 Hs) as Hc.
  destruct (nearest (map snd (e_wakers e2))); unfold observe; simpl; rewrite Hc; congruence.
Qed.

Lemma reset_rerun_commit_advance n e :
  trace step_commit_advance out_values n (reset e) = trace step_commit_advance out_values n (fresh e).
Proof. apply reset_rerun_same_trace. exact step_commit_advance_respects. Qed.

(* GenEqDerived.v — the definitions regenerated from hdl/_ast.py (Gen/DerivedGen.v: Mux, Value.__getitem__, __abs__,
   shift_left/right, rotate_left/right, replicate, bit_select, word_select) equal the hand-written model
   (Model/Derived.v) on every input with a well-formed shape. *)
From Coq Require Import ZArith List Bool Lia ZifyBool.
From V.Model Require Import Bits Shape Ast Denote Derived.
From V.Gen Require Import DerivedGen.
Import ListNotations.
Open Scope Z_scope.

Lemma gen_mux_eq sel a b : g_mux sel a b = mk_mux sel a b.
Proof. reflexivity. Qed.

Lemma gen_getitem_int_eq e k : g_getitem_int e k = mk_getitem_int e k.
Proof.
  unfold g_getitem_int, mk_getitem_int, mk_index. destruct (py_in_range k (- ewidth e) (ewidth e)); reflexivity.
Qed.

Lemma opt_map_range e s : forall n a, (forall j, 0 <= j < Z.of_nat n -> 0 <= a + j * s < ewidth e) ->
  opt_map (fun i => match g_getitem_int e i with None => None | Some t => Some t end) (py_range_n a s n)
  = Some (mk_step_slice_n e a s n).
Proof.
  induction n as [|n IH]; intros a H; [reflexivity|].
  cbn [py_range_n opt_map mk_step_slice_n].
  pose proof (H 0 ltac:(lia)) as H0. rewrite Z.mul_0_l, Z.add_0_r in H0.
  unfold g_getitem_int at 1. unfold py_in_range.
  replace ((- ewidth e <=? a) && (a <? ewidth e)) with true by lia. cbn [negb].
  replace (a <? 0) with false by lia.
  rewrite IH; [reflexivity|].
  intros j Hj. specialize (H (j + 1) ltac:(lia)). replace (a + s + j * s) with (a + (j + 1) * s) by ring. exact H.
Qed.

Lemma key_indices_bounds len k a b s : 0 <= len -> py_key_indices len k = Some (a, b, s) ->
  forall j, 0 <= j < range_len a b s -> 0 <= a + j * s < len.
Proof.
  intros Hlen Hk j Hj. unfold py_key_indices in Hk.
  set (st := match kstep k with None => 1 | Some s0 => s0 end) in *.
  destruct (st =? 0) eqn:E0; [discriminate|]. injection Hk as Ha Hb Hs. subst s.
  unfold range_len in Hj. unfold py_adjust in Ha, Hb.
  destruct (st <? 0) eqn:Es.
  - (* negative step: lower = -1, upper = len - 1 *)
    replace (0 <? st) with false in Hj by lia.
    assert (a <= len - 1) as Ha1 by (subst a; destruct (kstart k) as [i|]; [destruct (i <? 0) eqn:Ei|]; lia).
    assert (-1 <= b) as Hb1 by (subst b; destruct (kstop k) as [i|]; [destruct (i <? 0) eqn:Ei|]; lia).
    destruct (b <? a) eqn:Eba; [|lia].
    assert (j * (- st) <= a - b - 1) as Hq.
    { assert (j <= (a - b - 1) / (- st)) as Hle by lia.
      pose proof (Z.mul_div_le (a - b - 1) (- st) ltac:(lia)). nia. }
    nia.
  - replace (0 <? st) with true in Hj by lia.
    assert (0 <= a) as Ha1 by (subst a; destruct (kstart k) as [i|]; [destruct (i <? 0) eqn:Ei|]; lia).
    assert (b <= len) as Hb1 by (subst b; destruct (kstop k) as [i|]; [destruct (i <? 0) eqn:Ei|]; lia).
    destruct (a <? b) eqn:Eab; [|lia].
    assert (j * st <= b - a - 1) as Hq.
    { assert (j <= (b - a - 1) / st) as Hle by lia.
      pose proof (Z.mul_div_le (b - a - 1) st ltac:(lia)). nia. }
    nia.
Qed.

Lemma gen_getitem_slice_eq e k : 0 <= ewidth e -> g_getitem_slice e k = mk_getitem_key e k.
Proof.
  intros Hw. unfold g_getitem_slice, mk_getitem_key.
  destruct (py_key_indices (ewidth e) k) as [[[a b] s]|] eqn:Hk; [|reflexivity].
  destruct (s =? 1) eqn:Es; cbn [negb]; [reflexivity|].
  unfold py_range, mk_step_slice. rewrite opt_map_range; [reflexivity|].
  intros j Hj. apply (key_indices_bounds _ _ _ _ _ Hw Hk).
  lia.
Qed.

Lemma wf_shape_width s : wf_shape s = true -> 0 <= width s.
Proof. unfold wf_shape. destruct (sgn s); lia. Qed.

(* Python slice normalisation for step 1 is norm_index *)
Lemma adjust_norm len i : py_adjust len 0 len 0 (Some i) = norm_index len i /\ py_adjust len 0 len len (Some i) = norm_index len i.
Proof. unfold py_adjust, norm_index. destruct (i <? 0); lia. Qed.

Lemma gen_abs_eq e : wf_shape (shape_of e) = true -> g_abs e = Some (mk_abs e).
Proof.
  intros Hwf. unfold g_abs, mk_abs. destruct (sgn (shape_of e)) eqn:Es; [|reflexivity].
  set (m := g_mux (EOp2 OGe e (mk_const_auto 0)) e (EOp1 ONeg e)).
  assert (Hm : m = mk_mux (EOp2 OGe e (EConst 0 (Sh 1 false))) e (EOp1 ONeg e)) by reflexivity.
  assert (Hwm : ewidth m = ewidth e + 1).
  { unfold m, g_mux, g_mux_opt, ewidth. cbn [shape_of map snd op1_shape].
    unfold ewidth. destruct (shape_of e) as [w sg]. cbn [sgn width] in *. subst sg.
    unfold wf_shape in Hwf. cbn [sgn width] in Hwf.
    unfold unify. cbn [fold_left unify_acc sgn width]. cbn [sgn width]. lia. }
  rewrite gen_getitem_slice_eq by (rewrite Hwm; pose proof (wf_shape_width _ Hwf); unfold ewidth; lia).
  unfold mk_getitem_key, py_key_indices. cbn [kstep kstart kstop]. cbn [Z.eqb Z.ltb Z.compare].
  unfold py_adjust. rewrite Hwm. pose proof (wf_shape_width _ Hwf) as H0. unfold ewidth.
  replace (width (shape_of e) <? 0) with false by lia.
  replace (Z.min (width (shape_of e)) (width (shape_of e) + 1)) with (width (shape_of e)) by lia.
  rewrite Hm. reflexivity.
Qed.

Lemma getitem_from e a : 0 <= ewidth e ->
  g_getitem_slice e (Key (Some a) None None) = Some (ESlice e (norm_index (ewidth e) a) (ewidth e)).
Proof.
  intros Hw. rewrite gen_getitem_slice_eq by exact Hw. unfold mk_getitem_key, py_key_indices.
  cbn [kstep kstart kstop]. cbn [Z.eqb Z.ltb Z.compare]. rewrite (proj1 (adjust_norm _ a)). reflexivity.
Qed.
Lemma getitem_upto e b : 0 <= ewidth e ->
  g_getitem_slice e (Key None (Some b) None) = Some (ESlice e 0 (norm_index (ewidth e) b)).
Proof.
  intros Hw. rewrite gen_getitem_slice_eq by exact Hw. unfold mk_getitem_key, py_key_indices.
  cbn [kstep kstart kstop]. cbn [Z.eqb Z.ltb Z.compare]. rewrite (proj2 (adjust_norm _ b)). reflexivity.
Qed.

Lemma shift_left_nn e n f : 0 <= n -> g_shift_left_body f e n = Some (mk_shift_left e n).
Proof.
  intros Hn. unfold g_shift_left_body, mk_shift_left. replace (n <? 0) with false by lia.
  destruct (sgn (shape_of e)); reflexivity.
Qed.
Lemma shift_right_nn e n f : wf_shape (shape_of e) = true -> 0 <= n ->
  g_shift_right_body f e n = Some (mk_shift_right e n).
Proof.
  intros Hwf Hn. pose proof (wf_shape_width _ Hwf) as Hw.
  unfold g_shift_right_body, mk_shift_right. replace (n <? 0) with false by lia.
  destruct (sgn (shape_of e)) eqn:Es.
  - unfold wf_shape in Hwf. rewrite Es in Hwf.
    set (n' := if ewidth e <=? n then ewidth e - 1 else n).
    assert (0 <= n') by (unfold n', ewidth; destruct (width (shape_of e) <=? n) eqn:E; lia).
    rewrite getitem_from by exact Hw. unfold norm_index. replace (n' <? 0) with false by lia. reflexivity.
  - rewrite getitem_from by exact Hw. unfold norm_index. replace (n <? 0) with false by lia. reflexivity.
Qed.

Lemma gen_shift_left_eq e n : wf_shape (shape_of e) = true -> g_shift_left e n = Some (mk_shl e n).
Proof.
  intros Hwf. unfold g_shift_left, mk_shl. destruct (n <? 0) eqn:E.
  - unfold g_shift_left_body at 1. rewrite E. rewrite shift_right_nn by (try exact Hwf; lia). reflexivity.
  - apply shift_left_nn. lia.
Qed.
Lemma gen_shift_right_eq e n : wf_shape (shape_of e) = true -> g_shift_right e n = Some (mk_shr e n).
Proof.
  intros Hwf. unfold g_shift_right, mk_shr. destruct (n <? 0) eqn:E.
  - unfold g_shift_right_body at 1. rewrite E. rewrite shift_left_nn by lia. reflexivity.
  - apply shift_right_nn; [exact Hwf | lia].
Qed.

Lemma gen_rotate_left_eq e n : 0 <= ewidth e -> g_rotate_left e n = Some (mk_rotate_left e n).
Proof.
  intros Hw. unfold g_rotate_left, mk_rotate_left.
  replace (if negb (ewidth e =? 0) then n mod ewidth e else n) with (if ewidth e =? 0 then n else n mod ewidth e)
    by (destruct (ewidth e =? 0); reflexivity).
  rewrite getitem_from, getitem_upto by exact Hw. reflexivity.
Qed.
Lemma gen_rotate_right_eq e n : 0 <= ewidth e -> g_rotate_right e n = Some (mk_rotate_right e n).
Proof.
  intros Hw. unfold g_rotate_right, mk_rotate_right.
  replace (if negb (ewidth e =? 0) then n mod ewidth e else n) with (if ewidth e =? 0 then n else n mod ewidth e)
    by (destruct (ewidth e =? 0); reflexivity).
  rewrite getitem_from, getitem_upto by exact Hw. reflexivity.
Qed.

Lemma opt_map_const (e : expr) : forall n a s, opt_map (fun _ : Z => Some e) (py_range_n a s n) = Some (repeat e n).
Proof. induction n as [|n IH]; intros a s; [reflexivity|]. cbn [py_range_n opt_map repeat]. rewrite IH. reflexivity. Qed.

Lemma gen_replicate_eq e c : g_replicate e c = if c <? 0 then None else Some (mk_replicate e (Z.to_nat c)).
Proof.
  unfold g_replicate, mk_replicate, py_range. destruct (c <? 0) eqn:E; [reflexivity|].
  rewrite opt_map_const. do 2 f_equal. f_equal. unfold range_len. cbn [Z.ltb Z.compare].
  destruct (0 <? c) eqn:E0; [|lia]. rewrite Z.div_1_r. lia.
Qed.

Lemma gen_bit_select_eq e off w : 0 <= ewidth e -> g_bit_select e off w = mk_bit_select e off w.
Proof.
  intros Hw. unfold g_bit_select, mk_bit_select, g_bit_select_const, g_bit_select_var.
  destruct (const_of off) as [v|]; [|reflexivity].
  destruct (v + w <=? ewidth e); [|reflexivity]. rewrite gen_getitem_slice_eq by exact Hw.
  destruct (mk_getitem_key e _); reflexivity.
Qed.
Lemma gen_word_select_eq e off w : 0 <= ewidth e -> g_word_select e off w = mk_word_select e off w.
Proof.
  intros Hw. unfold g_word_select, mk_word_select, g_word_select_const, g_word_select_var.
  destruct (const_of off) as [v|]; [|reflexivity].
  destruct ((v + 1) * w <=? ewidth e); [|reflexivity]. rewrite gen_getitem_slice_eq by exact Hw.
  destruct (mk_getitem_key e _); reflexivity.
Qed.

(* ---- _normalize_patterns and Value.matches ---- *)
Lemma gen_normalize_pattern_eq sh p : g_normalize_pattern sh p = normalize_pattern sh p.
Proof. destruct p; reflexivity. Qed.
Lemma gen_normalize_patterns_eq sh ps : g_normalize_patterns sh ps = normalize_patterns sh ps.
Proof.
  induction ps as [|p ps IH]; [reflexivity|]. cbn [g_normalize_patterns normalize_patterns].
  rewrite gen_normalize_pattern_eq, IH. reflexivity.
Qed.
Lemma gen_match1_eq e p : g_match1 e p = mk_match1n e p.
Proof. destruct p; reflexivity. Qed.
Lemma gen_matches_eq e raw : g_matches e raw = mk_matches_raw e raw.
Proof.
  unfold g_matches, mk_matches_raw. rewrite gen_normalize_patterns_eq.
  destruct (normalize_patterns (shape_of e) raw) as [l|]; [|reflexivity].
  unfold mk_matches_n, mk_any. rewrite (map_ext _ _ (gen_match1_eq e)). reflexivity.
Qed.

(* CdcP.v — proofs about Model/Cdc.v (C17). *)
From Coq Require Import ZArith List Bool Lia Arith.
From V.Model Require Import Bits Cdc.
From V.Proofs Require Import BitsP.
Import ListNotations.

(* ------------------------------------------------------------------ shift registers as histories *)
(* hist n d smp = the n most recent samples, newest first, padded with the initial value d *)
Definition hist {A} (n : nat) (d : A) (smp : list A) : list A := firstn n (rev smp ++ repeat d n).

Lemma shift_in_length {A} (x : A) l : length (shift_in x l) = length l.
Proof. unfold shift_in. rewrite firstn_length. simpl. lia. Qed.

Lemma hist_length {A} n (d : A) smp : length (hist n d smp) = n.
Proof. unfold hist. rewrite firstn_length, app_length, repeat_length. lia. Qed.

Lemma firstn_cons_firstn {A} n (x : A) L : firstn n (x :: firstn n L) = firstn n (x :: L).
Proof.
  destruct n as [|n]; [reflexivity|].
  change (x :: firstn n (firstn (S n) L) = x :: firstn n L).
  f_equal. rewrite firstn_firstn. f_equal. lia.
Qed.

Lemma shift_in_hist {A} n (d x : A) smp : shift_in x (hist n d smp) = hist n d (smp ++ [x]).
Proof.
  unfold shift_in. rewrite hist_length. unfold hist. rewrite rev_app_distr. simpl.
  apply firstn_cons_firstn.
Qed.

Lemma hist_nil {A} n (d : A) : hist n d [] = repeat d n.
Proof. unfold hist. simpl. apply firstn_all2. rewrite repeat_length. lia. Qed.

Lemma last_nth {A} (l : list A) d : last l d = nth (length l - 1) l d.
Proof.
  induction l as [|a l IH]; [reflexivity|]. destruct l as [|b l]; [reflexivity|].
  change (last (a :: b :: l) d) with (last (b :: l) d). rewrite IH. simpl. rewrite Nat.sub_0_r. reflexivity.
Qed.

Lemma nth_firstn_lt {A} (l : list A) d n k : (k < n)%nat -> nth k (firstn n l) d = nth k l d.
Proof.
  revert l k. induction n as [|n IH]; intros l k Hk; [lia|].
  destruct l as [|a l]; [reflexivity|]. destruct k as [|k]; [reflexivity|]. simpl. apply IH. lia.
Qed.

Lemma last_hist {A} n (d d0 : A) smp : (1 <= n)%nat ->
  last (hist n d smp) d0 = if (length smp <? n)%nat then d else nth (length smp - n) smp d0.
Proof.
  intros Hn. rewrite last_nth, hist_length. unfold hist. rewrite nth_firstn_lt by lia.
  destruct (length smp <? n)%nat eqn:E.
  - apply Nat.ltb_lt in E. rewrite app_nth2; rewrite rev_length; [|lia].
    rewrite (nth_indep _ d0 d); [apply nth_repeat|]. rewrite repeat_length. lia.
  - apply Nat.ltb_ge in E. rewrite app_nth1; [|rewrite rev_length; lia].
    rewrite rev_nth by lia. f_equal. lia.
Qed.

Lemma repeat_snoc {A} (a : A) n : repeat a n ++ [a] = repeat a (S n).
Proof. induction n as [|n IH]; simpl; [reflexivity|]. f_equal. exact IH. Qed.

Lemma rev_repeat {A} (a : A) n : rev (repeat a n) = repeat a n.
Proof.
  induction n as [|n IH]; [reflexivity|]. simpl. rewrite IH. apply repeat_snoc.
Qed.

(* once the last n samples are all t, the register holds t everywhere *)
Lemma hist_flushed {A} n (d t : A) smp k : (n <= k)%nat -> hist n d (smp ++ repeat t k) = repeat t n.
Proof.
  intros Hk. unfold hist. rewrite rev_app_distr, rev_repeat, <- app_assoc.
  replace k with (n + (k - n))%nat by lia. rewrite repeat_app, <- app_assoc.
  rewrite firstn_app, repeat_length, Nat.sub_diag. simpl. rewrite app_nil_r.
  apply firstn_all2. rewrite repeat_length. lia.
Qed.

(* ------------------------------------------------------------------ FFSynchronizer *)
Lemma sampled_length sh i evs : length (sampled sh i evs) = count_oedges evs.
Proof.
  unfold count_oedges. revert i. induction evs as [|e r IH]; intros i; [reflexivity|].
  destruct e; simpl; try rewrite IH; auto.
Qed.

Lemma ff_run_gen sh n d evs : forall i smp,
  fold_left (ff_step sh) evs (FF i (hist n d smp)) =
  FF (input_after sh i evs) (hist n d (smp ++ sampled sh i evs)).
Proof.
  induction evs as [|e r IH]; intros i smp; simpl.
  - rewrite app_nil_r. reflexivity.
  - destruct e; simpl; try apply IH.
    + rewrite shift_in_hist, IH, <- app_assoc. reflexivity.
    + rewrite shift_in_hist, IH, <- app_assoc. reflexivity.
Qed.

Lemma ff_run_hist sh stages init i0 evs :
  ff_run sh stages init i0 evs =
  FF (input_after sh (norm sh i0) evs)
     (hist stages (norm sh (ff_ctor_init init)) (sampled sh (norm sh i0) evs)).
Proof.
  unfold ff_run, ff_start, ff_chain. rewrite <- hist_nil. rewrite ff_run_gen. reflexivity.
Qed.

Lemma ff_sync_latency sh stages init i0 evs : (1 <= stages)%nat ->
  let n := count_oedges evs in
  ff_out (ff_run sh stages init i0 evs) =
  if (n <? stages)%nat then norm sh (ff_ctor_init init)
  else nth (n - stages) (sampled sh (norm sh i0) evs) 0%Z.
Proof.
  intros Hs n. rewrite ff_run_hist. unfold ff_out. simpl. rewrite last_hist by assumption.
  rewrite sampled_length. reflexivity.
Qed.

Lemma norm_zero sh : wf_shape sh = true -> norm sh 0 = 0%Z.
Proof.
  intros Hwf. apply norm_id; [assumption|]. unfold in_range. unfold wf_shape in Hwf.
  destruct (sgn sh).
  - apply Z.leb_le in Hwf. pose proof (pow2_pos (width sh - 1) ltac:(lia)). lia.
  - apply Z.leb_le in Hwf. pose proof (pow2_pos (width sh) Hwf). lia.
Qed.

(* constructed without init= : the output is 0 until the stages-th output edge, whatever the input's
   own initial value i0 is; from then on it is the input (starting with i0 if it was not driven) *)
Lemma ff_default_init sh stages i0 evs : (1 <= stages)%nat -> wf_shape sh = true ->
  let n := count_oedges evs in
  ff_out (ff_run sh stages None i0 evs) =
  if (n <? stages)%nat then 0%Z else nth (n - stages) (sampled sh (norm sh i0) evs) 0%Z.
Proof.
  intros Hs Hwf n. rewrite ff_sync_latency by assumption. cbv zeta. fold n.
  cbn [ff_ctor_init]. rewrite norm_zero by assumption. reflexivity.
Qed.

Lemma count_oedges_app a b : count_oedges (a ++ b) = (count_oedges a + count_oedges b)%nat.
Proof. unfold count_oedges. rewrite filter_app, app_length. reflexivity. Qed.

Lemma sampled_app sh i a b :
  sampled sh i (a ++ b) = sampled sh i a ++ sampled sh (input_after sh i a) b.
Proof.
  revert i. induction a as [|e r IH]; intros i; [reflexivity|].
  destruct e; simpl; rewrite ?IH; reflexivity.
Qed.

Lemma sampled_held sh i evs : input_held evs = true -> sampled sh i evs = repeat i (count_oedges evs).
Proof.
  unfold count_oedges. induction evs as [|e r IH]; intros H; [reflexivity|].
  destruct e; simpl in *; try discriminate; rewrite ?IH; auto.
Qed.

Lemma nth_repeat_lt {A} (a d : A) n k : (k < n)%nat -> nth k (repeat a n) d = a.
Proof. intros H. rewrite (nth_indep _ d a) by (rewrite repeat_length; lia). apply nth_repeat. Qed.

(* a change of the input shows at the output exactly at the stages-th following output edge *)
Lemma ff_change_visible sh stages init i0 evs b tail : (1 <= stages)%nat ->
  input_held tail = true ->
  ff_out (ff_run sh stages init i0 (evs ++ Ein b :: tail)) =
  if (count_oedges tail <? stages)%nat then ff_out (ff_run sh stages init i0 (evs ++ tail))
  else norm sh b.
Proof.
  intros Hs Hh. rewrite !ff_sync_latency by assumption. cbv zeta.
  rewrite !count_oedges_app, !sampled_app.
  change (count_oedges (Ein b :: tail)) with (count_oedges tail).
  change (sampled sh ?i (Ein b :: tail)) with (sampled sh (norm sh b) tail).
  rewrite !(fun i => sampled_held sh i tail Hh).
  set (S0 := sampled sh (norm sh i0) evs). set (k := count_oedges tail).
  assert (HL : length S0 = count_oedges evs) by apply sampled_length.
  set (n0 := count_oedges evs) in *.
  destruct (k <? stages)%nat eqn:Ek.
  - apply Nat.ltb_lt in Ek. destruct (n0 + k <? stages)%nat eqn:En; [reflexivity|].
    apply Nat.ltb_ge in En. rewrite !app_nth1 by lia. reflexivity.
  - apply Nat.ltb_ge in Ek. destruct (n0 + k <? stages)%nat eqn:En.
    + apply Nat.ltb_lt in En. lia.
    + rewrite app_nth2 by lia. apply nth_repeat_lt. lia.
Qed.

(* ------------------------------------------------------------------ AsyncFFSynchronizer *)
Lemma af_reset_hist n smp : af_reset_all (hist n true smp) = hist n true (repeat false 0).
Proof. unfold af_reset_all. rewrite hist_length. symmetry. apply (hist_nil n true). Qed.

Lemma af_run_gen pos n evs : forall i c,
  (af_rst pos i = true -> c = O) ->
  fold_left (af_step pos) evs (AF i (hist n true (repeat false c))) =
  AF (af_input_after i evs) (hist n true (repeat false (rel_edges pos i c evs))).
Proof.
  induction evs as [|e r IH]; intros i c Hc; [reflexivity|].
  destruct e; cbn [fold_left af_step af_in af_flops af_input_after rel_edges]; try (apply IH; assumption).
  - (* Ein *)
    destruct (af_rst pos (Z.odd v)) eqn:E1; destruct (af_rst pos i) eqn:E0; cbn [negb andb].
    + assert (Hc0 : c = O) by auto. subst c. apply IH; auto.
    + rewrite af_reset_hist. apply IH; auto.
    + apply IH; intros; congruence.
    + apply IH; intros; congruence.
  - (* Eo *)
    destruct (af_rst pos i) eqn:E0.
    + rewrite af_reset_hist. apply IH; auto.
    + rewrite shift_in_hist, repeat_snoc. apply IH; intros; congruence.
  - (* Eb *)
    destruct (af_rst pos i) eqn:E0.
    + rewrite af_reset_hist. apply IH; auto.
    + rewrite shift_in_hist, repeat_snoc. apply IH; intros; congruence.
Qed.

Lemma af_out_spec pos stages i0 evs : (1 <= stages)%nat ->
  af_out (af_run pos stages i0 evs) = (rel_edges pos (Z.odd i0) 0 evs <? stages)%nat.
Proof.
  intros Hs. unfold af_run, af_start. rewrite <- (hist_nil stages true).
  change (@nil bool) with (repeat false 0). rewrite af_run_gen by reflexivity.
  unfold af_out. cbn [af_flops]. rewrite last_hist by assumption. rewrite repeat_length.
  destruct (_ <? stages)%nat eqn:E; [reflexivity|]. apply Nat.ltb_ge in E.
  destruct (rel_edges pos (Z.odd i0) 0 evs) as [|c]; [lia|]. apply nth_repeat_lt. lia.
Qed.

Lemma rel_edges_asserted pos evs : forall i c, (af_rst pos i = true -> c = O) ->
  af_rst pos (af_input_after i evs) = true -> rel_edges pos i c evs = O.
Proof.
  induction evs as [|e r IH]; intros i c Hc H; [auto|].
  destruct e; cbn [af_input_after rel_edges] in *; try (apply IH; assumption).
  - apply IH; auto. intros E. rewrite E. reflexivity.
  - apply IH; auto. intros E. rewrite E. reflexivity.
  - apply IH; auto. intros E. rewrite E. reflexivity.
Qed.

Lemma rel_edges_app pos a b : forall i c,
  rel_edges pos i c (a ++ b) = rel_edges pos (af_input_after i a) (rel_edges pos i c a) b.
Proof.
  induction a as [|e r IH]; intros i c; [reflexivity|].
  destruct e; cbn [app af_input_after rel_edges]; apply IH.
Qed.

Lemma af_input_after_app a b i : af_input_after i (a ++ b) = af_input_after (af_input_after i a) b.
Proof. revert i. induction a as [|e r IH]; intros i; [reflexivity|]. destruct e; simpl; apply IH. Qed.

Lemma rel_edges_released pos evs : forall i c, af_rst pos i = false -> af_stays_released pos evs = true ->
  rel_edges pos i c evs = (c + count_oedges evs)%nat.
Proof.
  unfold count_oedges.
  induction evs as [|e r IH]; intros i c Hi H; [simpl; lia|].
  destruct e; cbn [af_stays_released rel_edges filter is_oedge length] in *.
  - apply andb_prop in H. destruct H as [H1 H2]. apply negb_true_iff in H1. rewrite H1. apply IH; auto.
  - rewrite Hi, IH by auto. lia.
  - apply IH; auto.
  - rewrite Hi, IH by auto. lia.
  - apply IH; auto.
Qed.

(* asserted => output 1 at once, whatever the clock does *)
Lemma af_assert_immediate pos stages i0 evs : (1 <= stages)%nat ->
  af_rst pos (af_input_after (Z.odd i0) evs) = true ->
  af_out (af_run pos stages i0 evs) = true.
Proof.
  intros Hs H. rewrite af_out_spec by assumption. rewrite rel_edges_asserted; auto.
  apply Nat.ltb_lt. lia.
Qed.

(* released => output stays 1 for exactly `stages` output edges *)
Lemma af_release_after_stages pos stages i0 evs v tail : (1 <= stages)%nat ->
  af_rst pos (af_input_after (Z.odd i0) evs) = true ->
  af_rst pos (Z.odd v) = false ->
  af_stays_released pos tail = true ->
  af_out (af_run pos stages i0 (evs ++ Ein v :: tail)) = (count_oedges tail <? stages)%nat.
Proof.
  intros Hs Ha Hv Ht. rewrite af_out_spec by assumption. rewrite rel_edges_app.
  rewrite (rel_edges_asserted pos evs) by auto.
  cbn [rel_edges]. rewrite Hv. rewrite rel_edges_released by auto. reflexivity.
Qed.

(* power-on: the flops start at 1, so the output is 1 for the first `stages` edges *)
Lemma af_power_on pos stages i0 evs : (1 <= stages)%nat ->
  af_rst pos (Z.odd i0) = false -> af_stays_released pos evs = true ->
  af_out (af_run pos stages i0 evs) = (count_oedges evs <? stages)%nat.
Proof.
  intros Hs H0 H. rewrite af_out_spec by assumption. rewrite rel_edges_released by auto. reflexivity.
Qed.

(* ------------------------------------------------------------------ PulseSynchronizer *)
Definition bn (b : bool) : nat := if b then 1%nat else 0%nat.

Lemma firstn_len_removelast {A} (t : list A) : forall a, firstn (length t) (a :: t) = removelast (a :: t).
Proof.
  induction t as [|b t IH]; intros a; [reflexivity|].
  change (a :: firstn (length t) (b :: t) = a :: removelast (b :: t)). f_equal. apply IH.
Qed.

Lemma shift_in_cons {A} (x : A) l : l <> [] -> shift_in x l = x :: removelast l.
Proof.
  destruct l as [|a l]; [congruence|]. intros _. unfold shift_in.
  change (x :: firstn (length l) (a :: l) = x :: removelast (a :: l)). f_equal. apply firstn_len_removelast.
Qed.

Lemma diffs_cons2 a b l : diffs (a :: b :: l) = (bn (xorb a b) + diffs (b :: l))%nat.
Proof. reflexivity. Qed.

Lemma diffs_shift chain : forall x, chain <> [] ->
  diffs (x :: chain) =
  (diffs (x :: removelast chain) + bn (xorb (last (x :: removelast chain) false) (last chain false)))%nat.
Proof.
  induction chain as [|c t IH]; intros x Hne; [congruence|].
  destruct t as [|c' t].
  - simpl. unfold bn. destruct (xorb x c); reflexivity.
  - rewrite diffs_cons2. rewrite (IH c) by discriminate.
    change (removelast (c :: c' :: t)) with (c :: removelast (c' :: t)).
    rewrite diffs_cons2.
    change (last (x :: c :: removelast (c' :: t)) false) with (last (c :: removelast (c' :: t)) false).
    change (last (c :: c' :: t) false) with (last (c' :: t) false). lia.
Qed.

Lemma ps_oedge_count t ch : ch <> [] ->
  (bn (xorb (last (shift_in t ch) false) (last ch false)) + diffs (t :: shift_in t ch))%nat = diffs (t :: ch).
Proof.
  intros Hne. rewrite shift_in_cons by assumption. rewrite diffs_cons2, xorb_nilpotent.
  rewrite (diffs_shift ch t Hne). simpl bn. lia.
Qed.

Lemma shift_in_nonempty {A} (x : A) l : l <> [] -> shift_in x l <> [].
Proof. intros H. rewrite shift_in_cons by assumption. discriminate. Qed.

Lemma ps_cons_gen : forall evs s pending,
  ps_chain s <> [] ->
  (pending = false -> hd false (ps_chain s) = ps_itog s) ->
  separated (ps_i s) pending evs = true ->
  (out_cycles s evs + inflight (ps_runfrom s evs) = in_pulses (ps_i s) evs + inflight s)%nat.
Proof.
  induction evs as [|e r IH]; intros [i t ch rr] pending Hne Hhd Hsep; [reflexivity|].
  cbn [ps_chain ps_itog ps_i] in *.
  destruct e; cbn [out_cycles ps_runfrom fold_left ps_step in_pulses separated is_oedge andb
                   ps_chain ps_itog ps_i ps_r ps_otog] in *.
  - (* Ein *)
    specialize (IH (PS (Z.odd v) t ch rr) pending Hne Hhd Hsep). cbn [ps_i] in IH.
    unfold ps_runfrom in IH. unfold inflight in *. cbn [ps_itog ps_chain ps_i] in *. lia.
  - (* Eo *)
    specialize (IH (PS i t (shift_in t ch) (last ch false)) false
                  (shift_in_nonempty t ch Hne)).
    cbn [ps_chain ps_itog ps_i] in IH.
    assert (Hh : false = false -> hd false (shift_in t ch) = t)
      by (intros _; rewrite shift_in_cons by assumption; reflexivity).
    specialize (IH Hh Hsep). unfold ps_runfrom in IH.
    pose proof (ps_oedge_count t ch Hne) as Hc.
    unfold ps_out, ps_otog, inflight in *. cbn [ps_chain ps_itog ps_r] in *.
    fold (bn (xorb (last (shift_in t ch) false) (last ch false))). lia.
  - (* Ei *)
    destruct i.
    + apply andb_prop in Hsep. destruct Hsep as [Hp Hsep]. apply negb_true_iff in Hp.
      specialize (Hhd Hp). destruct ch as [|h tl]; [congruence|]. cbn [hd] in Hhd. subst h.
      specialize (IH (PS true (xorb t true) (t :: tl) rr) true Hne). cbn [ps_chain ps_itog ps_i] in IH.
      assert (Hh : true = false -> hd false (t :: tl) = xorb t true) by discriminate.
      specialize (IH Hh Hsep). unfold ps_runfrom in IH.
      unfold inflight in *. cbn [ps_chain ps_itog] in *.
      rewrite (diffs_cons2 (xorb t true) t tl) in IH. rewrite (diffs_cons2 t t tl).
      rewrite xorb_nilpotent. replace (xorb (xorb t true) t) with true in IH by (destruct t; reflexivity).
      simpl bn in *. lia.
    + rewrite xorb_false_r. specialize (IH (PS false t ch rr) pending Hne Hhd Hsep). cbn [ps_i] in IH.
      unfold ps_runfrom in IH. unfold inflight in *. cbn [ps_itog ps_chain ps_i] in *. lia.
  - (* Eb *)
    specialize (IH (PS i (xorb t i) (shift_in t ch) (last ch false)) i (shift_in_nonempty t ch Hne)).
    cbn [ps_chain ps_itog ps_i] in IH.
    assert (Hh : i = false -> hd false (shift_in t ch) = xorb t i).
    { intros ->. rewrite shift_in_cons by assumption. rewrite xorb_false_r. reflexivity. }
    specialize (IH Hh Hsep). unfold ps_runfrom in IH.
    pose proof (ps_oedge_count t ch Hne) as Hc.
    unfold ps_out, ps_otog, inflight in *. cbn [ps_chain ps_itog ps_r] in *.
    fold (bn (xorb (last (shift_in t ch) false) (last ch false))).
    rewrite shift_in_cons in * by assumption.
    rewrite (diffs_cons2 (xorb t i) t) in IH. rewrite (diffs_cons2 t t) in Hc. rewrite xorb_nilpotent in Hc.
    replace (xorb (xorb t i) t) with i in IH by (destruct t, i; reflexivity).
    fold (bn i). change (bn false) with O in Hc. lia.
  - (* Enop *)
    specialize (IH (PS i t ch rr) pending Hne Hhd Hsep). cbn [ps_i] in IH.
    unfold ps_runfrom in IH. unfold inflight in *. cbn [ps_itog ps_chain ps_i] in *. lia.
Qed.

Lemma diffs_repeat a n : diffs (repeat a n) = O.
Proof.
  induction n as [|n IH]; [reflexivity|]. destruct n as [|n]; [reflexivity|].
  change (repeat a (S (S n))) with (a :: a :: repeat a n). rewrite diffs_cons2, xorb_nilpotent. exact IH.
Qed.

Lemma repeat_nonempty {A} (a : A) n : (1 <= n)%nat -> repeat a n <> [].
Proof. destruct n; [lia|discriminate]. Qed.

(* pulses in = output cycles with o = 1 + pulses still inside the synchroniser *)
Lemma pulse_conservation stages i0 evs : (1 <= stages)%nat ->
  separated (Z.odd i0) false evs = true ->
  (out_cycles (ps_start stages i0) evs + inflight (ps_run stages i0 evs))%nat = in_pulses (Z.odd i0) evs.
Proof.
  intros Hs Hsep. unfold ps_run.
  pose proof (ps_cons_gen evs (ps_start stages i0) false) as H. cbn [ps_start ps_chain ps_itog ps_i] in H.
  rewrite H; auto.
  - unfold inflight. cbn [ps_start ps_chain ps_itog]. change (false :: repeat false stages) with (repeat false (S stages)).
    rewrite diffs_repeat. lia.
  - apply repeat_nonempty; assumption.
  - intros _. destruct stages; [lia|reflexivity].
Qed.

(* the synchroniser chain is the history of i_toggle as sampled by the output edges *)
Lemma ps_run_hist n evs : forall i t smp r,
  let s := ps_runfrom (PS i t (hist n false smp) r) evs in
  ps_i s = af_input_after i evs /\ ps_itog s = toggle_after i t evs /\
  ps_chain s = hist n false (smp ++ tsampled i t evs).
Proof.
  unfold ps_runfrom.
  induction evs as [|e rest IH]; intros i t smp r; cbn zeta.
  - cbn. rewrite app_nil_r. auto.
  - destruct e; cbn [fold_left ps_step af_input_after toggle_after tsampled ps_i ps_itog ps_chain ps_r];
      try apply IH.
    + rewrite shift_in_hist. specialize (IH i t (smp ++ [t]) (ps_otog (PS i t (hist n false smp) r))).
      cbn zeta in IH. rewrite <- app_assoc in IH. exact IH.
    + rewrite shift_in_hist. specialize (IH i (xorb t i) (smp ++ [t]) (ps_otog (PS i t (hist n false smp) r))).
      cbn zeta in IH. rewrite <- app_assoc in IH. exact IH.
Qed.

Lemma in_pulses_app a b i : in_pulses i (a ++ b) = (in_pulses i a + in_pulses (af_input_after i a) b)%nat.
Proof.
  revert i. induction a as [|e r IH]; intros i; [reflexivity|].
  destruct e; cbn [app in_pulses af_input_after]; rewrite ?IH; lia.
Qed.

Lemma toggle_after_app a b i t :
  toggle_after i t (a ++ b) = toggle_after (af_input_after i a) (toggle_after i t a) b.
Proof.
  revert i t. induction a as [|e r IH]; intros i t; [reflexivity|].
  destruct e; cbn [app toggle_after af_input_after]; apply IH.
Qed.

Lemma tsampled_app a b i t :
  tsampled i t (a ++ b) = tsampled i t a ++ tsampled (af_input_after i a) (toggle_after i t a) b.
Proof.
  revert i t. induction a as [|e r IH]; intros i t; [reflexivity|].
  destruct e; cbn [app tsampled toggle_after af_input_after]; rewrite ?IH; reflexivity.
Qed.

Lemma quiet_tail tail : forall i t, in_pulses i tail = O ->
  toggle_after i t tail = t /\ tsampled i t tail = repeat t (count_oedges tail).
Proof.
  unfold count_oedges.
  induction tail as [|e r IH]; intros i t H; [auto|].
  destruct e; cbn [in_pulses toggle_after tsampled filter is_oedge length repeat] in *.
  - apply IH; assumption.
  - destruct (IH i t H) as [H1 H2]. rewrite H1, H2. auto.
  - destruct i; [discriminate|]. rewrite xorb_false_r. apply IH. exact H.
  - destruct i; [discriminate|]. rewrite xorb_false_r. destruct (IH false t H) as [H1 H2]. rewrite H1, H2. auto.
  - apply IH; assumption.
Qed.

(* after `stages` output edges without a new input pulse nothing is in flight any more *)
Lemma pulse_flushed stages i0 evs tail : (1 <= stages)%nat ->
  in_pulses (af_input_after (Z.odd i0) evs) tail = O ->
  (stages <= count_oedges tail)%nat ->
  inflight (ps_run stages i0 (evs ++ tail)) = O.
Proof.
  intros Hs Hq Hk. unfold ps_run, ps_start. rewrite <- (hist_nil stages false).
  destruct (ps_run_hist stages (evs ++ tail) (Z.odd i0) false [] false) as (_ & Ht & Hc).
  unfold inflight. rewrite Ht, Hc. cbn [app].
  rewrite toggle_after_app, tsampled_app.
  destruct (quiet_tail tail _ (toggle_after (Z.odd i0) false evs) Hq) as [H1 H2].
  rewrite H1, H2, hist_flushed by assumption.
  change (?t :: repeat ?t stages) with (repeat t (S stages)). apply diffs_repeat.
Qed.


(* every input pulse has produced exactly one output cycle with o = 1 once the synchroniser is flushed *)
Lemma pulse_conservation_flushed stages i0 evs tail : (1 <= stages)%nat ->
  separated (Z.odd i0) false (evs ++ tail) = true ->
  in_pulses (af_input_after (Z.odd i0) evs) tail = O ->
  (stages <= count_oedges tail)%nat ->
  out_cycles (ps_start stages i0) (evs ++ tail) = in_pulses (Z.odd i0) evs.
Proof.
  intros Hs Hsep Hq Hk.
  pose proof (pulse_conservation stages i0 (evs ++ tail) Hs Hsep) as H.
  rewrite pulse_flushed in H by assumption. rewrite in_pulses_app, Hq in H. lia.
Qed.

(* ------------------------------------------------------------------ PulseSynchronizer: per-cycle latency *)
Lemma nth_hist {A} N (d : A) smp k : (k < N)%nat ->
  nth k (hist N d smp) d = if (k <? length smp)%nat then nth (length smp - S k) smp d else d.
Proof.
  intros Hk. unfold hist. rewrite nth_firstn_lt by assumption.
  destruct (k <? length smp)%nat eqn:E.
  - apply Nat.ltb_lt in E. rewrite app_nth1 by (rewrite rev_length; lia). apply rev_nth. lia.
  - apply Nat.ltb_ge in E. rewrite app_nth2 by (rewrite rev_length; lia). rewrite rev_length.
    apply nth_repeat_lt. lia.
Qed.

Lemma ext_shift (t r : bool) chain : chain <> [] ->
  shift_in t chain ++ [last chain false] = shift_in t (chain ++ [r]).
Proof.
  intros Hne. rewrite shift_in_cons by assumption.
  rewrite shift_in_cons by (destruct chain; discriminate).
  rewrite removelast_last. cbn [app]. f_equal. symmetry. apply app_removelast_last. assumption.
Qed.

(* chain ++ [r_toggle] is a shift register of stages + 1 flops fed by i_toggle *)
Lemma ps_ext_hist n evs : forall i t smp chain r, (1 <= n)%nat -> length chain = n ->
  chain ++ [r] = hist (S n) false smp ->
  let s := ps_runfrom (PS i t chain r) evs in
  ps_chain s ++ [ps_r s] = hist (S n) false (smp ++ tsampled i t evs).
Proof.
  unfold ps_runfrom.
  induction evs as [|e rest IH]; intros i t smp chain r Hn Hl He; cbn zeta.
  - cbn. rewrite app_nil_r. assumption.
  - assert (Hne : chain <> []) by (destruct chain; [simpl in Hl; lia|discriminate]).
    destruct e; cbn [fold_left ps_step tsampled ps_i ps_itog ps_chain ps_r ps_otog];
      try (apply IH; assumption).
    + change (t :: tsampled i t rest) with ([t] ++ tsampled i t rest).
      rewrite app_assoc. apply IH; auto.
      * rewrite shift_in_length. assumption.
      * rewrite (ext_shift t r) by assumption. rewrite He. apply shift_in_hist.
    + change (t :: tsampled i (xorb t i) rest) with ([t] ++ tsampled i (xorb t i) rest).
      rewrite app_assoc. apply IH; auto.
      * rewrite shift_in_length. assumption.
      * rewrite (ext_shift t r) by assumption. rewrite He. apply shift_in_hist.
Qed.

Fixpoint deltas (t0 : bool) (smp : list bool) : list bool :=
  match smp with [] => [] | x :: r => xorb t0 x :: deltas x r end.

Lemma odd_S c : Nat.odd (S c) = negb (Nat.odd c).
Proof. rewrite Nat.odd_succ. symmetry. apply Nat.negb_odd. Qed.

Lemma deltas_slots evs : forall i t c,
  deltas (xorb t (Nat.odd c)) (tsampled i t evs) = map Nat.odd (pulse_slots i c evs).
Proof.
  induction evs as [|e r IH]; intros i t c; [reflexivity|].
  destruct e; cbn [tsampled pulse_slots deltas map].
  - apply IH.
  - f_equal; [destruct t, (Nat.odd c); reflexivity|].
    rewrite <- (IH i t O). cbn. rewrite xorb_false_r. reflexivity.
  - rewrite <- (IH i (xorb t i)). f_equal. destruct i; [rewrite odd_S|]; destruct t, (Nat.odd c); reflexivity.
  - f_equal; [destruct t, (Nat.odd c); reflexivity|].
    rewrite <- (IH i (xorb t i)). f_equal. destruct i, t; reflexivity.
  - apply IH.
Qed.

Lemma nth_deltas smp : forall t0 k, (k < length smp)%nat ->
  nth k (deltas t0 smp) false =
  xorb (match k with O => t0 | S k' => nth k' smp false end) (nth k smp false).
Proof.
  induction smp as [|x r IH]; intros t0 k Hk; [simpl in Hk; lia|].
  destruct k as [|k]; [reflexivity|]. cbn [deltas nth]. rewrite IH by (simpl in Hk; lia).
  destruct k; reflexivity.
Qed.

Lemma tsampled_length i t evs : length (tsampled i t evs) = count_oedges evs.
Proof.
  unfold count_oedges. revert i t. induction evs as [|e r IH]; intros i t; [reflexivity|].
  destruct e; simpl; rewrite ?IH; auto.
Qed.

Lemma pulse_slots_length i c evs : length (pulse_slots i c evs) = count_oedges evs.
Proof.
  unfold count_oedges. revert i c. induction evs as [|e r IH]; intros i c; [reflexivity|].
  destruct e; simpl; rewrite ?IH; auto.
Qed.

(* o during output cycle m (after output edge m) = parity of the input pulses that fell into the
   interval ending at output edge m + 1 - stages *)
Lemma pulse_latency stages i0 evs : (1 <= stages)%nat ->
  ps_out (ps_run stages i0 evs) =
  Nat.odd (slot_at (pulse_slots (Z.odd i0) 0 evs) (count_oedges evs + 1 - stages)).
Proof.
  intros Hs. unfold ps_run, ps_start.
  pose proof (ps_ext_hist stages evs (Z.odd i0) false [] (repeat false stages) false Hs
                (repeat_length false stages)) as H.
  cbn zeta in H. cbn [app] in H.
  assert (H0 : repeat false stages ++ [false] = hist (S stages) false [])
    by (rewrite hist_nil; apply repeat_snoc).
  specialize (H H0). clear H0.
  set (s := ps_runfrom _ evs) in *. set (smp := tsampled (Z.odd i0) false evs) in *.
  assert (Hm : length smp = count_oedges evs) by apply tsampled_length.
  set (m := count_oedges evs) in *.
  assert (Hlen : length (ps_chain s) = stages).
  { apply (f_equal (@length bool)) in H. rewrite app_length, hist_length in H. simpl in H. lia. }
  (* both taps read from the extended register *)
  assert (Ha : last (ps_chain s) false = nth (stages - 1) (hist (S stages) false smp) false).
  { rewrite <- H. rewrite app_nth1 by lia. rewrite last_nth, Hlen. reflexivity. }
  assert (Hb : ps_r s = nth stages (hist (S stages) false smp) false).
  { rewrite <- H. rewrite app_nth2 by lia. rewrite Hlen, Nat.sub_diag. reflexivity. }
  unfold ps_out, ps_otog. rewrite Ha, Hb. rewrite !nth_hist by lia. rewrite Hm.
  pose proof (deltas_slots evs (Z.odd i0) false O) as Hd. cbn in Hd. fold smp in Hd.
  destruct (m + 1 - stages)%nat as [|j'] eqn:Ej.
  - (* fewer than `stages` edges so far *)
    assert (E1 : (stages - 1 <? m)%nat = false) by (apply Nat.ltb_ge; lia).
    assert (E2 : (stages <? m)%nat = false) by (apply Nat.ltb_ge; lia).
    rewrite E1, E2. reflexivity.
  - assert (E1 : (stages - 1 <? m)%nat = true) by (apply Nat.ltb_lt; lia).
    rewrite E1. cbn [slot_at].
    replace (m - S (stages - 1))%nat with j' by lia.
    rewrite <- (map_nth Nat.odd). rewrite <- Hd. rewrite nth_deltas by lia.
    destruct (stages <? m)%nat eqn:E2.
    + apply Nat.ltb_lt in E2. destruct j' as [|j'']; [lia|].
      replace (m - S stages)%nat with j'' by lia. apply xorb_comm.
    + apply Nat.ltb_ge in E2. assert (j' = O) by lia. subst j'. apply xorb_comm.
Qed.

Lemma separated_slots evs : forall i pending, separated i pending evs = true ->
  Forall (fun x => (x <= 1)%nat) (pulse_slots i (bn pending) evs).
Proof.
  induction evs as [|e r IH]; intros i pending H; [constructor|].
  destruct e; cbn [separated pulse_slots] in *.
  - apply IH; assumption.
  - constructor; [destruct pending; simpl; lia|]. apply (IH i false H).
  - destruct i.
    + apply andb_prop in H. destruct H as [Hp H]. apply negb_true_iff in Hp. subst pending.
      apply (IH true true H).
    + apply IH; assumption.
  - constructor; [destruct pending; simpl; lia|].
    specialize (IH i i H). destruct i; exact IH.
  - apply IH; assumption.
Qed.

(* with separated pulses: o = 1 during a cycle iff exactly one pulse fell into the matching interval *)
Lemma pulse_single_cycle stages i0 evs : (1 <= stages)%nat ->
  separated (Z.odd i0) false evs = true ->
  ps_out (ps_run stages i0 evs) =
  (slot_at (pulse_slots (Z.odd i0) 0 evs) (count_oedges evs + 1 - stages) =? 1)%nat.
Proof.
  intros Hs Hsep. rewrite pulse_latency by assumption.
  pose proof (separated_slots evs _ _ Hsep) as HF. cbn [bn] in HF.
  set (sl := pulse_slots (Z.odd i0) 0 evs) in *.
  assert (Hle : forall j, (slot_at sl j <= 1)%nat).
  { intros [|j]; [simpl; lia|]. cbn [slot_at].
    destruct (Nat.lt_ge_cases j (length sl)) as [Hj|Hj].
    - rewrite Forall_forall in HF. apply HF. apply nth_In. assumption.
    - rewrite nth_overflow by assumption. lia. }
  specialize (Hle (count_oedges evs + 1 - stages)%nat).
  destruct (slot_at sl _) as [|[|x]]; [reflexivity|reflexivity|lia].
Qed.

(* ------------------------------------------------------------------ FFSynchronizer under the output domain's reset *)
Lemma ffr_erase_gen sh init async rl evs : forall f r,
  rl = true \/ (r = false /\ rst_never evs = true) ->
  fr_ff (fold_left (ffr_step sh init async rl) evs (FFR f r)) = fold_left (ff_step sh) (erase_rst evs) f.
Proof.
  induction evs as [|e t IH]; intros f r H; [reflexivity|].
  destruct e as [e'|b].
  - assert (Hstep : ffr_step sh init async rl (FFR f r) (Rev e') = FFR (ff_step sh f e') r).
    { destruct e'; try reflexivity; cbn [ffr_step fr_ff fr_rst ffr_process ff_step];
        (destruct H as [->|[-> _]]; [destruct r|]; reflexivity). }
    cbn [fold_left]. rewrite Hstep. cbn [erase_rst flat_map app fold_left]. apply IH.
    destruct H as [H|[Hr Hn]]; [left; exact H|right; split; [exact Hr|exact Hn]].
  - cbn [fold_left ffr_step fr_ff fr_rst erase_rst flat_map app].
    destruct H as [->|[-> Hn]].
    + rewrite !andb_false_r. apply IH. left; auto.
    + destruct b; [discriminate|]. rewrite andb_false_r. cbn [andb]. apply IH. right; auto.
Qed.

(* default flops (reset_less) in ANY output domain, sync or async reset: the reset has no effect *)
Lemma ffr_reset_less_ignores_reset sh stages init async i0 evs :
  fr_ff (ffr_run sh stages init async true i0 evs) = ff_run sh stages init i0 (erase_rst evs).
Proof. unfold ffr_run, ffr_start, ff_run. apply ffr_erase_gen. left; auto. Qed.

(* reset never asserted: any domain kind, resettable or not, behaves as the reset-free model *)
Lemma ffr_no_reset sh stages init async rl i0 evs : rst_never evs = true ->
  fr_ff (ffr_run sh stages init async rl i0 evs) = ff_run sh stages init i0 (erase_rst evs).
Proof. intros H. unfold ffr_run, ffr_start, ff_run. apply ffr_erase_gen. right; auto. Qed.

Lemma ff_chain_length sh n init : length (ff_chain sh n init) = n.
Proof. unfold ff_chain. apply repeat_length. Qed.

Lemma ffr_length sh init async rl evs : forall s,
  length (ff_flops (fr_ff (fold_left (ffr_step sh init async rl) evs s))) = length (ff_flops (fr_ff s)).
Proof.
  induction evs as [|e t IH]; intros s; [reflexivity|]. cbn [fold_left]. rewrite IH.
  destruct s as [[i fl] r]. destruct e as [e'|b].
  - destruct e'; cbn [ffr_step fr_ff fr_rst ff_step ffr_process ff_flops ff_in]; try reflexivity;
      (destruct (r && negb rl); [apply ff_chain_length|apply shift_in_length]).
  - cbn [ffr_step fr_ff fr_rst]. destruct (async && negb r && b && negb rl); [|reflexivity].
    cbn [ff_flops ff_in]. apply ff_chain_length.
Qed.

Lemma ff_latency_from sh n init cur tail : (1 <= n)%nat ->
  ff_out (fold_left (ff_step sh) tail (FF cur (ff_chain sh n init))) =
  if (count_oedges tail <? n)%nat then norm sh (ff_ctor_init init)
  else nth (count_oedges tail - n) (sampled sh cur tail) 0%Z.
Proof.
  intros Hn. unfold ff_chain. rewrite <- hist_nil. rewrite ff_run_gen. unfold ff_out. cbn [ff_flops app].
  rewrite last_hist by assumption. rewrite sampled_length. reflexivity.
Qed.

Lemma fold_left_map_Rev sh init async rl tail : forall f,
  fold_left (ffr_step sh init async rl) (map Rev tail) (FFR f false) =
  FFR (fold_left (ff_step sh) tail f) false.
Proof.
  induction tail as [|e t IH]; intros f; [reflexivity|].
  cbn [map fold_left]. rewrite <- IH. f_equal.
  destruct e; reflexivity.
Qed.

(* resettable flops: an output edge with rst high is a power-up.  After it (rst released, not
   asserted again) the output is init for the next stages - 1 edges, then the input as sampled
   since the reset *)
Lemma ffr_reset_is_power_up sh stages init async i0 evs tail : (1 <= stages)%nat ->
  let s := ffr_run sh stages init async false i0 evs in
  fr_rst s = true ->
  ff_out (fr_ff (ffr_run sh stages init async false i0 (evs ++ Rev Eo :: Rrst false :: map Rev tail))) =
  if (count_oedges tail <? stages)%nat then norm sh (ff_ctor_init init)
  else nth (count_oedges tail - stages) (sampled sh (ff_in (fr_ff s)) tail) 0%Z.
Proof.
  intros Hs s Hr. unfold ffr_run. rewrite fold_left_app. fold (ffr_run sh stages init async false i0 evs). fold s.
  assert (Hl : length (ff_flops (fr_ff s)) = stages).
  { unfold s, ffr_run. rewrite ffr_length. cbn. apply ff_chain_length. }
  destruct s as [[cur fl] r]. cbn [fr_rst fr_ff ff_flops ff_in] in *. subst r.
  cbn [fold_left ffr_step fr_ff fr_rst ffr_process ff_flops ff_in andb negb].
  rewrite !andb_false_r. unfold ffr_process. cbn [ff_flops ff_in andb negb]. rewrite Hl.
  rewrite fold_left_map_Rev. cbn [fr_ff].
  apply ff_latency_from. assumption.
Qed.

(* resettable flops in an async-reset domain: a rise of rst loads init at once, no edge needed *)
Lemma ffr_async_reset_immediate sh stages init i0 evs : (1 <= stages)%nat ->
  fr_rst (ffr_run sh stages init true false i0 evs) = false ->
  ff_out (fr_ff (ffr_run sh stages init true false i0 (evs ++ [Rrst true]))) = norm sh (ff_ctor_init init).
Proof.
  intros Hs Hr. unfold ffr_run. rewrite fold_left_app. fold (ffr_run sh stages init true false i0 evs).
  assert (Hl : length (ff_flops (fr_ff (ffr_run sh stages init true false i0 evs))) = stages).
  { unfold ffr_run. rewrite ffr_length. cbn. apply ff_chain_length. }
  destruct (ffr_run sh stages init true false i0 evs) as [[cur fl] r]. cbn [fr_rst fr_ff ff_flops] in *. subst r.
  cbn [fold_left ffr_step fr_ff fr_rst ff_flops ff_in andb negb]. rewrite Hl.
  unfold ff_out, ff_chain. cbn [ff_flops]. rewrite last_nth, repeat_length. apply nth_repeat_lt. lia.
Qed.

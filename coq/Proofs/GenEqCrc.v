(* GenEqCrc.v — the definitions regenerated from /repo/amaranth/lib/crc/__init__.py by translator/unit_crc.py
   (coq/Gen/CrcGen.v: records Algorithm / Parameters and the functions Algorithm_init, Algorithm_call,
   Parameters_init, Parameters_algorithm, Parameters__reflect, Parameters_compute, Parameters_residue,
   Parameters__matrices) are equal to the hand-written model Model/Crc.v, for all parameters, all data widths and
   all word lists.  A change of the translated source that is not semantics-preserving breaks one of these lemmas.

   Guards.  The generated functions return None where Python raises; the model is total on a few inputs the
   real code never accepts.  Where that matters the guard is stated:
     * _reflect(word, n): 0 <= word, 0 <= n.  (Python: f"{word:0{n}b}" is an invalid format specifier for n < 0 and
       int("...-", 2) raises for word < 0 — gen_reflect_raises proves that the generated function returns None
       there; the model's `reflect` is only ever applied to range-checked words and to register values.)
     * compute: 0 <= crc_width, 0 <= data_width, 0 <= initial_crc — implied by the constructor checks
       (params_ok); for negative widths Python's `1 << n` raises ValueError whereas Z.shiftl shifts right.
     * residue, _matrices: the constructor checks themselves (algo_ok / params_ok): both methods re-run
       Algorithm.__init__ / Parameters.__init__ through `self.algorithm` / `Parameters(algo, data_width)`. *)
From Coq Require Import ZArith List Bool Lia ZifyBool.
From V.Model Require Import Bits Crc.
From V.Proofs Require Import BitsP CrcP.
From V.Gen Require CrcGen.
Import ListNotations.
Open Scope Z_scope.

(* the generated records are the model's parameter record (plus the data width) field by field *)
Definition of_algo (a : algo) : CrcGen.Algorithm :=
  CrcGen.Build_Algorithm (cw a) (poly a) (init a) (refin a) (refout a) (xorout a).
Definition of_params (a : algo) (d : Z) : CrcGen.Parameters :=
  CrcGen.Build_Parameters (cw a) (poly a) (init a) (refin a) (refout a) (xorout a) d.
Definition to_algo (g : CrcGen.Algorithm) : algo :=
  Algo (CrcGen.Algorithm_crc_width g) (CrcGen.Algorithm_polynomial g) (CrcGen.Algorithm_initial_crc g)
       (CrcGen.Algorithm_reflect_input g) (CrcGen.Algorithm_reflect_output g) (CrcGen.Algorithm_xor_output g).

Lemma of_to_algo g : of_algo (to_algo g) = g.
Proof. destruct g; reflexivity. Qed.
Lemma to_of_algo a : to_algo (of_algo a) = a.
Proof. destruct a; reflexivity. Qed.

(* ------------------------------------------------------------------ constructors *)
Lemma gen_Algorithm_init_eq w p i ri ro x :
  CrcGen.Algorithm_init w p i ri ro x =
  if algo_ok (Algo w p i ri ro x) then Some (of_algo (Algo w p i ri ro x)) else None.
Proof.
  unfold CrcGen.Algorithm_init, algo_ok, in_bits, of_algo. cbn [cw poly init refin refout xorout]. cbv zeta.
  destruct (0 <? w); cbn [negb andb]; [|reflexivity].
  destruct ((0 <=? p) && (p <? 2 ^ w)); cbn [negb andb]; [|reflexivity].
  destruct ((0 <=? i) && (i <? 2 ^ w)); cbn [negb andb]; [|reflexivity].
  destruct ((0 <=? x) && (x <? 2 ^ w)); reflexivity.
Qed.

Lemma gen_Parameters_init_eq a d :
  CrcGen.Parameters_init (of_algo a) d = if 0 <? d then Some (of_params a d) else None.
Proof. unfold CrcGen.Parameters_init, of_algo, of_params. cbn. destruct (0 <? d); reflexivity. Qed.

Lemma gen_Algorithm_call_eq a d :
  CrcGen.Algorithm_call (of_algo a) d = if 0 <? d then Some (of_params a d) else None.
Proof. unfold CrcGen.Algorithm_call. rewrite gen_Parameters_init_eq. destruct (0 <? d); reflexivity. Qed.

Lemma gen_Parameters_algorithm_eq a d :
  CrcGen.Parameters_algorithm (of_params a d) = if algo_ok a then Some (of_algo a) else None.
Proof.
  unfold CrcGen.Parameters_algorithm, of_params. cbn [CrcGen.Parameters__crc_width CrcGen.Parameters__polynomial
    CrcGen.Parameters__initial_crc CrcGen.Parameters__reflect_input CrcGen.Parameters__reflect_output
    CrcGen.Parameters__xor_output]. rewrite gen_Algorithm_init_eq. destruct a as [w p i ri ro x]; cbn [cw poly init refin refout xorout].
  match goal with |- context [algo_ok ?a] => destruct (algo_ok a) end; reflexivity.
Qed.

(* the constructor checks are exactly the model's params_ok *)
Lemma gen_constructors_eq a d :
  match CrcGen.Algorithm_init (cw a) (poly a) (init a) (refin a) (refout a) (xorout a) with
  | Some g => CrcGen.Algorithm_call g d
  | None => None
  end = if params_ok a d then Some (of_params a d) else None.
Proof.
  rewrite gen_Algorithm_init_eq. unfold params_ok. destruct a as [w p i ri ro x]; cbn [cw poly init refin refout xorout].
  match goal with |- context [algo_ok ?a] => destruct (algo_ok a) end; cbn [andb]; [|reflexivity].
  apply gen_Algorithm_call_eq.
Qed.

(* ------------------------------------------------------------------ _reflect *)
Lemma of_bits_snoc g k : of_bits g (S k) = of_bits g k + 2 ^ Z.of_nat k * Z.b2z (g k).
Proof.
  revert g. induction k as [|k IH]; intros g.
  - cbn [of_bits]. change (2 ^ Z.of_nat 0) with 1. lia.
  - change (of_bits g (S (S k))) with (Z.b2z (g O) + 2 * of_bits (fun i => g (S i)) (S k)).
    rewrite IH. cbn [of_bits]. rewrite (Nat2Z.inj_succ k), Z.pow_succ_r by lia. lia.
Qed.

Lemma digits_val_bits (f : nat -> bool) k : forall s acc,
  CrcGen.py_digits_val acc (map (fun j => CrcGen.py_bit (f j)) (seq s k)) =
  Some (acc * 2 ^ Z.of_nat k + of_bits (fun i => f (s + (k - 1 - i))%nat) k).
Proof.
  induction k as [|k IH]; intros s acc.
  - cbn. f_equal. lia.
  - rewrite of_bits_snoc. cbn [seq map CrcGen.py_digits_val].
    replace (s + (S k - 1 - k))%nat with s by lia.
    assert (E : of_bits (fun i => f (s + (S k - 1 - i))%nat) k = of_bits (fun i => f (S s + (k - 1 - i))%nat) k).
    { apply of_bits_ext. intros i Hi. f_equal. lia. }
    rewrite E. rewrite Nat2Z.inj_succ, Z.pow_succ_r by lia.
    destruct (f s); cbn [CrcGen.py_bit Z.b2z]; rewrite IH; f_equal; lia.
Qed.

Lemma int2_bits (f : nat -> bool) k : (0 < k)%nat ->
  CrcGen.py_int2 (map (fun j => CrcGen.py_bit (f j)) (seq 0 k)) = Some (of_bits (fun i => f (k - 1 - i)%nat) k).
Proof.
  intros Hk. pose proof (digits_val_bits f k 0%nat 0) as H. cbn [Nat.add] in H. rewrite Z.mul_0_l, Z.add_0_l in H.
  rewrite <- H. destruct k as [|k]; [lia|]. cbn [seq map CrcGen.py_int2]. destruct (f 0%nat); reflexivity.
Qed.

Lemma int2_rev_digits w k : 0 < k -> CrcGen.py_int2 (rev (CrcGen.py_digits w k)) = Some (rev_bits w k).
Proof.
  intros Hk. unfold CrcGen.py_digits. rewrite rev_involutive.
  rewrite (int2_bits (fun j => Z.testbit w (Z.of_nat j))) by lia. f_equal. unfold rev_bits.
  apply of_bits_ext. intros i Hi. f_equal. lia.
Qed.

Lemma bit_length_0_inv w : 0 <= w -> bit_length w = 0 -> w = 0.
Proof.
  intros Hw H. unfold bit_length in H. destruct (w =? 0) eqn:E; [lia|].
  pose proof (Z.log2_nonneg (Z.abs w)). lia.
Qed.

Lemma gen_reflect_eq word n : 0 <= word -> 0 <= n -> CrcGen.Parameters__reflect word n = Some (reflect word n).
Proof.
  intros Hw Hn. unfold CrcGen.Parameters__reflect, CrcGen.py_format_0b, reflect.
  replace (n <? 0) with false by lia. replace (word <? 0) with false by lia.
  rewrite int2_rev_digits by lia. f_equal.
  pose proof (bit_length_nonneg word).
  destruct (Z.eq_dec (Z.max n (bit_length word)) 0) as [E|E].
  - assert (word = 0) by (apply bit_length_0_inv; lia). subst word.
    replace n with 0 by lia. reflexivity.
  - f_equal. lia.
Qed.

(* ... and where the guard fails Python raises ValueError: so does the generated function *)
Lemma digits_val_minus acc l r : CrcGen.py_digits_val acc (map CrcGen.py_bit l ++ CrcGen.Cminus :: r) = None.
Proof. revert acc. induction l as [|b l IH]; intros acc; [reflexivity|]. destruct b; cbn; apply IH. Qed.

Lemma gen_reflect_raises word n : word < 0 \/ n < 0 -> CrcGen.Parameters__reflect word n = None.
Proof.
  intros H. unfold CrcGen.Parameters__reflect, CrcGen.py_format_0b.
  destruct (n <? 0) eqn:En; [reflexivity|]. replace (word <? 0) with true by lia.
  unfold CrcGen.py_digits. cbn [rev]. rewrite rev_involutive, <- map_map.
  set (l := map _ (seq 0 _)). unfold CrcGen.py_int2.
  destruct l as [|b l]; [reflexivity|]. cbn [map app].
  destruct b; cbn [CrcGen.py_bit]; cbn [CrcGen.py_digits_val]; rewrite digits_val_minus; reflexivity.
Qed.

(* ------------------------------------------------------------------ loops *)
Lemma foldM_none {A B} (f : A -> B -> option A) l :
  fold_left (fun oa x => match oa with Some a => f a x | None => None end) l None = None.
Proof. induction l as [|x l IH]; [reflexivity|apply IH]. Qed.

Lemma foldM_cons {A B} (f : A -> B -> option A) x l a :
  CrcGen.py_foldM f (x :: l) a = match f a x with Some a' => CrcGen.py_foldM f l a' | None => None end.
Proof. unfold CrcGen.py_foldM. cbn [fold_left]. destruct (f a x); [reflexivity|apply foldM_none]. Qed.

(* a loop whose body raises exactly on the elements rejected by `ok` *)
Lemma foldM_guard {A B} (f : A -> B -> option A) (ok : B -> bool) (g : A -> B -> A) l :
  (forall a x, f a x = if ok x then Some (g a x) else None) ->
  forall a, CrcGen.py_foldM f l a = if forallb ok l then Some (fold_left g l a) else None.
Proof.
  intros H. induction l as [|x l IH]; intros a; [reflexivity|].
  rewrite foldM_cons, H. cbn [forallb fold_left]. destruct (ok x); [apply IH|reflexivity].
Qed.

Lemma foldM_total {A B} (f : A -> B -> option A) (g : A -> B -> A) l :
  (forall a x, f a x = Some (g a x)) -> forall a, CrcGen.py_foldM f l a = Some (fold_left g l a).
Proof.
  intros H a. rewrite (foldM_guard f (fun _ => true) g) by (intros; apply H).
  replace (forallb (fun _ => true) l) with true; [reflexivity|]. induction l; auto.
Qed.

Lemma fold_ignore_iter {A B} (h : A -> A) (l : list B) x : fold_left (fun c _ => h c) l x = iter (length l) h x.
Proof. revert x. induction l as [|y l IH]; intros x; [reflexivity|]. cbn [fold_left length iter]. apply IH. Qed.

Lemma py_range_length n : length (CrcGen.py_range n) = Z.to_nat n.
Proof. unfold CrcGen.py_range. rewrite map_length, seq_length. reflexivity. Qed.

(* `for _ in range(data_width): if crc & top_bit: crc = (crc << 1) ^ poly_shifted else: crc <<= 1` *)
Lemma inner_loop_eq tb ps d crc :
  CrcGen.py_foldM (fun crc (_ : Z) =>
      if negb (Z.land crc tb =? 0) then Some (Z.lxor (Z.shiftl crc 1) ps) else Some (Z.shiftl crc 1))
    (CrcGen.py_range d) crc = Some (iter (Z.to_nat d) (inner_step tb ps) crc).
Proof.
  rewrite (foldM_total _ (fun c _ => inner_step tb ps c)).
  - rewrite fold_ignore_iter, py_range_length. reflexivity.
  - intros a x. unfold inner_step. destruct (negb (Z.land a tb =? 0)); reflexivity.
Qed.

(* ------------------------------------------------------------------ compute *)
Lemma mask_nonneg k : 0 <= k -> 0 <= Z.shiftl 1 k - 1.
Proof. intros Hk. rewrite shiftl1_pow by lia. pose proof (pow2_pos k Hk). lia. Qed.

Lemma word_update_nonneg a d crc word : 0 <= cw a + d -> 0 <= word_update a d crc word.
Proof. intros H. unfold word_update. cbv zeta. apply Z.land_nonneg. right. apply mask_nonneg. exact H. Qed.

Lemma compute_reg_nonneg a d data : 0 <= cw a + d -> 0 <= init a -> 0 <= compute_reg a d data.
Proof.
  intros H Hi. unfold compute_reg.
  assert (G : forall l x, 0 <= x -> 0 <= fold_left (word_update a d) l x).
  { induction l as [|w l IH]; intros x Hx; [exact Hx|]. cbn [fold_left]. apply IH. apply word_update_nonneg, H. }
  apply G. apply Z.shiftl_nonneg. exact Hi.
Qed.

Lemma gen_compute_eq a d data : 0 <= cw a -> 0 <= d -> 0 <= init a ->
  CrcGen.Parameters_compute (of_params a d) data = compute a d data.
Proof.
  intros Hw Hd Hi. unfold CrcGen.Parameters_compute, of_params.
  cbn [CrcGen.Parameters__crc_width CrcGen.Parameters__polynomial CrcGen.Parameters__initial_crc
       CrcGen.Parameters__reflect_input CrcGen.Parameters__reflect_output CrcGen.Parameters__xor_output
       CrcGen.Parameters_data_width]. cbv zeta.
  rewrite (foldM_guard _ (word_ok d) (word_update a d)).
  - unfold compute. destruct (forallb (word_ok d) data); [|reflexivity].
    unfold compute_raw. fold (compute_reg a d data).
    assert (0 <= Z.shiftr (compute_reg a d data) d)
      by (apply Z.shiftr_nonneg, compute_reg_nonneg; lia).
    destruct (refout a); [rewrite gen_reflect_eq by lia|]; reflexivity.
  - intros crc word. unfold word_ok, word_update. cbv zeta.
    destruct ((0 <=? word) && (word <=? Z.shiftl 1 d - 1)) eqn:E; cbn [negb]; [|reflexivity].
    destruct (refin a); [rewrite gen_reflect_eq by lia|]; rewrite inner_loop_eq; reflexivity.
Qed.

(* under the constructor checks *)
Lemma gen_compute_ok a d data : params_ok a d = true ->
  CrcGen.Parameters_compute (of_params a d) data = compute a d data.
Proof.
  intros H. unfold params_ok in H. apply andb_prop in H. destruct H as [Ha Hd].
  destruct (algo_ok_spec a Ha) as (Hw & Hp & Hi & Hx). apply gen_compute_eq; lia.
Qed.

(* ------------------------------------------------------------------ residue *)
Ltac gen_proj := cbn [of_params of_algo
  CrcGen.Parameters__crc_width CrcGen.Parameters__polynomial CrcGen.Parameters__initial_crc
  CrcGen.Parameters__reflect_input CrcGen.Parameters__reflect_output CrcGen.Parameters__xor_output
  CrcGen.Parameters_data_width CrcGen.Algorithm_crc_width CrcGen.Algorithm_polynomial CrcGen.Algorithm_initial_crc
  CrcGen.Algorithm_reflect_input CrcGen.Algorithm_reflect_output CrcGen.Algorithm_xor_output].

Lemma call_build w p i ri ro x d :
  CrcGen.Algorithm_call (CrcGen.Build_Algorithm w p i ri ro x) d =
  if 0 <? d then Some (of_params (Algo w p i ri ro x) d) else None.
Proof. exact (gen_Algorithm_call_eq (Algo w p i ri ro x) d). Qed.

Lemma init_build w p i ri ro x d :
  CrcGen.Parameters_init (CrcGen.Build_Algorithm w p i ri ro x) d =
  if 0 <? d then Some (of_params (Algo w p i ri ro x) d) else None.
Proof. exact (gen_Parameters_init_eq (Algo w p i ri ro x) d). Qed.

Lemma reflect_nonneg x n : 0 <= reflect x n.
Proof. unfold reflect, rev_bits. apply of_bits_range. Qed.

Lemma compute_single a d x : word_ok d x = true -> compute a d [x] = Some (compute_raw a d [x]).
Proof. intros H. unfold compute. cbn [forallb]. rewrite H. reflexivity. Qed.

Lemma word_ok_0 d : 0 <= d -> word_ok d 0 = true.
Proof. intros H. unfold word_ok. pose proof (mask_nonneg d H). lia. Qed.

Lemma gen_residue_eq a d : algo_ok a = true -> CrcGen.Parameters_residue (of_params a d) = Some (residue a).
Proof.
  intros Ha. destruct (algo_ok_spec a Ha) as (Hw & Hp & Hi & Hx).
  unfold CrcGen.Parameters_residue, residue. rewrite gen_Parameters_algorithm_eq, Ha. gen_proj.
  destruct (refout a); [rewrite gen_reflect_eq by lia|]; cbv zeta; gen_proj;
    rewrite call_build; (replace (0 <? cw a) with true by lia); cbv beta iota;
    (rewrite gen_compute_eq by (cbn [cw init]; try lia; apply reflect_nonneg));
    (rewrite compute_single by (apply word_ok_0; lia)); reflexivity.
Qed.

(* ------------------------------------------------------------------ _matrices *)
(* the matrices as Python builds them: lists of lists of the integers 0 / 1 *)
Definition zrows (m : list (list bool)) : list (list Z) := map (map Z.b2z) m.

Lemma compute_build w p i ri ro x d data : 0 <= w -> 0 <= d -> 0 <= i ->
  CrcGen.Parameters_compute (CrcGen.Build_Parameters w p i ri ro x d) data = compute (Algo w p i ri ro x) d data.
Proof. intros. apply (gen_compute_eq (Algo w p i ri ro x) d data); assumption. Qed.

(* [int(x) for x in reversed(f"{w:0{n}b}")] *)
Lemma mapM_int_bits (f : nat -> bool) l :
  CrcGen.py_mapM (fun x => match CrcGen.py_int_char x with Some t => Some t | None => None end)
    (map (fun j => CrcGen.py_bit (f j)) l) = Some (map (fun j => Z.b2z (f j)) l).
Proof. induction l as [|j l IH]; [reflexivity|]. cbn [map CrcGen.py_mapM]. rewrite IH. destruct (f j); reflexivity. Qed.

Lemma format_in_range w n : 0 < n -> 0 <= w < 2 ^ n -> CrcGen.py_format_0b w n = Some (CrcGen.py_digits w n).
Proof.
  intros Hn Hw. unfold CrcGen.py_format_0b.
  replace (n <? 0) with false by lia. replace (w <? 0) with false by lia.
  pose proof (bit_length_min w n ltac:(lia) ltac:(lia) ltac:(lia)).
  replace (Z.max n (Z.max 1 (bit_length w))) with n by lia. reflexivity.
Qed.

Lemma mapM_rev_digits w n :
  CrcGen.py_mapM (fun x => match CrcGen.py_int_char x with Some t => Some t | None => None end)
    (rev (CrcGen.py_digits w n)) = Some (map Z.b2z (bits_lsb w n)).
Proof.
  unfold CrcGen.py_digits. rewrite rev_involutive.
  rewrite (mapM_int_bits (fun j => Z.testbit w (Z.of_nat j))). unfold bits_lsb. rewrite map_map. reflexivity.
Qed.

Lemma unit_raw_range w p i d x : 0 <= w -> 0 <= d -> 0 <= compute_raw (Algo w p i false false 0) d [x] < 2 ^ w.
Proof.
  intros Hw Hd. unfold compute_raw, compute_reg. cbn [refout xorout cw init fold_left]. rewrite Z.lxor_0_r.
  unfold word_update. cbv zeta. cbn [cw]. set (y := iter _ _ _).
  rewrite shiftl1_pow by lia. replace (2 ^ (w + d) - 1) with (Z.ones (w + d)) by (rewrite Z.ones_equiv; lia).
  rewrite Z.land_ones by lia. rewrite Z.shiftr_div_pow2 by lia.
  pose proof (Z.mod_pos_bound y (2 ^ (w + d)) ltac:(apply pow2_pos; lia)) as Hm.
  set (m := y mod 2 ^ (w + d)) in *. rewrite Z.pow_add_r in Hm by lia. pose proof (pow2_pos d Hd). pose proof (pow2_pos w Hw).
  split; [apply Z.div_pos; lia|apply Z.div_lt_upper_bound; lia].
Qed.

(* a loop that appends one row per index and overwrites one field of the Parameters object it carries *)
Lemma loop_rows {St : Type} (B : list (list Z) * St -> Z -> option (list (list Z) * St)) (row : nat -> list Z)
    (P : Z -> St) (nxt : nat -> Z) (N : nat) :
  (forall f0 x j, (j < N)%nat -> B (f0, P x) (Z.of_nat j) = Some (f0 ++ [row j], P (nxt j))) ->
  forall n s f0 x, (s + n <= N)%nat ->
  exists x', CrcGen.py_foldM B (map Z.of_nat (seq s n)) (f0, P x) = Some (f0 ++ map row (seq s n), P x').
Proof.
  intros HB. induction n as [|n IH]; intros s f0 x Hs.
  - exists x. cbn. rewrite app_nil_r. reflexivity.
  - cbn [seq map]. rewrite foldM_cons, HB by lia.
    destruct (IH (S s) (f0 ++ [row s]) (nxt s) ltac:(lia)) as [x' E]. exists x'. rewrite E, <- app_assoc. reflexivity.
Qed.

Lemma word_ok_pow2 d j : (j < Z.to_nat d)%nat -> word_ok d (2 ^ Z.of_nat j) = true.
Proof.
  intros Hj. unfold word_ok. rewrite shiftl1_pow by lia.
  pose proof (Z.pow_lt_mono_r 2 (Z.of_nat j) d ltac:(lia) ltac:(lia) ltac:(lia)).
  pose proof (pow2_pos (Z.of_nat j) ltac:(lia)). lia.
Qed.

Lemma gen_matrices_eq a d : params_ok a d = true ->
  CrcGen.Parameters__matrices (of_params a d) = Some (zrows (fst (matrices a d)), zrows (snd (matrices a d))).
Proof.
  intros H. unfold params_ok in H. apply andb_prop in H. destruct H as [Ha Hd].
  destruct (algo_ok_spec a Ha) as (Hw & Hp & Hi & Hx).
  unfold CrcGen.Parameters__matrices. rewrite gen_Parameters_algorithm_eq, Ha. cbv zeta. gen_proj.
  rewrite init_build, Hd. cbv beta iota. unfold CrcGen.py_range.
  set (P := fun x => of_params (Algo (cw a) (poly a) x false false 0) d).
  set (rowF := fun j => map Z.b2z (bits_lsb (compute_raw (Algo (cw a) (poly a) (2 ^ Z.of_nat j) false false 0) d [0]) (cw a))).
  set (rowG := fun j => map Z.b2z (bits_lsb (compute_raw (Algo (cw a) (poly a) 0 false false 0) d [2 ^ Z.of_nat j]) (cw a))).
  change (of_params (Algo (cw a) (poly a) (init a) false false 0) d) with (P (init a)).
  match goal with |- context [CrcGen.py_foldM ?B (map Z.of_nat (seq 0 (Z.to_nat (cw a)))) _] =>
    destruct (loop_rows B rowF P (fun j => 2 ^ Z.of_nat j) (Z.to_nat (cw a))) with (n := Z.to_nat (cw a)) (s := 0%nat)
      (f0 := @nil (list Z)) (x := init a) as [x1 E1]; [|lia|rewrite E1]
  end.
  { intros f0 x j Hj. unfold P. gen_proj. cbv beta iota zeta. gen_proj. cbn [cw poly init refin refout xorout].
    rewrite compute_build by (try lia; apply Z.pow_nonneg; lia).
    rewrite compute_single by (apply word_ok_0; lia).
    rewrite format_in_range by (try lia; apply unit_raw_range; lia). rewrite mapM_rev_digits. reflexivity. }
  cbv beta iota.
  match goal with |- context [CrcGen.py_foldM ?B (map Z.of_nat (seq 0 (Z.to_nat d))) _] =>
    destruct (loop_rows B rowG P (fun j => 0) (Z.to_nat d)) with (n := Z.to_nat d) (s := 0%nat)
      (f0 := @nil (list Z)) (x := x1) as [x2 E2]; [|lia|rewrite E2]
  end.
  { intros f0 x j Hj. unfold P. gen_proj. cbv beta iota zeta. gen_proj. cbn [cw poly init refin refout xorout].
    rewrite compute_build by lia.
    rewrite compute_single by (apply word_ok_pow2; exact Hj).
    rewrite format_in_range by (try lia; apply unit_raw_range; lia). rewrite mapM_rev_digits. reflexivity. }
  cbv beta iota. unfold matrices, zrows. cbn [fst snd app]. rewrite !map_map. reflexivity.
Qed.

(* ------------------------------------------------------------------ default arguments *)
(* Algorithm.__call__(self, data_width=8), Parameters.__init__(self, algorithm, data_width=8): the model has no
   default; the documented value is bytes *)
Lemma gen_default_data_width :
  CrcGen.Algorithm_call_default_data_width = 8 /\ CrcGen.Parameters_init_default_data_width = 8.
Proof. split; reflexivity. Qed.

(* GenEqRes.v — the functions regenerated from amaranth/build/dsl.py (Pins.map_names) and amaranth/build/res.py
   (ResourceManager.lookup, the claim loop of request.resolve, request, iter_pins, iter_port_clock_constraints) by
   translator/unit_res.py (Gen/ResGen.v) equal the hand-written model (Model/Res.v) on all inputs. *)
From Coq Require Import ZArith List Bool String Lia.
From V.Model Require Import Res.
From V.Proofs Require Import ResP.
From V.Gen Require Import ResGen.
Import ListNotations.
Open Scope Z_scope.

(* the exceptions of the source, as the translator reads them: class and message format *)
Definition E_missing : exc := Exc "NameError" "Resource {!r} refers to nonexistent connector pin {}".
Definition E_cycle : exc :=
  Exc "NameError" "Resource {!r} refers to connector pin {} that is mapped to itself through a cycle of connectors".
Definition E_nosuch : exc := Exc "ResourceError" "Resource {}#{} does not exist".
Definition E_again : exc := Exc "ResourceError" "Resource {}#{} has already been requested".
Definition E_conflict : exc :=
  Exc "ResourceError" "Resource component {} uses physical pin {}, but it is already used by resource component {} that was requested earlier".

(* ------------------------------------------------------------------ Pins.map_names *)
Definition of_mres (r : mres) : outcome Z :=
  match r with MOk p => Ret p | MMissing => Raise E_missing | MCycle => Raise E_cycle | MLoop => Hang end.
Definition of_lres (r : lres) : outcome (list Z) :=
  match r with LOk l => Ret l | LMissing => Raise E_missing | LCycle => Raise E_cycle | LLoop => Hang end.
(* the generated loop also returns the final `seen` set, which nothing reads *)
Definition drop_seen (o : outcome (list ckey * Z)) : outcome Z :=
  match o with Ret (_, p) => Ret p | Raise e => Raise e | Hang => Hang end.

(* the `while ":" in name` loop = resolve_seen, for every fuel, table, seen set and name *)
Lemma gen_while_eq : forall fuel cm seen n,
  drop_seen (ResGen.Pins_map_names_for_name_while_name fuel cm seen n) = of_mres (resolve_seen fuel cm seen n).
Proof.
  induction fuel as [|f IH]; intros cm seen n; destruct n as [p|c k]; try reflexivity.
  cbn [ResGen.Pins_map_names_for_name_while_name resolve_seen]. unfold cm_contains.
  destruct (cm_lookup cm (c, k)) as [n'|]; cbn [is_some negb]; [|reflexivity].
  destruct (ckey_mem (c, k) seen); [reflexivity|]. apply IH.
Qed.

Lemma gen_for_eq : forall fuel cm ns acc,
  ResGen.Pins_map_names_for_name fuel cm acc ns =
  match map_names fuel cm ns with
  | LOk l => Ret (acc ++ l) | LMissing => Raise E_missing | LCycle => Raise E_cycle | LLoop => Hang
  end.
Proof.
  intros fuel cm. induction ns as [|n r IH]; intros acc.
  - cbn. rewrite app_nil_r. reflexivity.
  - cbn [ResGen.Pins_map_names_for_name map_names]. unfold resolve_name.
    pose proof (gen_while_eq fuel cm [] n) as H.
    destruct (ResGen.Pins_map_names_for_name_while_name fuel cm [] n) as [[s p]|e|];
      destruct (resolve_seen fuel cm [] n); cbn in H; try discriminate H; try reflexivity.
    + inversion H; subst. rewrite IH. destruct (map_names fuel cm r); try reflexivity.
      rewrite <- app_assoc. reflexivity.
    + inversion H; reflexivity.
    + inversion H; reflexivity.
Qed.

Lemma gen_map_names_eq fuel ns cm :
  ResGen.Pins_map_names fuel ns cm = of_lres (map_names fuel cm ns).
Proof.
  unfold ResGen.Pins_map_names. rewrite gen_for_eq. destruct (map_names fuel cm ns); reflexivity.
Qed.

(* ------------------------------------------------------------------ ResourceManager.lookup *)
Lemma tbl_find_spec : forall t k,
  match tbl_find t k with
  | Some (num, n) => tbl_lookup t k = Some n /\ k = (node_name n, num)
  | None => tbl_lookup t k = None
  end.
Proof.
  induction t as [|[num n] r IH]; intros k; cbn [tbl_find tbl_lookup]; [reflexivity|].
  destruct (key_eqb (node_name n, num) k) eqn:E; [|apply IH].
  apply key_eqb_eq in E. split; auto.
Qed.

Lemma gen_lookup_eq t name number :
  ResGen.ResourceManager_lookup t name number =
  match tbl_lookup t (name, number) with Some n => Ret (number, n) | None => Raise E_nosuch end.
Proof.
  unfold ResGen.ResourceManager_lookup, tbl_contains.
  pose proof (tbl_find_spec t (name, number)) as H.
  destruct (tbl_find t (name, number)) as [[num n]|]; cbn [is_some negb].
  - destruct H as [H1 H2]. rewrite H1. inversion H2; subst. reflexivity.
  - rewrite H. reflexivity.
Qed.

Lemma tbl_lookup_name : forall t k n, tbl_lookup t k = Some n -> node_name n = fst k.
Proof.
  induction t as [|[num m] r IH]; intros k n; cbn [tbl_lookup]; [discriminate|].
  destruct (key_eqb (node_name m, num) k) eqn:E; [|apply IH].
  apply key_eqb_eq in E. intros H; inversion H; subst. reflexivity.
Qed.

(* ------------------------------------------------------------------ the claim loop of resolve *)
Lemma zdict_contains_zmem {V} : forall (d : list (Z * V)) k, zdict_contains d k = zmem k (map fst d).
Proof.
  unfold zdict_contains. induction d as [|[k' v] r IH]; intros k; cbn [dict_get map fst zmem]; [reflexivity|].
  rewrite (Z.eqb_sym k k'). destruct (k' =? k); [reflexivity|]. apply IH.
Qed.

Lemma dict_set_fresh {V} : forall (d : list (Z * V)) k v, zmem k (map fst d) = false -> dict_set d k v = d ++ [(k, v)].
Proof.
  induction d as [|[k' v'] r IH]; intros k v H; cbn [dict_set app]; [reflexivity|].
  cbn [map fst zmem] in H. apply orb_false_iff in H. destruct H as [H1 H2].
  rewrite Z.eqb_sym, H1. rewrite IH; auto.
Qed.

Lemma gen_claim_loop_eq : forall names st pth,
  ResGen.resolve_for_phys_name st pth names =
  let (ph, ok) := claim (phys_reqd st) names pth in
  (mkSt (requested st) ph (io_clocks st) (pins st), if ok then Ret tt else Raise E_conflict).
Proof.
  induction names as [|a r IH]; intros st pth; cbn [ResGen.resolve_for_phys_name claim].
  - rewrite state_eta. reflexivity.
  - rewrite zdict_contains_zmem. destruct (zmem a (map fst (phys_reqd st))) eqn:E.
    + rewrite state_eta. reflexivity.
    + rewrite IH. unfold set_phys_reqd. cbn [phys_reqd requested io_clocks pins].
      rewrite dict_set_fresh by exact E. reflexivity.
Qed.

Lemma gen_claim_eq st pth names :
  ResGen.resolve_claim st pth names =
  let (ph, ok) := claim (phys_reqd st) names pth in
  (mkSt (requested st) ph (io_clocks st) (pins st), if ok then Ret tt else Raise E_conflict).
Proof.
  unfold ResGen.resolve_claim. rewrite gen_claim_loop_eq.
  destruct (claim (phys_reqd st) names pth) as [ph [|]]; reflexivity.
Qed.

(* ------------------------------------------------------------------ ResourceManager.request *)
(* the two nested functions of request, which the generated request takes as parameters, instantiated with the
   model's merge_options / resolve; EHang (fuel exhausted) is non-termination, every other err an exception *)
Definition exc_of (e : err) : exc :=
  match e with
  | EResource RNoSuch => E_nosuch | EResource RAgain => E_again | EResource RConflict => E_conflict
  | EType => Exc "TypeError" "" | EValue => Exc "ValueError" "" | EName => Exc "NameError" "" | EHang => Exc "" ""
  end.
Definition out_err {T} (e : err) : outcome T := match e with EHang => Hang | _ => Raise (exc_of e) end.
Definition model_merge (r : Z * node) (d : dval) (x : xval) : outcome (dval * xval) :=
  match merge_options (snd r) d x with inl e => out_err e | inr p => Ret p end.
Definition model_resolve (cm : connmap) (r : Z * node) (d : dval) (x : xval) (p : path) (a : alist) (st : state)
  : state * outcome value :=
  match resolve (cm_fuel cm) cm (snd r) d x p a st with
  | (st', inl e) => (st', out_err e)
  | (st', inr v) => (st', Ret v)
  end.

Lemma resolve_requested fuel cm n d x pth attrs st st' r :
  resolve fuel cm n d x pth attrs st = (st', r) -> requested st' = requested st.
Proof.
  intros E. pose proof (resolve_flat fuel cm n d x pth attrs st) as RF. rewrite E in RF.
  destruct r as [e|v]; apply run_jobs_spec in RF; destruct RF as ((R & _) & _); exact R.
Qed.

(* The generated request (lookup, "already requested" test, snapshot, try/except restore, _requested update) equals
   the model's request on every table, connector table, state and request.  When the model reports EHang the generated
   function does not return (Hang) — no state to compare; EHang is unreachable with fuel cm_fuel
   (ResP.resolve_terminates). *)
Lemma gen_request_eq t cm st q :
  let g := ResGen.ResourceManager_request model_merge (model_resolve cm) t st (q_name q) (q_num q) (q_dir q) (q_xdr q) in
  match request t cm st q with
  | (st', Ok v) => g = (st', Ret v)
  | (st', Error EHang) => snd g = Hang
  | (st', Error e) => g = (st', Raise (exc_of e))
  end.
Proof.
  destruct q as [nm num d x]. unfold request, ResGen.ResourceManager_request, q_key.
  cbn [q_name q_num q_dir q_xdr]. cbv zeta. rewrite gen_lookup_eq.
  destruct (tbl_lookup t (nm, num)) as [res|] eqn:EL; [|reflexivity].
  apply tbl_lookup_name in EL. cbn [fst snd] in *. rewrite EL.
  destruct (key_mem (nm, num) (requested st)) eqn:EK; [reflexivity|].
  unfold model_merge. cbn [snd].
  destruct (merge_options res d x) as [e|[d' x']].
  - destruct e as [[| |]| | | |]; cbn [out_err]; cbv beta iota;
      first [reflexivity
            |unfold set_pins, set_io_clocks, set_phys_reqd; cbn [requested phys_reqd io_clocks pins];
             rewrite firstn_all, state_eta; reflexivity].
  - unfold model_resolve. cbn [snd]. unfold key.
    destruct (resolve (cm_fuel cm) cm res d' x' (nm, num, []) (node_attrs res) st) as [st' [e|v]] eqn:E.
    + destruct e as [[| |]| | | |]; cbn [out_err]; cbv beta iota; reflexivity.
    + apply resolve_requested in E. cbv beta iota. unfold set_requested, odict_add. rewrite E, EK. reflexivity.
Qed.

(* ------------------------------------------------------------------ iter_pins / iter_port_clock_constraints *)
Lemma gen_iter_pins_eq st : ResGen.ResourceManager_iter_pins st = pins st.
Proof. reflexivity. Qed.
Lemma gen_iter_port_clock_constraints_eq st : ResGen.ResourceManager_iter_port_clock_constraints st = clock_constraints st.
Proof. reflexivity. Qed.
